//! C20: JSON-dict representation of every type with `ToJsonDict` / `FromJsonDict` (py-bindings), driven by
//! the JSON-view descriptors that the translator extracts from the source (`gen_types.rs`).
//!
//! * values are produced as BYTES by a descriptor-driven generator (same idea as `harness/src/streamable.rs`:
//!   an encoder independent of the crates' `stream`), parsed by the real `from_bytes`;
//! * `rt`: real `to_json_dict` (embedded Python), `json.dumps`, `json.loads`, real `from_json_dict`, `==`,
//!   `to_bytes`, `hash`; the property predicate is evaluated on these results (`prop=`);
//! * `bad`: every single-point corruption of the JSON of a value (computed here on a copy of the JSON tree, by
//!   the JSON shape of the descriptor), rendered as text, parsed by `json.loads`, fed to the real
//!   `from_json_dict`;
//! * `Walk` / `json_oracle` put the answers of external code (blst point checks, chia_pos2 quality string) on the
//!   case line (`o=...`); they never decide a verdict.
use crate::out::{hx, unhx, Out};
use crate::prng::Rng;
use chia_traits::{FromJsonDict, Streamable, ToJsonDict};
use pyo3::prelude::*;
use pyo3::types::{PyBool, PyDict, PyFloat, PyInt, PyList, PyString};
use std::panic::{catch_unwind, AssertUnwindSafe};

/// runtime descriptor (mirror of `ChiaModel.Streamable.Ty`, JSON view: `Struct` carries the dict keys)
#[derive(Clone, Debug)]
pub enum Ty {
    U(usize), I(usize), Bool, Unit, Bytes, BytesN(usize), Str,
    Option(Box<Ty>), Vec(Box<Ty>), Tuple(Vec<Ty>), Array(usize, Box<Ty>),
    Struct(&'static str, Vec<&'static str>, Vec<Ty>), Enum(Vec<u8>), Program, G1, G2, Gt, Sk,
    OptPair(Box<Ty>, Box<Ty>), GenTail(bool), Pos,
}

impl Ty {
    fn min_wire(&self) -> usize {
        match self {
            Ty::U(n) | Ty::I(n) | Ty::BytesN(n) => *n,
            Ty::Bool | Ty::Enum(_) | Ty::Option(_) | Ty::Program | Ty::OptPair(..) | Ty::GenTail(_) => 1,
            Ty::Unit => 0, Ty::Bytes | Ty::Str | Ty::Vec(_) => 4,
            Ty::Tuple(ts) | Ty::Struct(_, _, ts) => ts.iter().map(Ty::min_wire).sum(),
            Ty::Array(n, t) => n * t.min_wire(),
            Ty::G1 => 48, Ty::G2 => 96, Ty::Gt => 576, Ty::Sk => 32, Ty::Pos => 87,
        }
    }
}

// ------------------------------------------------------------------------------------------------
// pools of externally produced elements
pub struct Pools {
    g1: Vec<Vec<u8>>,
    g2: Vec<Vec<u8>>,
    programs: Vec<Vec<u8>>,
    ids: Vec<[u8; 32]>,
    /// wire encodings of version-2 proofs of space with a quality string (from /repo's test vectors)
    pos2: Vec<Vec<u8>>,
}

fn rand_tree(a: &mut clvmr::Allocator, r: &mut Rng, depth: u32) -> clvmr::NodePtr {
    if depth == 0 || r.chance(2, 5) {
        let len = *r.pick(&[0usize, 1, 1, 2, 3, 8, 32, 32, 48, 63, 64, 65, 200]);
        let mut v = r.bytes(len);
        if len == 1 && r.chance(1, 2) { v[0] = *r.pick(&[0u8, 1, 0x7f, 0x80, 0xff]); }
        a.new_atom(&v).unwrap()
    } else {
        let l = rand_tree(a, r, depth - 1);
        let rr = if r.chance(1, 4) { l } else { rand_tree(a, r, depth - 1) };
        a.new_pair(l, rr).unwrap()
    }
}

impl Pools {
    pub fn new(seed: u64) -> Self {
        let mut r = Rng::new(seed ^ 0x5eed);
        let mut g1 = vec![chia_bls::G1Element::default().to_bytes().to_vec()];
        let mut g2 = vec![chia_bls::G2Element::default().to_bytes().to_vec()];
        for i in 0..7u8 {
            let sk = chia_bls::SecretKey::from_seed(&[i + 1; 32]);
            g1.push(sk.public_key().to_bytes().to_vec());
            g2.push(chia_bls::sign(&sk, [i, 7, 7]).to_bytes().to_vec());
        }
        let mut programs: Vec<Vec<u8>> = vec![vec![0x80], vec![0x01], vec![0xff, 0x01, 0x80], vec![0xff, 0x80, 0x80]];
        for i in 0..40 {
            let mut a = clvmr::Allocator::new();
            let t = rand_tree(&mut a, &mut r, 1 + i % 6);
            programs.push(clvmr::serde::node_to_bytes(&a, t).unwrap());
            if i % 2 == 0 { programs.push(clvmr::serde::node_to_bytes_backrefs(&a, t).unwrap()); }
        }
        let ids: Vec<[u8; 32]> = (0..6u8).map(|i| { let mut x = [i.wrapping_mul(37); 32]; x[0] = i; x[31] = 0xff - i; x }).collect();
        let mut pos2 = vec![];
        let repo = std::env::var("VERIF_REPO").unwrap_or("/repo".into());
        let plot_pk = hex::decode("a9c96f979d895b9ded08907ecd775abf889d51219bb7776dd73fdbac6b0dcc063c72c9e10d96776f486bbd1416b54533").unwrap();
        if let Ok(rd) = std::fs::read_dir(format!("{repo}/crates/chia-protocol/quality-string-tests")) {
            let mut files: Vec<_> = rd.filter_map(|e| e.ok()).map(|e| e.path()).collect();
            files.sort();
            for p in files {
                let Ok(txt) = std::fs::read_to_string(&p) else { continue };
                let l: Vec<&str> = txt.lines().map(|x| x.split('#').next().unwrap().trim()).filter(|s| !s.is_empty()).collect();
                if l.len() != 7 { continue; }
                let (Ok(ch), Ok(strength), Ok(pi), Ok(mg), Ok(pool), Ok(proof)) =
                    (hex::decode(l[0]), l[1].parse::<u8>(), l[2].parse::<u16>(), l[3].parse::<u8>(), hex::decode(l[4]), hex::decode(l[5])) else { continue };
                let mut w = ch.clone();
                if pool.len() == 48 { w.push(1); w.extend(&pool); w.push(2); } else { w.push(0); w.push(3); w.extend(&pool); }
                w.extend(&plot_pk);
                w.extend(pi.to_be_bytes()); w.push(mg); w.push(strength);
                w.extend((proof.len() as u32).to_be_bytes()); w.extend(&proof);
                // keep only the ones that really have a quality string (hash() is defined)
                let ok = catch_unwind(|| chia_protocol::ProofOfSpace::from_bytes(&w).ok().and_then(|p| p.quality_string()).is_some()).unwrap_or(false);
                if ok { pos2.push(w); }
            }
        }
        Pools { g1, g2, programs, ids, pos2 }
    }
}

// ------------------------------------------------------------------------------------------------
// descriptor-driven generator of valid encodings (independent encoder)
fn gen_uint(n: usize, r: &mut Rng, out: &mut Vec<u8>) {
    match r.below(7) {
        0 => out.extend(std::iter::repeat(0).take(n)),                       // 0 / signed 0
        1 => out.extend(std::iter::repeat(0xff).take(n)),                    // unsigned max / signed -1
        2 => { out.extend(std::iter::repeat(0).take(n - 1)); out.push(r.below(4) as u8); }
        3 => { out.push(0x7f); out.extend(std::iter::repeat(0xff).take(n - 1)); }   // signed max
        4 => { out.push(0x80); out.extend(std::iter::repeat(0).take(n - 1)); }      // signed min
        _ => out.extend(r.bytes(n)),
    }
}
fn gen_str(r: &mut Rng) -> String {
    let pool = ['a', 'Z', '0', ' ', '"', '\\', '/', '\n', '\t', '\u{8}', '\u{c}', '\r', '\u{1}', '\u{1f}', '\u{7f}', '\u{80}', '\u{e5}', '\u{7ff}',
                '\u{800}', '\u{20ac}', '\u{d7ff}', '\u{e000}', '\u{ffff}', '\u{10000}', '\u{1f600}', '\u{10ffff}', '\0', 'x', '~', '#'];
    let n = *r.pick(&[0usize, 0, 1, 2, 3, 5, 12]);
    (0..n).map(|_| *r.pick(&pool)).collect()
}
fn gen_bytes_field(r: &mut Rng, out: &mut Vec<u8>) {
    let n = *r.pick(&[0usize, 0, 1, 2, 7, 32, 33, 100]);
    out.extend((n as u32).to_be_bytes());
    out.extend(r.bytes(n));
}

pub fn gen(ty: &Ty, r: &mut Rng, p: &Pools, depth: u32, out: &mut Vec<u8>) {
    match ty {
        Ty::U(n) | Ty::I(n) => gen_uint(*n, r, out),
        Ty::Bool => out.push(r.below(2) as u8),
        Ty::Unit => {}
        Ty::Bytes => gen_bytes_field(r, out),
        Ty::BytesN(n) => { if *n == 32 && r.chance(2, 3) { out.extend(r.pick(&p.ids)); } else { out.extend(r.bytes(*n)); } }
        Ty::Str => { let s = gen_str(r); out.extend((s.len() as u32).to_be_bytes()); out.extend(s.as_bytes()); }
        Ty::Option(t) => { if r.chance(1, 2) { out.push(1); gen(t, r, p, depth + 1, out); } else { out.push(0); } }
        Ty::Vec(t) => {
            let big = t.min_wire() <= 8 && r.chance(1, 10);
            let n = if big { r.range(4, 20) } else if depth > 2 { r.below(2) } else { *r.pick(&[0u64, 0, 1, 1, 2, 3]) };
            out.extend((n as u32).to_be_bytes());
            for _ in 0..n { gen(t, r, p, depth + 1, out); }
        }
        Ty::Tuple(ts) | Ty::Struct(_, _, ts) => { for t in ts { gen(t, r, p, depth + 1, out); } }
        Ty::Array(n, t) => { for _ in 0..*n { gen(t, r, p, depth + 1, out); } }
        Ty::Enum(vals) => out.push(*r.pick(vals)),
        Ty::Program => out.extend(r.pick(&p.programs)),
        Ty::G1 => out.extend(r.pick(&p.g1)),
        Ty::G2 => out.extend(r.pick(&p.g2)),
        Ty::Gt => out.extend(r.bytes(576)),
        Ty::Sk => { let mut b = r.bytes(32); b[0] &= 0x3f; if r.chance(1, 10) { b = vec![0; 32]; } out.extend(b); }
        Ty::OptPair(a, b) => {
            let k = r.below(4) as u8;
            out.push(k);
            if k & 1 != 0 { gen(a, r, p, depth + 1, out); }
            if k & 2 != 0 { gen(b, r, p, depth + 1, out); }
        }
        Ty::GenTail(_) => {
            let k = r.below(4) as u8;
            out.push(k);
            match k {
                0 | 1 => {
                    if k == 1 { out.extend(r.pick(&p.programs)); }
                    let n = r.below(3);
                    out.extend((n as u32).to_be_bytes());
                    for _ in 0..n { gen_uint(4, r, out); }
                }
                2 => {}
                _ => gen_bytes_field(r, out),
            }
        }
        Ty::Pos => {
            let k = r.below(10);
            if k < 3 && !p.pos2.is_empty() {
                out.extend(r.pick(&p.pos2));       // version 2 with a quality string
            } else {
                // version 1: any combination of pool key / contract hash is accepted
                out.extend(r.pick(&p.ids));
                if r.chance(1, 2) { out.push(1); out.extend(r.pick(&p.g1)); } else { out.push(0); }
                if r.chance(1, 2) { out.push(1); out.extend(r.pick(&p.ids)); } else { out.push(0); }
                out.extend(r.pick(&p.g1));
                gen_uint(1, r, out);
                gen_bytes_field(r, out);
            }
        }
    }
}

// ------------------------------------------------------------------------------------------------
/// descriptor-driven scan of a wire encoding: collects the questions the real decoder asks external code
pub struct Walk<'a> {
    b: &'a [u8],
    pos: usize,
    g1: Vec<(Vec<u8>, u8)>,
    g2: Vec<(Vec<u8>, u8)>,
    pos_spans: Vec<(usize, usize, bool)>,
}

fn g1_status(c: &[u8]) -> u8 {
    let a: &[u8; 48] = c.try_into().unwrap();
    if chia_bls::G1Element::from_bytes(a).is_ok() { 2 } else if chia_bls::G1Element::from_bytes_unchecked(a).is_ok() { 1 } else { 0 }
}
fn g2_status(c: &[u8]) -> u8 {
    let a: &[u8; 96] = c.try_into().unwrap();
    if chia_bls::G2Element::from_bytes(a).is_ok() { 2 } else if chia_bls::G2Element::from_bytes_unchecked(a).is_ok() { 1 } else { 0 }
}

impl<'a> Walk<'a> {
    pub fn new(b: &'a [u8]) -> Self { Walk { b, pos: 0, g1: vec![], g2: vec![], pos_spans: vec![] } }
    fn take(&mut self, n: usize) -> Result<&'a [u8], ()> {
        if self.b.len() - self.pos < n { return Err(()); }
        let s = &self.b[self.pos..self.pos + n];
        self.pos += n;
        Ok(s)
    }
    fn byte(&mut self) -> Result<u8, ()> { Ok(self.take(1)?[0]) }
    fn u32len(&mut self) -> Result<usize, ()> { let s = self.take(4)?; Ok(u32::from_be_bytes(s.try_into().unwrap()) as usize) }
    fn g1(&mut self) -> Result<(), ()> {
        let c = self.take(48)?;
        let st = g1_status(c);
        if !self.g1.iter().any(|e| e.0 == c) { self.g1.push((c.to_vec(), st)); }
        if st == 0 { Err(()) } else { Ok(()) }
    }
    fn program(&mut self) -> Result<(), ()> {
        let rest = &self.b[self.pos..];
        let len = clvmr::serde::serialized_length_from_bytes_trusted(rest).map_err(|_| ())? as usize;
        if rest.len() < len { return Err(()); }
        self.pos += len;
        Ok(())
    }
    pub fn walk(&mut self, ty: &Ty) -> Result<(), ()> {
        match ty {
            Ty::U(n) | Ty::I(n) | Ty::BytesN(n) => { self.take(*n)?; }
            Ty::Bool => { if self.byte()? > 1 { return Err(()); } }
            Ty::Unit => {}
            Ty::Bytes => { let n = self.u32len()?; self.take(n)?; }
            Ty::Str => { let n = self.u32len()?; let s = self.take(n)?; std::str::from_utf8(s).map_err(|_| ())?; }
            Ty::Option(t) => { match self.byte()? { 0 => {}, 1 => self.walk(t)?, _ => return Err(()) } }
            Ty::Vec(t) => { let n = self.u32len()?; for _ in 0..n { self.walk(t)?; if t.min_wire() == 0 { break; } } }
            Ty::Tuple(ts) | Ty::Struct(_, _, ts) => { for t in ts { self.walk(t)?; } }
            Ty::Array(n, t) => { for _ in 0..*n { self.walk(t)?; } }
            Ty::Enum(vals) => { let x = self.byte()?; if !vals.contains(&x) { return Err(()); } }
            Ty::Program => self.program()?,
            Ty::G1 => self.g1()?,
            Ty::G2 => {
                let c = self.take(96)?;
                let st = g2_status(c);
                if !self.g2.iter().any(|e| e.0 == c) { self.g2.push((c.to_vec(), st)); }
                if st == 0 { return Err(()); }
            }
            Ty::Gt => { self.take(576)?; }
            Ty::Sk => { self.take(32)?; }
            Ty::OptPair(a, b) => {
                let k = self.byte()?;
                if k > 3 { return Err(()); }
                if k & 1 != 0 { self.walk(a)?; }
                if k & 2 != 0 { self.walk(b)?; }
            }
            Ty::GenTail(_) => {
                let k = self.byte()?;
                match k >> 1 {
                    0 => { if k & 1 != 0 { self.program()?; } let n = self.u32len()?; self.take(n.checked_mul(4).ok_or(())?)?; }
                    1 => { if k & 1 != 0 { let n = self.u32len()?; self.take(n)?; } }
                    _ => return Err(()),
                }
            }
            Ty::Pos => {
                let start = self.pos;
                self.take(32)?;
                let pp = self.byte()?;
                match pp { 0 => {}, 1 => self.g1()?, _ => return Err(()) }
                let k = self.byte()?;
                if k & 1 != 0 { self.take(32)?; }
                self.g1()?;
                match k >> 1 {
                    0 => { self.take(1)?; let n = self.u32len()?; self.take(n)?; }
                    1 => { self.take(4)?; let n = self.u32len()?; self.take(n)?; if (pp == 1) == (k & 1 != 0) { return Err(()); } }
                    _ => return Err(()),
                }
                self.pos_spans.push((start, self.pos, k >> 1 == 1));
            }
        }
        Ok(())
    }
    /// oracle entries, and whether the input contains a version-2 proof of space without a quality string
    pub fn oracle(&self) -> (Vec<String>, bool) {
        let mut e: Vec<String> = vec![];
        for (c, s) in &self.g1 { e.push(format!("a{}:{}", hex::encode(c), s)); }
        for (c, s) in &self.g2 { e.push(format!("b{}:{}", hex::encode(c), s)); }
        let mut bad = false;
        let mut seen: Vec<&[u8]> = vec![];
        for (a, b, v2) in &self.pos_spans {
            if !*v2 { continue; }
            let span = &self.b[*a..*b];
            if seen.contains(&span) { continue; }
            seen.push(span);
            let q = catch_unwind(|| chia_protocol::ProofOfSpace::from_bytes_unchecked(span).ok().and_then(|p| p.quality_string()));
            match q {
                Ok(Some(q)) => e.push(format!("q{}:{}", hex::encode(span), hex::encode(q))),
                _ => { bad = true; e.push(format!("q{}:none", hex::encode(span))); }
            }
        }
        (e, bad)
    }
}
fn oracle_suffix(e: &[String]) -> String { if e.is_empty() { String::new() } else { format!(" o={}", e.join(",")) } }

// ------------------------------------------------------------------------------------------------
/// JSON tree (a copy of what Python holds); integers as decimal text (any size)
#[derive(Clone, Debug, PartialEq)]
pub enum Jv { Null, Bool(bool), Int(String), Float(String), Str(String), List(Vec<Jv>), Dict(Vec<(String, Jv)>) }

fn jv_of(o: &Bound<'_, PyAny>) -> Jv {
    if o.is_none() { Jv::Null }
    else if let Ok(b) = o.cast::<PyBool>() { Jv::Bool(b.is_true()) }
    else if o.is_instance_of::<PyInt>() { Jv::Int(o.str().unwrap().to_string()) }
    else if o.is_instance_of::<PyFloat>() { Jv::Float(o.repr().unwrap().to_string()) }
    else if let Ok(s) = o.cast::<PyString>() { Jv::Str(s.to_string()) }
    else if let Ok(l) = o.cast::<PyList>() { Jv::List(l.iter().map(|x| jv_of(&x)).collect()) }
    else if let Ok(d) = o.cast::<PyDict>() { Jv::Dict(d.iter().map(|(k, v)| (k.extract::<String>().unwrap(), jv_of(&v))).collect()) }
    else { panic!("unexpected Python object in a JSON dict: {:?}", o) }
}

fn esc_str(s: &str, out: &mut String) {
    out.push('"');
    for c in s.chars() {
        match c {
            '"' => out.push_str("\\\""), '\\' => out.push_str("\\\\"), '\n' => out.push_str("\\n"), '\r' => out.push_str("\\r"),
            '\t' => out.push_str("\\t"), '\u{8}' => out.push_str("\\b"), '\u{c}' => out.push_str("\\f"),
            c if (c as u32) < 0x20 || (c as u32) >= 0x7f || c == ' ' => {
                let mut buf = [0u16; 2];
                for u in c.encode_utf16(&mut buf) { out.push_str(&format!("\\u{:04x}", u)); }
            }
            c => out.push(c),
        }
    }
    out.push('"');
}
/// space-free line form: sorted keys, `,` / `:` separators, non-ASCII and the space escaped
pub fn render(j: &Jv, out: &mut String) {
    match j {
        Jv::Null => out.push_str("null"),
        Jv::Bool(b) => out.push_str(if *b { "true" } else { "false" }),
        Jv::Int(s) | Jv::Float(s) => out.push_str(s),
        Jv::Str(s) => esc_str(s, out),
        Jv::List(l) => { out.push('['); for (i, x) in l.iter().enumerate() { if i > 0 { out.push(','); } render(x, out); } out.push(']'); }
        Jv::Dict(d) => {
            let mut ix: Vec<usize> = (0..d.len()).collect();
            ix.sort_by(|a, b| d[*a].0.chars().cmp(d[*b].0.chars()));
            out.push('{');
            for (n, i) in ix.iter().enumerate() { if n > 0 { out.push(','); } esc_str(&d[*i].0, out); out.push(':'); render(&d[*i].1, out); }
            out.push('}');
        }
    }
}

// ------------------------------------------------------------------------------------------------
/// the JSON shape of a descriptor (field groups flattened into the enclosing dict)
#[derive(Clone, Debug)]
enum JT {
    Int { bits: u32, signed: bool }, Bool, Str,
    /// hex string: Some(n) = exactly n bytes; `bls`: prefix optional, int list accepted; `var`: "" for empty
    Hex { n: Option<usize>, bls: bool },
    Opt(Box<JT>), List(Box<JT>), Fixed(Vec<JT>), Dict(Vec<(String, JT)>), Enum(Vec<u8>), None,
}
fn json_shape(t: &Ty) -> JT {
    match t {
        Ty::U(n) => JT::Int { bits: 8 * *n as u32, signed: false },
        Ty::I(n) => JT::Int { bits: 8 * *n as u32, signed: true },
        Ty::Bool => JT::Bool, Ty::Str => JT::Str, Ty::Unit => JT::None,
        Ty::Bytes | Ty::Program => JT::Hex { n: None, bls: false },
        Ty::BytesN(n) => JT::Hex { n: Some(*n), bls: false },
        Ty::G1 => JT::Hex { n: Some(48), bls: true }, Ty::G2 => JT::Hex { n: Some(96), bls: true },
        Ty::Gt => JT::Hex { n: Some(576), bls: true }, Ty::Sk => JT::Hex { n: Some(32), bls: true },
        Ty::Option(t) => JT::Opt(Box::new(json_shape(t))),
        Ty::Vec(t) => JT::List(Box::new(json_shape(t))),
        Ty::Tuple(ts) => JT::Fixed(ts.iter().map(json_shape).collect()),
        Ty::Array(n, t) => JT::Fixed((0..*n).map(|_| json_shape(t)).collect()),
        Ty::Enum(v) => JT::Enum(v.clone()),
        Ty::Struct(_, keys, ts) => {
            if keys.is_empty() && ts.len() == 1 { return json_shape(&ts[0]); }
            let mut out = vec![];
            let mut k = keys.iter();
            for t in ts {
                match t {
                    Ty::OptPair(a, b) => {
                        out.push((k.next().unwrap().to_string(), JT::Opt(Box::new(json_shape(a)))));
                        out.push((k.next().unwrap().to_string(), JT::Opt(Box::new(json_shape(b)))));
                    }
                    Ty::GenTail(_) => {
                        out.push((k.next().unwrap().to_string(), JT::Opt(Box::new(JT::Hex { n: None, bls: false }))));
                        out.push((k.next().unwrap().to_string(), JT::List(Box::new(JT::Int { bits: 32, signed: false }))));
                        out.push((k.next().unwrap().to_string(), JT::Opt(Box::new(JT::List(Box::new(JT::Int { bits: 8, signed: false }))))));
                        out.push((k.next().unwrap().to_string(), JT::Int { bits: 8, signed: false }));
                    }
                    t => out.push((k.next().unwrap().to_string(), json_shape(t))),
                }
            }
            assert!(k.next().is_none(), "keys left over");
            JT::Dict(out)
        }
        Ty::Pos => JT::Dict(vec![
            ("challenge".into(), JT::Hex { n: Some(32), bls: false }),
            ("pool_public_key".into(), JT::Opt(Box::new(JT::Hex { n: Some(48), bls: true }))),
            ("pool_contract_puzzle_hash".into(), JT::Opt(Box::new(JT::Hex { n: Some(32), bls: false }))),
            ("plot_public_key".into(), JT::Hex { n: Some(48), bls: true }),
            ("version".into(), JT::Int { bits: 8, signed: false }), ("plot_index".into(), JT::Int { bits: 16, signed: false }),
            ("meta_group".into(), JT::Int { bits: 8, signed: false }), ("strength".into(), JT::Int { bits: 8, signed: false }),
            ("size".into(), JT::Int { bits: 8, signed: false }), ("proof".into(), JT::Hex { n: None, bls: false }),
        ]),
        Ty::OptPair(..) | Ty::GenTail(_) => JT::None,
    }
}

/// decimal text of 2^bits + delta (bits <= 128, |delta| small)
fn pow2_plus(bits: u32, delta: i64, neg: bool) -> String {
    // value = (neg ? -1 : 1) * 2^bits + delta, computed on decimal digits
    let mut d: Vec<u8> = vec![1];
    for _ in 0..bits { let mut c = 0; for x in d.iter_mut() { let v = *x * 2 + c; *x = v % 10; c = v / 10; } if c > 0 { d.push(c); } }
    // magnitude adjust: for neg, value = -(2^bits - delta) ; for pos, 2^bits + delta
    let adj = if neg { -delta } else { delta };
    let mut i = 0; let mut carry = adj;
    while carry != 0 {
        if i == d.len() { d.push(0); }
        let v = d[i] as i64 + carry;
        d[i] = v.rem_euclid(10) as u8; carry = v.div_euclid(10); i += 1;
    }
    while d.len() > 1 && *d.last().unwrap() == 0 { d.pop(); }
    let s: String = d.iter().rev().map(|x| (b'0' + x) as char).collect();
    if neg && s != "0" { format!("-{s}") } else { s }
}
fn int_bounds(bits: u32, signed: bool) -> (String, String, String, String) {
    // (min, max, min-1, max+1)
    if signed { (pow2_plus(bits - 1, 0, true), pow2_plus(bits - 1, -1, false), pow2_plus(bits - 1, -1, true), pow2_plus(bits - 1, 0, false)) }
    else { ("0".into(), pow2_plus(bits, -1, false), "-1".into(), pow2_plus(bits, 0, false)) }
}

/// every single-point corruption of `j` (of shape `t`): (kind, corrupted copy of this subtree)
fn mutations(t: &JT, j: &Jv, r: &mut Rng, out: &mut Vec<(String, Jv)>) {
    let k = |s: &str| s.to_string();
    match (t, j) {
        (JT::Int { bits, signed }, Jv::Int(s)) => {
            let (min, max, below, above) = int_bounds(*bits, *signed);
            out.push((k("int-max+1"), Jv::Int(above)));
            out.push((k(if *signed { "int-min-1" } else { "int-negative" }), Jv::Int(below)));
            out.push((k("int-at-max"), Jv::Int(max)));
            out.push((k("int-at-min"), Jv::Int(min)));
            if *signed { out.push((k("int-wrong-sign"), Jv::Int(if let Some(p) = s.strip_prefix('-') { p.to_string() } else if s == "0" { "-1".into() } else { format!("-{s}") }))); }
            out.push((k("int-float"), Jv::Float(format!("{s}.0"))));
            out.push((k("int-float-frac"), Jv::Float("1.5".into())));
            out.push((k("int-string"), Jv::Str(s.clone())));
            out.push((k("int-bool"), Jv::Bool(true)));
            out.push((k("int-null"), Jv::Null));
            out.push((k("int-list"), Jv::List(vec![Jv::Int(s.clone())])));
        }
        (JT::Bool, Jv::Bool(b)) => {
            out.push((k("bool-int"), Jv::Int(if *b { "1".into() } else { "0".into() })));
            out.push((k("bool-string"), Jv::Str(if *b { "true".into() } else { "false".into() })));
            out.push((k("bool-null"), Jv::Null));
        }
        (JT::Str, Jv::Str(_)) => {
            out.push((k("str-int"), Jv::Int("5".into())));
            out.push((k("str-null"), Jv::Null));
            out.push((k("str-list"), Jv::List(vec![])));
            out.push((k("str-bool"), Jv::Bool(false)));
        }
        (JT::Hex { n, bls }, Jv::Str(s)) => {
            let tag = if *bls { "bls" } else if n.is_some() { "fixed" } else { "var" };
            let kk = |x: &str| format!("hex-{tag}-{x}");
            let digits = s.strip_prefix("0x").unwrap_or(s).to_string();
            let pre = if s.starts_with("0x") { "0x" } else { "" };
            if digits.len() >= 2 {
                out.push((kk("minus1byte"), Jv::Str(format!("{pre}{}", &digits[..digits.len() - 2]))));
                out.push((kk("odd-minus1digit"), Jv::Str(format!("{pre}{}", &digits[..digits.len() - 1]))));
                let p = r.below(digits.len() as u64) as usize;
                let mut d: Vec<char> = digits.chars().collect();
                d[p] = 'g';
                out.push((kk("baddigit"), Jv::Str(format!("{pre}{}", d.iter().collect::<String>()))));
                let mut d2: Vec<char> = digits.chars().collect();
                d2[p] = '\u{e9}';
                out.push((kk("nonascii-digit"), Jv::Str(format!("{pre}{}", d2.iter().collect::<String>()))));
                let mut d3: Vec<char> = digits.chars().collect();
                d3[p] = ' ';
                out.push((kk("space-digit"), Jv::Str(format!("{pre}{}", d3.iter().collect::<String>()))));
                // characters that number parsers (not hex decoders) accept: a sign in the first position of a byte
                for (nm, ch) in [("plus-digit", '+'), ("minus-digit", '-')] {
                    let mut d4: Vec<char> = digits.chars().collect();
                    d4[p & !1] = ch;
                    out.push((kk(nm), Jv::Str(format!("{pre}{}", d4.iter().collect::<String>()))));
                }
                out.push((kk("noprefix"), Jv::Str(digits.clone())));
                out.push((kk("upper-digits"), Jv::Str(format!("{pre}{}", digits.to_uppercase()))));
                out.push((kk("upper-prefix"), Jv::Str(format!("0X{digits}"))));
                out.push((kk("double-prefix"), Jv::Str(format!("0x0x{digits}"))));
                let bytes = hex::decode(&digits).unwrap_or_default();
                out.push((kk("intlist"), Jv::List(bytes.iter().map(|b| Jv::Int(b.to_string())).collect())));
                if !bytes.is_empty() {
                    let mut l: Vec<Jv> = bytes.iter().map(|b| Jv::Int(b.to_string())).collect();
                    l[0] = Jv::Int("256".into());
                    out.push((kk("intlist-256"), Jv::List(l)));
                }
            }
            out.push((kk("plus1byte"), Jv::Str(format!("{pre}{digits}00"))));
            out.push((kk("odd-plus1digit"), Jv::Str(format!("{pre}{digits}0"))));
            out.push((kk("empty-string"), Jv::Str(String::new())));
            out.push((kk("only-prefix"), Jv::Str("0x".into())));
            out.push((kk("int"), Jv::Int("0".into())));
            out.push((kk("null"), Jv::Null));
        }
        (JT::Opt(inner), j) => {
            if *j != Jv::Null { mutations(inner, j, r, out); }
        }
        (JT::List(inner), Jv::List(l)) => {
            if !l.is_empty() {
                let i = r.below(l.len() as u64) as usize;
                for i in [0, i] {
                    let mut sub = vec![];
                    mutations(inner, &l[i], r, &mut sub);
                    for (kind, m) in sub { let mut c = l.clone(); c[i] = m; out.push((format!("elem/{kind}"), Jv::List(c))); }
                    if i == 0 && l.len() == 1 { break; }
                }
            }
            let mut c = l.clone(); c.push(Jv::Null);
            out.push((k("list-append-null"), Jv::List(c)));
            out.push((k("list-as-empty-string"), Jv::Str(String::new())));
            out.push((k("list-as-string"), Jv::Str("ab".into())));
            out.push((k("list-as-empty-dict"), Jv::Dict(vec![])));
            out.push((k("list-as-dict"), Jv::Dict(vec![("0".into(), Jv::Int("0".into()))])));
            out.push((k("list-as-null"), Jv::Null));
            out.push((k("list-as-int"), Jv::Int("0".into())));
        }
        (JT::Fixed(ts), Jv::List(l)) if ts.len() == l.len() => {
            for i in 0..l.len() {
                let mut sub = vec![];
                mutations(&ts[i], &l[i], r, &mut sub);
                for (kind, m) in sub { let mut c = l.clone(); c[i] = m; out.push((format!("item/{kind}"), Jv::List(c))); }
            }
            let mut c = l.clone(); c.pop();
            out.push((k("count-minus1"), Jv::List(c)));
            let mut c = l.clone(); if let Some(x) = l.last() { c.push(x.clone()); }
            out.push((k("count-plus1"), Jv::List(c)));
            out.push((k("fixed-as-string"), Jv::Str("a".repeat(l.len()))));
            out.push((k("fixed-as-dict"), Jv::Dict((0..l.len()).map(|i| (i.to_string(), l[i].clone())).collect())));
            out.push((k("fixed-as-null"), Jv::Null));
        }
        (JT::Dict(fs), Jv::Dict(d)) => {
            for (key, ft) in fs {
                let Some(i) = d.iter().position(|e| &e.0 == key) else { continue };
                let opt = matches!(ft, JT::Opt(_));
                let mut sub = vec![];
                mutations(ft, &d[i].1, r, &mut sub);
                for (kind, m) in sub { let mut c = d.clone(); c[i].1 = m; out.push((format!("field/{kind}"), Jv::Dict(c))); }
                let mut c = d.clone(); c.remove(i);
                out.push((k(if opt { "key-missing-optional" } else { "key-missing" }), Jv::Dict(c)));
                if d[i].1 != Jv::Null {
                    let mut c = d.clone(); c[i].1 = Jv::Null;
                    out.push((k(if opt { "optional-set-null" } else { "null-for-non-optional" }), Jv::Dict(c)));
                }
            }
            let mut c = d.clone(); c.push(("zz_not_a_field".into(), Jv::Int("1".into())));
            out.push((k("extra-key"), Jv::Dict(c)));
            out.push((k("dict-as-list"), Jv::List(d.iter().map(|e| e.1.clone()).collect())));
            out.push((k("dict-as-null"), Jv::Null));
            out.push((k("dict-as-string"), Jv::Str("x".into())));
            out.push((k("dict-as-int"), Jv::Int("7".into())));
        }
        (JT::Enum(vals), Jv::Int(_)) => {
            let bad = (0u16..256).find(|x| !vals.contains(&(*x as u8))).unwrap_or(256);
            out.push((k("enum-unknown"), Jv::Int(bad.to_string())));
            out.push((k("enum-256"), Jv::Int("256".into())));
            out.push((k("enum-negative"), Jv::Int("-1".into())));
            out.push((k("enum-bool"), Jv::Bool(true)));
            out.push((k("enum-string"), Jv::Str(vals[0].to_string())));
            out.push((k("enum-null"), Jv::Null));
            out.push((k("enum-float"), Jv::Float(format!("{}.0", vals[0]))));
        }
        _ => {}
    }
}

/// oracle entries for a JSON input: every string holding hex of 48 / 96 bytes (prefix optional) and every list of
/// 48 / 96 small integers, with blst's answer
fn json_oracle(j: &Jv, e: &mut Vec<String>) {
    let mut add = |c: &[u8]| {
        let s = if c.len() == 48 { format!("a{}:{}", hex::encode(c), g1_status(c)) } else { format!("b{}:{}", hex::encode(c), g2_status(c)) };
        if !e.contains(&s) { e.push(s); }
    };
    match j {
        Jv::Str(s) => {
            let d = s.strip_prefix("0x").unwrap_or(s);
            if d.len() == 96 || d.len() == 192 { if let Ok(c) = hex::decode(d) { add(&c); } }
        }
        Jv::List(l) => {
            if l.len() == 48 || l.len() == 96 {
                let c: Vec<u8> = l.iter().filter_map(|x| match x { Jv::Int(s) => s.parse::<u8>().ok(), Jv::Bool(b) => Some(*b as u8), _ => None }).collect();
                if c.len() == l.len() { add(&c); }
            }
            for x in l { json_oracle(x, e); }
        }
        Jv::Dict(d) => for (_, x) in d { json_oracle(x, e); },
        _ => {}
    }
}

// ------------------------------------------------------------------------------------------------
// the generic per-type drivers (real code)

pub struct Py<'py> { py: Python<'py>, dumps: Bound<'py, PyAny>, loads: Bound<'py, PyAny>, kw: Bound<'py, PyDict> }
impl<'py> Py<'py> {
    pub fn new(py: Python<'py>) -> Self {
        let json = py.import("json").expect("import json");
        let kw = PyDict::new(py);
        kw.set_item("sort_keys", true).unwrap();
        kw.set_item("separators", (",", ":")).unwrap();
        Py { py, dumps: json.getattr("dumps").unwrap(), loads: json.getattr("loads").unwrap(), kw }
    }
    /// `json.dumps(o, sort_keys=True, separators=(',', ':'))` with the spaces inside strings written ` `
    fn text(&self, o: &Bound<'py, PyAny>) -> String {
        let s: String = self.dumps.call((o,), Some(&self.kw)).expect("json.dumps").extract().unwrap();
        s.replace(' ', "\\u0020")
    }
    fn parse(&self, text: &str) -> Option<Bound<'py, PyAny>> { self.loads.call1((text,)).ok() }
}

fn errname<E: std::fmt::Debug>(e: &E) -> String { format!("{e:?}").replace(' ', "_") }
fn pyerr(py: Python<'_>, e: &PyErr) -> String {
    e.get_type(py).name().map(|n| n.to_string()).unwrap_or_else(|_| "PyErr".into())
}

/// `C20 rt <Type> <hex>`
fn rt_impl<T: Streamable + ToJsonDict + FromJsonDict + PartialEq>(p: &Py<'_>, b: &[u8], sample: bool) -> (String, Option<Jv>) {
    let v = match catch_unwind(|| T::from_bytes(b)) {
        Err(_) => return ("PANIC@parse".into(), None),
        Ok(Err(e)) => return (format!("err ~{}", errname(&e)), None),
        Ok(Ok(v)) => v,
    };
    let obj = match catch_unwind(AssertUnwindSafe(|| <T as ToJsonDict>::to_json_dict(&v, p.py))) {
        Err(_) => return ("PANIC@to_json_dict".into(), None),
        Ok(Err(e)) => return (format!("TOJSON-ERR:{}", pyerr(p.py, &e)), None),
        Ok(Ok(o)) => o,
    };
    let obj = obj.bind(p.py);
    let text = p.text(obj);
    let jv = jv_of(obj);
    // the way back goes through the TEXT (a real JSON trip), not through the Python object
    let Some(parsed) = p.parse(&text) else { return (format!("ok {text} JSON-LOADS-FAILED"), Some(jv)); };
    let v2 = match catch_unwind(AssertUnwindSafe(|| <T as FromJsonDict>::from_json_dict(&parsed))) {
        Err(_) => return (format!("ok {text} PANIC@from_json_dict"), Some(jv)),
        Ok(Err(e)) => return (format!("ok {text} FROMJSON-ERR:{}", pyerr(p.py, &e)), Some(jv)),
        Ok(Ok(v2)) => v2,
    };
    let same = v2 == v;
    let enc = match catch_unwind(AssertUnwindSafe(|| v2.to_bytes())) { Ok(Ok(x)) => Some(x), _ => None };
    let h2 = catch_unwind(AssertUnwindSafe(|| Streamable::hash(&v2))).ok();
    let h1 = catch_unwind(AssertUnwindSafe(|| Streamable::hash(&v))).ok();
    let prop = if sample { "n/a".to_string() }
        else if !same { "VIOLATED:value-differs".into() }
        else if enc.as_deref() != Some(b) { "VIOLATED:encoding-differs".into() }
        else if h2.is_none() || h1 != h2 { "VIOLATED:hash-differs".into() }
        else { "ok".into() };
    (format!("ok {text} {} {} {} prop={prop}", if same { "same" } else { "differs" },
        enc.map(|x| hx(&x)).unwrap_or("ENC-ERR".into()), h2.map(hex::encode).unwrap_or("PANIC".into())), Some(jv))
}

/// `C20 bad <Type> <kind> <json text>`
fn bad_impl<T: Streamable + ToJsonDict + FromJsonDict + PartialEq>(p: &Py<'_>, text: &str) -> String {
    let Some(o) = p.parse(text) else { return "bad-json".into(); };
    match catch_unwind(AssertUnwindSafe(|| <T as FromJsonDict>::from_json_dict(&o))) {
        Err(_) => "PANIC@from_json_dict".into(),
        Ok(Err(e)) => format!("err ~{}", pyerr(p.py, &e)),
        Ok(Ok(v)) => match catch_unwind(AssertUnwindSafe(|| v.to_bytes())) {
            Ok(Ok(x)) => format!("ok {}", hx(&x)),
            Ok(Err(e)) => format!("ok ENC-ERR ~{}", errname(&e)),
            Err(_) => "ok PANIC@to_bytes".into(),
        },
    }
}

type RtFn = for<'a, 'py> fn(&'a Py<'py>, &'a [u8], bool) -> (String, Option<Jv>);
type BadFn = for<'a, 'py> fn(&'a Py<'py>, &'a str) -> String;
pub struct Entry { pub name: &'static str, pub ty: Ty, pub sample: bool, rt: RtFn, bad: BadFn }

pub fn registry() -> Vec<Entry> {
    let mut v: Vec<Entry> = vec![];
    macro_rules! reg { ($name:expr, $t:ty, $d:expr, $s:expr) => {
        v.push(Entry { name: $name, ty: $d, sample: $s, rt: rt_impl::<$t>, bad: bad_impl::<$t> });
    }; }
    crate::for_each_json_type!(reg);
    v
}

fn corpus(prop: &str) -> Vec<String> {
    let dir = std::env::var("VERIF_CORPUS").unwrap_or_else(|_| {
        let exe = std::env::current_exe().unwrap();
        // <verif>/.cache/target_py/release/vharness_py -> <verif>/corpus
        exe.ancestors().nth(4).map(|p| p.join("corpus").to_string_lossy().to_string()).unwrap_or("corpus".into())
    });
    std::fs::read_to_string(format!("{dir}/{prop}.case")).map(|s| s.lines()
        .filter(|l| !l.starts_with('#') && !l.trim().is_empty()).map(|l| l.to_string()).collect()).unwrap_or_default()
}

/// one `rt` case from bytes; returns the JSON tree of the value (for the corruptions)
fn do_rt(o: &mut Out, p: &Py<'_>, e: &Entry, b: &[u8]) -> Option<Jv> {
    let mut w = Walk::new(b);
    let _ = w.walk(&e.ty);
    let (orc, _bad) = w.oracle();
    let (out, jv) = (e.rt)(p, b, e.sample);
    o.case(&format!("C20 rt {} {}{}", e.name, hx(b), oracle_suffix(&orc)), &out);
    jv
}

/// the corruption kinds that the PROPERTY names as malformed input that must be rejected: wrong byte length
/// (fixed-length strings), invalid hex digit, odd digit count, out-of-range integer, wrong element count, missing
/// value (key or null) for a non-optional field.  The other kinds (wrong Python type, prefix variants, ...) are
/// explored and compared with the model, but the property does not prescribe their verdict (`prop=n/a`).
fn must_reject(kind: &str) -> bool {
    let last = kind.rsplit('/').next().unwrap_or(kind);
    matches!(last,
        "hex-fixed-minus1byte" | "hex-fixed-plus1byte" | "hex-bls-minus1byte" | "hex-bls-plus1byte"
        | "hex-fixed-baddigit" | "hex-bls-baddigit" | "hex-var-baddigit"
        | "hex-fixed-nonascii-digit" | "hex-bls-nonascii-digit" | "hex-var-nonascii-digit"
        | "hex-fixed-space-digit" | "hex-bls-space-digit" | "hex-var-space-digit"
        | "hex-fixed-plus-digit" | "hex-bls-plus-digit" | "hex-var-plus-digit"
        | "hex-fixed-minus-digit" | "hex-bls-minus-digit" | "hex-var-minus-digit"
        | "hex-fixed-odd-minus1digit" | "hex-bls-odd-minus1digit" | "hex-var-odd-minus1digit"
        | "hex-fixed-odd-plus1digit" | "hex-bls-odd-plus1digit" | "hex-var-odd-plus1digit"
        | "hex-bls-intlist-256"
        | "int-max+1" | "int-min-1" | "int-negative" | "enum-256" | "enum-negative" | "enum-unknown"
        | "count-minus1" | "count-plus1" | "key-missing" | "null-for-non-optional")
}

fn do_bad(o: &mut Out, p: &Py<'_>, e: &Entry, kind: &str, text: &str, jv: Option<&Jv>) {
    let mut orc = vec![];
    let parsed;
    let jv = match jv { Some(j) => j, None => { parsed = p.parse(text).map(|x| jv_of(&x)).unwrap_or(Jv::Null); &parsed } };
    json_oracle(jv, &mut orc);
    let out = (e.bad)(p, text);
    // the property predicate, on the implementation's own verdict
    let prop = if !must_reject(kind) { "n/a" } else if out.starts_with("err") { "ok" } else { "VIOLATED:malformed-input-accepted" };
    let (head, note) = match out.split_once(" ~") { Some((h, n)) => (h.to_string(), format!(" ~{n}")), None => (out.clone(), String::new()) };
    o.case(&format!("C20 bad {} {} {}{}", e.name, kind, text, oracle_suffix(&orc)), &format!("{head} prop={prop}{note}"));
}

fn replay_line(o: &mut Out, p: &Py<'_>, reg: &[Entry], line: &str) {
    let t: Vec<&str> = line.split_whitespace().collect();
    if t.len() < 4 || t[0] != "C20" { o.case(line, "bad-op"); return; }
    let Some(e) = reg.iter().find(|e| e.name == t[2]) else { o.case(line, "bad-type"); return; };
    match t[1] {
        "rt" => { do_rt(o, p, e, &unhx(t[3])); }
        "bad" if t.len() >= 5 => do_bad(o, p, e, t[3], t[4], None),
        _ => o.case(line, "bad-op"),
    }
}

pub fn run(o: &mut Out, seed: u64, thorough: bool, replay: Option<Vec<String>>) {
    std::panic::set_hook(Box::new(|_| {}));
    Python::attach(|py| {
        let p = Py::new(py);
        let reg = registry();
        if let Some(lines) = replay { for l in &lines { replay_line(o, &p, &reg, l); } return; }
        for l in corpus("C20") { replay_line(o, &p, &reg, &l); }
        let pools = Pools::new(seed);
        let mut r = Rng::new(seed ^ 0xc20);
        let nvals = if thorough { 1500 } else { 110 };
        let nbad_vals = if thorough { 30 } else { 4 };
        let cap = if thorough { 4000 } else { 500 };
        let byte_budget: usize = if thorough { 3 << 20 } else { 1 << 20 };
        for e in &reg {
            let shape = json_shape(&e.ty);
            // size estimate for the value budget of the big block types
            let mut tot = 0usize;
            let mut rr = Rng::new(r.next());
            for _ in 0..8 { let mut b = vec![]; gen(&e.ty, &mut rr, &pools, 0, &mut b); tot += b.len() + 1; }
            let avg = tot / 8 + 1;
            let nv = if thorough { nvals.min(((3usize << 20) / avg).max(200)) } else { nvals };
            for i in 0..nv {
                let mut b = vec![];
                gen(&e.ty, &mut r, &pools, 0, &mut b);
                let jv = do_rt(o, &p, e, &b);
                if i >= nbad_vals { continue; }
                let Some(jv) = jv else { continue };
                let mut muts = vec![];
                mutations(&shape, &jv, &mut r, &mut muts);
                let mut one = String::new();
                render(&jv, &mut one);
                let limit = cap.min((byte_budget / nbad_vals / (one.len() + 1)).max(60));
                // keep one of every kind first, then fill up at random
                let mut seen: Vec<String> = vec![];
                let mut first: Vec<usize> = vec![];
                let mut rest: Vec<usize> = vec![];
                for (ix, (kind, _)) in muts.iter().enumerate() {
                    let last = kind.rsplit('/').next().unwrap_or(kind).to_string();
                    if seen.contains(&last) { rest.push(ix); } else { seen.push(last); first.push(ix); }
                }
                while first.len() < limit && !rest.is_empty() {
                    let k = r.below(rest.len() as u64) as usize;
                    first.push(rest.swap_remove(k));
                }
                first.truncate(limit.max(seen.len().min(4 * limit)));
                first.sort();
                for ix in first {
                    let (kind, m) = &muts[ix];
                    let mut text = String::new();
                    render(m, &mut text);
                    do_bad(o, &p, e, kind, &text, Some(m));
                }
            }
        }
    });
}
