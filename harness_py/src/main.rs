//! vharness_py: the second harness crate (C20).  Calls the real `to_json_dict` / `from_json_dict` of the
//! workspace crates (feature `py-bindings`) through an embedded Python interpreter and writes `cases.txt`
//! (inputs for the Lean model driver) and `impl.txt` (canonical observables).
//! usage: vharness_py <prop> <outdir> <seed> <quick|thorough> [replay-file]
mod out;
mod prng;
mod gen_types;
mod jsondict;

fn main() {
    let args: Vec<String> = std::env::args().collect();
    if args.len() < 5 {
        eprintln!("usage: vharness_py <prop> <outdir> <seed> <quick|thorough> [replay-file]");
        std::process::exit(2);
    }
    let prop = args[1].as_str();
    let dir = args[2].as_str();
    let seed: u64 = args[3].parse().expect("seed");
    let thorough = args[4] == "thorough";
    let replay: Option<Vec<String>> = args.get(5).map(|p| {
        std::fs::read_to_string(p).expect("replay file").lines()
            .filter(|l| !l.starts_with('#') && !l.trim().is_empty()).map(|l| l.to_string()).collect()
    });
    let mut o = out::Out::new(dir);
    match prop {
        "C20" => jsondict::run(&mut o, seed, thorough, replay),
        _ => { eprintln!("unknown property {prop}"); std::process::exit(2); }
    }
    let n = o.finish();
    eprintln!("vharness_py {prop}: {n} cases");
}
