//! splitmix64: every random choice of the harness derives from one state seeded by VERIF_SEED.
pub struct Rng(pub u64);
impl Rng {
    pub fn new(seed: u64) -> Self { Rng(seed ^ 0x9e37_79b9_7f4a_7c15) }
    pub fn next(&mut self) -> u64 {
        self.0 = self.0.wrapping_add(0x9e37_79b9_7f4a_7c15);
        let mut z = self.0;
        z = (z ^ (z >> 30)).wrapping_mul(0xbf58_476d_1ce4_e5b9);
        z = (z ^ (z >> 27)).wrapping_mul(0x94d0_49bb_1331_11eb);
        z ^ (z >> 31)
    }
    pub fn below(&mut self, n: u64) -> u64 { if n == 0 { 0 } else { self.next() % n } }
    pub fn range(&mut self, lo: u64, hi: u64) -> u64 { lo + self.below(hi - lo + 1) }
    pub fn chance(&mut self, num: u64, den: u64) -> bool { self.below(den) < num }
    pub fn pick<'a, T>(&mut self, v: &'a [T]) -> &'a T { &v[self.below(v.len() as u64) as usize] }
    pub fn bytes(&mut self, n: usize) -> Vec<u8> { (0..n).map(|_| self.next() as u8).collect() }
}
