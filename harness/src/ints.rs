//! C11: every integer encoder/decoder of the repository on the same values.
use crate::out::{hx, unhx, Out};
use crate::prng::Rng;
use chia_consensus::make_aggsig_final_message::u64_to_bytes;
use chia_consensus::sanitize_int::{sanitize_uint, SanitizedUint};
use chia_consensus::solution_generator::calculate_generator_length;
use chia_consensus::validation_error::{ErrorCode, ValidationErr};
use chia_protocol::{Bytes32, Coin, CoinSpend, Program};
use clvm_traits::{decode_number, encode_number, FromClvm, ToClvm};
use clvmr::Allocator;

const PARENT: [u8; 32] = [0x61; 32];
const PH: [u8; 32] = [0x31; 32];

fn u64_case(o: &mut Out, v: u64) {
    let a = u64_to_bytes(v);
    let id = Coin::new(Bytes32::new(PARENT), Bytes32::new(PH), v).coin_id();
    // clvm_bytes_len is private; observe it through calculate_generator_length of one spend whose
    // puzzle and solution are the 1-byte program `80`: size = 5 + 39 + 1 + len(v) + 1
    let cs = CoinSpend::new(
        Coin::new(Bytes32::new(PARENT), Bytes32::new(PH), v),
        Program::from(vec![0x80u8]),
        Program::from(vec![0x80u8]),
    );
    let total = calculate_generator_length([cs]);
    let mut al = Allocator::new();
    let n = al.new_number(v.into()).unwrap();
    let num = al.atom(n).as_ref().to_vec();
    let t = v.to_clvm(&mut al).unwrap();
    let tb = al.atom(t).as_ref().to_vec();
    let back = u64::from_clvm(&al, t).map(|x| x.to_string()).unwrap_or("ERR".into());
    o.case(
        &format!("C11 u64 {v}"),
        &format!("{} {} {} {} {} {}", hx(&a), hex::encode(id), total, hx(&num), hx(&tb), back),
    );
}

fn enc_case(o: &mut Out, slice: &[u8], neg: bool) {
    let r = encode_number(slice, neg);
    o.case(&format!("C11 enc {} {}", hx(slice), neg as u8), &hx(&r));
}

fn dec_case(o: &mut Out, len: usize, signed: bool, slice: &[u8]) {
    fn f<const N: usize>(s: &[u8], signed: bool) -> String {
        match decode_number::<N>(s, signed) { Some(r) => hx(&r), None => "none".into() }
    }
    let r = match len {
        1 => f::<1>(slice, signed), 2 => f::<2>(slice, signed), 4 => f::<4>(slice, signed),
        8 => f::<8>(slice, signed), 16 => f::<16>(slice, signed), _ => unreachable!(),
    };
    o.case(&format!("C11 dec {len} {} {}", signed as u8, hx(slice)), &r);
}

fn san_case(o: &mut Out, max: usize, buf: &[u8]) {
    let mut a = Allocator::new();
    let n = a.new_atom(buf).unwrap();
    let r = match sanitize_uint(&a, n, max, ValidationErr::Err(ErrorCode::InvalidCoinAmount)) {
        Ok(SanitizedUint::Ok(v)) => format!("ok {v}"),
        Ok(SanitizedUint::PositiveOverflow) => "pos".into(),
        Ok(SanitizedUint::NegativeOverflow) => "neg".into(),
        Err(_) => "err".into(),
    };
    o.case(&format!("C11 san {max} {}", hx(buf)), &r);
}

/// typed integers through ToClvm / FromClvm: `int <bits> <signed> <decimal>`
fn int_case(o: &mut Out, bits: u32, signed: bool, x: i128, ux: u128) {
    let mut a = Allocator::new();
    macro_rules! go { ($t:ty, $v:expr) => {{
        let v: $t = $v as $t;
        let n = v.to_clvm(&mut a).unwrap();
        let b = a.atom(n).as_ref().to_vec();
        let back = <$t>::from_clvm(&a, n).map(|y| y.to_string()).unwrap_or("ERR".into());
        (v.to_string(), b, back)
    }}; }
    let (s, b, back) = match (bits, signed) {
        (8, false) => go!(u8, ux), (16, false) => go!(u16, ux), (32, false) => go!(u32, ux),
        (64, false) => go!(u64, ux), (128, false) => go!(u128, ux),
        (8, true) => go!(i8, x), (16, true) => go!(i16, x), (32, true) => go!(i32, x),
        (64, true) => go!(i64, x), (128, true) => go!(i128, x), _ => unreachable!(),
    };
    o.case(&format!("C11 int {bits} {} {s}", signed as u8), &format!("{} {back}", hx(&b)));
}

/// decode arbitrary atoms with the typed FromClvm impls: `from <bits> <signed> <hex>`
fn from_case(o: &mut Out, bits: u32, signed: bool, buf: &[u8]) {
    let mut a = Allocator::new();
    let n = a.new_atom(buf).unwrap();
    macro_rules! go { ($t:ty) => { <$t>::from_clvm(&a, n).map(|y| y.to_string()).unwrap_or("none".into()) }; }
    let r = match (bits, signed) {
        (8, false) => go!(u8), (16, false) => go!(u16), (32, false) => go!(u32), (64, false) => go!(u64),
        (128, false) => go!(u128), (8, true) => go!(i8), (16, true) => go!(i16), (32, true) => go!(i32),
        (64, true) => go!(i64), (128, true) => go!(i128), _ => unreachable!(),
    };
    o.case(&format!("C11 from {bits} {} {}", signed as u8, hx(buf)), &r);
}

pub fn replay_line(o: &mut Out, l: &str) {
    let t: Vec<&str> = l.split_whitespace().collect();
    match t[1] {
        "u64" => u64_case(o, t[2].parse().unwrap()),
        "gen" => o.case(l, "ok"),
        "enc" => enc_case(o, &unhx(t[2]), t[3] == "1"),
        "dec" => dec_case(o, t[2].parse().unwrap(), t[3] == "1", &unhx(t[4])),
        "san" => san_case(o, t[2].parse().unwrap(), &unhx(t[3])),
        "int" => {
            let signed = t[3] == "1";
            if signed { int_case(o, t[2].parse().unwrap(), true, t[4].parse().unwrap(), 0) }
            else { int_case(o, t[2].parse().unwrap(), false, 0, t[4].parse().unwrap()) }
        }
        "from" => from_case(o, t[2].parse().unwrap(), t[3] == "1", &unhx(t[4])),
        _ => panic!("bad C11 line {l}"),
    }
}

pub fn run(o: &mut Out, seed: u64, thorough: bool, replay: Option<Vec<String>>) {
    if let Some(lines) = replay {
        for l in lines { replay_line(o, &l); }
        return;
    }
    let mut r = Rng::new(seed);
    // every class boundary of u64, ±2
    let mut vals: Vec<u64> = vec![0, 1, 2, u64::MAX, u64::MAX - 1];
    for k in 1..64u32 {
        let p = 1u64 << k;
        for d in [-2i64, -1, 0, 1, 2] { vals.push(p.wrapping_add(d as u64)); }
    }
    // thresholds found by the translator in the current source (±2), so that a moved threshold is hit exactly
    if let Ok(extra) = std::env::var("VERIF_EXTRA") {
        if let Ok(t) = std::fs::read_to_string(extra) {
            for w in t.split_whitespace() { if let Ok(x) = w.parse::<u64>() {
                for d in [-2i64, -1, 0, 1, 2] { vals.push(x.wrapping_add(d as u64)); }
            }}
        }
    }
    for v in &vals { u64_case(o, *v); o.case(&format!("C11 gen {v}"), "ok"); }
    let n = if thorough { 1 << 19 } else { 4000 };
    if thorough { for v in 0..(1u64 << 18) { u64_case(o, v); } }
    for _ in 0..n {
        let bits = r.range(1, 64);
        let v = r.next() >> (64 - bits);
        u64_case(o, v);
    }
    // typed integers: both ends and byte-class boundaries of every width
    for bits in [8u32, 16, 32, 64, 128] {
        let umax: u128 = if bits == 128 { u128::MAX } else { (1u128 << bits) - 1 };
        let mut us: Vec<u128> = vec![0, 1, umax, umax - 1];
        for k in 1..bits { let p = 1u128 << k; us.extend([p - 1, p, p + 1]); }
        for u in us { if u <= umax { int_case(o, bits, false, 0, u); } }
        let imax: i128 = if bits == 128 { i128::MAX } else { (1i128 << (bits - 1)) - 1 };
        let imin: i128 = -imax - 1;
        let mut is: Vec<i128> = vec![0, 1, -1, imax, imin, imax - 1, imin + 1];
        for k in 1..(bits - 1) { let p = 1i128 << k; is.extend([p - 1, p, p + 1, -p - 1, -p, -p + 1]); }
        for i in is { if i >= imin && i <= imax { int_case(o, bits, true, i, 0); } }
        for _ in 0..(if thorough { 20000 } else { 300 }) {
            let b = r.range(1, bits as u64) as u32;
            let u = (((r.next() as u128) << 64) | r.next() as u128) >> (128 - b);
            int_case(o, bits, false, 0, u & umax);
            let i = (u as i128) & imax;
            int_case(o, bits, true, if r.chance(1, 2) { i } else { -i - 1 }, 0);
        }
    }
    // atoms: exhaustive up to length 2 (quick) / 3 (thorough), then structured longer ones
    let lead = [0x00u8, 0x01, 0x7f, 0x80, 0xff];
    let mut atoms: Vec<Vec<u8>> = vec![vec![]];
    for a in 0..=255u8 { atoms.push(vec![a]); }
    for a in 0..=255u8 { for b in 0..=255u8 { atoms.push(vec![a, b]); } }
    if thorough {
        for a in lead { for b in 0..=255u8 { for c in 0..=255u8 { atoms.push(vec![a, b, c]); } } }
    }
    for len in 3..=20usize {
        for l0 in lead { for l1 in lead { for _ in 0..(if thorough { 40 } else { 4 }) {
            let mut v = r.bytes(len);
            v[0] = l0; v[1] = l1;
            if r.chance(1, 3) { v[2] = *r.pick(&lead); }
            atoms.push(v);
        }}}
    }
    // long padding runs (the 64-byte padding budget of decode_number)
    for pad in [0x00u8, 0xff] { for run in [62usize, 63, 64, 65, 66, 80] { for tail in [vec![], vec![0x01], vec![0x80], vec![0x7f, 0x00], vec![0xff; 8], vec![0x80; 16]] {
        let mut v = vec![pad; run]; v.extend(tail); atoms.push(v);
    }}}
    for a in &atoms {
        for max in [1usize, 2, 4, 8] { if a.len() <= 3 || max >= 4 { san_case(o, max, a); } }
        for len in [1usize, 2, 4, 8, 16] { for s in [false, true] {
            if a.len() <= 2 && len > 2 && !a.is_empty() && a[0] != 0 && a[0] != 0xff && a[0] != 0x80 && a[0] != 0x7f { continue; }
            dec_case(o, len, s, a);
        }}
        if a.len() > 2 || a.len() < 2 || lead.contains(&a[0]) {
            for (bits, s) in [(8, false), (8, true), (32, false), (64, false), (64, true), (128, true), (128, false)] { from_case(o, bits, s, a); }
        }
        // encode_number takes fixed-width slices in the code base, but is total on any slice
        if a.len() <= 16 { enc_case(o, a, false); enc_case(o, a, true); }
    }
}
