//! C10: the two block builders (compressed `BlockBuilder`, `InternedBlockBuilder`) driven through whole
//! histories of `add_spend_bundles` calls followed by `finalize`.  One case = one line = one history.
//! The incremental serializer of the compressed builder is external to the model; its sizes after
//! every add / restore are measured here on a shadow instance of clvmr's real `Serializer` that is
//! fed exactly the trees the builder feeds its own, and shipped on the case line as oracle values.
use crate::cond::*;
use crate::out::Out;
use crate::prng::Rng;
use chia_bls::{sign, SecretKey, Signature};
use chia_consensus::build_compressed_block::{BlockBuilder, BuildBlockResult as CRes};
use chia_consensus::build_interned_block::{BuildBlockResult as IRes, InternedBlockBuilder};
use chia_consensus::consensus_constants::{ConsensusConstants, TEST_CONSTANTS};
use chia_consensus::flags::ConsensusFlags;
use chia_consensus::run_block_generator::run_block_generator2;
use chia_protocol::{Bytes32, Coin, CoinSpend, Program, SpendBundle};
use clvmr::allocator::{Allocator, NodePtr};
use clvmr::serde::{node_from_bytes, node_from_bytes_backrefs, node_to_bytes, Serializer};
use std::collections::HashMap;
use std::panic::{catch_unwind, AssertUnwindSafe};

const CORPUS: &str = include_str!("../../corpus/C10.case");
const MIN_COST_THRESHOLD: u64 = 6_000_000; // only used to steer generation and for the input markers
const HUGE: u64 = 1 << 60;

#[derive(Clone)]
pub struct Sp { pub parent: [u8; 32], pub puzzle: Vec<u8>, pub amount: u64, pub solution: Vec<u8> }
#[derive(Clone)]
pub struct Bu { pub tag: u32, pub spends: Vec<Sp> }
#[derive(Clone)]
pub struct AddOp { pub cost: u64, pub bundles: Vec<Bu> }
#[derive(Clone)]
pub struct Hist { pub kind: char, pub truthful: bool, pub cpb: u64, pub max: u64, pub adds: Vec<AddOp> }

fn constants(cpb: u64, max: u64) -> ConsensusConstants {
    let mut c = TEST_CONSTANTS.clone();
    c.cost_per_byte = cpb;
    c.max_block_cost_clvm = max;
    c
}

thread_local! { static SIGS: std::cell::RefCell<HashMap<u32, Signature>> = std::cell::RefCell::new(HashMap::new()); }
/// real signatures: tag t (> 0) is key `from_seed([t; 32])` signing the text "tag<t>"; tag 0 is the identity
fn sig_of(tag: u32) -> Signature {
    if tag == 0 { return Signature::default(); }
    SIGS.with(|m| m.borrow_mut().entry(tag).or_insert_with(|| { let sk = SecretKey::from_seed(&[tag as u8; 32]); sign(&sk, format!("tag{tag}").as_bytes()) }).clone())
}

fn decode_t(b: &[u8]) -> Option<T> { let mut a = Allocator::new(); let n = node_from_bytes(&mut a, b).ok()?; Some(node_to_t(&a, n)) }

fn bundle_of(b: &Bu, sigs: &mut HashMap<u32, Signature>) -> SpendBundle {
    let css: Vec<CoinSpend> = b.spends.iter().map(|s| {
        let ph = decode_t(&s.puzzle).map_or([0u8; 32], |t| tree_hash_t(&t));
        CoinSpend::new(Coin::new(Bytes32::new(s.parent), Bytes32::new(ph), s.amount), Program::from(s.puzzle.clone()), Program::from(s.solution.clone()))
    }).collect();
    let sig = sigs.entry(b.tag).or_insert_with(|| sig_of(b.tag)).clone();
    SpendBundle::new(css, sig)
}

enum B { I(InternedBlockBuilder), C(BlockBuilder) }
#[derive(Clone, Copy, PartialEq, Debug)]
enum R { Ok(bool, bool), Err, Panic }

impl B {
    fn new(kind: char, c: &ConsensusConstants) -> B { if kind == 'i' { B::I(InternedBlockBuilder::new(c)) } else { B::C(BlockBuilder::new().expect("BlockBuilder::new")) } }
    fn cost(&self) -> u64 { match self { B::I(b) => b.cost(), B::C(b) => b.cost() } }
    fn add(&mut self, bundles: &[SpendBundle], cost: u64, c: &ConsensusConstants) -> R {
        let r = catch_unwind(AssertUnwindSafe(|| match self {
            B::I(b) => b.add_spend_bundles(bundles.iter(), cost).map(|(a, d)| (a, d == IRes::Done)).ok(),
            B::C(b) => b.add_spend_bundles(bundles.iter(), cost, c).map(|(a, d)| (a, d == CRes::Done)).ok(),
        }));
        match r { Ok(Some((a, d))) => R::Ok(a, d), Ok(None) => R::Err, Err(_) => R::Panic }
    }
    /// None = panic, Some(None) = Err
    fn finalize(self, c: &ConsensusConstants) -> Option<Option<(Vec<u8>, Signature, u64)>> {
        catch_unwind(AssertUnwindSafe(move || match self {
            B::I(mut b) => b.finalize().ok(),
            B::C(b) => b.finalize(c).ok(),
        })).ok()
    }
}

/// shadow of the compressed builder's allocator + incremental serializer (same construction as `BlockBuilder::new`)
struct Shadow { a: Allocator, sentinel: NodePtr, ser: Serializer }
impl Shadow {
    fn new() -> Shadow {
        let mut a = Allocator::new();
        let sentinel = a.new_pair(NodePtr::NIL, NodePtr::NIL).unwrap();
        let spend_list = a.new_pair(sentinel, a.nil()).unwrap();
        let quoted = a.new_pair(a.one(), spend_list).unwrap();
        let mut ser = Serializer::new(Some(sentinel));
        ser.add(&a, quoted).unwrap();
        Shadow { a, sentinel, ser }
    }
    /// feeds the batch like the builder does; returns (size after add, size after restore if `restore`)
    fn add(&mut self, op: &AddOp, restore: bool) -> Option<(u64, Option<u64>)> {
        let a = &mut self.a;
        let mut spend_list = self.sentinel;
        for b in &op.bundles { for s in &b.spends {
            let solution = node_from_bytes_backrefs(a, &s.solution).ok()?;
            let item = a.new_pair(solution, NodePtr::NIL).ok()?;
            let amount = a.new_number(s.amount.into()).ok()?;
            let item = a.new_pair(amount, item).ok()?;
            let puzzle = node_from_bytes_backrefs(a, &s.puzzle).ok()?;
            let item = a.new_pair(puzzle, item).ok()?;
            let parent = a.new_atom(&s.parent).ok()?;
            let item = a.new_pair(parent, item).ok()?;
            spend_list = a.new_pair(item, spend_list).ok()?;
        }}
        let (_, state) = self.ser.add(a, spend_list).ok()?;
        let after = self.ser.size();
        if restore { self.ser.restore(state); Some((after, Some(self.ser.size()))) } else { Some((after, None)) }
    }
    fn final_size(mut self) -> u64 { let nil = self.a.nil(); let _ = self.ser.add(&self.a, nil); self.ser.size() }
}

struct RunOut { res: Vec<(R, u64)>, fin: Option<Option<(Vec<u8>, Signature, u64)>>, oracle: Vec<(Option<u64>, Option<u64>)>, final_size: u64 }

fn run_hist(h: &Hist, ops: &[&AddOp], sigs: &mut HashMap<u32, Signature>, want_oracle: bool) -> RunOut {
    let c = constants(h.cpb, h.max);
    let mut b = B::new(h.kind, &c);
    let mut shadow = if want_oracle && h.kind == 'c' { Some(Shadow::new()) } else { None };
    let mut res = vec![]; let mut oracle = vec![];
    let mut dead = false;
    for op in ops {
        if dead { res.push((R::Panic, 0)); oracle.push((None, None)); continue; }
        let bundles: Vec<SpendBundle> = op.bundles.iter().map(|x| bundle_of(x, sigs)).collect();
        let pre = b.cost();
        let r = b.add(&bundles, op.cost, &c);
        if r == R::Panic { dead = true; res.push((r, 0)); oracle.push((None, None)); continue; }
        // the serializer is reached iff neither pre-check fired (both are functions of cost()) and no reveal failed to decode
        let reached = !(pre.wrapping_add(MIN_COST_THRESHOLD) > h.max) && !(pre.wrapping_add(op.cost) > h.max) && r != R::Err;
        let mut orc = (None, None);
        if let Some(sh) = shadow.as_mut() { if reached {
            if let Some((sa, sr)) = sh.add(op, r == R::Ok(false, false) || r == R::Ok(false, true)) { orc = (Some(sa), sr); }
        }}
        oracle.push(orc);
        res.push((r, b.cost()));
    }
    let final_size = shadow.map_or(0, |s| s.final_size());
    let fin = if dead { None } else { b.finalize(&c) };
    RunOut { res, fin, oracle, final_size }
}

fn sp_s(s: &Sp) -> String { format!("{}.{}.{}.{}", hex::encode(s.parent), crate::out::hx(&s.puzzle), s.amount, crate::out::hx(&s.solution)) }
fn bu_s(b: &Bu) -> String { format!("{}/{}", b.tag, if b.spends.is_empty() { "-".to_string() } else { b.spends.iter().map(sp_s).collect::<Vec<_>>().join(",") }) }
fn n_s(v: Option<u64>) -> String { v.map_or("-".to_string(), |x| x.to_string()) }

/// the generator the property prescribes: `(q . ((accepted spends in the builder's order) . nil))`
/// interned builder: every spend is consed onto the front (newest first); compressed builder: each
/// batch (internally consed, so reversed) replaces the sentinel at the END of the list (oldest batch first)
fn expected_tree(kind: char, accepted: &[&AddOp]) -> Option<T> {
    let mut items: Vec<T> = vec![];
    for op in accepted {
        let mut batch: Vec<T> = vec![];
        for b in &op.bundles { for s in &b.spends {
            batch.insert(0, list(vec![at(&s.parent), decode_t(&s.puzzle)?, int(s.amount), decode_t(&s.solution)?], nil()));
        }}
        if kind == 'i' { batch.extend(items); items = batch; } else { items.extend(batch); }
    }
    Some(pair(at(&[1]), pair(list(items, nil()), nil())))
}

fn consensus_cost(kind: char, gen: &[u8], sig: &Signature, cpb: u64) -> String {
    let mut f = ConsensusFlags::DONT_VALIDATE_SIGNATURE;
    if kind == 'i' { f |= ConsensusFlags::INTERNED_GENERATOR; }
    let c = constants(cpb, HUGE);
    let g = gen.to_vec(); let s = sig.clone();
    match catch_unwind(move || run_block_generator2(&g, Vec::<Vec<u8>>::new().iter(), HUGE, f, &s, None, &c).map(|(_, c)| c.cost).map_err(|e| e.error_code())) {
        Ok(Ok(c)) => c.to_string(), Ok(Err(e)) => format!("ERR:{e:?}"), Err(_) => "PANIC".to_string() }
}

pub fn c10_case(o: &mut Out, h: &Hist) {
    let mut sigs: HashMap<u32, Signature> = HashMap::new();
    let all: Vec<&AddOp> = h.adds.iter().collect();
    let out = run_hist(h, &all, &mut sigs, true);
    // ---- case line
    let mut line = format!("C10 {} {} {} {}", h.kind, if h.truthful { 't' } else { 'u' }, h.cpb, h.max);
    for (op, orc) in h.adds.iter().zip(&out.oracle) {
        line.push_str(&format!(" a;{};{};{};{}", op.cost, n_s(orc.0), n_s(orc.1),
            if op.bundles.is_empty() { "-".to_string() } else { op.bundles.iter().map(bu_s).collect::<Vec<_>>().join("|") }));
    }
    line.push_str(&format!(" fin;{}", if h.kind == 'c' { out.final_size.to_string() } else { "-".to_string() }));
    // markers computed from the INPUT only
    if h.adds.iter().any(|a| a.cost >= 1 << 63) { line.push_str(" @wrap"); }
    let floor = 20 + if h.kind == 'i' { 11 } else { 5 } * h.cpb;
    if h.max < floor { line.push_str(" @tinymax"); }
    // ---- implementation output
    let mut viol: Vec<&str> = vec![];
    let mut outs: Vec<String> = vec![];
    let mut prev = 20 + if h.kind == 'i' { 11u64.wrapping_mul(h.cpb) } else { 0 };
    let mut accepted: Vec<&AddOp> = vec![];
    for (op, (r, cost)) in h.adds.iter().zip(&out.res) {
        match r {
            R::Ok(a, d) => { outs.push(format!("{},{},{}", *a as u8, *d as u8, cost));
                if *a { accepted.push(op); } else if *cost != prev && !viol.contains(&"rejected-changed-estimate") { viol.push("rejected-changed-estimate"); } }
            R::Err => { outs.push(format!("E,{cost}")); if *cost != prev && !viol.contains(&"rejected-changed-estimate") { viol.push("rejected-changed-estimate"); } }
            R::Panic => { outs.push("PANIC".to_string()); if !viol.contains(&"add-panic") { viol.push("add-panic"); } }
        }
        prev = *cost;
    }
    let fin_s = match &out.fin {
        None => { viol.push("finalize-panic"); "fin PANIC".to_string() }
        Some(None) => { viol.push("finalize-error"); "fin ERR".to_string() }
        Some(Some((gen, sig, cost))) => {
            // decoded generator (back-references resolved), plain
            let decoded = { let mut a = Allocator::new(); node_from_bytes_backrefs(&mut a, gen).ok().and_then(|n| node_to_bytes(&a, n).ok()) };
            let exp = expected_tree(h.kind, &accepted).map(|t| to_bytes(&t));
            let same = decoded.is_some() && decoded == exp;
            if !same { viol.push("contents"); }
            let mut agg = Signature::default();
            for op in &accepted { for b in &op.bundles { agg.aggregate(sigs.get(&b.tag).unwrap()); } }
            let sig_ok = agg == *sig;
            if !sig_ok { viol.push("signature"); }
            let cons = if h.truthful { consensus_cost(h.kind, gen, sig, h.cpb) } else { "-".to_string() };
            if h.truthful && cons != cost.to_string() { viol.push("consensus-cost"); }
            if *cost > h.max { viol.push("over-limit"); }
            if prev < *cost { viol.push("estimate-below-final"); }
            // metamorphic: the history without (a) all rejected attempts, (b) its first rejected attempt
            let rej = {
                let keep_a: Vec<&AddOp> = accepted.clone();
                let first_rej = out.res.iter().position(|(r, _)| matches!(r, R::Ok(false, _)));
                let mut why = String::new();
                // (a history without rejected attempts is its own reduct: nothing to compare)
                let ra = if keep_a.len() == h.adds.len() { RunOut { res: vec![], fin: Some(Some((gen.clone(), sig.clone(), *cost))), oracle: vec![], final_size: 0 } } else { run_hist(h, &keep_a, &mut sigs, false) };
                if !ra.res.iter().all(|(r, _)| matches!(r, R::Ok(true, _))) { why = "accepted-add-now-rejected".into(); }
                else if ra.fin.as_ref().map(|x| x.as_ref().map(|y| (&y.0, y.1.to_bytes(), y.2))) != Some(Some((gen, sig.to_bytes(), *cost))) { why = "output-differs-without-rejected".into(); }
                if why.is_empty() { if let Some(j) = first_rej {
                    let keep_b: Vec<&AddOp> = h.adds.iter().enumerate().filter(|(i, _)| *i != j).map(|(_, x)| x).collect();
                    let rb = run_hist(h, &keep_b, &mut sigs, false);
                    let flags_b: Vec<bool> = rb.res.iter().map(|(r, _)| matches!(r, R::Ok(true, _))).collect();
                    let flags_o: Vec<bool> = out.res.iter().enumerate().filter(|(i, _)| *i != j).map(|(_, (r, _))| matches!(r, R::Ok(true, _))).collect();
                    if flags_b != flags_o { why = "later-acceptance-differs-without-first-rejected".into(); }
                    else if rb.fin.as_ref().map(|x| x.as_ref().map(|y| (&y.0, y.1.to_bytes(), y.2))) != Some(Some((gen, sig.to_bytes(), *cost))) { why = "output-differs-without-first-rejected".into(); }
                }}
                if !why.is_empty() && std::env::var("VERIF_C10_DEBUG").is_ok() {
                    let d = |x: &RunOut| x.fin.as_ref().map(|f| f.as_ref().map(|y| (y.0.len(), y.2, hex::encode(&y.0))));
                    eprintln!("C10 debug: {why}\n original {:?}\n without-rejected {:?}", Some(Some((gen.len(), *cost, hex::encode(gen)))), d(&ra));
                }
                if why.is_empty() { "same".to_string() } else { format!("DIFFERENT:{why}") }
            };
            if rej != "same" { viol.push("rejected-changed-output"); }
            let ser_ok = h.kind != 'c' || gen.len() as u64 == out.final_size;
            format!("fin tree={} sig={} cost={} consensus={} spends={} rej={} ser={}", decoded.map_or("UNDECODABLE".to_string(), hex::encode),
                if sig_ok { "equal" } else { "DIFFERENT" }, cost, cons, if same { "same" } else { "DIFFERENT" }, rej, if ser_ok { "ok" } else { "SHADOW-MISMATCH" })
        }
    };
    let prop = if viol.is_empty() { "ok".to_string() } else { format!("VIOLATED:{}", viol.join("+")) };
    let info = match &out.fin { Some(Some((gen, _, _))) => {
        // (the emitted bytes are not predictable by the model: only their decoding is compared; their size class is informational,
        //  their SHA-256 is printed on request)
        if std::env::var("VERIF_C10_DEBUG").is_ok() { eprintln!("C10 debug: generator {} bytes sha256 {}", gen.len(), hex::encode(sha(&[gen]))); }
        format!(" ~generator bytes {}", match gen.len() { 0..=5 => "=5 (empty)", 6..=255 => "<256", 256..=1023 => "<1k", 1024..=4095 => "<4k", _ => ">=4k" }) }
        _ => String::new() };
    o.case(&line, &format!("{} | {} prop={}{}", outs.join(" "), fin_s, prop, info));
}

// ---------------------------------------------------------------------------------------------
// generation

struct Pool { puzzles: Vec<Vec<u8>>, solutions: Vec<Vec<u8>>, amounts: Vec<u64>, next_parent: u64, costs: HashMap<(Vec<u8>, Vec<u8>), u64> }

fn pool() -> Pool {
    let phs: Vec<[u8; 32]> = (0..4u8).map(|i| [0x40 + i; 32]).collect();
    let big = vec![0xabu8; 180];
    let cc = |i: usize, amt: u64| list(vec![at(&[51]), at(&phs[i % 4]), int(amt)], nil());
    let remark = |b: &[u8]| list(vec![at(&[1]), at(b)], nil());
    let mut conds: Vec<Vec<T>> = vec![
        vec![], vec![cc(0, 1)], vec![cc(1, 2)], vec![cc(0, 1), cc(1, 2)], vec![cc(0, 1), cc(1, 2), cc(2, 3)],
        vec![cc(0, 1), cc(1, 2), cc(2, 3), cc(3, 4)], (0..6).map(|i| cc(i, 10 + i as u64)).collect(), (0..9).map(|i| cc(i, 20 + i as u64)).collect(),
        vec![remark(&big)], vec![remark(&big), cc(0, 5)], vec![remark(b"hello"), list(vec![at(&[52]), int(1)], nil())],
    ];
    let mut puzzles: Vec<Vec<u8>> = conds.iter().map(|c| to_bytes(&pair(at(&[1]), list(c.clone(), nil())))).collect();
    puzzles.push(to_bytes(&at(&[1])));                      // identity puzzle: the solution is the condition list
    // a puzzle with internal sharing: (q . ((1 big) (1 big) (1 big)))
    puzzles.push(to_bytes(&pair(at(&[1]), list(vec![remark(&big), remark(&big), remark(&big)], nil()))));
    let mut solutions: Vec<Vec<u8>> = vec![to_bytes(&nil()), to_bytes(&list(vec![int(1), int(2), int(3)], nil())), to_bytes(&list(vec![at(&big)], nil())),
        to_bytes(&list(vec![at(&phs[0]), at(&phs[1])], nil()))];
    // condition lists usable as solutions of the identity puzzle
    for c in conds.drain(..).take(6) { solutions.push(to_bytes(&list(c, nil()))); }
    Pool { puzzles, solutions, amounts: vec![1000, 1001, 0x7fff, 0x8000, 0xffff_ffff, 0x1_0000_0000, 0x7fff_ffff_ffff_ffff, u64::MAX], next_parent: 0, costs: HashMap::new() }
}

impl Pool {
    fn spend(&mut self, r: &mut Rng) -> Sp {
        self.next_parent += 1;
        let mut parent = [0u8; 32];
        parent[..8].copy_from_slice(&self.next_parent.to_be_bytes());
        parent[8..16].copy_from_slice(&r.next().to_be_bytes());
        for b in parent[16..].iter_mut() { *b = 0x77; }
        let pi = if r.chance(1, 2) { r.below(4) as usize } else { r.below(self.puzzles.len() as u64) as usize };
        let puzzle = self.puzzles[pi].clone();
        let solution = if puzzle == [1u8] { self.solutions[4 + r.below(6) as usize].clone() } else { r.pick(&self.solutions).clone() };
        Sp { parent, puzzle, amount: *r.pick(&self.amounts), solution }
    }
    /// execution cost + condition cost of one spend, as consensus charges it inside a block (oracle: the real interpreter)
    fn spend_cost(&mut self, s: &Sp) -> u64 {
        let key = (s.puzzle.clone(), s.solution.clone());
        if let Some(c) = self.costs.get(&key) { return *c; }
        let (Some(p), Some(so)) = (decode_t(&s.puzzle), decode_t(&s.solution)) else { return 0 };
        let g = to_bytes(&pair(at(&[1]), pair(list(vec![list(vec![at(&s.parent), p, int(s.amount), so], nil())], nil()), nil())));
        let c = constants(12000, HUGE);
        let v = match run_block_generator2(&g, Vec::<Vec<u8>>::new().iter(), HUGE, ConsensusFlags::DONT_VALIDATE_SIGNATURE, &Signature::default(), None, &c) {
            Ok((_, c)) => c.execution_cost - 20 + c.condition_cost, Err(_) => 0 };
        self.costs.insert(key, v);
        v
    }
    fn batch(&mut self, r: &mut Rng) -> Vec<Bu> {
        let nb = match r.below(20) { 0 => 0, 1..=11 => 1, 12..=16 => 2, _ => 3 };
        (0..nb).map(|_| { let ns = match r.below(12) { 0 => 0, 1..=7 => 1, 8..=10 => 2, _ => 3 };
            Bu { tag: r.below(7) as u32, spends: (0..ns).map(|_| self.spend(r)).collect() } }).collect()
    }
    fn truthful_cost(&mut self, bundles: &[Bu]) -> u64 { let mut c = 0; for b in bundles { for s in &b.spends { c += self.spend_cost(s); } } c }
}

/// cost() after every add when nothing is ever rejected (huge limit)
fn trajectory(h: &Hist) -> Vec<u64> {
    let mut hh = h.clone(); hh.max = HUGE;
    let mut sigs = HashMap::new();
    let all: Vec<&AddOp> = hh.adds.iter().collect();
    run_hist(&hh, &all, &mut sigs, false).res.iter().map(|x| x.1).collect()
}

fn gen_hist(r: &mut Rng, p: &mut Pool, kind: char, _thorough: bool) -> Hist {
    let n = match r.below(10) { 0 => r.range(0, 2), 1..=6 => r.range(1, 12), _ => r.range(10, 40) } as usize;
    let cpb = match r.below(20) { 0 => 1, 1..=3 => 700, _ => 12000 };
    let mode = r.below(100);
    let truthful = mode < 70 && r.chance(3, 4);
    let mut adds: Vec<AddOp> = (0..n).map(|_| { let bundles = p.batch(r);
        let cost = if truthful { p.truthful_cost(&bundles) } else { match r.below(6) { 0 => 0, 1 => r.below(1000), 2 => r.range(1_000_000, 20_000_000), 3 => r.range(5_999_990, 6_000_010), _ => p.truthful_cost(&bundles) } };
        AddOp { cost, bundles } }).collect();
    let mut h = Hist { kind, truthful, cpb, max: HUGE, adds: vec![] };
    std::mem::swap(&mut h.adds, &mut adds);
    let tr = trajectory(&h);
    let base = 20 + if kind == 'i' { 11 * cpb } else { 0 };
    let c = |k: usize| if k == 0 { base } else { tr[k - 1] };
    let delta = |r: &mut Rng| -> i64 { *r.pick(&[-1i64, 0, 0, 1]) };
    if n == 0 { h.max = *r.pick(&[11_000_000_000u64, base + 11 * cpb + MIN_COST_THRESHOLD, base + 5 * cpb]); return h; }
    if mode < 40 {
        // land an add exactly on / one off the limit; prefer an add that is large enough to get past the near-full guard
        let big: Vec<usize> = (1..=n).filter(|k| c(*k) - c(*k - 1) >= MIN_COST_THRESHOLD).collect();
        let k = if !big.is_empty() && r.chance(4, 5) { *r.pick(&big) } else { r.range(1, n as u64) as usize };
        h.max = (c(k) as i64 + delta(r)) as u64;
    } else if mode < 55 {
        // the near-full heuristic boundary
        let k = r.range(0, n as u64) as usize;
        h.max = (c(k) as i64 + MIN_COST_THRESHOLD as i64 + delta(r)) as u64;
    } else if mode < 70 {
        let lo = base + MIN_COST_THRESHOLD; let hi = c(n).max(lo + 1);
        h.max = r.range(lo, hi);
    } else if mode < 78 {
        h.max = 11_000_000_000;
    } else if mode < 92 {
        // untruthful: choose the limit, then bend one declared cost so that this add lands on limit-1/0/+1
        let j = r.range(1, n as u64) as usize;
        let lo = c(j - 1) + MIN_COST_THRESHOLD; let hi = c(n).max(lo) + 30_000_000;
        h.max = r.range(lo, hi);
        let want = h.max as i64 + delta(r);
        let bent = h.adds[j - 1].cost as i64 + (want - c(j) as i64);
        if bent >= 0 { h.adds[j - 1].cost = bent as u64; }
    } else if mode < 97 {
        // malformed: declared costs near 2^64 / 2^63 (u64 addition wraps in the release build)
        let lo = base + MIN_COST_THRESHOLD; h.max = r.range(lo, c(n).max(lo) + 30_000_000);
        let k = r.range(1, 2);
        for _ in 0..k { let j = r.below(n as u64) as usize;
            h.adds[j].cost = match r.below(7) { 0 => u64::MAX, 1 => u64::MAX - r.below(100), 2 => 1 << 63, 3 => (1 << 63) + r.below(3), 4 => h.adds[j].cost.wrapping_sub(c(j + 1)).wrapping_add(r.below(3)), /* the running total wraps to 0, 1, 2 */ 5 => (u64::MAX - h.max).wrapping_add(r.below(40_000_000)), _ => u64::MAX - r.below(1 << 40) }; }
    } else {
        // malformed: reveals that do not deserialize
        h.max = if r.chance(1, 2) { 11_000_000_000 } else { c(n) + 1 };
        let j = r.below(n as u64) as usize;
        if h.adds[j].bundles.is_empty() { h.adds[j].bundles.push(Bu { tag: 1, spends: vec![] }); }
        let mut s = p.spend(r);
        match r.below(4) { 0 => s.puzzle = vec![0xff, 0x01], 1 => s.solution = vec![], 2 => s.puzzle = vec![0xfe, 0x02], _ => s.solution = vec![0xff, 0xff, 0x80] }
        let bi = r.below(h.adds[j].bundles.len() as u64) as usize;
        let at_ = r.below(h.adds[j].bundles[bi].spends.len() as u64 + 1) as usize;
        h.adds[j].bundles[bi].spends.insert(at_, s);
    }
    h
}

fn fixed_cases(o: &mut Out, p: &mut Pool) {
    let mut r = Rng::new(0xc10f);
    for kind in ['i', 'c'] {
        // the empty history, at the real limit and at limits below the cost of the empty generator
        c10_case(o, &Hist { kind, truthful: true, cpb: 12000, max: 11_000_000_000, adds: vec![] });
        let floor = 20 + if kind == 'i' { 11 } else { 5 } * 12000;
        for max in [floor, floor - 1, 19] { c10_case(o, &Hist { kind, truthful: true, cpb: 12000, max, adds: vec![] }); }
        // a declared cost that makes the running total wrap to exactly 0, 1 (release build: u64 addition wraps)
        // (the pre-check does not include the new bytes, so only an EMPTY batch can ride the wrap through both guards)
        for d in [0u64, 1, 23_999, 24_000, 24_001, 5_000_000] {
            let op = AddOp { cost: 1000, bundles: vec![Bu { tag: 3, spends: vec![p.spend(&mut r)] }] };
            let mut h = Hist { kind, truthful: false, cpb: 12000, max: 50_000_000, adds: vec![op.clone()] };
            let c1 = trajectory(&h)[0];
            h.adds.push(AddOp { cost: d.wrapping_sub(c1), bundles: vec![] });
            c10_case(o, &h);
            h.adds.push(op);
            c10_case(o, &h);
        }
        // a rejected first attempt followed by a small one, limits around 6M (near-full guard vs. never-synchronised byte cost)
        for max in [6_000_019u64, 6_000_020, 6_030_000, 6_060_019, 6_060_020, 6_132_019, 6_132_020, 6_200_000, 9_000_000] {
            let small = AddOp { cost: 100, bundles: vec![Bu { tag: 1, spends: vec![Sp { parent: [1; 32], puzzle: vec![1], amount: 1, solution: vec![0x80] }] }] };
            let bigb: Vec<Bu> = vec![Bu { tag: 2, spends: (0..3).map(|_| { let mut s = p.spend(&mut r); s.puzzle = p.puzzles[12].clone(); s }).collect() }];
            let big = AddOp { cost: max - 20 - if kind == 'i' { 11 * 12000 } else { 0 } - 12000.min(max - 20 - if kind == 'i' { 132000 } else { 0 }), bundles: bigb };
            c10_case(o, &Hist { kind, truthful: false, cpb: 12000, max, adds: vec![big.clone(), small.clone()] });
            c10_case(o, &Hist { kind, truthful: false, cpb: 12000, max, adds: vec![small.clone()] });
            c10_case(o, &Hist { kind, truthful: false, cpb: 12000, max, adds: vec![big.clone(), small.clone(), big, small] });
        }
    }
}

pub fn run(o: &mut Out, seed: u64, thorough: bool, replay: Option<Vec<String>>) {
    if let Some(lines) = replay { for l in lines { if let Some(h) = parse_line(&l) { c10_case(o, &h); } } return; }
    // keep the panic message of an `assert!` inside finalize out of the log (the result line says PANIC)
    std::panic::set_hook(Box::new(|_| {}));
    // corpus first (hand-picked boundary histories and minimised witnesses of the recorded findings)
    for l in CORPUS.lines().filter(|l| !l.starts_with('#') && !l.trim().is_empty()) { if let Some(h) = parse_line(l) { c10_case(o, &h); } }
    let mut p = pool();
    fixed_cases(o, &mut p);
    let mut r = Rng::new(seed ^ 0xc10);
    let n = if thorough { 50_000 } else { 1_500 };
    for i in 0..n { let h = gen_hist(&mut r, &mut p, if i % 2 == 0 { 'i' } else { 'c' }, thorough); c10_case(o, &h); }
}

fn parse_line(l: &str) -> Option<Hist> {
    let t: Vec<&str> = l.split_whitespace().collect();
    if t.len() < 5 || t[0] != "C10" { return None; }
    let mut adds = vec![];
    for w in &t[5..] {
        if !w.starts_with("a;") { continue; }
        let f: Vec<&str> = w.split(';').collect();
        let bundles: Vec<Bu> = if f[4] == "-" { vec![] } else { f[4].split('|').map(|b| { let (tag, sp) = b.split_once('/').unwrap();
            Bu { tag: tag.parse().unwrap(), spends: if sp == "-" { vec![] } else { sp.split(',').map(|s| { let g: Vec<&str> = s.split('.').collect();
                Sp { parent: hex::decode(g[0]).unwrap().try_into().unwrap(), puzzle: crate::out::unhx(g[1]), amount: g[2].parse().unwrap(), solution: crate::out::unhx(g[3]) } }).collect() } } }).collect() };
        adds.push(AddOp { cost: f[1].parse().unwrap(), bundles });
    }
    Some(Hist { kind: t[1].chars().next()?, truthful: t[2] == "t", cpb: t[3].parse().ok()?, max: t[4].parse().ok()?, adds })
}
