//! C15: every signature verification path of chia-bls on the same inputs, with and without the
//! pairing cache.  One case = one line = a whole history on one `BlsCache`:
//!
//!   C15 <h|hm> <cap> <keymap> <ops> <threads> <sched> [@infkey]
//!
//! (grammar: lean/ChiaModel/Drv/C15.lean).  Keys are referenced by small seed numbers; seed `s > 0`
//! is `SecretKey::from_seed(&[s; 32])`, seed 0 is the infinity public key.  The keymap tells the
//! driver `pk.to_bytes()` of every seed used.  ` @infkey` is a canonical marker computed from the
//! INPUT: some `av` op has the infinity key in its pair list.
//!
//! After each `av` the harness prints the verdicts of ALL paths on the same input:
//! `c` BlsCache::aggregate_verify, `a` aggregate_verify, `v` verify (singleton lists only),
//! `g` aggregate_verify_gt over pairings it computes itself, `p` aggregate_pairing with `(-g, sig)`,
//! and `n` = len().  At the end: `len()` and the cache contents in FIFO order (first 4 bytes of each
//! key), observed through the public API on clones of the cache.
//!
//! `threads`/`sched` (concurrent calls, forced interleaving at lock granularity) need the
//! `verif-hooks` feature of chia-bls (repo_hook_c15.patch).  Without it the harness degrades to
//! sequential histories: the thread ops are appended to the sequential prefix.
use crate::out::Out;
use crate::prng::Rng;
use chia_bls::{
    aggregate_pairing, aggregate_verify, aggregate_verify_gt, hash_to_g2, sign, verify, BlsCache,
    GTElement, PublicKey, SecretKey, Signature,
};
use std::collections::HashMap;
use std::num::NonZeroUsize;
use std::panic::{catch_unwind, AssertUnwindSafe};

const CORPUS: &str = include_str!("../../corpus/C15.case");
const HOOKS: bool = cfg!(feature = "verif-hooks");

type PairSpec = (usize, Vec<u8>);

#[derive(Clone, Debug, PartialEq)]
enum Term { Sign(usize, Vec<u8>), Junk }

#[derive(Clone, Debug, PartialEq)]
enum SigSpec { Zero, Off, Terms(Vec<Term>) }

#[derive(Clone, Debug, PartialEq)]
enum Op { Av(Vec<PairSpec>, SigSpec), Upd(Vec<PairSpec>), Ev(Vec<PairSpec>), Len }

#[derive(Clone, Debug, PartialEq)]
struct Case { cap: usize, ops: Vec<Op>, threads: Vec<Op>, sched: Vec<u8> }

struct Keys {
    sk: HashMap<usize, SecretKey>,
    pk: HashMap<usize, PublicKey>,
    h2: HashMap<PairSpec, (Signature, GTElement)>, // hash_to_g2(aug), its pairing with the key
    sigs: HashMap<PairSpec, Signature>,
    junk: Signature,
    off: Signature,
    dummy: GTElement,
    /// aggregate_pairing verdicts on lists with an infinity key (informational, see plain_verdicts)
    inf_pairing: Vec<bool>,
}

impl Keys {
    fn new() -> Self {
        // a point on the curve E2 that is not in the prime-order subgroup: decompress x = n
        let mut off = None;
        for n in 1u8..=255 {
            let mut buf = [0u8; 96];
            buf[0] = 0x80;
            buf[95] = n;
            if let Ok(s) = Signature::from_bytes_unchecked(&buf) {
                if !s.is_valid() { off = Some(s); break; }
            }
        }
        let junk = hash_to_g2(b"junk");
        let dummy = junk.pair(&PublicKey::generator());
        Keys { sk: HashMap::new(), pk: HashMap::new(), h2: HashMap::new(), sigs: HashMap::new(),
               junk, off: off.expect("no off-subgroup G2 point found"), dummy, inf_pairing: vec![] }
    }
    fn pk(&mut self, seed: usize) -> PublicKey {
        if seed == 0 { return PublicKey::default(); }
        if !self.pk.contains_key(&seed) {
            let sk = SecretKey::from_seed(&[seed as u8; 32]);
            self.pk.insert(seed, sk.public_key());
            self.sk.insert(seed, sk);
        }
        self.pk[&seed]
    }
    fn aug(&mut self, p: &PairSpec) -> Vec<u8> {
        let mut v = self.pk(p.0).to_bytes().to_vec();
        v.extend_from_slice(&p.1);
        v
    }
    /// hash_to_g2(pk ‖ msg) and the true pairing e(pk, H(pk ‖ msg)) as the cache computes it
    fn h2gt(&mut self, p: &PairSpec) -> (Signature, GTElement) {
        if !self.h2.contains_key(p) {
            let aug = self.aug(p);
            let h = hash_to_g2(&aug);
            let gt = h.pair(&self.pk(p.0));
            self.h2.insert(p.clone(), (h, gt));
        }
        self.h2[p].clone()
    }
    fn sig(&mut self, spec: &SigSpec) -> Signature {
        match spec {
            SigSpec::Zero => Signature::default(),
            SigSpec::Off => self.off.clone(),
            SigSpec::Terms(ts) => {
                let mut s = Signature::default();
                for t in ts {
                    match t {
                        Term::Junk => s.aggregate(&self.junk.clone()),
                        Term::Sign(seed, m) => {
                            let k = (*seed, m.clone());
                            if !self.sigs.contains_key(&k) {
                                self.pk(*seed);
                                // seed 0 has no secret key: its "signature" is the identity
                                let sg = if *seed == 0 { Signature::default() } else { sign(&self.sk[seed], m) };
                                self.sigs.insert(k.clone(), sg);
                            }
                            s.aggregate(&self.sigs[&k].clone());
                        }
                    }
                }
                s
            }
        }
    }
}

// ---------------------------------------------------------------- line format

fn fmt_pairs(ps: &[PairSpec]) -> String {
    if ps.is_empty() { return "_".into(); }
    ps.iter().map(|(s, m)| format!("{s}.{}", hex::encode(m))).collect::<Vec<_>>().join(",")
}
fn fmt_sig(s: &SigSpec) -> String {
    match s {
        SigSpec::Zero => "0".into(),
        SigSpec::Off => "off".into(),
        SigSpec::Terms(ts) if ts.is_empty() => "0".into(),
        SigSpec::Terms(ts) => ts.iter().map(|t| match t {
            Term::Junk => "junk".to_string(),
            Term::Sign(s, m) => format!("{s}.{}", hex::encode(m)),
        }).collect::<Vec<_>>().join("+"),
    }
}
fn fmt_op(op: &Op) -> String {
    match op {
        Op::Av(ps, s) => format!("av:{}:{}", fmt_pairs(ps), fmt_sig(s)),
        Op::Upd(ps) => format!("upd:{}", fmt_pairs(ps)),
        Op::Ev(ps) => format!("ev:{}", fmt_pairs(ps)),
        Op::Len => "len".into(),
    }
}
fn op_pairs(op: &Op) -> &[PairSpec] {
    match op { Op::Av(ps, _) | Op::Upd(ps) | Op::Ev(ps) => ps, Op::Len => &[] }
}
fn has_infkey(c: &Case) -> bool {
    c.ops.iter().chain(c.threads.iter()).any(|op| matches!(op, Op::Av(ps, _) if ps.iter().any(|p| p.0 == 0)))
}
fn fmt_case(mode: &str, c: &Case, keys: &mut Keys) -> String {
    let mut seeds: Vec<usize> = vec![];
    for op in c.ops.iter().chain(c.threads.iter()) {
        for p in op_pairs(op) { seeds.push(p.0); }
        if let Op::Av(_, SigSpec::Terms(ts)) = op {
            for t in ts { if let Term::Sign(s, _) = t { seeds.push(*s); } }
        }
    }
    seeds.sort_unstable(); seeds.dedup();
    let km = if seeds.is_empty() { "-".to_string() } else {
        seeds.iter().map(|s| format!("{s}:{}", hex::encode(keys.pk(*s).to_bytes()))).collect::<Vec<_>>().join(",")
    };
    let j = |v: &[Op], sep: &str| if v.is_empty() { "-".to_string() } else { v.iter().map(fmt_op).collect::<Vec<_>>().join(sep) };
    let sched = if c.sched.is_empty() { "-".to_string() } else { c.sched.iter().map(|d| d.to_string()).collect() };
    let marker = if mode == "h" && has_infkey(c) { " @infkey" } else { "" };
    format!("C15 {mode} {} {km} {} {} {sched}{marker}", c.cap, j(&c.ops, ";"), j(&c.threads, "|"))
}

fn parse_pairs(s: &str) -> Vec<PairSpec> {
    if s == "_" { return vec![]; }
    s.split(',').map(|t| {
        let (a, b) = t.split_once('.').expect("pair");
        (a.parse().expect("seed"), hex::decode(b).expect("msg hex"))
    }).collect()
}
fn parse_sig(s: &str) -> SigSpec {
    match s {
        "0" => SigSpec::Zero,
        "off" => SigSpec::Off,
        _ => SigSpec::Terms(s.split('+').map(|t| if t == "junk" { Term::Junk } else {
            let p = parse_pairs(t).remove(0); Term::Sign(p.0, p.1) }).collect()),
    }
}
fn parse_op(s: &str) -> Op {
    let f: Vec<&str> = s.split(':').collect();
    match f[0] {
        "av" => Op::Av(parse_pairs(f[1]), parse_sig(f[2])),
        "upd" => Op::Upd(parse_pairs(f[1])),
        "ev" => Op::Ev(parse_pairs(f[1])),
        "len" => Op::Len,
        _ => panic!("bad C15 op {s}"),
    }
}
fn parse_case(line: &str) -> (String, Case) {
    let t: Vec<&str> = line.split_whitespace().collect();
    assert!(t.len() >= 7 && t[0] == "C15", "bad C15 line {line}");
    let ops = |s: &str, sep: char| if s == "-" { vec![] } else { s.split(sep).map(parse_op).collect() };
    let sched = if t[6] == "-" { vec![] } else { t[6].bytes().map(|b| b - b'0').collect() };
    (t[1].to_string(), Case { cap: t[2].parse().expect("cap"), ops: ops(t[4], ';'), threads: ops(t[5], '|'), sched })
}

// ---------------------------------------------------------------- execution on the real code

fn tf(b: bool) -> &'static str { if b { "T" } else { "F" } }

/// all verifiers that do not involve the cache, on one input
fn plain_verdicts(keys: &mut Keys, ps: &[PairSpec], sig: &Signature) -> String {
    let pks: Vec<PublicKey> = ps.iter().map(|p| keys.pk(p.0)).collect();
    let a = aggregate_verify(sig, pks.iter().zip(ps.iter()).map(|(pk, p)| (pk, p.1.as_slice())));
    let v = if ps.len() == 1 { tf(verify(sig, &pks[0], &ps[0].1)) } else { "-" };
    let hg: Vec<(Signature, GTElement)> = ps.iter().map(|p| keys.h2gt(p)).collect();
    let g = aggregate_verify_gt(sig, hg.iter().map(|x| &x.1));
    let mut data: Vec<(PublicKey, Signature)> = pks.iter().zip(hg.iter()).map(|(pk, x)| (*pk, x.0.clone())).collect();
    data.push((-PublicKey::generator(), sig.clone()));
    let p = aggregate_pairing(data);
    // with an infinity key blst's multi-pairing runs a Miller loop on the all-zero affine point; the
    // property does not speak about aggregate_pairing there and the ideal model cannot predict it:
    // reported as an informational suffix only
    let ps_ = if ps.iter().any(|p| p.0 == 0) { keys.inf_pairing.push(p); "-" } else { tf(p) };
    format!("a={},v={v},g={},p={ps_}", tf(a), tf(g))
}

fn cache_verify(cache: &BlsCache, keys: &mut Keys, ps: &[PairSpec], sig: &Signature) -> bool {
    let pks: Vec<PublicKey> = ps.iter().map(|p| keys.pk(p.0)).collect();
    cache.aggregate_verify(pks.iter().zip(ps.iter()).map(|(pk, p)| (pk, p.1.as_slice())), sig)
}

fn evict(cache: &BlsCache, keys: &mut Keys, ps: &[PairSpec]) {
    let pks: Vec<PublicKey> = ps.iter().map(|p| keys.pk(p.0)).collect();
    cache.evict(pks.iter().zip(ps.iter()).map(|(pk, p)| (pk, p.1.as_slice())));
}

fn key_tag(keys: &mut Keys, p: &PairSpec) -> String {
    let mut h = chia_sha2::Sha256::new();
    h.update(keys.aug(p));
    let d: [u8; 32] = h.finalize();
    hex::encode(&d[..4])
}

/// contents of the cache in FIFO order, observed through the public API only (on clones):
/// membership of a candidate = `evict` shortens the clone; order = fill a clone up to its capacity
/// with fresh keys, then every further `update` pops the oldest entry.
fn items(cache: &BlsCache, keys: &mut Keys, cap: usize, universe: &[PairSpec]) -> String {
    let mut members: Vec<PairSpec> = vec![];
    {
        let probe = cache.clone();
        for p in universe {
            let before = probe.len();
            evict(&probe, keys, std::slice::from_ref(p));
            if probe.len() != before { members.push(p.clone()); }
        }
        if probe.len() != 0 { return format!("UNKNOWN-ENTRIES({})", probe.len()); }
    }
    if members.is_empty() { return "-".into(); }
    let d = cache.clone();
    let mut fresh = 0u32;
    let dummy = keys.dummy.clone();
    let mut next = |d: &BlsCache| { fresh += 1; d.update(format!("verif-dummy-{fresh}").as_bytes(), dummy.clone()); };
    while d.len() < cap { next(&d); }
    let mut order: Vec<PairSpec> = vec![];
    let mut remaining = members.clone();
    while !remaining.is_empty() {
        next(&d); // pops the oldest entry, which is a member (the dummies are younger)
        let e = d.clone();
        let mut popped = None;
        for (i, m) in remaining.iter().enumerate() {
            let before = e.len();
            evict(&e, keys, std::slice::from_ref(m));
            if e.len() == before { popped = Some(i); break; }
        }
        match popped {
            Some(i) => order.push(remaining.remove(i)),
            None => return "ORDER-PROBE-FAILED".into(),
        }
    }
    order.iter().map(|p| key_tag(keys, p)).collect::<Vec<_>>().join(",")
}

fn universe(c: &Case) -> Vec<PairSpec> {
    let mut u: Vec<PairSpec> = vec![];
    for op in c.ops.iter().chain(c.threads.iter()) {
        for p in op_pairs(op) { if !u.contains(p) { u.push(p.clone()); } }
    }
    u
}

fn exec(c: &Case, masked: bool, keys: &mut Keys) -> String {
    let Some(cap) = NonZeroUsize::new(c.cap) else { return "nocache".into(); };
    let cache = BlsCache::new(cap);
    keys.inf_pairing.clear();
    let mut outs: Vec<String> = vec![];
    for op in &c.ops {
        let r = catch_unwind(AssertUnwindSafe(|| match op {
            Op::Av(ps, spec) => {
                let sig = keys.sig(spec);
                let cv = cache_verify(&cache, keys, ps, &sig);
                let n = cache.len();
                let cs = if masked && ps.iter().any(|p| p.0 == 0) { "*" } else { tf(cv) };
                format!("c={cs},{},n={n}", plain_verdicts(keys, ps, &sig))
            }
            Op::Upd(ps) => {
                for p in ps { let (aug, gt) = (keys.aug(p), keys.h2gt(p).1); cache.update(&aug, gt); }
                format!("n={}", cache.len())
            }
            Op::Ev(ps) => { evict(&cache, keys, ps); format!("n={}", cache.len()) }
            Op::Len => format!("n={},e={}", cache.len(), tf(cache.is_empty())),
        }));
        outs.push(r.unwrap_or_else(|_| "PANIC".into()));
    }
    let touts = run_threads(c, masked, keys, &cache);
    let j = |v: &[String], sep: &str| if v.is_empty() { "-".to_string() } else { v.join(sep) };
    let fin = catch_unwind(AssertUnwindSafe(|| {
        let u = universe(c);
        format!("n={},items={}", cache.len(), items(&cache, keys, c.cap, &u))
    })).unwrap_or_else(|_| "PANIC".into());
    let note = if keys.inf_pairing.is_empty() { String::new() } else {
        let t = keys.inf_pairing.iter().filter(|b| **b).count();
        format!(" ~aggregate_pairing-with-infinity-key:{}", if t == 0 { "F" } else if t == keys.inf_pairing.len() { "T" } else { "mixed" })
    };
    format!("{} / {} / {fin}{note}", j(&outs, ";"), j(&touts, "|"))
}

// ---------------------------------------------------------------- concurrent calls under a forced schedule

#[cfg(not(feature = "verif-hooks"))]
fn run_threads(c: &Case, _masked: bool, _keys: &mut Keys, _cache: &BlsCache) -> Vec<String> {
    // without the hook no interleaving can be forced: `emit` never produces thread sections
    c.threads.iter().map(|_| "NOHOOK".to_string()).collect()
}

#[cfg(feature = "verif-hooks")]
fn run_threads(c: &Case, masked: bool, keys: &mut Keys, cache: &BlsCache) -> Vec<String> {
    if c.threads.is_empty() { return vec![]; }
    sched::install();
    // everything a thread needs is computed up front; the thread itself only calls BlsCache
    let mut jobs: Vec<Box<dyn FnOnce(&BlsCache) -> String + Send>> = vec![];
    let mut plains: Vec<Option<String>> = vec![];
    for op in &c.threads {
        match op {
            Op::Av(ps, spec) => {
                let sig = keys.sig(spec);
                plains.push(Some(plain_verdicts(keys, ps, &sig)));
                let pks: Vec<PublicKey> = ps.iter().map(|p| keys.pk(p.0)).collect();
                let ps = ps.clone();
                let mask = masked && ps.iter().any(|p| p.0 == 0);
                jobs.push(Box::new(move |cache| {
                    let cv = cache.aggregate_verify(pks.iter().zip(ps.iter()).map(|(pk, p)| (pk, p.1.as_slice())), &sig);
                    (if mask { "*" } else { tf(cv) }).to_string()
                }));
            }
            Op::Upd(ps) => {
                plains.push(None);
                let es: Vec<(Vec<u8>, GTElement)> = ps.iter().map(|p| (keys.aug(p), keys.h2gt(p).1)).collect();
                jobs.push(Box::new(move |cache| { for (aug, gt) in es { cache.update(&aug, gt); } "ok".into() }));
            }
            Op::Ev(ps) => {
                plains.push(None);
                let pks: Vec<PublicKey> = ps.iter().map(|p| keys.pk(p.0)).collect();
                let ps = ps.clone();
                jobs.push(Box::new(move |cache| {
                    cache.evict(pks.iter().zip(ps.iter()).map(|(pk, p)| (pk, p.1.as_slice()))); "ok".into() }));
            }
            Op::Len => { plains.push(None); jobs.push(Box::new(|cache| format!("n={}", cache.len()))); }
        }
    }
    let res = sched::run(cache, jobs, &c.sched);
    res.into_iter().zip(plains).map(|(r, p)| match p { Some(p) => format!("c={r},{p}"), None => r }).collect()
}

#[cfg(feature = "verif-hooks")]
mod sched {
    //! Deterministic scheduler: `chia_bls::LOCK_HOOK` is called immediately before every
    //! acquisition of the cache mutex; a registered worker blocks there until the scheduler grants
    //! it one step.  The scheduler grants the next thread only after the previous one has reached
    //! its next hook (or finished), i.e. after it has released the lock.
    use chia_bls::BlsCache;
    use std::cell::RefCell;
    use std::sync::{Arc, Condvar, Mutex};
    use std::time::{Duration, Instant};

    #[derive(Clone, Copy, PartialEq)]
    enum S { Running, Waiting, Done }
    struct St { status: Vec<S>, grants: Vec<u32>, arrivals: Vec<u64>, free: bool }
    pub struct Ctl { m: Mutex<St>, cv: Condvar }

    thread_local! { static ME: RefCell<Option<(usize, Arc<Ctl>)>> = const { RefCell::new(None) }; }

    fn hook() {
        let me = ME.with(|me| me.borrow().clone());
        let Some((t, ctl)) = me else { return };   // not a scheduled worker (e.g. the main thread)
        let mut st = ctl.m.lock().unwrap();
        st.status[t] = S::Waiting;
        st.arrivals[t] += 1;
        ctl.cv.notify_all();
        while st.grants[t] == 0 && !st.free { st = ctl.cv.wait(st).unwrap(); }
        if st.grants[t] > 0 { st.grants[t] -= 1; }
        st.status[t] = S::Running;
    }

    pub fn install() { *chia_bls::LOCK_HOOK.write().unwrap() = hook; }

    pub fn run(cache: &BlsCache, jobs: Vec<Box<dyn FnOnce(&BlsCache) -> String + Send>>, sched: &[u8]) -> Vec<String> {
        let n = jobs.len();
        let ctl = Arc::new(Ctl { m: Mutex::new(St { status: vec![S::Running; n], grants: vec![0; n], arrivals: vec![0; n], free: false }), cv: Condvar::new() });
        let deadline = Instant::now() + Duration::from_secs(30);
        let mut timed_out = false;
        let results: Vec<String> = std::thread::scope(|sc| {
            let handles: Vec<_> = jobs.into_iter().enumerate().map(|(t, job)| {
                let ctl = ctl.clone();
                sc.spawn(move || {
                    ME.with(|me| *me.borrow_mut() = Some((t, ctl.clone())));
                    let r = std::panic::catch_unwind(std::panic::AssertUnwindSafe(|| job(cache))).unwrap_or_else(|_| "PANIC".into());
                    ME.with(|me| *me.borrow_mut() = None);
                    let mut st = ctl.m.lock().unwrap();
                    st.status[t] = S::Done;
                    ctl.cv.notify_all();
                    r
                })
            }).collect();
            // wait until `pred` holds (or the deadline passes)
            let wait = |pred: &dyn Fn(&St) -> bool, timed_out: &mut bool| {
                let mut st = ctl.m.lock().unwrap();
                while !pred(&st) {
                    if Instant::now() > deadline { *timed_out = true; st.free = true; ctl.cv.notify_all(); return; }
                    st = ctl.cv.wait_timeout(st, Duration::from_millis(50)).unwrap().0;
                }
            };
            // every thread at its first lock acquisition (or already finished)
            wait(&|st| st.status.iter().all(|s| *s != S::Running), &mut timed_out);
            let grant = |t: usize, timed_out: &mut bool| {
                let a = {
                    let mut st = ctl.m.lock().unwrap();
                    if st.status[t] == S::Done { return; }
                    st.grants[t] += 1;
                    ctl.cv.notify_all();
                    st.arrivals[t]
                };
                wait(&|st| st.status[t] == S::Done || (st.arrivals[t] > a && st.status[t] == S::Waiting), timed_out);
            };
            for &d in sched {
                let t = d as usize;
                if t < n && !timed_out { grant(t, &mut timed_out); }
            }
            // let the remaining calls finish one after the other, in thread order
            for t in 0..n {
                loop {
                    if timed_out || ctl.m.lock().unwrap().status[t] == S::Done { break; }
                    grant(t, &mut timed_out);
                }
            }
            handles.into_iter().map(|h| h.join().unwrap_or_else(|_| "PANIC".into())).collect()
        });
        if timed_out { results.into_iter().map(|_| "SCHED-TIMEOUT".to_string()).collect() } else { results }
    }
}

// ---------------------------------------------------------------- emission

/// without the hook the thread section cannot be executed: append it to the sequential prefix
fn degrade(c: &Case) -> Case {
    if HOOKS || c.threads.is_empty() { return c.clone(); }
    let mut ops = c.ops.clone();
    ops.extend(c.threads.iter().cloned());
    Case { cap: c.cap, ops, threads: vec![], sched: vec![] }
}

fn emit_mode(o: &mut Out, mode: &str, c: &Case, keys: &mut Keys) {
    let c = degrade(c);
    let line = fmt_case(mode, &c, keys);
    let out = exec(&c, mode == "hm", keys);
    o.case(&line, &out);
}

/// the history, and — when an `av` has an infinity key — the same history once more in mode `hm`
/// (cache verdict of those `av`s not compared), so that the known finding cannot hide a second defect
fn emit(o: &mut Out, c: &Case, keys: &mut Keys) {
    emit_mode(o, "h", c, keys);
    if has_infkey(c) { emit_mode(o, "hm", c, keys); }
}

fn replay_line(o: &mut Out, l: &str, keys: &mut Keys) {
    let (mode, c) = parse_case(l);
    emit_mode(o, if mode == "hm" { "hm" } else { "h" }, &c, keys);
}

// ---------------------------------------------------------------- generators

fn msgs() -> Vec<Vec<u8>> {
    vec![vec![], vec![0x61], b"hello".to_vec(), vec![0u8; 32], vec![0x6a; 32], (0..100u8).collect()]
}

fn gen_pairs(r: &mut Rng, k: usize, inf_pct: u64, nseeds: u64, pool: &[Vec<u8>]) -> Vec<PairSpec> {
    (0..k).map(|_| {
        let seed = if r.chance(inf_pct, 100) { 0 } else { r.range(1, nseeds) as usize };
        (seed, r.pick(pool).clone())
    }).collect()
}

fn honest_terms(ps: &[PairSpec]) -> Vec<Term> {
    ps.iter().filter(|p| p.0 != 0).map(|p| Term::Sign(p.0, p.1.clone())).collect()
}

/// valid / tampered signatures about 50/50
fn gen_sig(r: &mut Rng, ps: &[PairSpec], nseeds: u64, pool: &[Vec<u8>]) -> SigSpec {
    let mut t = honest_terms(ps);
    if r.chance(1, 2) { return SigSpec::Terms(t); }
    match r.below(8) {
        0 => { t.push(Term::Junk); SigSpec::Terms(t) }
        1 => { t.push(Term::Sign(r.range(1, nseeds) as usize, r.pick(pool).clone())); SigSpec::Terms(t) }   // extra pair
        2 => { if !t.is_empty() { let i = r.below(t.len() as u64) as usize; t.remove(i); } else { t.push(Term::Junk); } SigSpec::Terms(t) } // missing pair
        3 => SigSpec::Zero,
        4 => SigSpec::Off,
        5 => { // right key, wrong message
            if let Some(Term::Sign(_, m)) = t.first_mut() { m.push(0x21); } else { t.push(Term::Junk); }
            SigSpec::Terms(t) }
        6 => { // right message, wrong key
            if let Some(Term::Sign(s, _)) = t.first_mut() { *s = *s % (nseeds as usize) + 1; } else { t.push(Term::Junk); }
            SigSpec::Terms(t) }
        _ => { if let Some(x) = t.first().cloned() { t.push(x); } else { t.push(Term::Junk); } SigSpec::Terms(t) } // one signature twice
    }
}

fn gen_op(r: &mut Rng, inf_pct: u64, nseeds: u64, pool: &[Vec<u8>]) -> Op {
    match r.below(100) {
        0..=59 => {
            let k = *r.pick(&[0usize, 1, 1, 2, 2, 2, 3, 3, 4, 5]);
            let ps = gen_pairs(r, k, inf_pct, nseeds, pool);
            let sig = gen_sig(r, &ps, nseeds, pool);
            Op::Av(ps, sig)
        }
        60..=71 => { let k = r.range(1, 3) as usize; Op::Upd(gen_pairs(r, k, inf_pct / 2, nseeds, pool)) }
        72..=85 => { let k = r.range(0, 3) as usize; Op::Ev(gen_pairs(r, k, inf_pct / 2, nseeds, pool)) }
        _ => Op::Len,
    }
}

fn gen_history(r: &mut Rng) -> Case {
    let all = msgs();
    let npool = r.range(1, all.len() as u64) as usize;
    let pool: Vec<Vec<u8>> = all[..npool].to_vec();
    let nseeds = r.range(1, 4);
    let inf_pct = *r.pick(&[0u64, 0, 0, 10, 25]);
    let cap = *r.pick(&[0usize, 1, 1, 1, 2, 2, 2, 3, 3, 3, 50, 50, 50, 50]);
    let nops = r.range(1, 25) as usize;
    let ops = (0..nops).map(|_| gen_op(r, inf_pct, nseeds, &pool)).collect();
    Case { cap, ops, threads: vec![], sched: vec![] }
}

/// two or three concurrent calls after a short sequential prefix, random schedule
fn gen_concurrent(r: &mut Rng) -> Case {
    let all = msgs();
    let pool: Vec<Vec<u8>> = all[..r.range(1, 3) as usize].to_vec();
    let nseeds = r.range(1, 3);
    let inf_pct = *r.pick(&[0u64, 0, 0, 15]);
    let cap = *r.pick(&[1usize, 1, 2, 2, 3, 50]);
    let ops = (0..r.below(4)).map(|_| gen_op(r, inf_pct, nseeds, &pool)).collect();
    let nt = r.range(2, 3) as usize;
    let threads: Vec<Op> = (0..nt).map(|i| if i < 2 || r.chance(1, 2) {
        let k = r.range(1, 3) as usize;
        let ps = gen_pairs(r, k, inf_pct, nseeds, &pool);
        let sig = gen_sig(r, &ps, nseeds, &pool);
        Op::Av(ps, sig)
    } else { gen_op(r, inf_pct, nseeds, &pool) }).collect();
    let len = r.range(0, 14) as usize;
    let sched = (0..len).map(|_| r.below(nt as u64) as u8).collect();
    Case { cap, ops, threads, sched }
}

/// all interleavings of two sequences of `n` steps each (as digit strings of n zeros and n ones)
fn interleavings(n: usize) -> Vec<Vec<u8>> {
    fn go(a: usize, b: usize, cur: &mut Vec<u8>, out: &mut Vec<Vec<u8>>) {
        if a == 0 && b == 0 { out.push(cur.clone()); return; }
        if a > 0 { cur.push(0); go(a - 1, b, cur, out); cur.pop(); }
        if b > 0 { cur.push(1); go(a, b - 1, cur, out); cur.pop(); }
    }
    let mut out = vec![];
    go(n, n, &mut vec![], &mut out);
    out
}

pub fn run(o: &mut Out, seed: u64, thorough: bool, replay: Option<Vec<String>>) {
    let mut keys = Keys::new();
    if let Some(lines) = replay {
        for l in lines { replay_line(o, &l, &mut keys); }
        return;
    }
    // corpus first (minimised past disagreements and hand-picked boundary cases)
    for l in CORPUS.lines() {
        let l = l.trim();
        if l.is_empty() || l.starts_with('#') { continue; }
        let (mode, c) = parse_case(l);
        if mode == "hm" { emit_mode(o, "hm", &c, &mut keys); } else { emit(o, &c, &mut keys); }
    }
    let mut r = Rng::new(seed);
    let m = b"hello".to_vec();
    // capacity 0 cannot be constructed
    emit(o, &Case { cap: 0, ops: vec![Op::Len], threads: vec![], sched: vec![] }, &mut keys);
    // exhaustive: 0..5 pairs, the infinity key at each position (or nowhere), honest signature over
    // the remaining pairs / the default signature, capacities 1, 2, 3, 50
    for cap in [1usize, 2, 3, 50] {
        for k in 0..=5usize {
            for infpos in 0..=k {            // infpos == k: no infinity key
                for same_msg in [false, true] {
                    if k == 0 && same_msg { continue; }
                    let ps: Vec<PairSpec> = (0..k).map(|i| {
                        let seed = if i == infpos { 0 } else { 1 + i % 3 };
                        (seed, if same_msg { m.clone() } else { vec![i as u8; i] })
                    }).collect();
                    for sig in [SigSpec::Terms(honest_terms(&ps)), SigSpec::Zero] {
                        if cap != 2 && matches!(sig, SigSpec::Zero) && k > 1 { continue; }
                        let av = Op::Av(ps.clone(), sig);
                        emit(o, &Case { cap, ops: vec![av.clone(), av, Op::Len], threads: vec![], sched: vec![] }, &mut keys);
                    }
                }
            }
        }
    }
    // random histories of 1..25 ops
    let n = if thorough { 6000 } else { 500 };
    for _ in 0..n { let c = gen_history(&mut r); emit(o, &c, &mut keys); }
    // concurrent calls under random schedules (sequentialised when the hook is absent)
    let n = if thorough { 3000 } else { 250 };
    for _ in 0..n { let c = gen_concurrent(&mut r); emit(o, &c, &mut keys); }
    // all interleavings of two 2-pair verifications (at most 4 lock acquisitions each) on a cache of
    // capacity 1/2/3: disjoint pairs, one shared pair, identical lists, with and without a warm entry
    let p = |s: usize, b: u8| -> PairSpec { (s, vec![b]) };
    let lists: Vec<(Vec<PairSpec>, Vec<PairSpec>)> = vec![
        (vec![p(1, 1), p(2, 2)], vec![p(1, 3), p(2, 4)]),
        (vec![p(1, 1), p(2, 2)], vec![p(2, 2), p(1, 3)]),
        (vec![p(1, 1), p(2, 2)], vec![p(1, 1), p(2, 2)]),
        (vec![p(1, 1), p(1, 1)], vec![p(2, 2), p(1, 1)]),
        (vec![p(1, 1), p(0, 2)], vec![p(0, 2), p(1, 1)]),
    ];
    let scheds = interleavings(4);
    let caps: &[usize] = if thorough || HOOKS { &[1, 2, 3] } else { &[2] };
    for cap in caps {
        for (la, lb) in &lists {
            for warm in [false, true] {
                if !thorough && warm && !HOOKS { continue; }
                let ops = if warm { vec![Op::Upd(vec![la[0].clone()])] } else { vec![] };
                for (si, s) in scheds.iter().enumerate() {
                    if !HOOKS && si > 1 { continue; }      // sequentialised: the schedule is irrelevant
                    if !thorough && si % 5 > 1 { continue; }
                    let ta = Op::Av(la.clone(), SigSpec::Terms(honest_terms(la)));
                    let tb = Op::Av(lb.clone(), if si % 2 == 0 { SigSpec::Terms(honest_terms(lb)) } else { SigSpec::Terms(honest_terms(la)) });
                    emit(o, &Case { cap: *cap, ops: ops.clone(), threads: vec![ta, tb], sched: s.clone() }, &mut keys);
                }
            }
        }
    }
}
