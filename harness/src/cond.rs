//! C01 (and the families built on it): generated generator-output trees through `parse_spends`.
use crate::out::{hx, Out};
use crate::prng::Rng;
use chia_bls::{PublicKey, SecretKey, Signature};
use chia_consensus::conditions::{parse_spends, EmptyVisitor, MempoolVisitor, SpendBundleConditions};
use chia_consensus::consensus_constants::TEST_CONSTANTS;
use chia_consensus::flags::ConsensusFlags;
use chia_consensus::owned_conditions::{OwnedSpendBundleConditions, OwnedSpendConditions};
use chia_consensus::validation_error::{ErrorCode, ValidationErr};
use chia_protocol::Bytes;
use chia_sha2::Sha256;
use clvmr::allocator::{Allocator, NodePtr, SExp};
use clvmr::serde::{node_from_bytes, node_to_bytes};

/// trees as values
#[derive(Clone, Debug, PartialEq)]
pub enum T {
    A(Vec<u8>),
    P(Box<T>, Box<T>),
}
pub fn nil() -> T { T::A(vec![]) }
pub fn at<B: AsRef<[u8]> + ?Sized>(b: &B) -> T { T::A(b.as_ref().to_vec()) }
pub fn pair(l: T, r: T) -> T { T::P(Box::new(l), Box::new(r)) }
pub fn list(items: Vec<T>, term: T) -> T {
    let mut r = term;
    for i in items.into_iter().rev() { r = pair(i, r); }
    r
}
pub fn int(v: u64) -> T {
    // canonical CLVM integer, written independently of the code under test
    if v == 0 { return nil(); }
    let mut b = v.to_be_bytes().to_vec();
    while b.len() > 1 && b[0] == 0 && b[1] < 0x80 { b.remove(0); }
    if b[0] >= 0x80 { b.insert(0, 0); }
    T::A(b)
}
pub fn ser(t: &T, out: &mut Vec<u8>) {
    match t {
        T::P(l, r) => { out.push(0xff); ser(l, out); ser(r, out); }
        T::A(b) => {
            let n = b.len();
            if n == 0 { out.push(0x80); }
            else if n == 1 && b[0] < 0x80 { out.push(b[0]); }
            else if n < 0x40 { out.push(0x80 | n as u8); out.extend(b); }
            else if n < 0x2000 { out.push(0xc0 | (n >> 8) as u8); out.push(n as u8); out.extend(b); }
            else { out.push(0xe0 | (n >> 16) as u8); out.push((n >> 8) as u8); out.push(n as u8); out.extend(b); }
        }
    }
}
pub fn to_bytes(t: &T) -> Vec<u8> { let mut v = vec![]; ser(t, &mut v); v }

pub fn tree_hash_t(t: &T) -> [u8; 32] {
    match t { T::A(b) => sha(&[&[1u8], b]), T::P(l, r) => sha(&[&[2u8], &tree_hash_t(l), &tree_hash_t(r)]) }
}

pub fn sha(parts: &[&[u8]]) -> [u8; 32] {
    let mut h = Sha256::new();
    for p in parts { h.update(p); }
    h.finalize()
}

pub const F_DONT_VALIDATE: u32 = 0x1_0000;
pub const F_NO_UNKNOWN: u32 = 0x2_0000;
pub const F_STRICT: u32 = 0x8_0000;
pub const F_COST: u32 = 0x80_0000;
pub const F_LIMIT: u32 = 0x200_0000;

fn opt<TT: ToString>(o: &Option<TT>) -> String { o.as_ref().map_or("-".to_string(), |v| v.to_string()) }
fn pairs(l: &[(PublicKey, Bytes)]) -> String {
    let v: Vec<String> = l.iter().map(|(k, m)| format!("{}:{}", hex::encode(k.to_bytes()), hx(m.as_ref()))).collect();
    format!("[{}]", v.join(","))
}
pub fn spend_s(s: &OwnedSpendConditions) -> String {
    let mut cc: Vec<String> = s.create_coin.iter().map(|(ph, amt, hint)| {
        format!("{}:{}:{}", hex::encode(ph), amt, hint.as_ref().map_or("-".to_string(), |h| hex::encode(h.as_ref())))
    }).collect();
    cc.sort();
    format!("id={} p={} ph={} amt={} hr={} sr={} bhr={} bsr={} bh={} bs={} cc=[{}] me={} par={} puz={} amo={} pza={} pra={} prp={} fl={} ccost={} ecost={}",
        hex::encode(s.coin_id), hex::encode(s.parent_id), hex::encode(s.puzzle_hash), s.coin_amount,
        opt(&s.height_relative), opt(&s.seconds_relative), opt(&s.before_height_relative), opt(&s.before_seconds_relative),
        opt(&s.birth_height), opt(&s.birth_seconds), cc.join("|"), pairs(&s.agg_sig_me), pairs(&s.agg_sig_parent),
        pairs(&s.agg_sig_puzzle), pairs(&s.agg_sig_amount), pairs(&s.agg_sig_puzzle_amount), pairs(&s.agg_sig_parent_amount),
        pairs(&s.agg_sig_parent_puzzle), s.flags, s.condition_cost, s.execution_cost)
}
pub fn bundle_s(b: &OwnedSpendBundleConditions) -> String {
    let sp: Vec<String> = b.spends.iter().map(spend_s).collect();
    format!("OK cost={} cc={} ec={} fee={} ha={} sa={} bha={} bsa={} rem={} add={} vs={} unsafe={} spends=[{}]",
        b.cost, b.condition_cost, b.execution_cost, b.reserve_fee, b.height_absolute, b.seconds_absolute,
        opt(&b.before_height_absolute), opt(&b.before_seconds_absolute), b.removal_amount, b.addition_amount,
        b.validated_signature as u8, pairs(&b.agg_sig_unsafe), sp.join(";"))
}
pub fn err_s(e: &ValidationErr) -> String {
    // the error kind after `~` is informational; only cost-exceeded is an observable the properties speak of
    if e.error_code() == ErrorCode::CostExceeded { "REJECT cost".to_string() } else { format!("REJECT ~{:?}", e.error_code()) }
}

/// every 48-byte atom of the tree that blst accepts as a valid non-infinity key
pub fn valid_pks(t: &T, out: &mut Vec<Vec<u8>>) {
    match t {
        T::P(l, r) => { valid_pks(l, out); valid_pks(r, out); }
        T::A(b) => if b.len() == 48 && !out.contains(b) {
            if let Ok(k) = PublicKey::from_bytes(b.as_slice().try_into().unwrap()) { if !k.is_inf() { out.push(b.clone()); } }
        }
    }
}

pub fn run_parse_owned(mempool: bool, flags: u32, max_cost: u64, clvm_cost: u64, tree_bytes: &[u8]) -> Result<Result<OwnedSpendBundleConditions, ValidationErr>, String> {
    let mut a = Allocator::new();
    let n = node_from_bytes(&mut a, tree_bytes).map_err(|e| format!("bad-tree {e:?}"))?;
    let f = ConsensusFlags::from_bits_retain(flags);
    let sig = Signature::default();
    let r: Result<SpendBundleConditions, ValidationErr> = if mempool {
        parse_spends::<MempoolVisitor>(&a, n, max_cost, clvm_cost, f, &sig, None, &TEST_CONSTANTS)
    } else {
        parse_spends::<EmptyVisitor>(&a, n, max_cost, clvm_cost, f, &sig, None, &TEST_CONSTANTS)
    };
    Ok(r.map(|c| OwnedSpendBundleConditions::from(&a, c)))
}

pub fn run_parse(mempool: bool, flags: u32, max_cost: u64, clvm_cost: u64, tree_bytes: &[u8]) -> Result<String, String> {
    Ok(match run_parse_owned(mempool, flags, max_cost, clvm_cost, tree_bytes)? {
        Ok(c) => {
            let mut s = bundle_s(&c);
            if let Some(w) = direct_c02(&c) { s.push_str(" !DIRECT:"); s.push_str(w); }
            s
        }
        Err(e) => err_s(&e),
    })
}

/// C02 asserted directly on an accepted implementation result (no model needed): returns what fails
pub fn direct_c02(c: &OwnedSpendBundleConditions) -> Option<&'static str> {
    let rem: u128 = c.spends.iter().map(|s| s.coin_amount as u128).sum();
    let add: u128 = c.spends.iter().map(|s| s.create_coin.iter().map(|x| x.1 as u128).sum::<u128>()).sum();
    if rem != c.removal_amount { return Some("removal-total"); }
    if add != c.addition_amount { return Some("addition-total"); }
    if add + c.reserve_fee as u128 > rem { return Some("conservation"); }
    let mut ids: Vec<[u8; 32]> = c.spends.iter().map(|s| s.coin_id.to_bytes()).collect();
    ids.sort(); let n = ids.len(); ids.dedup();
    if ids.len() != n { return Some("double-spend"); }
    for s in &c.spends {
        let mut k: Vec<(Vec<u8>, u64)> = s.create_coin.iter().map(|x| (x.0.to_vec(), x.1)).collect();
        k.sort(); let n = k.len(); k.dedup();
        if k.len() != n { return Some("duplicate-output"); }
        let T::A(amt) = int(s.coin_amount) else { unreachable!() };
        if sha(&[s.parent_id.as_ref(), s.puzzle_hash.as_ref(), &amt]) != s.coin_id.to_bytes() { return Some("coin-id"); }
    }
    let cc: u64 = c.spends.iter().map(|s| s.condition_cost).sum();
    if cc != c.condition_cost { return Some("condition-cost-sum"); }
    None
}

pub fn case(o: &mut Out, mempool: bool, flags: u32, max_cost: u64, clvm_cost: u64, t: &T) {
    let bytes = to_bytes(t);
    let mut pks = vec![];
    valid_pks(t, &mut pks);
    let pk_s = if pks.is_empty() { "-".to_string() } else { pks.iter().map(hex::encode).collect::<Vec<_>>().join(",") };
    let line = format!("C01 {} {} {} {} {} {}", if mempool { "m" } else { "e" }, flags, max_cost, clvm_cost, pk_s, hex::encode(&bytes));
    o.begin(&line);
    let r = std::panic::catch_unwind(|| run_parse(mempool, flags, max_cost, clvm_cost, &bytes));
    let res = match r { Ok(Ok(s)) => s, Ok(Err(s)) => s, Err(_) => "PANIC".to_string() };
    o.case(&line, &res);
}

// ---------------------------------------------------------------------------------------------
// generator

pub struct Pools {
    pub ids: Vec<[u8; 32]>,
    pub pks: Vec<Vec<u8>>,       // valid keys
    pub bad_pks: Vec<Vec<u8>>,   // infinity, not-on-curve
    pub amounts: Vec<u64>,
    pub msgs: Vec<Vec<u8>>,
}
pub fn pools() -> Pools {
    let ids = (0..6u8).map(|i| { let mut x = [0x10 + i; 32]; x[31] = i; x[0] = i.wrapping_mul(0x33); x }).collect();
    let pks = (1..4u8).map(|i| SecretKey::from_seed(&[i; 32]).public_key().to_bytes().to_vec()).collect();
    let mut inf = vec![0u8; 48]; inf[0] = 0xc0;
    let bad_pks = vec![inf, vec![0x12; 48], vec![0xff; 48]];
    let amounts = vec![0, 1, 2, 3, 0x7f, 0x80, 0xff, 0x100, 1000, 1001, 0x7fff, 0x8000, 0xffff_ffff, 0x1_0000_0000,
        0x7fff_ffff_ffff_ffff, 0x8000_0000_0000_0000, u64::MAX - 1, u64::MAX];
    let mut msgs: Vec<Vec<u8>> = vec![vec![], vec![1], b"hello".to_vec(), vec![0x80; 32], vec![7; 1024], vec![9; 33]];
    // messages ending in a domain-separation constant (AGG_SIG_UNSAFE suffix ban)
    let mut m = b"x".to_vec(); m.extend(TEST_CONSTANTS.agg_sig_me_additional_data.as_ref()); msgs.push(m);
    msgs.push(TEST_CONSTANTS.agg_sig_parent_puzzle_additional_data.as_ref().to_vec());
    let mut m = vec![1, 2, 3]; m.extend(TEST_CONSTANTS.agg_sig_amount_additional_data.as_ref()); msgs.push(m);
    Pools { ids, pks, bad_pks, amounts, msgs }
}

#[derive(Clone)]
pub struct SpendG { pub parent: [u8; 32], pub ph: [u8; 32], pub amount: u64, pub conds: Vec<T>, pub term: T }
impl SpendG {
    pub fn coin_id(&self) -> [u8; 32] {
        let T::A(amt) = int(self.amount) else { unreachable!() };
        sha(&[&self.parent, &self.ph, &amt])
    }
    pub fn tree(&self, r: &mut Rng) -> T {
        let conds = list(self.conds.clone(), self.term.clone());
        // (parent puzzle-hash amount conditions . extra): anything may follow the condition list
        let ext = match r.below(24) { 0 => at(&[1]), 1 => pair(at(&[5]), nil()), _ => nil() };
        list(vec![at(&self.parent), at(&self.ph), int(self.amount), conds], ext)
    }
}

/// integer atom from the boundary pool, including non-canonical and out-of-range shapes
fn int_arg(r: &mut Rng, wide: bool) -> T {
    let c = r.below(100);
    if c < 55 {
        let pool: &[u64] = if wide { &[0, 1, 2, 100, 1000, 0x7f, 0x80, 0xffff, 0xffff_fffe, 0xffff_ffff, 0x1_0000_0000, 0x7fff_ffff_ffff_ffff, 0x8000_0000_0000_0000, u64::MAX] }
            else { &[0, 1, 2, 5, 10, 100, 1000, 0x7f, 0x80, 0xffff_fffe, 0xffff_ffff] };
        int(*r.pick(pool))
    } else if c < 70 { int(r.below(20)) }
    else if c < 76 { at(&[0x80]) }                       // -128
    else if c < 80 { at(&[0xff]) }                       // -1
    else if c < 83 { at(&[0x00]) }                       // redundant zero
    else if c < 84 { at(&[0x00, 0x01]) }                 // redundant zero
    else if c < 85 { at(&[0x00, 0x7f]) }                 // redundant zero, largest second byte
    else if c < 86 { at(&[0x00, 0x7f, 0xff]) }
    else if c < 89 { at(&[0x00, 0x80]) }                 // 128, canonical
    else if c < 92 { at(&[1, 0, 0, 0, 0]) }              // 2^32
    else if c < 95 { at(&[1, 0, 0, 0, 0, 0, 0, 0, 0]) }  // 2^64
    else if c < 97 { at(&[0, 0xff, 0xff, 0xff, 0xff, 0xff, 0xff, 0xff, 0xff]) } // u64::MAX
    else if c < 98 { pair(int(1), nil()) }
    else { let n = r.range(1, 10) as usize; at(&r.bytes(n)) }
}

fn hash_arg(r: &mut Rng, p: &Pools) -> T {
    let c = r.below(100);
    if c < 90 { at(r.pick(&p.ids)) } else if c < 93 { at(&[3; 31]) } else if c < 96 { at(&[3; 33]) } else if c < 98 { nil() } else { pair(at(r.pick(&p.ids)), nil()) }
}

/// wrap arguments as a condition, with occasional list-shape damage
macro_rules! cond { ($r:expr, $op:expr, $args:expr) => {{ let a_ = $args; let o_ = $op; cond_fn($r, o_, a_) }} }
fn cond_fn(r: &mut Rng, op: T, mut args: Vec<T>) -> T {
    let c = r.below(100);
    let mut term = nil();
    if c < 6 { args.push(int(r.below(3))); }                 // extra argument
    else if c < 10 && !args.is_empty() { args.pop(); }        // missing last argument
    else if c < 14 { term = at(&[1]); }                       // non-nil terminator
    else if c < 16 { args.push(pair(nil(), nil())); }
    pair(op, list(args, term))
}

pub fn gen_cond(r: &mut Rng, p: &Pools, me: &SpendG, all: &[SpendG]) -> T {
    let ops: [u8; 35] = [1, 43, 44, 45, 46, 47, 48, 49, 50, 51, 52, 60, 61, 62, 63, 64, 65, 66, 67, 70, 71, 72, 73, 74, 75, 76, 80, 81, 82, 83, 84, 85, 86, 87, 90];
    let c = r.below(100);
    if c < 4 {
        // unknown / odd opcodes
        let op = match r.below(8) { 0 => at(&[2]), 1 => at(&[0, 51]), 2 => at(&[1, r.next() as u8]), 3 => at(&[0xff, r.next() as u8]),
            4 => nil(), 5 => pair(at(&[51]), nil()), 6 => at(&[0, 0, 51]), _ => at(&[r.next() as u8]) };
        return cond!(r, op, vec![int_arg(r, true)]);
    }
    if c < 6 { return if r.chance(1, 2) { at(&[51]) } else { pair(at(&[1]), at(&[7])) }; } // atom as condition / improper args
    let op = *r.pick(&ops);
    let opn = at(&[op]);
    let other = r.pick(all);
    match op {
        43..=50 => {
            let pk = if r.chance(9, 10) { at(r.pick(&p.pks)) } else if r.chance(2, 3) { at(r.pick(&p.bad_pks)) } else { at(&[1; 47]) };
            let msg = if r.chance(1, 30) { at(&vec![1; 1025]) } else { at(r.pick(&p.msgs)) };
            cond!(r, opn, vec![pk, msg])
        }
        51 => {
            let ph = hash_arg(r, p);
            let amt = if r.chance(3, 4) { int(*r.pick(&[0u64, 1, 2, 3, 1000, 1001])) } else { int_arg(r, true) };
            let mut args = vec![ph, amt];
            match r.below(10) {
                0 => args.push(nil()),
                1 => args.push(pair(nil(), nil())),                                   // (())  empty first memo
                2 => args.push(list(vec![at(r.pick(&p.ids))], nil())),                // ((hint))
                3 => args.push(list(vec![at(&[4; 33])], nil())),                      // 33-byte hint
                4 => args.push(list(vec![at(b"hi"), at(b"more")], nil())),
                5 => args.push(list(vec![pair(at(b"a"), nil())], nil())),             // pair as first memo
                6 => args.push(at(r.pick(&p.ids))),                                   // memo not a list
                7 => { args.push(list(vec![at(r.pick(&p.ids))], nil())); args.push(nil()); }
                _ => {}
            }
            cond!(r, opn, args)
        }
        52 | 73 => cond!(r, opn, vec![if r.chance(1, 2) { int(me.amount) } else { int_arg(r, true) }]),
        60 | 62 => cond!(r, opn, vec![at(r.pick(&p.msgs))]),
        61 => { // assert coin announcement: usually one that some spend could have made
            let m: &Vec<u8> = r.pick(&p.msgs); let id = sha(&[&other.coin_id(), m]);
            cond!(r, opn, vec![if r.chance(5, 6) { at(&id) } else { hash_arg(r, p) }])
        }
        63 => {
            let m: &Vec<u8> = r.pick(&p.msgs); let id = sha(&[&other.ph, m]);
            cond!(r, opn, vec![if r.chance(5, 6) { at(&id) } else { hash_arg(r, p) }])
        }
        64 => cond!(r, opn, vec![if r.chance(3, 4) { at(&other.coin_id()) } else { hash_arg(r, p) }]),
        65 => cond!(r, opn, vec![if r.chance(3, 4) { at(&other.ph) } else { hash_arg(r, p) }]),
        66 | 67 => {
            // mode: 6 bits; sender's own side (mode>>3), receiver's side (mode&7)
            let mode = if r.chance(1, 15) { int_arg(r, false) } else { int(r.below(64)) };
            let m = match &mode { T::A(b) if b.len() == 1 && b[0] < 64 => b[0], T::A(b) if b.is_empty() => 0, _ => 0 };
            let theirs = if op == 66 { m & 7 } else { (m >> 3) & 7 };
            let mut args = vec![mode, at(r.pick(&p.msgs))];
            let tgt = if r.chance(1, 3) { me } else { other };
            if theirs == 7 { args.push(at(&tgt.coin_id())); } else {
                if theirs & 4 != 0 { args.push(at(&tgt.parent)); }
                if theirs & 2 != 0 { args.push(at(&tgt.ph)); }
                if theirs & 1 != 0 { args.push(if r.chance(9, 10) { int(tgt.amount) } else { int_arg(r, true) }); }
            }
            cond!(r, opn, args)
        }
        70 => cond!(r, opn, vec![if r.chance(3, 4) { at(&me.coin_id()) } else { hash_arg(r, p) }]),
        71 => cond!(r, opn, vec![if r.chance(3, 4) { at(&me.parent) } else { hash_arg(r, p) }]),
        72 => cond!(r, opn, vec![if r.chance(3, 4) { at(&me.ph) } else { hash_arg(r, p) }]),
        76 => if r.chance(4, 5) { pair(opn, nil()) } else { cond!(r, opn, vec![]) },
        74 | 80 | 81 | 84 | 85 => cond!(r, opn, vec![int_arg(r, true)]),
        75 | 82 | 83 | 86 | 87 | 90 => cond!(r, opn, vec![int_arg(r, false)]),
        _ => cond!(r, opn, vec![int_arg(r, true), at(b"remark")]),
    }
}

/// a bundle with cross-spend structure: matching announcements, messages, ephemeral coins
pub fn gen_bundle(r: &mut Rng, p: &Pools) -> Vec<SpendG> { gen_bundle_ph(r, p, None) }

/// like `gen_bundle`, optionally with every spend's puzzle hash fixed (generator paths: ph = hash of the revealed puzzle)
pub fn gen_bundle_ph(r: &mut Rng, p: &Pools, fixed_ph: Option<[u8; 32]>) -> Vec<SpendG> {
    let n = match r.below(20) { 0 => 0, 1..=8 => 1, 9..=14 => 2, 15..=17 => 3, _ => r.range(4, 6) } as usize;
    let mut sp: Vec<SpendG> = vec![];
    for i in 0..n {
        let amount = if r.chance(2, 3) { *r.pick(&[0u64, 1, 2, 3, 1000, 1001]) } else { *r.pick(&p.amounts) };
        let mut s = SpendG { parent: *r.pick(&p.ids), ph: fixed_ph.unwrap_or(*r.pick(&p.ids)), amount, conds: vec![], term: nil() };
        if i > 0 && r.chance(1, 4) { let j = r.below(i as u64) as usize; s.parent = sp[j].coin_id(); } // maybe ephemeral
        if i > 0 && r.chance(1, 25) { s = sp[r.below(i as u64) as usize].clone(); s.conds.clear(); }   // double spend
        sp.push(s);
    }
    let snapshot = sp.clone();
    for i in 0..n {
        let k = match r.below(10) { 0 => 0, 1..=4 => r.range(1, 3), 5..=8 => r.range(3, 7), _ => r.range(8, 14) };
        for _ in 0..k { let c = gen_cond(r, p, &snapshot[i], &snapshot); sp[i].conds.push(c); }
        if r.chance(1, 40) { sp[i].term = at(&[1]); }
    }
    // engineered matches
    for i in 0..n {
        // parent creates the ephemeral child
        for j in 0..n { if sp[j].parent == snapshot[i].coin_id() && r.chance(4, 5) {
            let c = pair(at(&[51]), list(vec![at(&sp[j].ph), int(sp[j].amount)], nil())); sp[i].conds.push(c);
            if r.chance(1, 2) { sp[j].conds.push(pair(at(&[76]), nil())); }
            // often the parent also re-creates itself (same puzzle hash and amount): with an odd amount it is then
            // fast-forward eligible unless one of its OTHER outputs is spent in the bundle, as here
            if r.chance(1, 2) { let me = pair(at(&[51]), list(vec![at(&snapshot[i].ph), int(snapshot[i].amount)], nil())); sp[i].conds.push(me); }
        }}
        if n > 0 && r.chance(1, 3) {
            let j = r.below(n as u64) as usize; let msg = r.pick(&p.msgs).clone(); if msg.len() <= 1024 {
            if r.chance(1, 2) {
                sp[i].conds.push(pair(at(&[60]), list(vec![at(&msg)], nil())));
                let id = sha(&[&snapshot[i].coin_id(), &msg]);
                sp[j].conds.push(pair(at(&[61]), list(vec![at(&id)], nil())));
            } else {
                sp[i].conds.push(pair(at(&[62]), list(vec![at(&msg)], nil())));
                let id = sha(&[&snapshot[i].ph, &msg]);
                sp[j].conds.push(pair(at(&[63]), list(vec![at(&id)], nil())));
            }}
        }
        if n > 0 && r.chance(1, 3) {
            // a sent message and (usually) its receipt
            let j = r.below(n as u64) as usize; let msg = r.pick(&p.msgs).clone(); if msg.len() <= 1024 {
            let sm = r.below(8) as u8; let dm = r.below(8) as u8; let mode = (sm << 3) | dm;
            let fields = |m: u8, s: &SpendG| -> Vec<T> { if m == 7 { vec![at(&s.coin_id())] } else {
                let mut v = vec![]; if m & 4 != 0 { v.push(at(&s.parent)); } if m & 2 != 0 { v.push(at(&s.ph)); } if m & 1 != 0 { v.push(int(s.amount)); } v } };
            let mut a1 = vec![int(mode as u64), at(&msg)]; a1.extend(fields(dm, &snapshot[j]));
            sp[i].conds.push(pair(at(&[66]), list(a1, nil())));
            let times = match r.below(10) { 0 => 0, 1 => 2, _ => 1 };
            for _ in 0..times { let mut a2 = vec![int(mode as u64), at(&msg)]; a2.extend(fields(sm, &snapshot[i]));
                sp[j].conds.push(pair(at(&[67]), list(a2, nil()))); }
            }
        }
        if r.chance(1, 6) { // singleton-like shape for fast-forward eligibility
            let c1 = pair(at(&[73]), list(vec![int(snapshot[i].amount)], nil()));
            let c2 = pair(at(&[71]), list(vec![at(&snapshot[i].parent)], nil()));
            let c3 = pair(at(&[51]), list(vec![at(&snapshot[i].ph), int(snapshot[i].amount)], nil()));
            let mut v = vec![c1, c2, c3]; v.extend(sp[i].conds.drain(..)); sp[i].conds = v;
        }
        // shuffle a little so engineered conditions are not always last
        if sp[i].conds.len() > 1 && r.chance(1, 2) { let a = r.below(sp[i].conds.len() as u64) as usize; let b = r.below(sp[i].conds.len() as u64) as usize; sp[i].conds.swap(a, b); }
    }
    sp
}

pub fn bundle_tree(r: &mut Rng, sp: &[SpendG]) -> T {
    let spends: Vec<T> = sp.iter().map(|s| s.tree(r)).collect();
    let term = if r.chance(1, 40) { at(&[1]) } else { nil() };
    let ext = if r.chance(1, 12) { at(b"ext") } else { nil() };
    pair(list(spends, term), ext)
}

pub fn rand_flags(r: &mut Rng) -> u32 {
    let mut f = 0;
    if r.chance(9, 10) { f |= F_DONT_VALIDATE; }
    if r.chance(1, 3) { f |= F_NO_UNKNOWN; }
    if r.chance(1, 3) { f |= F_STRICT; }
    if r.chance(1, 2) { f |= F_COST; }
    if r.chance(1, 2) { f |= F_LIMIT; }
    f
}

pub fn replay_line(o: &mut Out, l: &str) {
    let t: Vec<&str> = l.split_whitespace().collect();
    let bytes = hex::decode(t[6]).unwrap();
    let mempool = t[1] == "m";
    let (flags, mc, cc): (u32, u64, u64) = (t[2].parse().unwrap(), t[3].parse().unwrap(), t[4].parse().unwrap());
    let r = std::panic::catch_unwind(|| run_parse(mempool, flags, mc, cc, &bytes));
    let res = match r { Ok(Ok(s)) => s, Ok(Err(s)) => s, Err(_) => "PANIC".to_string() };
    o.case(l, &res);
}

/// the exhaustive single-condition sweep: every one-byte opcode and a sample of two-byte ones ×
/// a table of argument lists × flag subsets, alone in one spend
fn sweep(o: &mut Out, p: &Pools, thorough: bool) {
    let me = SpendG { parent: p.ids[0], ph: p.ids[1], amount: 1001, conds: vec![], term: nil() };
    let id = me.coin_id();
    let h = at(&p.ids[2]);
    let shapes: Vec<T> = vec![
        nil(), at(&[1]), list(vec![nil()], nil()), list(vec![int(1)], nil()), list(vec![int(1001)], nil()), list(vec![int(1)], at(&[1])),
        list(vec![int(1), int(2)], nil()), list(vec![at(&[0x80])], nil()), list(vec![at(&[0, 1])], nil()), list(vec![at(&[0, 0x7f])], nil()), list(vec![at(&[0, 0x7f, 0xff, 0xff])], nil()), list(vec![at(&[0, 0x40])], nil()),
        list(vec![at(&[1, 0, 0, 0, 0])], nil()), list(vec![at(&[1, 0, 0, 0, 0, 0, 0, 0, 0])], nil()),
        list(vec![h.clone()], nil()), list(vec![h.clone(), int(1)], nil()), list(vec![h.clone(), int(1)], at(&[1])), list(vec![h.clone(), int(1), nil()], nil()),
        list(vec![h.clone(), int(1), list(vec![h.clone()], nil())], nil()), list(vec![h.clone(), int(1), list(vec![h.clone()], nil()), nil()], nil()),
        list(vec![h.clone(), int(2000)], nil()), list(vec![at(&id)], nil()), list(vec![at(&me.parent)], nil()), list(vec![at(&me.ph)], nil()),
        list(vec![at(&p.pks[0]), at(b"msg")], nil()), list(vec![at(&p.pks[0]), at(b"msg"), nil()], nil()), list(vec![at(&p.bad_pks[0]), at(b"msg")], nil()),
        list(vec![at(&p.pks[0]), at(&p.msgs[6])], nil()), list(vec![at(&p.pks[0])], nil()),
        list(vec![int(0), at(b"m")], nil()), list(vec![int(0x3f), at(b"m"), at(&id), ], nil()), list(vec![int(0x12), at(b"m"), at(&me.ph)], nil()),
        list(vec![int(0x40), at(b"m")], nil()), list(vec![int(9), at(b"m"), int(1001)], nil()), pair(h.clone(), h.clone()),
    ];
    let flagsets: Vec<u32> = if thorough { (0..16u32).map(|m| F_DONT_VALIDATE | (if m & 1 != 0 { F_NO_UNKNOWN } else { 0 }) | (if m & 2 != 0 { F_STRICT } else { 0 }) | (if m & 4 != 0 { F_COST } else { 0 }) | (if m & 8 != 0 { F_LIMIT } else { 0 })).collect() }
        else { vec![F_DONT_VALIDATE, F_DONT_VALIDATE | F_STRICT | F_NO_UNKNOWN, F_DONT_VALIDATE | F_COST, F_DONT_VALIDATE | F_COST | F_STRICT | F_LIMIT] };
    let mut opcodes: Vec<Vec<u8>> = (0..=255u8).map(|b| vec![b]).collect();
    for lo in [0u8, 1, 2, 17, 100, 255] { for hi in [0u8, 1, 2, 0x80, 0xff] { opcodes.push(vec![hi, lo]); } }
    opcodes.push(vec![]); opcodes.push(vec![0, 0, 51]);
    let mut r = Rng::new(7);
    for opb in &opcodes {
        for sh in &shapes {
            for f in &flagsets {
                let mut s = me.clone();
                s.conds = vec![pair(at(opb), sh.clone())];
                let t = pair(list(vec![s.tree(&mut Rng::new(1_000_003))], nil()), nil());
                let _ = &mut r;
                case(o, (*f & F_STRICT) != 0, *f, 11_000_000_000, 0, &t);
            }
        }
    }
}

/// every lock/birth opcode x argument class x position, plus ASSERT_EPHEMERAL, on a coin created in
/// the same bundle and on an ordinary one (the ephemeral-coin rules)
fn ephemeral_sweep(o: &mut Out, p: &Pools) {
    let parent0 = SpendG { parent: p.ids[0], ph: p.ids[1], amount: 10, conds: vec![], term: nil() };
    for op in [80u8, 81, 82, 83, 84, 85, 86, 87, 74, 75, 76] {
        let seconds = matches!(op, 80 | 81 | 84 | 85 | 74);
        let args: Vec<T> = if op == 76 { vec![nil()] } else { vec![int(5), nil(), at(&[0x80]), at(&[0xff, 0xff]),
            if seconds { at(&[1, 0, 0, 0, 0, 0, 0, 0, 0]) } else { at(&[1, 0, 0, 0, 0]) }, int(0xffff_ffff)] };
        for arg in &args { for shape in 0..3 { for kind in 0..3 { for flags in [F_DONT_VALIDATE, F_DONT_VALIDATE | F_COST | F_STRICT] {
            // kind 0: ephemeral; 1: parent spent but creates a different amount; 2: ordinary coin
            let mut child = SpendG { parent: if kind < 2 { parent0.coin_id() } else { p.ids[2] }, ph: p.ids[3], amount: 4, conds: vec![], term: nil() };
            let c = if op == 76 { pair(at(&[76]), nil()) } else { pair(at(&[op]), list(vec![arg.clone()], nil())) };
            let real = pair(at(&[82]), list(vec![int(3)], nil()));
            child.conds = match shape { 0 => vec![c], 1 => vec![c, real], _ => vec![real, c] };
            let mut par = parent0.clone();
            par.conds.push(pair(at(&[51]), list(vec![at(&child.ph), int(if kind == 1 { 5 } else { child.amount })], nil())));
            // both listings: parent first, and child first (spends of a bundle are unordered)
            for child_first in [false, true] {
                let pt = list(vec![at(&par.parent), at(&par.ph), int(par.amount), list(par.conds.clone(), nil())], nil());
                let ct = list(vec![at(&child.parent), at(&child.ph), int(child.amount), list(child.conds.clone(), nil())], nil());
                let t = pair(list(if child_first { vec![ct, pt] } else { vec![pt, ct] }, nil()), nil());
                case(o, flags & F_STRICT != 0, flags, 11_000_000_000, 0, &t);
            }
        }}}}
    }
}


/// a spend whose conditions are 3-6 relative/absolute lock assertions with small, colliding arguments,
/// so that contradictory combinations (before <= after) and their order of arrival matter
pub fn lock_dense(r: &mut Rng, p: &Pools) -> Vec<SpendG> {
    let mut s = SpendG { parent: *r.pick(&p.ids), ph: *r.pick(&p.ids), amount: 1000, conds: vec![], term: nil() };
    let vals = [0u64, 1, 10, 50, 60, 100];
    let k = r.range(3, 6);
    // one family at a time (height-relative, seconds-relative, height-absolute, seconds-absolute), sometimes mixed
    let fam: &[u8] = match r.below(5) { 0 => &[82, 86], 1 => &[80, 84], 2 => &[83, 87], 3 => &[81, 85], _ => &[80, 81, 82, 83, 84, 85, 86, 87] };
    for _ in 0..k { let op = *r.pick(fam); s.conds.push(pair(at(&[op]), list(vec![int(*r.pick(&vals))], nil()))); }
    vec![s]
}

/// a spend with `n_send` SEND_MESSAGE / CREATE_*_ANNOUNCEMENT and `n_recv` RECEIVE_MESSAGE / ASSERT_*_ANNOUNCEMENT
/// conditions (mode 0: no committed end points), for the per-spend announcement budget of 1024
pub fn announce_heavy(p: &Pools, n_a: usize, n_b: usize, op_a: u8, op_b: u8) -> Vec<SpendG> {
    let mut s = SpendG { parent: p.ids[0], ph: p.ids[1], amount: 1, conds: vec![], term: nil() };
    let mk = |op: u8| -> T { match op {
        66 | 67 => pair(at(&[op]), list(vec![int(0), at(b"m")], nil())),
        60 | 62 => pair(at(&[op]), list(vec![at(b"m")], nil())),
        _ => pair(at(&[op]), list(vec![at(&[7u8; 32])], nil())) } };
    for _ in 0..n_a { s.conds.push(mk(op_a)); }
    for _ in 0..n_b { s.conds.push(mk(op_b)); }
    vec![s]
}

pub fn run(o: &mut Out, seed: u64, thorough: bool, replay: Option<Vec<String>>) {
    if let Some(lines) = replay { for l in lines { replay_line(o, &l); } return; }
    let p = pools();
    // corpus of hand-picked boundary cases first
    if let Ok(c) = std::fs::read_to_string("/verif/corpus/C01.case") {
        for l in c.lines().filter(|l| l.starts_with("C01 ")) { replay_line(o, l); }
    }
    sweep(o, &p, thorough);
    ephemeral_sweep(o, &p);
    raw_amount_sweep(o, &p);
    let mut r = Rng::new(seed);
    // lock-dense spends (order of arrival of contradictory lock pairs) and the announcement budget around 1024
    for _ in 0..(if thorough { 20_000 } else { 2_000 }) {
        let sp = lock_dense(&mut r, &p);
        case(o, r.chance(1, 2), rand_flags(&mut r), 11_000_000_000, 0, &plain_tree(&sp));
    }
    for (na, nb) in [(512usize, 512usize), (513, 512), (512, 513), (1024, 0), (1025, 0), (0, 1024), (0, 1025), (1025, 1025)] {
        for (oa, ob) in [(66u8, 67u8), (60, 61), (62, 63), (66, 61), (60, 67)] {
            for fl in [F_DONT_VALIDATE, F_DONT_VALIDATE | F_STRICT, F_DONT_VALIDATE | F_COST, F_DONT_VALIDATE | F_COST | F_STRICT, F_DONT_VALIDATE | F_NO_UNKNOWN | F_STRICT | F_LIMIT] {
                case(o, false, fl, 11_000_000_000, 0, &plain_tree(&announce_heavy(&p, na, nb, oa, ob)));
            }
        }
    }
    let n = if thorough { 400_000 } else { 30_000 };
    for _ in 0..n {
        let sp = gen_bundle(&mut r, &p);
        let t = bundle_tree(&mut r, &sp);
        let flags = rand_flags(&mut r);
        let mempool = r.chance(1, 2);
        let max_cost = match r.below(10) { 0 => r.below(5_000_000), 1 => r.below(30_000_000), _ => 11_000_000_000 };
        let clvm_cost = if r.chance(1, 2) { 0 } else { r.below(1000) };
        case(o, mempool, flags, max_cost, clvm_cost, &t);
    }
    // spend-count limit: 5999 / 6000 / 6001 empty spends with distinct parents
    for n in [5999u32, 6000, 6001] { for f in [F_DONT_VALIDATE | F_LIMIT, F_DONT_VALIDATE] {
        let spends: Vec<T> = (0..n).map(|i| { let mut par = [0u8; 32]; par[..4].copy_from_slice(&i.to_be_bytes());
            list(vec![at(&par), at(&p.ids[1]), int(1), nil()], nil()) }).collect();
        case(o, false, f, 11_000_000_000, 0, &pair(list(spends, nil()), nil()));
    }}
}


/// spend tuples whose OWN amount atom is not the canonical integer form (redundant zero, negative, too long):
/// alone, and next to the same coin under its canonical encoding (two coin ids for one coin if accepted)
pub fn raw_amount_sweep(o: &mut Out, p: &Pools) {
    let raws: Vec<Vec<u8>> = vec![vec![0x00], vec![0x00, 0x01], vec![0x00, 0x7f], vec![0x00, 0x00, 0x80], vec![0x00, 0x7f, 0xff],
        vec![0x00, 0x00, 0x7f], vec![0x00, 0x80], vec![0x7f], vec![0x80], vec![0xff], vec![0xff, 0x7f],
        vec![0, 0xff, 0xff, 0xff, 0xff, 0xff, 0xff, 0xff, 0xff], vec![0, 0, 0xff, 0xff, 0xff, 0xff, 0xff, 0xff, 0xff, 0xff],
        vec![1, 0, 0, 0, 0, 0, 0, 0, 0], vec![0, 1, 0, 0, 0, 0, 0, 0, 0], vec![0x00, 0x40, 0x00]];
    for raw in &raws {
        for with_conds in [false, true] {
            let conds = if with_conds { vec![pair(at(&[51]), list(vec![at(&p.ids[2]), int(1)], nil())), pair(at(&[73]), list(vec![at(raw)], nil()))] } else { vec![] };
            let one = list(vec![at(&p.ids[0]), at(&p.ids[1]), at(raw), list(conds.clone(), nil())], nil());
            let v = raw.iter().fold(0u128, |a, b| (a << 8) | *b as u128);
            let canon = list(vec![at(&p.ids[0]), at(&p.ids[1]), int(v.min(u64::MAX as u128) as u64), nil()], nil());
            for flags in [F_DONT_VALIDATE, F_DONT_VALIDATE | F_NO_UNKNOWN | F_STRICT, F_DONT_VALIDATE | F_COST] {
                for mempool in [false, true] {
                    case(o, mempool, flags, 11_000_000_000, 0, &pair(list(vec![one.clone()], nil()), nil()));
                    case(o, mempool, flags, 11_000_000_000, 0, &pair(list(vec![canon.clone(), one.clone()], nil()), nil()));
                }
            }
        }
    }
}

/// C02: value-flow biased bundles (many outputs, big amounts, fees near the excess)
pub fn run_c02(o: &mut Out, seed: u64, thorough: bool, replay: Option<Vec<String>>) {
    if let Some(lines) = replay { for l in lines { replay_line(o, &l); } return; }
    let p = pools();
    raw_amount_sweep(o, &p);
    let mut r = Rng::new(seed ^ 0xc02);
    let big: [u64; 10] = [0, 1, 0x7fff_ffff, 0xffff_ffff, 0x1_0000_0000, 0x7fff_ffff_ffff_ffff, 0x8000_0000_0000_0000, u64::MAX - 1, u64::MAX, 1000];
    let n = if thorough { 300_000 } else { 25_000 };
    for _ in 0..n {
        let ns = r.range(1, 5) as usize;
        let mut sp: Vec<SpendG> = vec![];
        for i in 0..ns {
            let amount = *r.pick(&big);
            let mut s = SpendG { parent: *r.pick(&p.ids), ph: *r.pick(&p.ids), amount, conds: vec![], term: nil() };
            if i > 0 && r.chance(1, 12) { s = sp[0].clone(); s.conds.clear(); }
            sp.push(s);
        }
        let total: u128 = sp.iter().map(|s| s.amount as u128).sum();
        let mut left = total;
        for i in 0..ns {
            let k = r.below(5);
            for _ in 0..k {
                let a = match r.below(4) { 0 => *r.pick(&big), 1 => (left.min(u64::MAX as u128)) as u64, 2 => r.below(3), _ => (left / 2).min(u64::MAX as u128) as u64 };
                left = left.saturating_sub(a as u128);
                let ph = if r.chance(1, 6) { sp[i].ph } else { *r.pick(&p.ids) };
                sp[i].conds.push(pair(at(&[51]), list(vec![at(&ph), int(a)], nil())));
            }
            if r.chance(1, 3) {
                let fee = match r.below(4) { 0 => (left.min(u64::MAX as u128)) as u64, 1 => (left.min(u64::MAX as u128) as u64).wrapping_add(1), 2 => u64::MAX, _ => r.below(100) };
                sp[i].conds.push(pair(at(&[52]), list(vec![int(fee)], nil())));
            }
            if r.chance(1, 4) { let c = gen_cond(&mut r, &p, &sp[i].clone(), &sp.clone()); sp[i].conds.push(c); }
        }
        let t = bundle_tree(&mut r, &sp);
        let flags = rand_flags(&mut r) | F_DONT_VALIDATE;
        case(o, r.chance(1, 2), flags, 11_000_000_000, 0, &t);
    }
}

/// C04: every accepted case again at limit = cost and cost - 1; the two-byte opcode cost table
pub fn run_c04(o: &mut Out, seed: u64, thorough: bool, replay: Option<Vec<String>>) {
    if let Some(lines) = replay {
        for l in lines { if l.starts_with("C04 ucc") { ucc_line(o, &l); } else { replay_line(o, &l); } }
        return;
    }
    for op in 0..=65535u32 { ucc_line(o, &format!("C04 ucc {op}")); }
    let p = pools();
    let mut r = Rng::new(seed ^ 0xc04);
    let n = if thorough { 150_000 } else { 12_000 };
    for _ in 0..n {
        let sp = gen_bundle(&mut r, &p);
        let t = bundle_tree(&mut r, &sp);
        let flags = (rand_flags(&mut r) | F_DONT_VALIDATE) & !(if r.chance(2, 3) { F_NO_UNKNOWN | F_STRICT } else { 0 });
        let mempool = r.chance(1, 2);
        let bytes = to_bytes(&t);
        case(o, mempool, flags, 11_000_000_000, 0, &t);
        if let Ok(Ok(Ok(c))) = std::panic::catch_unwind(|| run_parse_owned(mempool, flags, 11_000_000_000, 0, &bytes)) {
            case(o, mempool, flags, c.cost, 0, &t);
            if c.cost > 0 { case(o, mempool, flags, c.cost - 1, 0, &t); }
            if c.cost > 200 && r.chance(1, 4) { let l = r.below(c.cost); case(o, mempool, flags, l, 0, &t); }
        }
    }
}

fn ucc_line(o: &mut Out, l: &str) {
    let op: u32 = l.split_whitespace().nth(2).unwrap().parse().unwrap();
    let v = chia_consensus::opcodes::compute_unknown_condition_cost(op as u16);
    o.case(l, &v.to_string());
}

// ---------------------------------------------------------------------------------------------
// C06: strict flags only restrict; order never changes the verdict (metamorphic pairs)

fn plain_tree(sp: &[SpendG]) -> T {
    pair(list(sp.iter().map(|s| list(vec![at(&s.parent), at(&s.ph), int(s.amount), list(s.conds.clone(), s.term.clone())], nil())).collect(), nil()), nil())
}

/// fields of a result that must not depend on order: everything except listing order, and the
/// positionally defined fast-forward eligibility bit
fn order_free(c: &OwnedSpendBundleConditions) -> String {
    let mut c = c.clone();
    for s in &mut c.spends {
        s.flags &= !4;
        for l in [&mut s.agg_sig_me, &mut s.agg_sig_parent, &mut s.agg_sig_puzzle, &mut s.agg_sig_amount, &mut s.agg_sig_puzzle_amount, &mut s.agg_sig_parent_amount, &mut s.agg_sig_parent_puzzle] {
            l.sort_by(|a, b| (a.0.to_bytes().to_vec(), a.1.as_ref().to_vec()).cmp(&(b.0.to_bytes().to_vec(), b.1.as_ref().to_vec())));
        }
    }
    c.agg_sig_unsafe.sort_by(|a, b| (a.0.to_bytes().to_vec(), a.1.as_ref().to_vec()).cmp(&(b.0.to_bytes().to_vec(), b.1.as_ref().to_vec())));
    c.spends.sort_by(|a, b| a.coin_id.to_bytes().cmp(&b.coin_id.to_bytes()));
    c.num_atoms = 0; c.num_pairs = 0; c.heap_size = 0;
    bundle_s(&c)
}

fn c06_pair(o: &mut Out, kind: &str, mempool: bool, f1: u32, t1: &T, f2: u32, t2: &T) { c06_pair_lim(o, kind, mempool, f1, t1, f2, t2, None); }

/// the pair under the block maximum (`None`) or under a given cost limit for both runs
fn c06_pair_lim(o: &mut Out, kind: &str, mempool: bool, f1: u32, t1: &T, f2: u32, t2: &T, lim: Option<u64>) {
    let (b1, b2) = (to_bytes(t1), to_bytes(t2));
    let mut pks = vec![]; valid_pks(t1, &mut pks); valid_pks(t2, &mut pks);
    let pk_s = if pks.is_empty() { "-".to_string() } else { pks.iter().map(hex::encode).collect::<Vec<_>>().join(",") };
    let mut line = format!("C06 {} {} {} {} {} {} {}", kind, if mempool { "m" } else { "e" }, f1, f2, pk_s, hex::encode(&b1), hex::encode(&b2));
    
    if let Some(l) = lim { line.push_str(&format!(" {l}")); }
    o.begin(&line);
    let limit = lim.unwrap_or(11_000_000_000);
    let r1 = run_parse_owned(mempool, f1, limit, 0, &b1);
    let r2 = run_parse_owned(mempool, f2, limit, 0, &b2);
    // an accepted permutation pair is examined again with the budget equal to the cost (and one below): the
    // verdict at the exact budget must not depend on which condition happens to be charged last
    if lim.is_none() && kind == "perm" { if let Ok(Ok(c)) = &r1 { if c.cost > 0 && c.cost < 11_000_000_000 {
        let cost = c.cost;
        c06_pair_lim(o, kind, mempool, f1, t1, f2, t2, Some(cost));
        c06_pair_lim(o, kind, mempool, f1, t1, f2, t2, Some(cost - 1));
    }}}
    let show = |r: &Result<Result<OwnedSpendBundleConditions, ValidationErr>, String>| match r { Ok(Ok(c)) => bundle_s(c), Ok(Err(e)) => { let s = err_s(e); if let Some(i) = s.find(" ~") { s[..i].to_string() } else { s } }, Err(e) => e.clone() };
    // the property on the two implementation results
    let prop = match (kind, &r1, &r2) {
        // strict (first) accepted => non-strict (second) accepted with the identical summary
        ("strict", Ok(Ok(a)), Ok(Ok(b))) => if bundle_s(a) == bundle_s(b) { "ok" } else { "VIOLATED:summary-differs" },
        ("strict", Ok(Ok(_)), _) => "VIOLATED:strict-accepted-but-lenient-rejected",
        ("strict", _, _) => "ok",
        // permutation: same verdict, same cost and aggregates (order-free view)
        (_, Ok(Ok(a)), Ok(Ok(b))) => if order_free(a) == order_free(b) { "ok" } else { "VIOLATED:aggregates-differ" },
        (_, Ok(Err(_)), Ok(Err(_))) => "ok",
        _ => "VIOLATED:verdict-differs",
    };
    o.case(&line, &format!("A={} || B={} || prop={}", show(&r1), show(&r2), prop));
}

pub fn run_c06(o: &mut Out, seed: u64, thorough: bool, replay: Option<Vec<String>>) {
    if let Some(lines) = replay {
        for l in lines { let t: Vec<&str> = l.split_whitespace().collect();
            let mut a = Allocator::new();
            let n1 = node_from_bytes(&mut a, &hex::decode(t[6]).unwrap()).unwrap(); let n2 = node_from_bytes(&mut a, &hex::decode(t[7]).unwrap()).unwrap();
            let (t1, t2) = (node_to_t(&a, n1), node_to_t(&a, n2));
            c06_pair_lim(o, t[1], t[2] == "m", t[3].parse().unwrap(), &t1, t[4].parse().unwrap(), &t2, Some(t.get(8).map_or(11_000_000_000, |x| x.parse().unwrap()))); }
        return;
    }
    let p = pools();
    let mut r = Rng::new(seed ^ 0xc06);
    // engineered: lock-dense spends under every rotation / reversal of their conditions
    for _ in 0..(if thorough { 10_000 } else { 1_000 }) {
        let sp = lock_dense(&mut r, &p);
        let t = plain_tree(&sp);
        let flags = F_DONT_VALIDATE | (if r.chance(1, 2) { F_COST } else { 0 });
        let mempool = r.chance(1, 2);
        let k = sp[0].conds.len();
        for rot in 1..k { let mut sp2 = sp.clone(); sp2[0].conds.rotate_left(rot); c06_pair(o, "perm", mempool, flags, &t, flags, &plain_tree(&sp2)); }
        let mut sp2 = sp.clone(); sp2[0].conds.reverse(); c06_pair(o, "perm", mempool, flags, &t, flags, &plain_tree(&sp2));
    }
    // engineered: the announcement budget around 1024 under each strictness subset
    for (na, nb) in [(512usize, 512usize), (513, 512), (512, 513), (1025, 1025), (0, 1025)] {
        for (oa, ob) in [(66u8, 67u8), (60, 61), (62, 63)] {
            let t = plain_tree(&announce_heavy(&p, na, nb, oa, ob));
            for base in [F_DONT_VALIDATE, F_DONT_VALIDATE | F_COST] { for s in [F_STRICT, F_NO_UNKNOWN, F_LIMIT, F_STRICT | F_NO_UNKNOWN | F_LIMIT] {
                c06_pair(o, "strict", false, base | s, &t, base, &t);
            }}
        }
    }
    let n = if thorough { 150_000 } else { 12_000 };
    for _ in 0..n {
        let sp = gen_bundle(&mut r, &p);
        let t = plain_tree(&sp);
        let base = F_DONT_VALIDATE | (if r.chance(1, 2) { F_COST } else { 0 });
        let mempool = r.chance(1, 2);
        // strictness subsets
        let mut s = 0u32;
        if r.chance(1, 2) { s |= F_NO_UNKNOWN; } if r.chance(1, 2) { s |= F_STRICT; } if r.chance(1, 2) { s |= F_LIMIT; }
        if s == 0 { s = F_STRICT; }
        c06_pair(o, "strict", mempool, base | s, &t, base, &t);
        // permutations of spends and of conditions within spends
        let flags = base | (if r.chance(1, 3) { s } else { 0 });
        let mut sp2 = sp.clone();
        if sp2.len() > 1 { let (i, j) = (r.below(sp2.len() as u64) as usize, r.below(sp2.len() as u64) as usize); sp2.swap(i, j); }
        if r.chance(1, 2) { sp2.reverse(); }
        for s2 in &mut sp2 { if s2.conds.len() > 1 {
            match r.below(3) { 0 => s2.conds.reverse(), 1 => { let k = r.below(s2.conds.len() as u64) as usize; s2.conds.rotate_left(k); }
                _ => { let (i, j) = (r.below(s2.conds.len() as u64) as usize, r.below(s2.conds.len() as u64) as usize); s2.conds.swap(i, j); } } } }
        c06_pair(o, "perm", mempool, flags, &t, flags, &plain_tree(&sp2));
    }
}

#[allow(dead_code)]
pub fn node_to_t(a: &Allocator, n: NodePtr) -> T {
    match a.sexp(n) { SExp::Atom => T::A(a.atom(n).as_ref().to_vec()), SExp::Pair(l, r) => pair(node_to_t(a, l), node_to_t(a, r)) }
}
#[allow(dead_code)]
pub fn t_to_node(a: &mut Allocator, t: &T) -> NodePtr { let b = to_bytes(t); node_from_bytes(a, &b).unwrap() }
#[allow(dead_code)]
pub fn node_bytes(a: &Allocator, n: NodePtr) -> Vec<u8> { node_to_bytes(a, n).unwrap() }
