//! C16: key / signature / pairing-element encodings round-trip, derivations commute.
//!
//! Case lines (grammar also in lean/ChiaModel/Drv/C16.lean):
//!
//!   C16 rt g1 <hex48> <u> <v>       PublicKey::from_bytes_unchecked / from_bytes / to_bytes / Streamable::parse
//!   C16 rt g2 <hex96> <u> <v>       Signature::…   (same)
//!   C16 rt sk <hex32>               SecretKey::from_bytes / to_bytes
//!   C16 rt gt <hex576>              GTElement::from_bytes / to_bytes
//!   C16 derive <p|w> <sk> <i.j.k> <map>   derive_unhardened along a path, both key types (w: master_to_wallet_unhardened…)
//!   C16 synth <sk> <hph> <map>      DeriveSynthetic for SecretKey and PublicKey
//!   C16 add <sk1> <sk2> <map>       SecretKey + SecretKey, PublicKey + PublicKey
//!   C16 modr <hex32>                mod_by_group_order
//!   C16 sign <sk> <msg> <vsk> <vmsg> <map>   sign twice, round-trip the signature, verify against (pk(vsk), vmsg)
//!
//! `<u> <v>` are ORACLE answers from blst obtained by raw FFI calls that do not pass through
//! chia-bls: u = blst_pN_uncompress succeeded, v = the point is infinity or in the prime-order subgroup.
//! `<map>` = `skhex=pkhex,…` tells the driver `SecretKey::from_bytes(sk).public_key().to_bytes()` for every
//! scalar the model can reach on this line (the model's group element for a key is its scalar).
//! The last field `prop=` is the property evaluated by the harness on the implementation's own results.
use crate::out::Out;
use crate::prng::Rng;
use blst::*;
use chia_bls::{
    master_to_wallet_unhardened, master_to_wallet_unhardened_intermediate, sign, verify, DerivableKey,
    GTElement, PublicKey, SecretKey, Signature,
};
use chia_puzzle_types::standard::DEFAULT_HIDDEN_PUZZLE_HASH;
use chia_puzzle_types::{mod_by_group_order, DeriveSynthetic};
use chia_traits::Streamable;
use std::io::Cursor;
use std::mem::MaybeUninit;
use std::panic::{catch_unwind, AssertUnwindSafe};

const R_HEX: &str = "73eda753299d7d483339d80809a1d80553bda402fffe5bfeffffffff00000001";
const P_HEX: &str = "1a0111ea397fe69a4b1ba7b6434bacd764774b84f38512bf6730d2a0f6b0f6241eabfffeb153ffffb9feffffffffaaab";

fn tf(b: bool) -> &'static str { if b { "T" } else { "F" } }
fn b01(b: bool) -> &'static str { if b { "1" } else { "0" } }
fn hx(b: &[u8]) -> String { hex::encode(b) }
fn guard<F: FnOnce() -> String>(f: F) -> String { catch_unwind(AssertUnwindSafe(f)).unwrap_or_else(|_| "PANIC".into()) }

// ---------------------------------------------------------------- big-endian arithmetic on byte strings

fn be_add(a: &[u8], b: &[u8]) -> Vec<u8> {
    // a + b, length of a, wrapping
    let mut out = a.to_vec();
    let mut carry = 0u16;
    for i in 0..a.len() {
        let ai = a.len() - 1 - i;
        let bv = if i < b.len() { b[b.len() - 1 - i] as u16 } else { 0 };
        let s = out[ai] as u16 + bv + carry;
        out[ai] = s as u8;
        carry = s >> 8;
    }
    out
}
fn be_sub(a: &[u8], b: &[u8]) -> Vec<u8> {
    let mut out = a.to_vec();
    let mut borrow = 0i16;
    for i in 0..a.len() {
        let ai = a.len() - 1 - i;
        let bv = if i < b.len() { b[b.len() - 1 - i] as i16 } else { 0 };
        let mut s = out[ai] as i16 - bv - borrow;
        if s < 0 { s += 256; borrow = 1 } else { borrow = 0 }
        out[ai] = s as u8;
    }
    out
}
fn be_lt(a: &[u8], b: &[u8]) -> bool { a < b } // equal lengths
fn a32(v: Vec<u8>) -> [u8; 32] { v.try_into().expect("32 bytes") }

// ---------------------------------------------------------------- blst oracles (raw FFI, not through chia-bls)

/// (uncompress ok, infinity or in G1, recompressed bytes)
fn oracle_g1(b: &[u8; 48]) -> (bool, bool, Option<[u8; 48]>) {
    unsafe {
        let mut aff = MaybeUninit::<blst_p1_affine>::zeroed();
        if blst_p1_uncompress(aff.as_mut_ptr(), b.as_ptr()) != BLST_ERROR::BLST_SUCCESS { return (false, false, None); }
        let aff = aff.assume_init();
        let v = blst_p1_affine_is_inf(&aff) || blst_p1_affine_in_g1(&aff);
        let mut out = [0u8; 48];
        blst_p1_affine_compress(out.as_mut_ptr(), &aff);
        (true, v, Some(out))
    }
}
fn oracle_g2(b: &[u8; 96]) -> (bool, bool, Option<[u8; 96]>) {
    unsafe {
        let mut aff = MaybeUninit::<blst_p2_affine>::zeroed();
        if blst_p2_uncompress(aff.as_mut_ptr(), b.as_ptr()) != BLST_ERROR::BLST_SUCCESS { return (false, false, None); }
        let aff = aff.assume_init();
        let v = blst_p2_affine_is_inf(&aff) || blst_p2_affine_in_g2(&aff);
        let mut out = [0u8; 96];
        blst_p2_affine_compress(out.as_mut_ptr(), &aff);
        (true, v, Some(out))
    }
}

// ---------------------------------------------------------------- rt

fn emit_rt_g1(o: &mut Out, b: &[u8; 48]) {
    let (u, v, rec) = oracle_g1(b);
    let line = format!("C16 rt g1 {} {} {}", hx(b), b01(u), b01(v));
    let out = guard(|| {
        let un = PublicKey::from_bytes_unchecked(b);
        let ck = PublicKey::from_bytes(b);
        let pt = PublicKey::parse::<true>(&mut Cursor::new(&b[..]));
        let pu = PublicKey::parse::<false>(&mut Cursor::new(&b[..]));
        let mut bad: Vec<&str> = vec![];
        if ck.is_ok() && un.is_err() { bad.push("checked-accepts-unchecked-rejects"); }
        let canonical_valid = u && v && rec.as_ref().map(|r| r == b).unwrap_or(false);
        if ck.is_ok() != canonical_valid { bad.push("checked-verdict-vs-subgroup-oracle"); }
        if let Ok(x) = &un { if &x.to_bytes() != b { bad.push("unchecked-reencodes-differently"); } }
        if let Ok(x) = &ck {
            if &x.to_bytes() != b { bad.push("checked-reencodes-differently"); }
            match PublicKey::from_bytes(&x.to_bytes()) { Ok(y) => if y != *x { bad.push("reparse-differs"); }, Err(_) => bad.push("reparse-fails") }
            if !x.is_valid() { bad.push("accepted-invalid"); }
        }
        if pt.is_ok() != un.is_ok() { bad.push("parse-trusted-vs-unchecked"); }
        if pu.is_ok() != ck.is_ok() { bad.push("parse-untrusted-vs-checked"); }
        let f = |r: &chia_bls::Result<PublicKey>| match r { Ok(x) => hx(&x.to_bytes()), Err(_) => "err".into() };
        let note = match (&un, &ck) {
            (Err(e), _) => format!(" ~un:{e:?}"),
            (Ok(_), Err(e)) => format!(" ~ck:{e:?}"),
            _ => String::new(),
        };
        let prop = if bad.is_empty() { "ok".to_string() } else { format!("VIOLATED:{}", bad.join("+")) };
        format!("un={} ck={} parse={}{} prop={prop}{note}", f(&un), f(&ck), tf(pt.is_ok()), tf(pu.is_ok()))
    });
    o.case(&line, &out);
}

fn emit_rt_g2(o: &mut Out, b: &[u8; 96]) {
    let (u, v, rec) = oracle_g2(b);
    let line = format!("C16 rt g2 {} {} {}", hx(b), b01(u), b01(v));
    let out = guard(|| {
        let un = Signature::from_bytes_unchecked(b);
        let ck = Signature::from_bytes(b);
        let pt = Signature::parse::<true>(&mut Cursor::new(&b[..]));
        let pu = Signature::parse::<false>(&mut Cursor::new(&b[..]));
        let mut bad: Vec<&str> = vec![];
        if ck.is_ok() && un.is_err() { bad.push("checked-accepts-unchecked-rejects"); }
        let canonical_valid = u && v && rec.as_ref().map(|r| r == b).unwrap_or(false);
        if ck.is_ok() != canonical_valid { bad.push("checked-verdict-vs-subgroup-oracle"); }
        if let Ok(x) = &un { if &x.to_bytes() != b { bad.push("unchecked-reencodes-differently"); } }
        if let Ok(x) = &ck {
            if &x.to_bytes() != b { bad.push("checked-reencodes-differently"); }
            match Signature::from_bytes(&x.to_bytes()) { Ok(y) => if y != *x { bad.push("reparse-differs"); }, Err(_) => bad.push("reparse-fails") }
            if !x.is_valid() { bad.push("accepted-invalid"); }
        }
        if pt.is_ok() != un.is_ok() { bad.push("parse-trusted-vs-unchecked"); }
        if pu.is_ok() != ck.is_ok() { bad.push("parse-untrusted-vs-checked"); }
        let f = |r: &chia_bls::Result<Signature>| match r { Ok(x) => hx(&x.to_bytes()), Err(_) => "err".into() };
        let note = match (&un, &ck) {
            (Err(e), _) => format!(" ~un:{e:?}"),
            (Ok(_), Err(e)) => format!(" ~ck:{e:?}"),
            _ => String::new(),
        };
        let prop = if bad.is_empty() { "ok".to_string() } else { format!("VIOLATED:{}", bad.join("+")) };
        format!("un={} ck={} parse={}{} prop={prop}{note}", f(&un), f(&ck), tf(pt.is_ok()), tf(pu.is_ok()))
    });
    o.case(&line, &out);
}

fn emit_rt_sk(o: &mut Out, b: &[u8; 32]) {
    let line = format!("C16 rt sk {}", hx(b));
    let out = guard(|| {
        let r = SecretKey::from_bytes(b);
        let pt = SecretKey::parse::<true>(&mut Cursor::new(&b[..]));
        let pu = SecretKey::parse::<false>(&mut Cursor::new(&b[..]));
        let mut bad: Vec<&str> = vec![];
        if pt.is_ok() != r.is_ok() || pu.is_ok() != r.is_ok() { bad.push("parse-vs-from_bytes"); }
        if let Ok(x) = &r {
            if &x.to_bytes() != b { bad.push("reencodes-differently"); }
            match SecretKey::from_bytes(&x.to_bytes()) { Ok(y) => if y != *x { bad.push("reparse-differs"); }, Err(_) => bad.push("reparse-fails") }
            // the two ways /repo has of making the public key of an integer
            if PublicKey::from_integer(b) != x.public_key() { bad.push("from_integer-vs-public_key"); }
        }
        let prop = if bad.is_empty() { "ok".to_string() } else { format!("VIOLATED:{}", bad.join("+")) };
        match r { Ok(x) => format!("ok:{} prop={prop}", hx(&x.to_bytes())), Err(e) => format!("err prop={prop} ~{e:?}") }
    });
    o.case(&line, &out);
}

fn sha(b: &[u8]) -> [u8; 32] { let mut h = chia_sha2::Sha256::new(); h.update(b); h.finalize() }

fn emit_rt_gt(o: &mut Out, b: &[u8; 576]) {
    let line = format!("C16 rt gt {}", hx(b));
    let out = guard(|| {
        let g = GTElement::from_bytes(b);
        let back = g.to_bytes();
        let g2 = GTElement::from_bytes(&back);
        let pt = GTElement::parse::<false>(&mut Cursor::new(&b[..]));
        let ok = g2 == g && pt.map(|x| x.to_bytes() == back).unwrap_or(false);
        format!("ok:{} eq={}", hx(&sha(&back)), tf(ok))
    });
    o.case(&line, &out);
}

// ---------------------------------------------------------------- keys and the sk → pk table

struct Map(Vec<(String, String)>);
impl Map {
    fn new() -> Self { Map(vec![]) }
    fn add(&mut self, sk: &SecretKey) {
        let e = (hx(&sk.to_bytes()), hx(&sk.public_key().to_bytes()));
        if !self.0.contains(&e) { self.0.push(e); }
    }
    fn fmt(&self) -> String { self.0.iter().map(|(a, b)| format!("{a}={b}")).collect::<Vec<_>>().join(",") }
}

fn sk_of(b: &[u8]) -> SecretKey { SecretKey::from_bytes(b.try_into().expect("32 bytes")).expect("valid secret key") }

fn fmt_path(p: &[u32]) -> String { p.iter().map(|i| i.to_string()).collect::<Vec<_>>().join(".") }

fn emit_derive(o: &mut Out, mode: &str, skb: &[u8], path: &[u32]) {
    let sk0 = sk_of(skb);
    let pk0 = sk0.public_key();
    let mut map = Map::new();
    map.add(&sk0);
    let mut bad: Vec<String> = vec![];
    let mut levels: Vec<(SecretKey, PublicKey, PublicKey)> = vec![];
    let body = catch_unwind(AssertUnwindSafe(|| {
        let (mut sk, mut pka) = (sk0.clone(), pk0);
        for (k, i) in path.iter().enumerate() {
            sk = sk.derive_unhardened(*i);
            pka = pka.derive_unhardened(*i);
            let pkb = sk.public_key();
            if pka != pkb || pka.to_bytes() != pkb.to_bytes() { bad.push(format!("routes-differ-at-level-{}", k + 1)); }
            if PublicKey::from_integer(&sk.to_bytes()) != pkb { bad.push(format!("from_integer-at-level-{}", k + 1)); }
            if !pka.is_valid() { bad.push(format!("invalid-child-at-level-{}", k + 1)); }
            map.add(&sk);
            levels.push((sk.clone(), pka, pkb));
        }
    }));
    let f = |l: &(SecretKey, PublicKey, PublicKey)| format!("{}/{}/{}", hx(&l.0.to_bytes()), hx(&l.1.to_bytes()), hx(&l.2.to_bytes()));
    let out = if body.is_err() { "PANIC".to_string() } else if mode == "w" && path.len() == 4 && path[..3] == [12381, 8444, 2] {
        guard(|| {
            let (is, ip) = (master_to_wallet_unhardened_intermediate(&sk0), master_to_wallet_unhardened_intermediate(&pk0));
            let (ws, wp) = (master_to_wallet_unhardened(&sk0, path[3]), master_to_wallet_unhardened(&pk0, path[3]));
            if is != levels[2].0 || ip != levels[2].1 { bad.push("intermediate-vs-stepwise".into()); }
            if ws != levels[3].0 || wp != levels[3].1 { bad.push("wallet-vs-stepwise".into()); }
            if ws.public_key() != wp { bad.push("wallet-routes-differ".into()); }
            let prop = if bad.is_empty() { "ok".to_string() } else { format!("VIOLATED:{}", bad.join("+")) };
            format!("I:{};W:{} prop={prop}", f(&(is.clone(), ip, is.public_key())), f(&(ws.clone(), wp, ws.public_key())))
        })
    } else {
        let prop = if bad.is_empty() { "ok".to_string() } else { format!("VIOLATED:{}", bad.join("+")) };
        format!("{} prop={prop}", levels.iter().enumerate().map(|(k, l)| format!("L{}:{}", k + 1, f(l))).collect::<Vec<_>>().join(";"))
    };
    let line = format!("C16 derive {mode} {} {} {}", hx(skb), fmt_path(path), map.fmt());
    o.case(&line, &out);
}

fn emit_synth(o: &mut Out, skb: &[u8], hph: &[u8; 32]) {
    let sk = sk_of(skb);
    let pk = sk.public_key();
    let mut map = Map::new();
    map.add(&sk);
    let out = guard(|| {
        let default = *hph == DEFAULT_HIDDEN_PUZZLE_HASH;
        let ssk = if default { sk.derive_synthetic() } else { sk.derive_synthetic_hidden(hph) };
        let spk = if default { pk.derive_synthetic() } else { pk.derive_synthetic_hidden(hph) };
        let pkb = ssk.public_key();
        map.add(&ssk);
        let mut bad: Vec<&str> = vec![];
        if spk != pkb || spk.to_bytes() != pkb.to_bytes() { bad.push("routes-differ"); }
        if default && (sk.derive_synthetic_hidden(hph) != ssk || pk.derive_synthetic_hidden(hph) != spk) { bad.push("default-vs-hidden"); }
        let prop = if bad.is_empty() { "ok".to_string() } else { format!("VIOLATED:{}", bad.join("+")) };
        format!("sk={} pkA={} pkB={} prop={prop}", hx(&ssk.to_bytes()), hx(&spk.to_bytes()), hx(&pkb.to_bytes()))
    });
    let line = format!("C16 synth {} {} {}", hx(skb), hx(hph), map.fmt());
    o.case(&line, &out);
}

fn emit_add(o: &mut Out, a: &[u8], b: &[u8]) {
    let (s1, s2) = (sk_of(a), sk_of(b));
    let (p1, p2) = (s1.public_key(), s2.public_key());
    let mut map = Map::new();
    map.add(&s1); map.add(&s2);
    let out = guard(|| {
        let s = &s1 + &s2;
        let p = &p1 + &p2;
        let mut bad: Vec<&str> = vec![];
        let mut s_acc = s1.clone(); s_acc += &s2;
        if s1.clone() + &s2 != s || s_acc != s || &s2 + &s1 != s { bad.push("secret-key-add-variants"); }
        let mut p_acc = p1; p_acc += &p2;
        if p1 + &p2 != p || p_acc != p || &p2 + &p1 != p { bad.push("public-key-add-variants"); }
        let pkb = s.public_key();
        if pkb != p || pkb.to_bytes() != p.to_bytes() { bad.push("pk-of-sum-vs-sum-of-pks"); }
        map.add(&s);
        let prop = if bad.is_empty() { "ok".to_string() } else { format!("VIOLATED:{}", bad.join("+")) };
        format!("sk={} pkA={} pkB={} prop={prop}", hx(&s.to_bytes()), hx(&p.to_bytes()), hx(&pkb.to_bytes()))
    });
    let line = format!("C16 add {} {} {}", hx(a), hx(b), map.fmt());
    o.case(&line, &out);
}

fn emit_modr(o: &mut Out, b: &[u8; 32]) {
    let line = format!("C16 modr {}", hx(b));
    let out = guard(|| hx(&mod_by_group_order(*b)));
    o.case(&line, &out);
}

fn hx_or_dash(b: &[u8]) -> String { if b.is_empty() { "-".into() } else { hx(b) } }

fn emit_sign(o: &mut Out, skb: &[u8], msg: &[u8], vskb: &[u8], vmsg: &[u8]) {
    let (sk, vsk) = (sk_of(skb), sk_of(vskb));
    let mut map = Map::new();
    map.add(&sk); map.add(&vsk);
    let out = guard(|| {
        let s1 = sign(&sk, msg);
        let s2 = sign(&sk, msg);
        let det = s1.to_bytes() == s2.to_bytes() && s1 == s2;
        let rt = match Signature::from_bytes(&s1.to_bytes()) { Ok(y) => y == s1 && y.to_bytes() == s1.to_bytes(), Err(_) => false };
        let ver = verify(&s1, &vsk.public_key(), vmsg);
        format!("det={} rt={} valid={} verify={}", tf(det), tf(rt), tf(s1.is_valid()), tf(ver))
    });
    let line = format!("C16 sign {} {} {} {} {}", hx(skb), hx_or_dash(msg), hx(vskb), hx_or_dash(vmsg), map.fmt());
    o.case(&line, &out);
}

// ---------------------------------------------------------------- replay

fn arr<const N: usize>(s: &str) -> [u8; N] { crate::out::unhx(s).try_into().expect("length") }

fn replay_line(o: &mut Out, l: &str) {
    let t: Vec<&str> = l.split_whitespace().collect();
    assert!(t.len() >= 3 && t[0] == "C16", "bad C16 line {l}");
    match (t[1], t[2]) {
        ("rt", "g1") => emit_rt_g1(o, &arr::<48>(t[3])),
        ("rt", "g2") => emit_rt_g2(o, &arr::<96>(t[3])),
        ("rt", "sk") => emit_rt_sk(o, &arr::<32>(t[3])),
        ("rt", "gt") => emit_rt_gt(o, &arr::<576>(t[3])),
        ("derive", m) => {
            let path: Vec<u32> = t[4].split('.').map(|x| x.parse().expect("index")).collect();
            emit_derive(o, m, &crate::out::unhx(t[3]), &path)
        }
        ("synth", _) => emit_synth(o, &crate::out::unhx(t[2]), &arr::<32>(t[3])),
        ("add", _) => emit_add(o, &crate::out::unhx(t[2]), &crate::out::unhx(t[3])),
        ("modr", _) => emit_modr(o, &arr::<32>(t[2])),
        ("sign", _) => emit_sign(o, &crate::out::unhx(t[2]), &crate::out::unhx(t[3]), &crate::out::unhx(t[4]), &crate::out::unhx(t[5])),
        _ => panic!("bad C16 line {l}"),
    }
}

// ---------------------------------------------------------------- generators

fn idx_pool(r: &mut Rng) -> u32 {
    match r.below(8) {
        0 => 0, 1 => 1, 2 => 1 << 31, 3 => u32::MAX, 4 => (1 << 31) - 1, 5 => 0x0100_0000, 6 => r.below(1000) as u32,
        _ => r.next() as u32,
    }
}

fn sub1(b: &[u8]) -> Vec<u8> { be_sub(b, &[1]) }
fn add1(b: &[u8]) -> Vec<u8> { be_add(b, &[1]) }

/// perturbations of a valid 48-byte G1 encoding
fn g1_perturb(o: &mut Out, r: &mut Rng, b: &[u8; 48], all: bool) {
    let p = hex::decode(P_HEX).unwrap();
    let mut v: Vec<[u8; 48]> = vec![];
    let mut push = |x: Vec<u8>| v.push(x.try_into().unwrap());
    // one coordinate bit
    let mut c = b.to_vec(); let bit = 3 + r.below(48 * 8 - 3) as usize; c[bit / 8] ^= 0x80 >> (bit % 8); push(c);
    // the sign bit (the negated point: valid, another encoding of another point)
    let mut c = b.to_vec(); c[0] ^= 0x20; push(c);
    if all {
        // each flag bit alone, all three
        for m in [0x80u8, 0x40, 0xc0, 0xe0, 0x60] { let mut c = b.to_vec(); c[0] ^= m; push(c); }
        // x + p (same residue, out of range) when it fits in 381 bits
        let mut x = b.to_vec(); let flags = x[0] & 0xe0; x[0] &= 0x1f;
        let xp = be_add(&x, &p);
        if xp[0] < 0x20 && be_lt(&x, &xp) { let mut c = xp; c[0] |= flags; push(c); }
        // last byte ± 1
        let mut c = b.to_vec(); c[47] = c[47].wrapping_add(1); push(c);
    }
    for x in v { emit_rt_g1(o, &x); }
}

fn g2_perturb(o: &mut Out, r: &mut Rng, b: &[u8; 96], all: bool) {
    let p = hex::decode(P_HEX).unwrap();
    let mut v: Vec<[u8; 96]> = vec![];
    let mut push = |x: Vec<u8>| v.push(x.try_into().unwrap());
    let mut c = b.to_vec(); let bit = 3 + r.below(96 * 8 - 3) as usize; c[bit / 8] ^= 0x80 >> (bit % 8); push(c);
    let mut c = b.to_vec(); c[0] ^= 0x20; push(c);
    if all {
        for m in [0x80u8, 0x40, 0xc0, 0xe0, 0x60] { let mut c = b.to_vec(); c[0] ^= m; push(c); }
        // c1 + p, c0 + p
        let mut x1 = b[..48].to_vec(); let flags = x1[0] & 0xe0; x1[0] &= 0x1f;
        let xp = be_add(&x1, &p);
        if xp[0] < 0x20 && be_lt(&x1, &xp) { let mut c = xp; c[0] |= flags; c.extend_from_slice(&b[48..]); push(c); }
        let x0 = b[48..].to_vec();
        let xp = be_add(&x0, &p);
        if be_lt(&x0, &xp) { let mut c = b[..48].to_vec(); c.extend_from_slice(&xp); push(c); }
        let mut c = b.to_vec(); c[95] = c[95].wrapping_add(1); push(c);
        let mut c = b.to_vec(); c[47] = c[47].wrapping_add(1); push(c);
    }
    for x in v { emit_rt_g2(o, &x); }
}

pub fn run(o: &mut Out, seed: u64, thorough: bool, replay: Option<Vec<String>>) {
    if let Some(lines) = replay {
        for l in lines { replay_line(o, &l); }
        return;
    }
    let mut r = Rng::new(seed);
    let rb = hex::decode(R_HEX).unwrap();
    let pb = hex::decode(P_HEX).unwrap();
    let zero32 = [0u8; 32];
    let one32 = { let mut x = [0u8; 32]; x[31] = 1; x };
    let rm1: [u8; 32] = sub1(&rb).try_into().unwrap();
    let base_sk = SecretKey::from_seed(&[7u8; 32]);
    let base_pk = base_sk.public_key().to_bytes();
    let base_sig = sign(&base_sk, b"hello").to_bytes();

    // ---- mod_by_group_order: boundaries
    let mut modr_cases: Vec<Vec<u8>> = vec![zero32.to_vec(), one32.to_vec(), rb.clone(), rm1.to_vec(), add1(&rb), vec![0xff; 32], vec![0x7f; 32], vec![0x80; 32]];
    { let mut x = vec![0u8; 32]; x[0] = 0x80; modr_cases.push(x.clone()); x[31] = 1; modr_cases.push(x); }   // -2^255, -2^255+1
    { let mut x = vec![0xffu8; 32]; x[0] = 0x7f; modr_cases.push(x); }                                         // 2^255-1
    { let mut x = vec![0xffu8; 32]; x[31] = 0xfe; modr_cases.push(x); }                                        // -2
    modr_cases.push(be_sub(&zero32, &rb));            // -r
    modr_cases.push(sub1(&be_sub(&zero32, &rb)));     // -r-1
    modr_cases.push(add1(&be_sub(&zero32, &rb)));     // -r+1
    modr_cases.push(be_add(&rb, &rb)[..].to_vec());   // 2r (top bit set: negative as signed)
    for k in [1usize, 8, 16, 24, 31] { let mut x = vec![0u8; 32]; x[k] = 1; modr_cases.push(x.clone()); let mut y = vec![0xffu8; 32]; y[k] = 0xfe; modr_cases.push(y); }
    for c in &modr_cases { emit_modr(o, &c[..].try_into().unwrap()); }

    // ---- secret keys: boundaries
    for c in [zero32.to_vec(), one32.to_vec(), rm1.to_vec(), rb.clone(), add1(&rb), vec![0xff; 32], vec![0x7f; 32], { let mut x = vec![0u8; 32]; x[0] = 0x80; x },
              { let mut x = vec![0u8; 32]; x[0] = 0x73; x }, { let mut x = vec![0u8; 32]; x[0] = 0x74; x }, sub1(&rm1)] {
        emit_rt_sk(o, &c[..].try_into().unwrap());
    }

    // ---- G1 flag bits: every first byte × tails {all zero, 00…01, tail of a valid key}
    let mut tails48: Vec<Vec<u8>> = vec![vec![0u8; 47], { let mut x = vec![0u8; 47]; x[46] = 1; x }, base_pk[1..].to_vec()];
    if thorough { tails48.push({ let mut x = vec![0u8; 47]; x[0] = 1; x }); tails48.push(vec![0xff; 47]); }
    for b0 in 0..=255u8 {
        for t in &tails48 { let mut b = vec![b0]; b.extend_from_slice(t); emit_rt_g1(o, &b[..].try_into().unwrap()); }
    }
    // ---- G2 flag bits
    let mut tails96: Vec<Vec<u8>> = vec![vec![0u8; 95], { let mut x = vec![0u8; 95]; x[94] = 1; x }, base_sig[1..].to_vec()];
    if thorough { tails96.push({ let mut x = vec![0u8; 95]; x[0] = 1; x }); tails96.push({ let mut x = vec![0u8; 95]; x[47] = 1; x }); }
    for b0 in 0..=255u8 {
        for t in &tails96 { let mut b = vec![b0]; b.extend_from_slice(t); emit_rt_g2(o, &b[..].try_into().unwrap()); }
    }
    // ---- all flag combinations on valid points
    for fl in 0..8u8 {
        let mut b = base_pk; b[0] = (b[0] & 0x1f) | (fl << 5); emit_rt_g1(o, &b);
        let mut b = base_sig; b[0] = (b[0] & 0x1f) | (fl << 5); emit_rt_g2(o, &b);
    }
    // ---- coordinates around the field modulus
    for c in [pb.clone(), sub1(&pb), add1(&pb), sub1(&sub1(&pb))] {
        for fl in [0x80u8, 0xa0] {
            let mut b = c.clone(); b[0] |= fl; emit_rt_g1(o, &b[..].try_into().unwrap());
            // G2: c1 = c / c0 = 1 and c1 = 0 / c0 = c
            let mut b2 = b.clone(); b2.extend_from_slice(&[0u8; 47]); b2.push(1); emit_rt_g2(o, &b2[..].try_into().unwrap());
            let mut b3 = vec![0u8; 48]; b3[0] = fl; b3.extend_from_slice(&c); emit_rt_g2(o, &b3[..].try_into().unwrap());
        }
    }
    // ---- small x: points on the curve, (almost) none of them in the subgroup
    let nsmall: u16 = if thorough { 2000 } else { 300 };
    for n in 0..nsmall {
        for fl in [0x80u8, 0xa0] {
            let mut b = [0u8; 48]; b[0] = fl; b[46] = (n >> 8) as u8; b[47] = n as u8; emit_rt_g1(o, &b);
            let mut b = [0u8; 96]; b[0] = fl; b[94] = (n >> 8) as u8; b[95] = n as u8; emit_rt_g2(o, &b);
            if n < 40 { let mut b = [0u8; 96]; b[0] = fl; b[47] = n as u8; b[95] = 1; emit_rt_g2(o, &b); }
        }
    }
    // ---- infinity
    { let mut b = [0u8; 48]; b[0] = 0xc0; emit_rt_g1(o, &b); emit_rt_g1(o, &PublicKey::default().to_bytes()); }
    { let mut b = [0u8; 96]; b[0] = 0xc0; emit_rt_g2(o, &b); emit_rt_g2(o, &Signature::default().to_bytes()); }
    emit_rt_g1(o, &PublicKey::generator().to_bytes());
    emit_rt_g2(o, &Signature::generator().to_bytes());

    // ---- GT
    emit_rt_gt(o, &[0u8; 576]);
    emit_rt_gt(o, &[0xffu8; 576]);
    emit_rt_gt(o, &Signature::generator().pair(&PublicKey::generator()).to_bytes());
    emit_rt_gt(o, &Signature::default().pair(&PublicKey::generator()).to_bytes());

    // ---- special secret keys through every operation
    let specials: Vec<[u8; 32]> = vec![zero32, one32, rm1, { let mut x = [0u8; 32]; x[31] = 2; x }, sub1(&rm1).try_into().unwrap()];
    for s in &specials {
        for path in [vec![0u32], vec![u32::MAX, 1 << 31], vec![0, 1, 2, 3]] { emit_derive(o, "p", s, &path); }
        emit_derive(o, "w", s, &[12381, 8444, 2, 0]);
        emit_synth(o, s, &DEFAULT_HIDDEN_PUZZLE_HASH);
        emit_synth(o, s, &[0u8; 32]);
        for t in &specials { emit_add(o, s, t); }
        let neg: [u8; 32] = if *s == zero32 { zero32 } else { a32(be_sub(&rb, s)) };
        emit_add(o, s, &neg);   // s + (r - s) = 0
        emit_sign(o, s, b"", s, b"");
        emit_sign(o, s, b"hello", s, b"hello");
        emit_sign(o, s, b"hello", s, b"hellp");
    }
    // the derivation vectors of /repo's own tests (secret_key.rs, derive_synthetic.rs)
    let tv1 = hex::decode("52d75c4707e39595b27314547f9723e5530c01198af3fc5849d9a7af65631efb").unwrap();
    let tv2 = hex::decode("6bb19282e27bc6e7e397fb19efc2627a412410fdfd13bf14f4ce5bfdce084c71").unwrap();
    emit_derive(o, "p", &tv1, &[0]); emit_derive(o, "p", &tv1, &[1]); emit_derive(o, "p", &tv1, &[2]); emit_derive(o, "p", &tv1, &[3]);
    for i in 0..16u32 { emit_derive(o, "w", &tv2, &[12381, 8444, 2, i]); }
    emit_synth(o, &tv2, &DEFAULT_HIDDEN_PUZZLE_HASH);

    // ---- seeds
    let nseeds = if thorough { 20000 } else { 2200 };
    let msgs: Vec<Vec<u8>> = vec![vec![], vec![0x61], b"hello".to_vec(), vec![0u8; 32], (0..100u8).collect()];
    let mut prev: [u8; 32] = base_sk.to_bytes();
    for n in 0..nseeds {
        let seedlen = *r.pick(&[32usize, 32, 32, 33, 64]);
        let sk = SecretKey::from_seed(&r.bytes(seedlen));
        let skb = sk.to_bytes();
        let pk = sk.public_key();
        // encodings
        emit_rt_sk(o, &skb);
        emit_rt_g1(o, &pk.to_bytes());
        g1_perturb(o, &mut r, &pk.to_bytes(), n % 20 == 0);
        // derivation along a path of length 1..4
        let len = r.range(1, 4) as usize;
        let path: Vec<u32> = (0..len).map(|_| idx_pool(&mut r)).collect();
        emit_derive(o, "p", &skb, &path);
        if n % 5 == 0 { let i = idx_pool(&mut r); emit_derive(o, "w", &skb, &[12381, 8444, 2, i]); }
        if n % 7 == 0 {
            // keys below the hardened tree as further starting points
            let h = sk.derive_hardened(idx_pool(&mut r)).to_bytes();
            emit_rt_sk(o, &h);
            emit_derive(o, "p", &h, &[idx_pool(&mut r)]);
        }
        // synthetic keys
        let hph: [u8; 32] = match r.below(4) { 0 => DEFAULT_HIDDEN_PUZZLE_HASH, 1 => [0u8; 32], 2 => [0xffu8; 32], _ => r.bytes(32).try_into().unwrap() };
        emit_synth(o, &skb, &hph);
        // addition
        emit_add(o, &skb, &prev);
        if n % 10 == 0 { emit_add(o, &skb, &a32(be_sub(&rb, &skb))); emit_add(o, &skb, &skb); }
        // mod_by_group_order
        let mut m: [u8; 32] = r.bytes(32).try_into().unwrap();
        match r.below(8) { 0 => m[0] = 0, 1 => m[0] = 0xff, 2 => m[0] = 0x7f, 3 => m[0] = 0x80, 4 => m[0] = 0x73, 5 => { m[0] = 0; m[1] = 0; m[2] &= 1 }, 6 => { m[0] = 0xff; m[1] = 0xff }, _ => {} }
        emit_modr(o, &m);
        if n % 4 == 0 { emit_modr(o, &skb); emit_modr(o, &a32(be_add(&skb, &rb))); emit_modr(o, &a32(be_sub(&zero32, &skb))); }
        // signing
        if n % 2 == 0 || thorough {
            let msg = r.pick(&msgs).clone();
            let (vsk, vmsg) = match r.below(6) { 0 => (prev, msg.clone()), 1 => (skb, { let mut x = msg.clone(); x.push(0x21); x }), _ => (skb, msg.clone()) };
            emit_sign(o, &skb, &msg, &vsk, &vmsg);
            if n % 8 == 0 {
                let sg = sign(&sk, &msg);
                emit_rt_g2(o, &sg.to_bytes());
                g2_perturb(o, &mut r, &sg.to_bytes(), n % 40 == 0);
                if n % 80 == 0 { emit_rt_gt(o, &sg.pair(&pk).to_bytes()); emit_rt_gt(o, &r.bytes(576)[..].try_into().unwrap()); }
            }
        }
        prev = skb;
    }
    // ---- malformed stream: random strings with a plausible flag byte
    let nrand = if thorough { 4000 } else { 400 };
    for _ in 0..nrand {
        let mut b: [u8; 48] = r.bytes(48).try_into().unwrap();
        if r.chance(3, 4) { b[0] = (b[0] & 0x1f) | 0x80 | if r.chance(1, 2) { 0x20 } else { 0 }; if r.chance(1, 2) { b[0] &= 0xef; } }
        emit_rt_g1(o, &b);
        let mut b: [u8; 96] = r.bytes(96).try_into().unwrap();
        if r.chance(3, 4) { b[0] = (b[0] & 0x0f) | 0x80 | if r.chance(1, 2) { 0x20 } else { 0 }; b[48] &= 0x0f; }
        emit_rt_g2(o, &b);
        emit_rt_sk(o, &r.bytes(32)[..].try_into().unwrap());
    }
}
