//! C18: operation histories on the real `chia_datalayer::MerkleBlob`.
//!
//! `C18 hist <op>;<op>;…`  — after EACH op: result (O/E/P), SHA-256 of the blob bytes, sorted
//! key/value pairs, `check_integrity`, reload (`MerkleBlob::new(bytes)`); after `hashes` also the
//! root hash and, per key, whether the inclusion proof is valid and ends in the root.  The Lean
//! driver prints the same line computed by the index-level model.
//! `C18 prop <op>;…[ @class]` — the property itself evaluated on the real code against a plain
//! `BTreeMap` oracle: `integrity=… content=… fail=… reload=… proofs=…`; the model side prints the
//! property's prescription (all good).  `@dupbatch` / `@upshash` are computed from the history alone
//! (never from the outcome): the history contains a batch with a key/hash already present or
//! repeated, resp. an upsert whose new hash belongs to another key - the two classes that were
//! mishandled before commits 934ac687 and fbd3f8c2 (now rejected by the code; markers informational).
//! (`C18_TRACE=1` prints every history to stderr before it runs: the real code can loop forever on a
//! corrupted blob, e.g. `get_lineage_blocks_with_indexes` on a parent-pointer cycle.)
use crate::out::Out;
use crate::prng::Rng;
use chia_datalayer::{internal_hash, Hash, InsertLocation, KeyId, MerkleBlob, Node, Side, TreeIndex, ValueId};
use chia_protocol::Bytes32;
use chia_sha2::Sha256;
use std::collections::{BTreeMap, BTreeSet};
use std::panic::{catch_unwind, AssertUnwindSafe};

type H = [u8; 32];

#[derive(Clone, Debug, PartialEq)]
pub enum Loc { Auto, Left(i64), Right(i64) }

#[derive(Clone, Debug, PartialEq)]
pub enum Op {
    Ins(i64, i64, H, Loc),
    Ups(i64, i64, H),
    Del(i64),
    Batch(Vec<(i64, i64, H)>),
    Hashes,
}

fn htok(h: &H) -> String {
    if h.iter().all(|b| *b == h[0]) { format!("h{:02x}", h[0]) } else { hex::encode(h) }
}
fn unhtok(s: &str) -> H {
    if s.len() == 3 && s.starts_with('h') {
        [u8::from_str_radix(&s[1..], 16).expect("hash token"); 32]
    } else {
        let v = hex::decode(s).expect("hash hex");
        v.as_slice().try_into().expect("32 bytes")
    }
}

pub fn fmt_op(op: &Op) -> String {
    match op {
        Op::Ins(k, v, h, l) => format!("ins {k} {v} {} {}", htok(h), match l {
            Loc::Auto => "auto".to_string(), Loc::Left(r) => format!("left:{r}"), Loc::Right(r) => format!("right:{r}") }),
        Op::Ups(k, v, h) => format!("ups {k} {v} {}", htok(h)),
        Op::Del(k) => format!("del {k}"),
        Op::Batch(l) => {
            let mut s = format!("batch {}", l.len());
            for (k, v, h) in l { s.push_str(&format!(" {k} {v} {}", htok(h))); }
            s
        }
        Op::Hashes => "hashes".to_string(),
    }
}
pub fn fmt_hist(ops: &[Op]) -> String { ops.iter().map(fmt_op).collect::<Vec<_>>().join(";") }

pub fn parse_op(s: &str) -> Op {
    let t: Vec<&str> = s.split_whitespace().collect();
    match t[0] {
        "ins" => {
            let loc = if t[4] == "auto" { Loc::Auto }
                else if let Some(r) = t[4].strip_prefix("left:") { Loc::Left(r.parse().unwrap()) }
                else if let Some(r) = t[4].strip_prefix("right:") { Loc::Right(r.parse().unwrap()) }
                else { panic!("bad location {}", t[4]) };
            Op::Ins(t[1].parse().unwrap(), t[2].parse().unwrap(), unhtok(t[3]), loc)
        }
        "ups" => Op::Ups(t[1].parse().unwrap(), t[2].parse().unwrap(), unhtok(t[3])),
        "del" => Op::Del(t[1].parse().unwrap()),
        "batch" => {
            let n: usize = t[1].parse().unwrap();
            Op::Batch((0..n).map(|i| (t[2 + 3 * i].parse().unwrap(), t[3 + 3 * i].parse().unwrap(), unhtok(t[4 + 3 * i]))).collect())
        }
        "hashes" => Op::Hashes,
        _ => panic!("bad op {s}"),
    }
}

fn hh(h: &H) -> Hash { Hash(Bytes32::new(*h)) }

/// one operation on the real blob: Ok(true) = Ok, Ok(false) = Err, Err = panic
fn apply(b: &mut MerkleBlob, op: &Op) -> Result<bool, ()> {
    let r = catch_unwind(AssertUnwindSafe(|| -> bool {
        match op {
            Op::Ins(k, v, h, loc) => {
                let loc = match loc {
                    Loc::Auto => InsertLocation::Auto {},
                    Loc::Left(r) | Loc::Right(r) => {
                        let Ok(index) = b.get_key_index(KeyId(*r)) else { return false; };
                        InsertLocation::Leaf { index, side: if matches!(loc, Loc::Left(_)) { Side::Left } else { Side::Right } }
                    }
                };
                b.insert(KeyId(*k), ValueId(*v), &hh(h), loc).is_ok()
            }
            Op::Ups(k, v, h) => b.upsert(KeyId(*k), ValueId(*v), &hh(h)).is_ok(),
            Op::Del(k) => b.delete(KeyId(*k)).is_ok(),
            Op::Batch(l) => b.batch_insert(l.iter().map(|(k, v, h)| ((KeyId(*k), ValueId(*v)), hh(h))).collect()).is_ok(),
            Op::Hashes => b.calculate_lazy_hashes().is_ok(),
        }
    }));
    r.map_err(|_| ())
}

fn sha_hex(b: &[u8]) -> String {
    let mut h = Sha256::new();
    h.update(b);
    hex::encode(h.finalize())
}

/// sorted key/value pairs, or ERR / PANIC
fn kv_sorted(b: &MerkleBlob) -> Result<Vec<(i64, i64)>, String> {
    match catch_unwind(AssertUnwindSafe(|| b.get_keys_values())) {
        Err(_) => Err("PANIC".into()),
        Ok(Err(_)) => Err("ERR".into()),
        Ok(Ok(m)) => { let mut v: Vec<(i64, i64)> = m.iter().map(|(k, v)| (k.0, v.0)).collect(); v.sort(); Ok(v) }
    }
}
fn kv_str(r: &Result<Vec<(i64, i64)>, String>) -> String {
    match r {
        Err(e) => e.clone(),
        Ok(v) if v.is_empty() => "-".into(),
        Ok(v) => v.iter().map(|(k, v)| format!("{k}={v}")).collect::<Vec<_>>().join(","),
    }
}
fn integrity(b: &MerkleBlob) -> &'static str {
    match catch_unwind(AssertUnwindSafe(|| b.check_integrity())) {
        Err(_) => "PANIC", Ok(Err(_)) => "fail", Ok(Ok(())) => "ok",
    }
}
/// reload the serialized bytes: same = loads, same key/values, integrity ok
fn reload(b: &MerkleBlob, kv: &Result<Vec<(i64, i64)>, String>) -> &'static str {
    let bytes = b.read_blob().clone();
    match catch_unwind(AssertUnwindSafe(|| MerkleBlob::new(bytes))) {
        Err(_) => "PANIC",
        Ok(Err(_)) => "err",
        Ok(Ok(mut n)) => {
            n.check_integrity_on_drop = false;
            let nkv = kv_sorted(&n);
            if &nkv == kv && kv.is_ok() && integrity(&n) == "ok" && n.read_blob() == b.read_blob() { "same" } else { "diff" }
        }
    }
}
fn root_hash(b: &MerkleBlob) -> Result<Option<H>, String> {
    match catch_unwind(AssertUnwindSafe(|| b.get_hash_at_index(TreeIndex(0)))) {
        Err(_) => Err("PANIC".into()), Ok(Err(_)) => Err("ERR".into()),
        Ok(Ok(o)) => Ok(o.map(|h| { let x: [u8; 32] = h.0.into(); x })),
    }
}
fn lineage_ends(b: &MerkleBlob, k: i64) -> bool {
    let Ok(mut idx) = b.get_key_index(KeyId(k)) else { return true; };
    let n = b.read_blob().len() / chia_datalayer::BLOCK_SIZE;
    for _ in 0..=n {
        match b.get_parent_index(idx) {
            Ok(p) => match p.0 { Some(i) => idx = i, None => return true },
            Err(_) => return true,
        }
    }
    false
}
/// per key: proof valid, proof's root = the blob's root
fn proofs(b: &MerkleBlob, keys: &[i64], root: &Result<Option<H>, String>) -> Vec<(i64, String)> {
    keys.iter().map(|k| {
        // `get_lineage_blocks_with_indexes` has no cycle guard: in a corrupted blob the parent
        // pointers of a cached leaf may loop.  Walk them with a bound first; `L` = does not end.
        if !lineage_ends(b, *k) { return (*k, "L".to_string()); }
        let r = catch_unwind(AssertUnwindSafe(|| b.get_proof_of_inclusion(KeyId(*k))));
        let s = match r {
            Err(_) => "P".to_string(),
            Ok(Err(_)) => "E".to_string(),
            Ok(Ok(p)) => {
                let pr: [u8; 32] = p.root_hash().0.into();
                format!("{}{}", p.valid() as u8, (Ok(Some(pr)) == *root) as u8)
            }
        };
        (*k, s)
    }).collect()
}
/// the root hash recomputed independently: recursive walk over `get_node`, hashing bottom-up
fn independent_root(b: &MerkleBlob, idx: TreeIndex, depth: usize) -> Option<H> {
    if depth > 4096 { return None; }
    match b.get_node(idx).ok()? {
        Node::Leaf(l) => Some(l.hash.0.into()),
        Node::Internal(n) => {
            let l = independent_root(b, n.left, depth + 1)?;
            let r = independent_root(b, n.right, depth + 1)?;
            Some(internal_hash(&hh(&l), &hh(&r)).0.into())
        }
    }
}

fn new_blob() -> MerkleBlob {
    let mut b = MerkleBlob::new(Vec::new()).expect("empty blob");
    b.check_integrity_on_drop = false;
    b
}

/// implementation output of a `hist` line
pub fn run_hist(ops: &[Op]) -> String {
    let mut b = new_blob();
    let mut out: Vec<String> = vec![];
    for op in ops {
        let r = apply(&mut b, op);
        let Ok(okay) = r else { out.push("P".into()); break; };
        let kv = kv_sorted(&b);
        let mut s = format!("{}|{}|{}|{}|{}", if okay { "O" } else { "E" }, sha_hex(b.read_blob()), kv_str(&kv),
                            integrity(&b), reload(&b, &kv));
        if matches!(op, Op::Hashes) {
            let root = root_hash(&b);
            let rs = match &root { Err(e) => e.clone(), Ok(None) => "none".into(), Ok(Some(h)) => hex::encode(h) };
            let keys: Vec<i64> = kv.clone().unwrap_or_default().iter().map(|x| x.0).collect();
            let ps = proofs(&b, &keys, &root);
            let ps = if ps.is_empty() { "-".to_string() } else { ps.iter().map(|(k, s)| format!("{k}:{s}")).collect::<Vec<_>>().join(",") };
            s.push_str(&format!("|{rs}|{ps}"));
        }
        out.push(s);
    }
    if out.is_empty() { "-".into() } else { out.join(";") }
}

/// the property evaluated on the real code against a plain map oracle
pub fn run_prop(ops: &[Op]) -> String {
    let mut b = new_blob();
    let mut oracle: BTreeMap<i64, i64> = BTreeMap::new();
    let (mut integ, mut content, mut fail, mut rel, mut prf) = (true, true, true, true, true);
    for op in ops {
        let before = b.read_blob().clone();
        let r = apply(&mut b, op);
        let Ok(okay) = r else { integ = false; break; };
        if okay {
            match op {
                Op::Ins(k, v, _, _) | Op::Ups(k, v, _) => { oracle.insert(*k, *v); }
                Op::Del(k) => { oracle.remove(k); }
                Op::Batch(l) => { for (k, v, _) in l { oracle.insert(*k, *v); } }
                Op::Hashes => {}
            }
        } else if *b.read_blob() != before { fail = false; }
        let kv = kv_sorted(&b);
        if integrity(&b) != "ok" { integ = false; }
        if kv != Ok(oracle.iter().map(|(k, v)| (*k, *v)).collect::<Vec<_>>()) { content = false; }
        if reload(&b, &kv) != "same" { rel = false; }
        if matches!(op, Op::Hashes) && okay {
            let root = root_hash(&b);
            let indep = if b.read_blob().is_empty() { None } else { independent_root(&b, TreeIndex(0), 0) };
            if root != Ok(indep) { prf = false; }
            let keys: Vec<i64> = oracle.keys().copied().collect();
            if proofs(&b, &keys, &root).iter().any(|(_, s)| s != "11") { prf = false; }
        } else if matches!(op, Op::Hashes) { prf = false; }
    }
    let f = |x: bool, a: &'static str, b: &'static str| if x { a } else { b };
    format!("integrity={} content={} fail={} reload={} proofs={}", f(integ, "ok", "fail"), f(content, "eq", "ne"),
            f(fail, "kept", "changed"), f(rel, "same", "diff"), f(prf, "ok", "bad"))
}

/// specification-level simulation (keys, values, leaf hashes) used only to classify histories
#[derive(Default, Clone)]
pub struct Spec { pub m: BTreeMap<i64, (i64, H)> }
impl Spec {
    fn has_hash(&self, h: &H) -> bool { self.m.values().any(|(_, x)| x == h) }
    /// is `op` in one of the two known defect classes in this state?
    pub fn class(&self, op: &Op) -> Option<&'static str> {
        match op {
            Op::Batch(l) => {
                let mut ks = BTreeSet::new();
                let mut hs = BTreeSet::new();
                for (k, _, h) in l {
                    if self.m.contains_key(k) || self.has_hash(h) || !ks.insert(*k) || !hs.insert(*h) { return Some("@dupbatch"); }
                }
                None
            }
            Op::Ups(k, _, h) => {
                if self.m.iter().any(|(k2, (_, h2))| k2 != k && h2 == h) { Some("@upshash") } else { None }
            }
            _ => None,
        }
    }
    /// what the property prescribes (an op of a defect class fails and changes nothing)
    pub fn apply(&mut self, op: &Op) {
        if self.class(op).is_some() { return; }
        match op {
            Op::Ins(k, v, h, loc) => {
                let ref_ok = match loc { Loc::Auto => true, Loc::Left(r) | Loc::Right(r) => self.m.contains_key(r) };
                if ref_ok && !self.m.contains_key(k) && !self.has_hash(h) { self.m.insert(*k, (*v, *h)); }
            }
            Op::Ups(k, v, h) => { self.m.insert(*k, (*v, *h)); }
            Op::Del(k) => { self.m.remove(k); }
            Op::Batch(l) => { for (k, v, h) in l { self.m.insert(*k, (*v, *h)); } }
            Op::Hashes => {}
        }
    }
}

/// emit the `hist` line and the `prop` line of the same history; the `prop` line is marked with the
/// classes of operation it contains that the code before commits 934ac687 / fbd3f8c2 mishandled
/// (computed from the history alone; informational since the repair)
fn emit(o: &mut Out, seen: &mut BTreeSet<String>, ops: &[Op]) {
    let h = fmt_hist(ops);
    if !seen.insert(h.clone()) { return; }
    if std::env::var("C18_TRACE").is_ok() { eprintln!("TRACE {h}"); }
    o.case(&format!("C18 hist {h}"), &run_hist(ops));
    let mut spec = Spec::default();
    let (mut dup, mut ups) = (false, false);
    for op in ops {
        match spec.class(op) { Some("@dupbatch") => dup = true, Some("@upshash") => ups = true, _ => {} }
        spec.apply(op);
    }
    let marks = format!("{}{}", if dup { " @dupbatch" } else { "" }, if ups { " @upshash" } else { "" });
    o.case(&format!("C18 prop {h}{marks}"), &run_prop(ops));
}

pub fn replay_line(o: &mut Out, l: &str) {
    let rest = l.strip_prefix("C18 ").expect("C18 line");
    let (kind, body) = rest.split_once(' ').unwrap_or((rest, ""));
    let body_ops = body.split(" @").next().unwrap_or("");
    let ops: Vec<Op> = body_ops.split(';').filter(|s| !s.trim().is_empty()).map(parse_op).collect();
    match kind {
        "hist" => o.case(l, &run_hist(&ops)),
        "prop" => o.case(l, &run_prop(&ops)),
        _ => panic!("bad C18 line {l}"),
    }
}

fn pool_hash(i: u64) -> H { [(i as u8) + 1; 32] }

struct Gen<'a> { r: &'a mut Rng, big: bool, fresh: i64 }
impl Gen<'_> {
    fn key(&mut self, spec: &Spec) -> i64 {
        if !self.big { return self.r.below(6) as i64 + 1; }
        // large key space: mostly an existing key or a new random i64 (negative ones included)
        if !spec.m.is_empty() && self.r.chance(1, 2) {
            let ks: Vec<i64> = spec.m.keys().copied().collect();
            *self.r.pick(&ks)
        } else if self.r.chance(1, 8) { *self.r.pick(&[0i64, -1, i64::MAX, i64::MIN, 1 << 32, -(1 << 40)]) }
        else { self.r.next() as i64 }
    }
    fn fresh_key(&mut self) -> i64 { self.fresh += 1; if self.big { (self.r.next() as i64) | 1 << 20 } else { 100 + self.fresh } }
    fn hash(&mut self, spec: &Spec) -> H {
        if !self.big { return pool_hash(self.r.below(8)); }
        if !spec.m.is_empty() && self.r.chance(1, 10) {
            let hs: Vec<H> = spec.m.values().map(|x| x.1).collect();
            *self.r.pick(&hs)
        } else { let v = self.r.bytes(32); v.as_slice().try_into().unwrap() }
    }
    fn fresh_hash(&mut self) -> H { let v = self.r.bytes(32); let mut h: H = v.as_slice().try_into().unwrap(); h[0] = 0xf0; h[1] ^= 1; h }
    fn value(&mut self) -> i64 { if self.big && self.r.chance(1, 4) { self.r.next() as i64 } else { self.r.below(90) as i64 + 10 } }
    fn op(&mut self, spec: &Spec) -> Op {
        let x = self.r.below(100);
        if x < 38 {
            let loc = match self.r.below(10) {
                0..=5 => Loc::Auto,
                6 | 7 => Loc::Left(self.key(spec)),
                _ => Loc::Right(self.key(spec)),
            };
            // favour keys that are not present so that inserts mostly succeed
            let mut k = self.key(spec);
            for _ in 0..2 { if spec.m.contains_key(&k) { k = self.key(spec); } }
            let mut h = self.hash(spec);
            for _ in 0..2 { if spec.has_hash(&h) { h = self.hash(spec); } }
            Op::Ins(k, self.value(), h, loc)
        } else if x < 56 {
            Op::Ups(self.key(spec), self.value(), self.hash(spec))
        } else if x < 80 {
            Op::Del(self.key(spec))
        } else if x < 90 {
            let n = self.r.below(10) as usize;
            let from_pool = self.r.chance(1, 4);
            Op::Batch((0..n).map(|_| {
                let k = if from_pool { self.key(spec) } else { self.fresh_key() };
                let h = if from_pool || self.r.chance(1, 12) { self.hash(spec) } else { self.fresh_hash() };
                (k, self.value(), h)
            }).collect())
        } else { Op::Hashes }
    }
    /// a history of `len` ops; when `clean`, ops of a defect class are re-drawn
    fn history(&mut self, len: usize, clean: bool) -> Vec<Op> {
        let mut spec = Spec::default();
        let mut ops = vec![];
        while ops.len() < len {
            let mut op = self.op(&spec);
            if clean { let mut tries = 0; while spec.class(&op).is_some() && tries < 20 { op = self.op(&spec); tries += 1; }
                       if spec.class(&op).is_some() { op = Op::Hashes; } }
            spec.apply(&op);
            ops.push(op);
        }
        ops
    }
}

/// the op alphabet of the exhaustive enumeration: 3 keys, 3 hashes
fn alphabet() -> Vec<Op> {
    let ks = [1i64, 2, 3];
    let hs = [pool_hash(0), pool_hash(1), pool_hash(2)];
    let mut a = vec![Op::Hashes];
    for k in ks { a.push(Op::Del(k)); }
    for k in ks { for (j, h) in hs.iter().enumerate() { a.push(Op::Ups(k, 20 + j as i64, *h)); } }
    for k in ks { for h in hs {
        a.push(Op::Ins(k, 10 + k, h, Loc::Auto));
        for r in ks { if r != k { a.push(Op::Ins(k, 10 + k, h, Loc::Left(r))); a.push(Op::Ins(k, 10 + k, h, Loc::Right(r))); } }
    }}
    a.push(Op::Batch(vec![]));
    a.push(Op::Batch(vec![(1, 31, hs[0])]));
    a.push(Op::Batch(vec![(1, 31, hs[0]), (2, 32, hs[1])]));
    a.push(Op::Batch(vec![(2, 32, hs[1]), (3, 33, hs[2])]));
    a.push(Op::Batch(vec![(1, 31, hs[0]), (2, 32, hs[1]), (3, 33, hs[2])]));
    a.push(Op::Batch(vec![(3, 33, hs[2]), (3, 34, hs[1])]));
    a
}

pub fn run(o: &mut Out, seed: u64, thorough: bool, replay: Option<Vec<String>>) {
    std::panic::set_hook(Box::new(|_| {}));
    if let Some(lines) = replay {
        for l in lines { replay_line(o, &l); }
        return;
    }
    let mut seen = BTreeSet::new();
    let mut r = Rng::new(seed);
    let f = |i: u64| pool_hash(i);

    // 1. the two confirmed defects (DESIGN §7 C18a, C18b) and their neighbourhood, first
    let three = vec![Op::Ins(1, 11, f(0), Loc::Auto), Op::Ins(2, 12, f(1), Loc::Auto), Op::Ins(3, 13, f(2), Loc::Auto)];
    let mut h = three.clone(); h.push(Op::Batch(vec![(1, 50, f(4)), (7, 51, f(5))])); emit(o, &mut seen, &h);
    let mut h = three.clone(); h.push(Op::Ups(1, 11, f(1))); emit(o, &mut seen, &h);
    emit(o, &mut seen, &[Op::Batch(vec![(1, 11, f(0)), (1, 12, f(1))])]);
    emit(o, &mut seen, &[Op::Batch(vec![(1, 11, f(0)), (2, 12, f(0))])]);
    emit(o, &mut seen, &[Op::Batch(vec![(1, 11, f(0)), (2, 12, f(1)), (3, 13, f(2))]), Op::Hashes]);

    // 2. exhaustive: every history of length ≤ 2 (quick) / ≤ 3 (thorough) over 3 keys and 3 hashes
    let a = alphabet();
    for x in &a { emit(o, &mut seen, &[x.clone()]); }
    for x in &a { for y in &a { emit(o, &mut seen, &[x.clone(), y.clone()]); } }
    if thorough {
        // a first op that fails on the empty blob adds nothing over the length-2 histories
        let first: Vec<&Op> = a.iter().filter(|x| !matches!(x, Op::Del(_) | Op::Ins(_, _, _, Loc::Left(_)) | Op::Ins(_, _, _, Loc::Right(_)))).collect();
        for x in &first { for y in &a { for z in &a { emit(o, &mut seen, &[(*x).clone(), y.clone(), z.clone()]); } } }
    } else {
        for _ in 0..1500 { let h = [r.pick(&a).clone(), r.pick(&a).clone(), r.pick(&a).clone()]; emit(o, &mut seen, &h); }
    }

    // 3. batch sizes 0..9 on trees of 0, 1, 2, n leaves (fresh keys and hashes), then hashes, a delete, hashes
    for base in [0usize, 1, 2, 3, 5, 8, 17] { for n in 0..10usize {
        let mut h: Vec<Op> = (0..base).map(|i| Op::Ins(i as i64 + 1, 10 + i as i64, f(i as u64), Loc::Auto)).collect();
        h.push(Op::Batch((0..n).map(|j| (100 + j as i64, 50 + j as i64, f(100 + j as u64))).collect()));
        h.push(Op::Hashes);
        if base + n > 0 { h.push(Op::Del(if n > 0 { 100 } else { 1 })); h.push(Op::Hashes); }
        emit(o, &mut seen, &h);
    }}

    // 4. insert n, delete down to 0 / 1 / 2 leaves, insert again (free-index reuse, sibling promotion to the root)
    for n in [1usize, 2, 3, 4, 6, 9] { for keep in 0..3usize { for variant in 0..(if thorough { 6 } else { 2 }) {
        if keep > n { continue; }
        let mut h: Vec<Op> = (0..n).map(|i| Op::Ins(i as i64 + 1, 10 + i as i64, f(i as u64),
            if variant % 2 == 0 || i == 0 { Loc::Auto } else if i % 2 == 0 { Loc::Left(r.below(i as u64) as i64 + 1) } else { Loc::Right(r.below(i as u64) as i64 + 1) })).collect();
        let mut order: Vec<i64> = (1..=n as i64).collect();
        for i in (1..order.len()).rev() { let j = r.below(i as u64 + 1) as usize; order.swap(i, j); }
        for k in order.iter().take(n - keep) { h.push(Op::Del(*k)); }
        if variant % 3 == 0 { h.push(Op::Hashes); }
        for i in 0..3 { h.push(Op::Ins(50 + i, 60 + i, f(50 + i as u64), Loc::Auto)); }
        h.push(Op::Batch((0..(variant + 1)).map(|j| (70 + j as i64, 80, f(70 + j as u64))).collect()));
        h.push(Op::Hashes);
        emit(o, &mut seen, &h);
    }}}

    // 4b. degenerate deep trees: a chain of inserts each placed at the previously inserted leaf (depth = length),
    //     well past any fixed recursion bound in the code; every key must still have a proof ending in the root
    for (n, right) in [(66usize, true), (70, false), (130, true)] {
        let mut h: Vec<Op> = vec![Op::Ins(1, 10, f(0), Loc::Auto)];
        for i in 1..n { h.push(Op::Ins(i as i64 + 1, 10 + i as i64, f(i as u64), if right { Loc::Right(i as i64) } else { Loc::Left(i as i64) })); }
        h.push(Op::Hashes);
        emit(o, &mut seen, &h);
        let mut h2 = h.clone(); h2.push(Op::Ups(n as i64, 999, f(1000))); h2.push(Op::Del(1)); h2.push(Op::Hashes);
        emit(o, &mut seen, &h2);
    }

    // 5. random histories, small key space (6 keys, 8 hashes): many short ones, some long
    let n_small = if thorough { 8000 } else { 1000 };
    for i in 0..n_small {
        let len = match i % 10 { 0..=4 => r.range(1, 6), 5..=7 => r.range(4, 14), 8 => r.range(10, 30), _ => r.range(25, 60) } as usize;
        let clean = i % 3 != 0;
        let h = Gen { r: &mut r, big: false, fresh: 0 }.history(len, clean);
        emit(o, &mut seen, &h);
    }
    // 6. random histories, large key space (random i64 keys incl. negative, random 32-byte hashes)
    let n_big = if thorough { 2500 } else { 200 };
    for i in 0..n_big {
        let len = match i % 6 { 0..=2 => r.range(1, 8), 3 | 4 => r.range(6, 25), _ => r.range(25, 60) } as usize;
        let clean = i % 4 != 0;
        let h = Gen { r: &mut r, big: true, fresh: 0 }.history(len, clean);
        emit(o, &mut seen, &h);
    }
}
