//! vharness: calls the real chia_rs functions in-process on generated inputs and writes
//! `cases.txt` (inputs for the Lean model driver) and `impl.txt` (canonical observables).
//! usage: vharness <prop> <outdir> <seed> <quick|thorough> [replay-file]
mod out;
mod prng;
mod ints;
mod cond;
mod locks;
mod sigs;
mod genpaths;
mod bls;
mod treehash;
mod merkle;
mod mempool;
mod datalayer;
mod keys;
mod builders;
mod gen_types;
mod streamable;

#[global_allocator]
static ALLOC: streamable::Counting = streamable::Counting;

fn main() {
    let args: Vec<String> = std::env::args().collect();
    if args.len() < 5 {
        eprintln!("usage: vharness <prop> <outdir> <seed> <quick|thorough> [replay-file]");
        std::process::exit(2);
    }
    let prop = args[1].as_str();
    let dir = args[2].as_str();
    let seed: u64 = args[3].parse().expect("seed");
    let thorough = args[4] == "thorough";
    let replay: Option<Vec<String>> = args.get(5).map(|p| {
        std::fs::read_to_string(p).expect("replay file").lines()
            .filter(|l| !l.starts_with('#') && !l.trim().is_empty()).map(|l| l.to_string()).collect()
    });
    if prop == "C13-worker" {
        // re-invoked by streamable::run_isolated: vharness C13-worker <dir> <start> <single|all>
        streamable::worker_main(dir, args[3].parse().expect("start"), args[4] == "single");
        return;
    }
    let mut o = out::Out::new(dir);
    match prop {
        "C11" => ints::run(&mut o, seed, thorough, replay),
        "C01" => cond::run(&mut o, seed, thorough, replay),
        "C02" => match replay {
            Some(lines) => {
                let (paths, own): (Vec<String>, Vec<String>) = lines.into_iter().partition(|l| l.starts_with("C07 ") || l.starts_with("C08 "));
                if !own.is_empty() { cond::run_c02(&mut o, seed, thorough, Some(own)); }
                genpaths::replay_paths(&mut o, paths);
            }
            None => { cond::run_c02(&mut o, seed, thorough, None); genpaths::run_paths_sample(&mut o, seed, thorough); }
        },
        "C03" => locks::run(&mut o, seed, thorough, replay),
        "C05" => sigs::run(&mut o, seed, thorough, replay),
        "C06" => cond::run_c06(&mut o, seed, thorough, replay),
        "C13" => streamable::run_c13(&mut o, dir, seed, thorough, replay),
        "C14" => streamable::run_c14(&mut o, dir, seed, thorough, replay),
        "C10" => builders::run(&mut o, seed, thorough, replay),
        "C12" => merkle::run(&mut o, seed, thorough, replay),
        "C16" => keys::run(&mut o, seed, thorough, replay),
        "C18" => datalayer::run(&mut o, seed, thorough, replay),
        "C19" => mempool::run(&mut o, seed, thorough, replay),
        "C17" => treehash::run(&mut o, seed, thorough, replay),
        "C15" => bls::run(&mut o, seed, thorough, replay),
        "C07" => genpaths::run_c07(&mut o, seed, thorough, replay),
        "C08" => genpaths::run_c08(&mut o, seed, thorough, replay),
        "C09" => genpaths::run_c09(&mut o, seed, thorough, replay),
        "C04" => match replay {
            Some(lines) => {
                let (paths, own): (Vec<String>, Vec<String>) = lines.into_iter().partition(|l| l.starts_with("C07 ") || l.starts_with("C08 "));
                if !own.is_empty() { cond::run_c04(&mut o, seed, thorough, Some(own)); }
                genpaths::replay_paths(&mut o, paths);
            }
            None => { cond::run_c04(&mut o, seed, thorough, None); genpaths::run_limits(&mut o, seed, thorough); }
        },
        _ => { eprintln!("unknown property {prop}"); std::process::exit(2); }
    }
    let n = o.finish();
    eprintln!("vharness {prop}: {n} cases");
}
