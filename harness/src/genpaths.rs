//! C07 / C08 / C09: the block-generator execution paths.  The CLVM interpreter is external to the
//! model, so every `run_program` result the code obtains is recomputed here with the real
//! interpreter at an unbounded limit and shipped on the case line as an oracle value.
use crate::cond::*;
use crate::out::{hx, Out};
use crate::prng::Rng;
use chia_bls::Signature;
use chia_consensus::additions_and_removals::additions_and_removals;
use chia_consensus::allocator::make_allocator;
use chia_consensus::consensus_constants::TEST_CONSTANTS;
use chia_consensus::flags::ConsensusFlags;
use chia_consensus::get_puzzle_and_solution::get_puzzle_and_solution_for_coin;
use chia_consensus::owned_conditions::OwnedSpendBundleConditions;
use chia_consensus::run_block_generator::{get_coinspends_for_trusted_block, get_coinspends_with_conditions_for_trusted_block, run_block_generator, run_block_generator2};
use chia_consensus::solution_generator::{calculate_generator_length, solution_generator, solution_generator_backrefs};
use chia_consensus::spendbundle_conditions::run_spendbundle;
use chia_protocol::{Bytes32, Coin, CoinSpend, Program, SpendBundle};
use chia_puzzles::ROM_BOOTSTRAP_GENERATOR;
use clvmr::allocator::{Allocator, NodePtr, SExp};
use clvmr::chia_dialect::ChiaDialect;
use clvmr::reduction::Reduction;
use clvmr::run_program::run_program;
use clvmr::serde::{node_from_bytes, node_from_bytes_backrefs, node_to_bytes, node_to_bytes_backrefs, node_to_bytes_limit};

pub const F_SIMPLE: u32 = 0x100_0000;
pub const F_INTERNED: u32 = 0x800_0000;
const BIG: u64 = 1_000_000_000_000;

fn run_s(r: &Option<(u64, Vec<u8>)>) -> String { match r { Some((c, o)) => format!("{}:{}", c, hex::encode(o)), None => "E".into() } }

fn next(a: &Allocator, n: NodePtr) -> Option<(NodePtr, NodePtr)> { match a.sexp(n) { SExp::Pair(l, r) => Some((l, r)), SExp::Atom => None } }

fn extract5(a: &Allocator, n: NodePtr) -> Option<[NodePtr; 5]> {
    let (p1, n) = next(a, n)?; let (p2, n) = next(a, n)?; let (p3, n) = next(a, n)?; let (p4, n) = next(a, n)?;
    Some([p1, p2, p3, p4, n])
}

/// the oracle: unbounded runs of the generator (with the native path's arguments and with the ROM's
/// arguments), of every spend's puzzle, and of the ROM
pub struct Oracle { pub prog_plain: Vec<u8>, pub gen: Option<(u64, Vec<u8>)>, pub gen_rom: Option<(u64, Vec<u8>)>, pub puz: Vec<String>, pub rom: Option<(u64, Vec<u8>)> }

/// largest plain serialisation shipped on a case line (raised only for the shared-subtree case of C09)
static ORACLE_LIMIT: std::sync::atomic::AtomicUsize = std::sync::atomic::AtomicUsize::new(150_000);
fn oracle_limit() -> usize { ORACLE_LIMIT.load(std::sync::atomic::Ordering::Relaxed) }

/// `None` = this case cannot be expressed on a case line (outputs too large to ship); skipped
pub fn oracle(program: &[u8], refs: &[Vec<u8>], flags: u32) -> Option<Oracle> {
    let f = ConsensusFlags::from_bits_retain(flags);
    let dialect = ChiaDialect::new(f.to_clvm_flags());
    let mut a = make_allocator(f);
    let prog = node_from_bytes_backrefs(&mut a, program).ok()?;
    let prog_plain = node_to_bytes_limit(&a, prog, oracle_limit()).ok()?;
    // generator run with the ROM's arguments (deserializer (refs…)): also what the native path passes unless SIMPLE_GENERATOR
    // built here, independently of `setup_generator_args`: (DESERIALIZER_MOD (ref0 ref1 ...)), references in the
    // order given
    let full_args = {
        let deser = node_from_bytes(&mut a, &chia_puzzles::CHIALISP_DESERIALISATION).ok()?;
        let mut blocks = a.nil();
        for g in refs.iter().rev() { let r = a.new_atom(g).ok()?; blocks = a.new_pair(r, blocks).ok()?; }
        let nil = a.nil();
        let tail = a.new_pair(blocks, nil).ok()?;
        a.new_pair(deser, tail).ok()?
    };
    let mut gen_rom = None; let mut puz = vec![];
    let mut out_node = None;
    if let Ok(Reduction(c, out)) = run_program(&mut a, &dialect, prog, full_args, BIG) {
        let ob = node_to_bytes_limit(&a, out, oracle_limit()).ok()?;
        gen_rom = Some((c, ob)); out_node = Some(out);
    }
    // the native path's own run differs only under SIMPLE_GENERATOR (nil arguments; refs are refused)
    let mut gen = gen_rom.clone();
    if f.contains(ConsensusFlags::SIMPLE_GENERATOR) {
        gen = None; out_node = None;
        if refs.is_empty() {
            let nil = a.nil();
            if let Ok(Reduction(c, out)) = run_program(&mut a, &dialect, prog, nil, BIG) {
                let ob = node_to_bytes_limit(&a, out, oracle_limit()).ok()?;
                gen = Some((c, ob)); out_node = Some(out);
            }
        }
    }
    // puzzle runs follow the generator output both paths see; if they differ (argument-dependent
    // generator under SIMPLE_GENERATOR) the case is not expressible with one puzzle table
    if gen.is_some() && gen_rom.is_some() && gen.as_ref().map(|x| &x.1) != gen_rom.as_ref().map(|x| &x.1) { return None; }
    if out_node.is_none() { if let Some((_, ob)) = &gen_rom { out_node = node_from_bytes(&mut a, ob).ok(); } }
    if let Some(out) = out_node {
        if let Some((mut iter, _)) = next(&a, out) {
            while let Some((spend, rest)) = next(&a, iter) {
                iter = rest;
                match extract5(&a, spend) {
                    None => puz.push("X".to_string()),
                    Some([_, puzzle, _, solution, _]) => match run_program(&mut a, &dialect, puzzle, solution, BIG) {
                        Ok(Reduction(c, conds)) => { let b = node_to_bytes_limit(&a, conds, oracle_limit()).ok()?; puz.push(format!("{}:{}", c, hex::encode(b))) }
                        Err(_) => puz.push("E".into()),
                    },
                }
                if puz.len() > 7000 { return None; }
            }
        }
    }
    // ROM run (legacy path arguments: (program ((refs…))))
    let mut a2 = make_allocator(f);
    let rom = node_from_bytes(&mut a2, &ROM_BOOTSTRAP_GENERATOR).ok()?;
    let prog2 = node_from_bytes_backrefs(&mut a2, program).ok()?;
    let mut args = a2.nil();
    for g in refs.iter().rev() { let r = a2.new_atom(g).ok()?; args = a2.new_pair(r, args).ok()?; }
    let nil = a2.nil();
    args = a2.new_pair(args, nil).ok()?;
    let args = a2.new_pair(args, nil).ok()?;
    let args = a2.new_pair(prog2, args).ok()?;
    let romr = match run_program(&mut a2, &dialect, rom, args, BIG) {
        Ok(Reduction(c, out)) => Some((c, node_to_bytes_limit(&a2, out, oracle_limit()).ok()?)),
        Err(_) => None,
    };
    Some(Oracle { prog_plain, gen, gen_rom, puz, rom: romr })
}

fn res_s(r: Result<(Allocator, chia_consensus::conditions::SpendBundleConditions), chia_consensus::validation_error::ValidationErr>) -> String {
    match r { Ok((a, c)) => bundle_s(&OwnedSpendBundleConditions::from(&a, c)), Err(e) => err_s(&e) }
}

fn all_pks(ts: &[&T]) -> String {
    let mut pks = vec![]; for t in ts { valid_pks(t, &mut pks); }
    if pks.is_empty() { "-".to_string() } else { pks.iter().map(hex::encode).collect::<Vec<_>>().join(",") }
}

fn bytes_to_t(b: &[u8]) -> Option<T> { let mut a = Allocator::new(); let n = node_from_bytes(&mut a, b).ok()?; Some(node_to_t(&a, n)) }

/// one C07 case: both block paths on the same arguments
thread_local! { static STRAY_SIG: std::cell::Cell<bool> = std::cell::Cell::new(false); }
/// a valid signature that is not the identity (verifies no empty pair list)
fn stray_signature() -> Signature { let sk = chia_bls::SecretKey::from_seed(&[7u8; 32]); chia_bls::sign(&sk, b"stray") }

/// `c07_case` with a non-identity signature offered to both paths (signature validation on); only meaningful
/// for generators that collect no (pk, msg) pairs
pub fn c07_case_stray(o: &mut Out, program: &[u8], refs: &[Vec<u8>], flags: u32, max_cost: u64) {
    STRAY_SIG.with(|c| c.set(true)); c07_case(o, program, refs, flags & !F_DONT_VALIDATE, max_cost); STRAY_SIG.with(|c| c.set(false));
}

pub fn c07_case(o: &mut Out, program: &[u8], refs: &[Vec<u8>], flags: u32, max_cost: u64) {
    let Some(orc) = oracle(program, refs, flags) else { return };
    let prog_t = bytes_to_t(&orc.prog_plain);
    let mut ts: Vec<T> = vec![]; if let Some(t) = prog_t { ts.push(t); }
    for p in &orc.puz { if let Some((_, h)) = p.split_once(':') { if let Some(t) = bytes_to_t(&hex::decode(h).unwrap()) { ts.push(t); } } }
    let pks = all_pks(&ts.iter().collect::<Vec<_>>());
    let stray = STRAY_SIG.with(|c| c.get());
    let sig = if stray { stray_signature() } else { Signature::default() };
    let sig_l = sig.clone();
    let f = ConsensusFlags::from_bits_retain(flags);
    let line = format!("C07 {} {} {} {} {} {} {} {} {} {} {}", flags, max_cost, program.len(), program.starts_with(&[0xff, 0x01]) as u8,
        if refs.is_empty() { "-".to_string() } else { refs.iter().map(|r| hx(r)).collect::<Vec<_>>().join(",") },
        hex::encode(&orc.prog_plain), run_s(&orc.gen), run_s(&orc.gen_rom), run_s(&orc.rom), if orc.puz.is_empty() { "-".to_string() } else { orc.puz.join(";") }, pks);
    o.begin(&line);
    type RunOut = Result<OwnedSpendBundleConditions, chia_consensus::validation_error::ErrorCode>;
    let p1 = program.to_vec(); let r1 = refs.to_vec();
    let legacy: Option<RunOut> = std::panic::catch_unwind(move || run_block_generator(&p1, r1.iter(), max_cost, f, &sig_l, None, &TEST_CONSTANTS)
        .map(|(a, c)| OwnedSpendBundleConditions::from(&a, c)).map_err(|e| e.error_code())).ok();
    let p2 = program.to_vec(); let r2 = refs.to_vec();
    let native: Option<RunOut> = std::panic::catch_unwind(move || run_block_generator2(&p2, r2.iter(), max_cost, f, &sig, None, &TEST_CONSTANTS)
        .map(|(a, c)| OwnedSpendBundleConditions::from(&a, c)).map_err(|e| e.error_code())).ok();
    let show = |r: &Option<RunOut>| -> String { match r { None => "PANIC".into(), Some(Ok(c)) => bundle_s(c),
        Some(Err(chia_consensus::validation_error::ErrorCode::CostExceeded)) => "REJECT cost".into(), Some(Err(_)) => "REJECT".into() } };
    // the property itself, evaluated on the two implementation results (independent of the model)
    use chia_consensus::validation_error::ErrorCode as EC;
    let same_conditions = |l: &OwnedSpendBundleConditions, n: &OwnedSpendBundleConditions| -> bool {
        let z = |c: &OwnedSpendBundleConditions| { let mut c = c.clone(); c.cost = 0; c.execution_cost = 0; c.num_atoms = 0; c.num_pairs = 0; c.heap_size = 0;
            for s in &mut c.spends { s.execution_cost = 0; } bundle_s(&c) };
        z(l) == z(n) };
    let prop = match (&legacy, &native) {
        (Some(Ok(l)), Some(Ok(n))) => if !same_conditions(l, n) { "VIOLATED:conditions-differ" } else if n.cost > l.cost { "VIOLATED:native-costs-more" } else { "ok" },
        (Some(Ok(_)), Some(Err(EC::CostExceeded))) => "VIOLATED:native-rejects-cost",
        (Some(Ok(_)), Some(Err(_))) => "VIOLATED:native-rejects",
        (Some(Err(EC::CostExceeded | EC::GeneratorRuntimeError)), Some(Ok(_))) => "ok",
        (Some(Err(_)), Some(Ok(_))) => "VIOLATED:legacy-rejects",
        (Some(Err(_)), Some(Err(_))) => "ok",
        _ => "VIOLATED:panic",
    };
    // canonical markers computed from the INPUT only (used to recognise the recorded findings)
    let mut line = line;
    if flags & F_INTERNED != 0 { line.push_str(" @interned"); }
    if flags & F_SIMPLE != 0 && !refs.is_empty() { line.push_str(" @simple-refs"); }
    if stray { line.push_str(" @stray-sig"); }
    o.case(&line, &format!("L={} || N={} || rom=ok prop={}", show(&legacy), show(&native), prop));
}


/// cost limits at which the countdown reaches exactly zero at a stage boundary of an accepted run
/// (after the byte cost, after the generator run, after each puzzle run, after each spend's
/// conditions), and one below each: the values where `subtract_cost`, `run_program`'s own limit
/// (0 = unlimited in clvmr) and the condition countdown hand over to each other
fn boundaries(c: &OwnedSpendBundleConditions) -> Vec<u64> {
    let base = c.cost.saturating_sub(c.execution_cost).saturating_sub(c.condition_cost);
    let gen_cost = c.execution_cost.saturating_sub(c.spends.iter().map(|s| s.execution_cost).sum::<u64>());
    let mut v = vec![base];
    let mut acc = base + gen_cost; v.push(acc);
    for s in &c.spends { acc += s.execution_cost; v.push(acc); acc += s.condition_cost; v.push(acc); }
    let mut out = vec![];
    for b in v { out.push(b); if b > 0 { out.push(b - 1); } out.push(b + 1); }
    out.sort(); out.dedup(); out
}

pub struct GSpend { pub parent: [u8; 32], pub puzzle: T, pub amount_atom: T, pub solution: T, pub extra: T }

pub fn quoted_generator(spends: &[GSpend], term: T, ext: T) -> T {
    let items: Vec<T> = spends.iter().map(|s| list(vec![at(&s.parent), s.puzzle.clone(), s.amount_atom.clone(), s.solution.clone()], s.extra.clone())).collect();
    pair(at(&[1]), pair(list(items, term), ext))
}

pub fn ser_backrefs(t: &T) -> Vec<u8> { let mut a = Allocator::new(); let n = t_to_node(&mut a, t); node_to_bytes_backrefs(&a, n).unwrap() }

/// spends whose conditions come from C01's generator; puzzle is `1` (conditions in the solution) or `(q . conds)`
pub fn gen_gspends(r: &mut Rng, p: &Pools) -> Vec<GSpend> {
    let ph1 = tree_hash_t(&at(&[1]));
    let sp = gen_bundle_ph(r, p, Some(ph1));
    sp.iter().map(|s| {
        let conds = list(s.conds.clone(), s.term.clone());
        let extra = match r.below(20) { 0 => at(&[7]), 1 => pair(at(b"x"), nil()), _ => nil() };
        GSpend { parent: s.parent, puzzle: at(&[1]), amount_atom: int(s.amount), solution: conds, extra }
    }).collect()
}

pub fn run_c07(o: &mut Out, seed: u64, thorough: bool, replay: Option<Vec<String>>) {
    if let Some(lines) = replay { for l in lines { replay_c07(o, &l); } return; }
    let p = pools();
    let mut r = Rng::new(seed ^ 0xc07);
    // the non-emptied recorded generators of the repository
    if let Ok(rd) = std::fs::read_dir("/repo/generator-tests") {
        let mut names: Vec<_> = rd.filter_map(|e| e.ok()).map(|e| e.path()).filter(|p| p.extension().map_or(false, |x| x == "txt")).collect();
        names.sort();
        for path in names.iter().take(if thorough { 200 } else { 10 }) {
            if let Ok(txt) = std::fs::read_to_string(path) {
                if let Some(first) = txt.lines().next() { if let Ok(bytes) = hex::decode(first.trim()) { if bytes.len() < 20_000 && !bytes.is_empty() {
                    for flags in [F_DONT_VALIDATE, F_DONT_VALIDATE | F_COST | F_LIMIT] { c07_case(o, &bytes, &[], flags, 11_000_000_000); }
                }}}
            }
        }
    }
    // procedural generators that read the block references: spend i takes its parent id from reference i
    // (path 5 = the reference list), so the ORDER of the references is observable in both paths
    {
        let spend_from = |path: T| -> T { // (c <path> (c (q . 1) (c (q . 1) (c (q . ()) ()))))
            let q = |x: T| pair(at(&[1]), x);
            let c = |x: T, y: T| list(vec![at(&[4]), x, y], nil());
            c(path, c(q(at(&[1])), c(q(int(1)), c(q(nil()), nil())))) };
        let c = |x: T, y: T| list(vec![at(&[4]), x, y], nil());
        let f5 = list(vec![at(&[5]), at(&[5])], nil());                 // (f 5)
        let fr5 = list(vec![at(&[5]), list(vec![at(&[6]), at(&[5])], nil())], nil()); // (f (r 5))
        let two = c(c(spend_from(f5.clone()), c(spend_from(fr5), nil())), nil());
        let one = c(c(spend_from(f5), nil()), nil());
        let ra = vec![0xaau8; 32]; let rb = vec![0xbbu8; 32];
        for flags in [F_DONT_VALIDATE, F_DONT_VALIDATE | F_COST | F_LIMIT] {
            c07_case(o, &to_bytes(&two), &[ra.clone(), rb.clone()], flags, 11_000_000_000);
            c07_case(o, &to_bytes(&two), &[rb.clone(), ra.clone()], flags, 11_000_000_000);
            c07_case(o, &to_bytes(&two), &[ra.clone(), ra.clone()], flags, 11_000_000_000);   // double spend: both reject
            c07_case(o, &to_bytes(&one), &[ra.clone(), rb.clone()], flags, 11_000_000_000);
            c07_case(o, &to_bytes(&one), &[rb.clone()], flags, 11_000_000_000);
        }
    }
    // procedural generators whose spend list ends in an empty atom that is NOT the allocator's canonical nil node
    // (`substr` of a heap atom): still the empty atom, i.e. a proper list end, for both paths
    {
        let spend = |par: u8| list(vec![at(&[par; 32]), at(&[1]), int(1), nil()], nil());
        let term = list(vec![at(&[12]), pair(at(&[1]), at(&[0x42; 32])), nil(), nil()], nil());      // (substr (q . 0x42..) () ())
        let c = |x: T, y: T| list(vec![at(&[4]), x, y], nil());
        let q = |x: T| pair(at(&[1]), x);
        let g0 = c(term.clone(), nil());                                                                // no spends
        let g1 = c(c(q(spend(0x21)), term.clone()), nil());
        let g2 = c(c(q(spend(0x21)), c(q(spend(0x22)), term.clone())), nil());
        let bad = c(c(q(spend(0x21)), q(at(&[1]))), nil());                                             // non-empty terminator: both reject
        for g in [&g0, &g1, &g2, &bad] { for flags in [F_DONT_VALIDATE, F_DONT_VALIDATE | F_COST | F_LIMIT] {
            c07_case(o, &to_bytes(g), &[], flags, 11_000_000_000);
        }}
    }
    let n = if thorough { 40_000 } else { 3_000 };
    for _ in 0..n {
        let mut sp = gen_gspends(&mut r, &p);
        // structural damage
        match r.below(30) {
            0 => if !sp.is_empty() { sp[0].amount_atom = pair(int(1), nil()); },
            1 => if !sp.is_empty() { sp[0].puzzle = pair(at(&[1]), sp[0].solution.clone()); sp[0].solution = nil(); }, // (q . conds): other puzzle hash
            2 => if !sp.is_empty() { sp[0].puzzle = at(&[0x80]); },            // puzzle that raises / odd
            3 => if !sp.is_empty() { sp[0].puzzle = pair(at(&[8]), nil()); },   // (x) raises
            _ => {}
        }
        let term = if r.chance(1, 25) { at(&[1]) } else { nil() };
        let ext = if r.chance(1, 10) { at(b"ext") } else { nil() };
        let mut g = quoted_generator(&sp, term, ext);
        if r.chance(1, 40) { // short spend tuple
            if let T::P(q, body) = &g { if let T::P(l, e) = &**body { let short = list(vec![at(&p.ids[0]), at(&[1])], nil()); g = pair((**q).clone(), pair(pair(short, (**l).clone()), (**e).clone())); } }
        }
        if r.chance(1, 40) { g = pair(at(&[2]), pair(pair(at(&[1]), g.clone()), at(&[1]))); } // (a (q . gen) 1): not a plain quote
        let bytes = if r.chance(1, 3) { ser_backrefs(&g) } else { to_bytes(&g) };
        let mut flags = F_DONT_VALIDATE;
        if r.chance(1, 2) { flags |= F_COST; }
        if r.chance(1, 3) { flags |= F_LIMIT; }
        if r.chance(1, 3) { flags |= F_SIMPLE; }
        if r.chance(1, 4) { flags |= F_INTERNED; }
        if r.chance(1, 6) { flags |= F_NO_UNKNOWN | F_STRICT; }
        let refs: Vec<Vec<u8>> = if r.chance(1, 8) { (0..r.range(1, 2)).map(|_| vec![0x80u8]).collect() } else { vec![] };
        c07_case(o, &bytes, &refs, flags, 11_000_000_000);
        // signature validation on, identity or stray signature, for generators that collect no pairs
        let no_aggsig = sp.iter().all(|s| { let mut it = &s.solution; let mut ok = true;
            while let T::P(c, nxt) = it { if let T::P(op, _) = &**c { if let T::A(b) = &**op { if b.len() == 1 && (43..=50).contains(&b[0]) { ok = false; } } } it = &**nxt; } ok })
            && sp.iter().all(|s| matches!(&s.puzzle, T::A(b) if b == &vec![1u8]));
        if no_aggsig && r.chance(1, 3) {
            c07_case(o, &bytes, &refs, flags & !F_DONT_VALIDATE, 11_000_000_000);
            c07_case_stray(o, &bytes, &refs, flags, 11_000_000_000);
        }
        // limits around the totals of both paths
        let f = ConsensusFlags::from_bits_retain(flags);
        if r.chance(1, 3) {
            if let Ok((a, c)) = run_block_generator2(&bytes, refs.iter(), 11_000_000_000, f, &Signature::default(), None, &TEST_CONSTANTS) {
                c07_case(o, &bytes, &refs, flags, c.cost); if c.cost > 0 { c07_case(o, &bytes, &refs, flags, c.cost - 1); }
                if r.chance(1, 3) { let oc = OwnedSpendBundleConditions::from(&a, c); if oc.spends.len() <= 6 { for b in boundaries(&oc) { c07_case(o, &bytes, &refs, flags, b); } } }
            }
            if let Ok((_, c)) = run_block_generator(&bytes, refs.iter(), 11_000_000_000, f, &Signature::default(), None, &TEST_CONSTANTS) {
                c07_case(o, &bytes, &refs, flags, c.cost); if c.cost > 0 { c07_case(o, &bytes, &refs, flags, c.cost - 1); }
            }
        }
    }
}

fn replay_c07(o: &mut Out, l: &str) {
    // the case line carries the plain program; replay re-runs both paths on it (serialization mode is
    // then plain, and the declared length may differ from the original: the line is re-derived)
    let t: Vec<&str> = l.split_whitespace().collect();
    let flags: u32 = t[1].parse().unwrap(); let max_cost: u64 = t[2].parse().unwrap();
    let refs: Vec<Vec<u8>> = if t[5] == "-" { vec![] } else { t[5].split(',').map(crate::out::unhx).collect() };
    let bytes = hex::decode(t[6]).unwrap();
    if l.contains("@stray-sig") { STRAY_SIG.with(|c| c.set(true)); }
    c07_case(o, &bytes, &refs, flags, max_cost);
    STRAY_SIG.with(|c| c.set(false));
}

// ---------------------------------------------------------------------------------------------
// C08: spend bundle run directly vs. through a generator built from it

fn bundle_line_fields(css: &[(Coin, Vec<u8>, Vec<u8>)]) -> String {
    if css.is_empty() { return "-".into(); }
    css.iter().map(|(c, p, s)| format!("{}:{}:{}:{}:{}", hex::encode(c.parent_coin_info), hex::encode(c.puzzle_hash), c.amount, hex::encode(p), hex::encode(s))).collect::<Vec<_>>().join(";")
}

fn puzzle_runs(css: &[(Coin, Vec<u8>, Vec<u8>)], flags: u32) -> Vec<String> {
    let f = ConsensusFlags::from_bits_retain(flags);
    let dialect = ChiaDialect::new(f.to_clvm_flags());
    css.iter().map(|(_, p, s)| {
        let mut a = make_allocator(f);
        let (Ok(pn), Ok(sn)) = (node_from_bytes(&mut a, p), node_from_bytes(&mut a, s)) else { return "E".to_string() };
        match run_program(&mut a, &dialect, pn, sn, BIG) {
            Ok(Reduction(c, out)) => match node_to_bytes(&a, out) { Ok(b) => format!("{}:{}", c, hex::encode(b)), Err(_) => "E".into() },
            Err(_) => "E".into(),
        }
    }).collect()
}

pub fn c08_case(o: &mut Out, css: &[(Coin, Vec<u8>, Vec<u8>)], flags: u32, max_cost: u64) {
    let f = ConsensusFlags::from_bits_retain(flags);
    let runs = puzzle_runs(css, flags);
    let mut ts: Vec<T> = vec![];
    for rr in &runs { if let Some((_, h)) = rr.split_once(':') { if let Some(t) = bytes_to_t(&hex::decode(h).unwrap()) { ts.push(t); } } }
    let pks = all_pks(&ts.iter().collect::<Vec<_>>());
    let line = format!("C08 {} {} {} {} {}", flags, max_cost, bundle_line_fields(css), if runs.is_empty() { "-".to_string() } else { runs.join(";") }, pks);
    o.begin(&line);
    let spends: Vec<CoinSpend> = css.iter().map(|(c, p, s)| CoinSpend::new(*c, Program::from(p.clone()), Program::from(s.clone()))).collect();
    let sb = SpendBundle::new(spends.clone(), Signature::default());
    let strip = |s: String| -> String { if let Some(i) = s.find(" ~") { s[..i].to_string() } else { s } };
    // (1) the mempool path
    let direct = { let sb = sb.clone(); std::panic::catch_unwind(move || {
        let mut a = make_allocator(ConsensusFlags::LIMIT_HEAP);
        match run_spendbundle(&mut a, &sb, max_cost, f, &TEST_CONSTANTS) { Ok((c, _)) => bundle_s(&OwnedSpendBundleConditions::from(&a, c)), Err(e) => err_s(&e) }
    }).unwrap_or("PANIC".into()) };
    // (2) generator built from it: plain and back-reference compressed, predicted length
    let tuple = |x: &(Coin, Vec<u8>, Vec<u8>)| (x.0, x.1.clone(), x.2.clone());
    let gen_plain = solution_generator(css.iter().map(tuple)).unwrap_or_default();
    let gen_br = solution_generator_backrefs(css.iter().map(tuple)).unwrap_or_default();
    let predicted = calculate_generator_length(&spends);
    let blockf = f; // same flags
    let via_plain = { let g = gen_plain.clone(); std::panic::catch_unwind(move || res_s(run_block_generator2(&g, Vec::<Vec<u8>>::new().iter(), max_cost + 1_000_000_000, blockf, &Signature::default(), None, &TEST_CONSTANTS))).unwrap_or("PANIC".into()) };
    // back-reference form: its byte cost is re-based to the plain length so that the result must be identical to P
    let (lp, lb) = (gen_plain.len() as u64, gen_br.len() as u64);
    let interned = flags & F_INTERNED != 0;
    let via_br = { let g = gen_br.clone(); std::panic::catch_unwind(move || {
        match run_block_generator2(&g, Vec::<Vec<u8>>::new().iter(), max_cost + 1_000_000_000, blockf, &Signature::default(), None, &TEST_CONSTANTS) {
            Ok((a, c)) => { let mut o = OwnedSpendBundleConditions::from(&a, c);
                if !interned { o.cost = o.cost - lb * TEST_CONSTANTS.cost_per_byte + lp * TEST_CONSTANTS.cost_per_byte; }
                bundle_s(&o) }
            Err(e) => err_s(&e) } }).unwrap_or("PANIC".into()) };
    // the back-reference form must decode to the same tree as the plain form
    let same_tree = { let mut a = Allocator::new();
        match (node_from_bytes(&mut a, &gen_plain), node_from_bytes_backrefs(&mut a, &gen_br)) { (Ok(x), Ok(y)) => node_to_bytes(&a, x).ok() == node_to_bytes(&a, y).ok(), _ => false } };
    o.case(&line, &format!("D={} || gen={} len={} pred={} brsame={} || P={} || B={}", strip(direct), hex::encode(&gen_plain), gen_plain.len(), predicted, same_tree as u8, strip(via_plain), strip(via_br)));
}

pub fn gen_coin_spends(r: &mut Rng, p: &Pools) -> Vec<(Coin, Vec<u8>, Vec<u8>)> {
    let ph1 = tree_hash_t(&at(&[1]));
    let sp = gen_bundle_ph(r, p, Some(ph1));
    sp.iter().map(|s| {
        let conds = list(s.conds.clone(), s.term.clone());
        let (puzzle, solution) = if r.chance(4, 5) { (at(&[1]), conds) } else { (pair(at(&[1]), conds), nil()) };
        let ph = if r.chance(1, 40) { [9u8; 32] } else { tree_hash_t(&puzzle) };   // sometimes a wrong declared puzzle hash
        (Coin::new(Bytes32::new(s.parent), Bytes32::new(ph), s.amount), to_bytes(&puzzle), to_bytes(&solution))
    }).collect()
}

pub fn run_c08(o: &mut Out, seed: u64, thorough: bool, replay: Option<Vec<String>>) {
    if let Some(lines) = replay { for l in lines { replay_c08(o, &l); } return; }
    let p = pools();
    let mut r = Rng::new(seed ^ 0xc08);
    let n = if thorough { 40_000 } else { 3_000 };
    for _ in 0..n {
        let css = gen_coin_spends(&mut r, &p);
        let mut flags = F_DONT_VALIDATE;
        if r.chance(1, 2) { flags |= F_COST; }
        if r.chance(1, 3) { flags |= F_LIMIT; }
        if r.chance(1, 4) { flags |= F_INTERNED; }
        if r.chance(1, 4) { flags |= F_NO_UNKNOWN | F_STRICT; }
        c08_case(o, &css, flags, 11_000_000_000);
        // limits at the stage boundaries of the accepted run (and total, total - 1)
        if r.chance(1, 3) && css.len() <= 6 {
            let spends: Vec<CoinSpend> = css.iter().map(|(c, p, s)| CoinSpend::new(*c, Program::from(p.clone()), Program::from(s.clone()))).collect();
            let sb = SpendBundle::new(spends, Signature::default());
            let mut a = make_allocator(ConsensusFlags::LIMIT_HEAP);
            if let Ok((c, _)) = run_spendbundle(&mut a, &sb, 11_000_000_000, ConsensusFlags::from_bits_retain(flags), &TEST_CONSTANTS) {
                let oc = OwnedSpendBundleConditions::from(&a, c);
                let mut ls = boundaries(&oc); ls.push(oc.cost); if oc.cost > 0 { ls.push(oc.cost - 1); } ls.sort(); ls.dedup();
                for b in ls { c08_case(o, &css, flags, b); }
            }
        }
    }
}

fn replay_c08(o: &mut Out, l: &str) {
    let t: Vec<&str> = l.split_whitespace().collect();
    let flags: u32 = t[1].parse().unwrap(); let max_cost: u64 = t[2].parse().unwrap();
    let css: Vec<(Coin, Vec<u8>, Vec<u8>)> = if t[3] == "-" { vec![] } else { t[3].split(';').map(|e| { let f: Vec<&str> = e.split(':').collect();
        (Coin::new(Bytes32::new(hex::decode(f[0]).unwrap().try_into().unwrap()), Bytes32::new(hex::decode(f[1]).unwrap().try_into().unwrap()), f[2].parse().unwrap()), hex::decode(f[3]).unwrap(), hex::decode(f[4]).unwrap()) }).collect() };
    c08_case(o, &css, flags, max_cost);
}



/// C02 on the execution paths: a sample of bundles (mempool path, incl. wrong declared puzzle hashes
/// and amounts near 2^64) and quoted generators (both block paths), without INTERNED_GENERATOR
pub fn run_paths_sample(o: &mut Out, seed: u64, thorough: bool) {
    let p = pools();
    let mut r = Rng::new(seed ^ 0xc02c08);
    let n = if thorough { 8_000 } else { 800 };
    for _ in 0..n {
        let mut flags = F_DONT_VALIDATE;
        if r.chance(1, 2) { flags |= F_COST; }
        if r.chance(1, 4) { flags |= F_LIMIT; }
        if r.chance(1, 4) { flags |= F_NO_UNKNOWN | F_STRICT; }
        if r.chance(1, 2) {
            let mut css = gen_coin_spends(&mut r, &p);
            if r.chance(1, 6) && !css.is_empty() { let i = r.below(css.len() as u64) as usize; let mut ph = css[i].0.puzzle_hash.to_vec(); ph[r.below(32) as usize] ^= 1 << r.below(8); css[i].0 = Coin::new(css[i].0.parent_coin_info, Bytes32::new(ph.try_into().unwrap()), css[i].0.amount); }
            c08_case(o, &css, flags, 11_000_000_000);
        } else {
            let sp = gen_gspends(&mut r, &p);
            let bytes = to_bytes(&quoted_generator(&sp, nil(), nil()));
            c07_case(o, &bytes, &[], flags, 11_000_000_000);
        }
    }
}

/// C04 on the execution paths: accepted bundles / quoted generators re-run with the limit at every
/// stage boundary of the countdown, at the total and one below (no INTERNED_GENERATOR: that mode's
/// cost asymmetry is C07's recorded finding)
pub fn replay_paths(o: &mut Out, lines: Vec<String>) {
    for l in lines { if l.starts_with("C07 ") { replay_c07(o, &l); } else { replay_c08(o, &l); } }
}

pub fn run_limits(o: &mut Out, seed: u64, thorough: bool) {
    let p = pools();
    let mut r = Rng::new(seed ^ 0xc04c08);
    let n = if thorough { 6_000 } else { 600 };
    for _ in 0..n {
        let mut flags = F_DONT_VALIDATE;
        if r.chance(1, 2) { flags |= F_COST; }
        if r.chance(1, 4) { flags |= F_LIMIT; }
        let f = ConsensusFlags::from_bits_retain(flags);
        if r.chance(1, 2) {
            let css = gen_coin_spends(&mut r, &p);
            if css.len() > 5 { continue; }
            let spends: Vec<CoinSpend> = css.iter().map(|(c, p, s)| CoinSpend::new(*c, Program::from(p.clone()), Program::from(s.clone()))).collect();
            let sb = SpendBundle::new(spends, Signature::default());
            let mut a = make_allocator(ConsensusFlags::LIMIT_HEAP);
            if let Ok((c, _)) = run_spendbundle(&mut a, &sb, 11_000_000_000, f, &TEST_CONSTANTS) {
                let oc = OwnedSpendBundleConditions::from(&a, c);
                let mut ls = boundaries(&oc); ls.push(oc.cost); if oc.cost > 0 { ls.push(oc.cost - 1); } ls.sort(); ls.dedup();
                for b in ls { c08_case(o, &css, flags, b); }
            }
        } else {
            let sp = gen_gspends(&mut r, &p);
            if sp.len() > 5 { continue; }
            let bytes = to_bytes(&quoted_generator(&sp, nil(), nil()));
            if let Ok((a, c)) = run_block_generator2(&bytes, Vec::<Vec<u8>>::new().iter(), 11_000_000_000, f, &Signature::default(), None, &TEST_CONSTANTS) {
                let oc = OwnedSpendBundleConditions::from(&a, c);
                let mut ls = boundaries(&oc); ls.push(oc.cost); if oc.cost > 0 { ls.push(oc.cost - 1); } ls.sort(); ls.dedup();
                for b in ls { c07_case(o, &bytes, &[], flags, b); }
            }
        }
    }
}

// ---------------------------------------------------------------------------------------------
// C09: trusted fast paths vs. full validation

pub fn c09_case(o: &mut Out, program: &[u8], flags: u32) {
    let refs: Vec<Vec<u8>> = vec![];
    let Some(orc) = oracle(program, &refs, flags) else { return };
    let f = ConsensusFlags::from_bits_retain(flags);
    let full = run_block_generator2(program, refs.iter(), 11_000_000_000, f, &Signature::default(), None, &TEST_CONSTANTS);
    let Ok((fa, fc)) = full else { return };   // the property quantifies over blocks that full validation accepts
    let owned = OwnedSpendBundleConditions::from(&fa, fc);
    let mut ts: Vec<T> = vec![]; if let Some(t) = bytes_to_t(&orc.prog_plain) { ts.push(t); }
    for pz in &orc.puz { if let Some((_, h)) = pz.split_once(':') { if let Some(t) = bytes_to_t(&hex::decode(h).unwrap()) { ts.push(t); } } }
    let pks = all_pks(&ts.iter().collect::<Vec<_>>());
    let line = format!("C09 {} {} {} {} {} {}", flags, program.len(), hex::encode(&orc.prog_plain), run_s(&orc.gen), if orc.puz.is_empty() { "-".to_string() } else { orc.puz.join(";") }, pks);
    o.begin(&line);
    // what full validation reports
    let mut v_rem: Vec<String> = vec![]; let mut v_add: Vec<String> = vec![];
    for s in &owned.spends {
        v_rem.push(format!("{}:{}:{}:{}", hex::encode(s.coin_id), hex::encode(s.parent_id), hex::encode(s.puzzle_hash), s.coin_amount));
        for (ph, amt, hint) in &s.create_coin { v_add.push(format!("{}:{}:{}:{}", hex::encode(s.coin_id), hex::encode(ph), amt, hint.as_ref().map_or("-".to_string(), |h| hx(h.as_ref())))); }
    }
    v_add.sort();
    // additions_and_removals
    let ar = match additions_and_removals(program, refs.iter(), f, &TEST_CONSTANTS) {
        Ok((adds, rems)) => {
            let mut a: Vec<String> = adds.iter().map(|(c, h)| format!("{}:{}:{}:{}", hex::encode(c.parent_coin_info), hex::encode(c.puzzle_hash), c.amount, h.as_ref().map_or("-".to_string(), |h| if h.is_empty() { "EMPTY".to_string() } else { hex::encode(h.as_ref()) }))).collect();
            a.sort();
            let r: Vec<String> = rems.iter().map(|(id, c)| format!("{}:{}:{}:{}", hex::encode(id), hex::encode(c.parent_coin_info), hex::encode(c.puzzle_hash), c.amount)).collect();
            format!("rem=[{}] add=[{}]", r.join(","), a.join(","))
        }
        Err(e) => format!("ERR ~{:?}", e.error_code()),
    };
    // recovered coin spends rebuild a generator with the same conditions; lookups
    let cs = get_coinspends_for_trusted_block(&TEST_CONSTANTS, &Program::from(program.to_vec()), refs.iter(), f);
    let rebuild = match &cs {
        Ok(v) => {
            let g = solution_generator(v.iter().map(|c| (c.coin, c.puzzle_reveal.as_ref().to_vec(), c.solution.as_ref().to_vec()))).unwrap_or_default();
            // (limit far above the block limit: the plain re-serialisation may be much longer than the original)
            match run_block_generator2(&g, refs.iter(), 1_000_000_000_000_000, f & !ConsensusFlags::SIMPLE_GENERATOR, &Signature::default(), None, &TEST_CONSTANTS) {
                Ok((a2, c2)) => { let o2 = OwnedSpendBundleConditions::from(&a2, c2);
                    // same conditions: compare spends (cost differs with the serialization)
                    let a: Vec<String> = owned.spends.iter().map(|s| { let mut t = s.clone(); t.execution_cost = 0; spend_s(&t) }).collect();
                    let b: Vec<String> = o2.spends.iter().map(|s| { let mut t = s.clone(); t.execution_cost = 0; spend_s(&t) }).collect();
                    // build_generator reverses the spend order
                    let mut bs = b.clone(); bs.reverse();
                    if a == b || a == bs { "same".to_string() } else { "DIFFERENT".to_string() } }
                Err(e) => format!("ERR:{:?}", e.error_code()),
            }
        }
        Err(e) => format!("ERR:{:?}", e.error_code()),
    };
    // the variant that also lists each spend's conditions: the same coin spends in the same order, and its CREATE_COIN
    // entries (opcode 51: puzzle hash, amount) are the created coins of the validated spend
    let withconds = match get_coinspends_with_conditions_for_trusted_block(&TEST_CONSTANTS, &Program::from(program.to_vec()), refs.iter(), f) {
        Err(e) => format!("ERR:{:?}", e.error_code()),
        Ok(v) => match &cs {
            Err(_) => "DIFFERENT:other-helper-failed".to_string(),
            Ok(cs0) => {
                if v.len() != cs0.len() || v.iter().zip(cs0.iter()).any(|((c, _), c0)| c != c0) { "DIFFERENT:spends".to_string() }
                else if v.len() != owned.spends.len() { "DIFFERENT:count".to_string() }
                else {
                    let mut ok = true;
                    for ((_, conds), s) in v.iter().zip(owned.spends.iter()) {
                        let mut listed: Vec<(Vec<u8>, u64)> = conds.iter().filter(|(op, args)| *op == 51 && args.len() >= 2)
                            .map(|(_, args)| (args[0].clone(), args[1].iter().fold(0u128, |acc, b| (acc << 8) | *b as u128) as u64)).collect();
                        let mut want: Vec<(Vec<u8>, u64)> = s.create_coin.iter().map(|(ph, amt, _)| (ph.as_ref().to_vec(), *amt)).collect();
                        listed.sort(); want.sort();
                        if listed != want { ok = false; }
                    }
                    if ok { "same".to_string() } else { "DIFFERENT:create-coin".to_string() }
                }
            }
        },
    };
    // the listings themselves, as text (or the SHA-256 of the text when long), for the Lean model of the listing loop
    let wcl = match get_coinspends_with_conditions_for_trusted_block(&TEST_CONSTANTS, &Program::from(program.to_vec()), refs.iter(), f) {
        Err(_) => "ERR".to_string(),
        Ok(v) => {
            let txt = v.iter().map(|(_, conds)| conds.iter().map(|(op, args)| format!("{}:{}", op, args.iter().map(|a| format!("x{}", hex::encode(a))).collect::<String>())).collect::<Vec<_>>().join(",")).collect::<Vec<_>>().join("|");
            if txt.len() <= 2000 { txt } else { let mut h = chia_sha2::Sha256::new(); h.update(txt.as_bytes()); format!("sha:{}", hex::encode(h.finalize())) }
        }
    };
    let lookup = {
        let mut a = make_allocator(f);
        let mut ok = true;
        if let Some((_, ob)) = &orc.gen { if let Ok(out) = node_from_bytes(&mut a, ob) {
            for s in &owned.spends {
                let coin = Coin::new(s.parent_id, s.puzzle_hash, s.coin_amount);
                match get_puzzle_and_solution_for_coin(&a, out, &coin) {
                    Ok((pz, _sol)) => { if clvm_utils::tree_hash(&a, pz).to_bytes() != s.puzzle_hash.to_bytes() { ok = false; } }
                    Err(_) => ok = false,
                }
            }
        } else { ok = false; } } else { ok = false; }
        if ok { "found" } else { "MISSING" }
    };
    // marker computed from the INPUT: some puzzle reveal or solution whose plain serialisation exceeds the
    // 2 MB limit of `Program::from_clvm` (recognises the recorded finding)
    let mut line = line;
    if let Some((_, ob)) = &orc.gen { let mut a = Allocator::new(); if let Ok(out) = node_from_bytes(&mut a, ob) {
        if let Some((mut it, _)) = next(&a, out) { let mut over = false;
            while let Some((sp, rest)) = next(&a, it) { it = rest;
                if let Some([_, pz, _, sol, _]) = extract5(&a, sp) { for n in [pz, sol] { if node_to_bytes_limit(&a, n, 2_000_000).is_err() { over = true; } } } }
            if over { line.push_str(" @reveal-over-2MB"); } } } }
    o.case(&line, &format!("{} || rebuild={} lookup={} withconds={} || vrem=[{}] vadd=[{}] || scanner=agrees || wcl={}", ar, rebuild, lookup, withconds, v_rem.join(","), v_add.join(","), wcl));
}


/// a spend whose puzzle reveal shares sub-trees so heavily that its plain serialisation exceeds the
/// 2 MB limit of `Program::from_clvm` (2^depth copies of one `leaf_len`-byte atom under a quote):
/// `(i (q . BIG) 1 1)` returns its solution.  Accepted by full validation (the block carries the
/// back-reference form); the trusted helpers must still report and recover it.
pub fn c09_bigshare(o: &mut Out, depth: u32, leaf_len: usize, flags: u32) {
    let p = pools();
    let mut big = at(&vec![0xabu8; leaf_len]);
    for _ in 0..depth { big = pair(big.clone(), big); }
    let puzzle = list(vec![at(&[3]), pair(at(&[1]), big), at(&[1]), at(&[1])], nil());
    let conds = list(vec![pair(at(&[51]), list(vec![at(&p.ids[2]), int(1)], nil()))], nil());
    let sp = GSpend { parent: p.ids[0], puzzle, amount_atom: int(1), solution: conds, extra: nil() };
    let g = quoted_generator(&[sp], nil(), nil());
    let bytes = ser_backrefs(&g);
    ORACLE_LIMIT.store(20_000_000, std::sync::atomic::Ordering::Relaxed);
    c09_case(o, &bytes, flags);
    ORACLE_LIMIT.store(150_000, std::sync::atomic::Ordering::Relaxed);
}


/// `SpendBundle::additions` against the validated conditions, on bundles `run_spendbundle` accepts
pub fn c09_sb_case(o: &mut Out, css: &[(Coin, Vec<u8>, Vec<u8>)], flags: u32) {
    let f = ConsensusFlags::from_bits_retain(flags);
    let runs = puzzle_runs(css, flags);
    let mut ts: Vec<T> = vec![];
    for rr in &runs { if let Some((_, h)) = rr.split_once(':') { if let Some(t) = bytes_to_t(&hex::decode(h).unwrap()) { ts.push(t); } } }
    let pks = all_pks(&ts.iter().collect::<Vec<_>>());
    let mut line = format!("C09 sb {} {} {} {}", flags, bundle_line_fields(css), if runs.is_empty() { "-".to_string() } else { runs.join(";") }, pks);
    o.begin(&line);
    // marker computed from the INPUT: some condition has a pair in the opcode position (recognises the recorded finding)
    fn pair_opcode(t: &T) -> bool { let mut it = t; while let T::P(c, nxt) = it { if let T::P(op, _) = &**c { if matches!(&**op, T::P(..)) { return true; } } it = &**nxt; } false }
    if ts.iter().any(pair_opcode) { line.push_str(" @pair-opcode"); }
    let spends: Vec<CoinSpend> = css.iter().map(|(c, p, s)| CoinSpend::new(*c, Program::from(p.clone()), Program::from(s.clone()))).collect();
    let sb = SpendBundle::new(spends, Signature::default());
    let mut a = make_allocator(ConsensusFlags::LIMIT_HEAP);
    if run_spendbundle(&mut a, &sb, 11_000_000_000, f, &TEST_CONSTANTS).is_err() { o.case(&line, "invalid-bundle"); return; }
    let sb2 = sb.clone();
    let out = match std::panic::catch_unwind(move || sb2.additions()) {
        Err(_) => "PANIC".to_string(),
        Ok(Err(e)) => format!("ERR ~{:?}", e),
        Ok(Ok(v)) => { let mut l: Vec<String> = v.iter().map(|c| format!("{}:{}:{}", hex::encode(c.parent_coin_info), hex::encode(c.puzzle_hash), c.amount)).collect(); l.sort(); format!("adds=[{}]", l.join(",")) }
    };
    o.case(&line, &out);
}

pub fn run_c09(o: &mut Out, seed: u64, thorough: bool, replay: Option<Vec<String>>) {
    if let Some(lines) = replay { for l in lines { let t: Vec<&str> = l.split_whitespace().collect();
        if t[1] == "sb" {
            let css: Vec<(Coin, Vec<u8>, Vec<u8>)> = if t[3] == "-" { vec![] } else { t[3].split(';').map(|e| { let f: Vec<&str> = e.split(':').collect();
                (Coin::new(Bytes32::new(hex::decode(f[0]).unwrap().try_into().unwrap()), Bytes32::new(hex::decode(f[1]).unwrap().try_into().unwrap()), f[2].parse().unwrap()), hex::decode(f[3]).unwrap(), hex::decode(f[4]).unwrap()) }).collect() };
            c09_sb_case(o, &css, t[2].parse().unwrap());
        } else if l.contains("@reveal-over-2MB") { c09_bigshare(o, 11, 1000, t[1].parse().unwrap()); }
        else { c09_case(o, &hex::decode(t[3]).unwrap(), t[1].parse().unwrap()); } } return; }
    let p = pools();
    let mut r = Rng::new(seed ^ 0xc09);
    // memo / hint shapes, exhaustively on a fixed spend
    let h32 = at(&p.ids[3]);
    let memos: Vec<Option<T>> = vec![None, Some(nil()), Some(pair(nil(), nil())), Some(list(vec![h32.clone()], nil())), Some(pair(list(vec![h32.clone()], nil()), at(b"x"))),
        Some(h32.clone()), Some(list(vec![at(&[4; 33])], nil())), Some(list(vec![pair(at(b"a"), nil())], nil())), Some(list(vec![at(b"hi"), at(b"more")], nil())), Some(list(vec![at(&[0u8])], nil()))];
    for m in &memos { for amount in [0u64, 1, 0x80, 0xffff_ffff, u64::MAX] {
        let mut args = vec![at(&p.ids[2]), int(amount)]; if let Some(m) = m { args.push(m.clone()); }
        let conds = list(vec![pair(at(&[51]), list(args, nil()))], nil());
        let sp = GSpend { parent: p.ids[0], puzzle: at(&[1]), amount_atom: int(amount), solution: conds, extra: nil() };
        let g = quoted_generator(&[sp], nil(), nil());
        for flags in [F_DONT_VALIDATE, F_DONT_VALIDATE | F_COST] { c09_case(o, &to_bytes(&g), flags); }
    }}
    // the spend-count limit: blocks of exactly 5999 / 6000 spends under LIMIT_SPENDS (full validation accepts both)
    for n in [5999u32, 6000] {
        let v: Vec<GSpend> = (0..n).map(|i| { let mut par = [0x55u8; 32]; par[..4].copy_from_slice(&i.to_be_bytes());
            GSpend { parent: par, puzzle: at(&[1]), amount_atom: int(1), solution: nil(), extra: nil() } }).collect();
        let g = quoted_generator(&v, nil(), nil());
        ORACLE_LIMIT.store(2_000_000, std::sync::atomic::Ordering::Relaxed);
        c09_case(o, &to_bytes(&g), F_DONT_VALIDATE | F_LIMIT);
        ORACLE_LIMIT.store(150_000, std::sync::atomic::Ordering::Relaxed);
    }
    // opcode atoms that are NOT create-coin although their integer value is 51
    for opc in [vec![0u8, 51], vec![0, 0, 51], vec![51, 0]] { for flags in [F_DONT_VALIDATE, F_DONT_VALIDATE | F_COST] {
        let conds = list(vec![pair(at(&opc), list(vec![at(&p.ids[1]), int(1)], nil())), pair(at(&[51]), list(vec![at(&p.ids[2]), int(2)], nil()))], nil());
        let coin = Coin::new(Bytes32::new(p.ids[0]), Bytes32::new(tree_hash_t(&at(&[1]))), 1000);
        c09_sb_case(o, &[(coin, to_bytes(&at(&[1])), to_bytes(&conds))], flags);
    }}
    // sibling coins: same parent and amount, different puzzles (the lookup must not stop at the first near match)
    for amount in [1u64, 1000] { for rev in [false, true] {
        let c1 = list(vec![pair(at(&[51]), list(vec![at(&p.ids[2]), int(1)], nil()))], nil());
        let a = GSpend { parent: p.ids[0], puzzle: at(&[1]), amount_atom: int(amount), solution: c1.clone(), extra: nil() };
        let b = GSpend { parent: p.ids[0], puzzle: pair(at(&[1]), nil()), amount_atom: int(amount), solution: nil(), extra: nil() };
        let c = GSpend { parent: p.ids[0], puzzle: list(vec![at(&[2]), at(&[1]), nil()], nil()), amount_atom: int(amount), solution: nil(), extra: nil() }; // (a 1 ()): runs the solution-less env
        let mut v = vec![a, b, c]; if rev { v.reverse(); }
        let g = quoted_generator(&v, nil(), nil());
        for flags in [F_DONT_VALIDATE, F_DONT_VALIDATE | F_COST] { c09_case(o, &to_bytes(&g), flags); }
    }}
    // SpendBundle::additions on accepted bundles
    for _ in 0..(if thorough { 20_000 } else { 2_000 }) {
        let css = gen_coin_spends(&mut r, &p);
        let mut flags = F_DONT_VALIDATE; if r.chance(1, 2) { flags |= F_COST; }
        c09_sb_case(o, &css, flags);
    }
    // shared-subtree reveals just below and above the 2 MB plain-serialisation limit
    if thorough { c09_bigshare(o, 10, 1000, F_DONT_VALIDATE); }
    c09_bigshare(o, 11, 1000, F_DONT_VALIDATE);
    let n = if thorough { 60_000 } else { 6_000 };
    for _ in 0..n {
        let sp = gen_gspends(&mut r, &p);
        let g = quoted_generator(&sp, nil(), if r.chance(1, 10) { at(b"e") } else { nil() });
        let bytes = if r.chance(1, 3) { ser_backrefs(&g) } else { to_bytes(&g) };
        let mut flags = F_DONT_VALIDATE; if r.chance(1, 2) { flags |= F_COST; }
        c09_case(o, &bytes, flags);
    }
}
