//! C13 / C14: every Streamable type of the workspace, driven by the descriptors that the translator
//! extracts from the source (`gen_types.rs`).
//!
//! * values are produced as BYTES by a descriptor-driven generator (`gen`), i.e. by an encoder that
//!   is independent of the crates' `stream`; the real `from_bytes` then parses them;
//! * `Walk` is a descriptor-driven scan of an input that finds the places where the real decoder asks
//!   external code a question (blst point checks, `chia_pos2` quality string) and puts the answers on
//!   the case line (`o=...`), and that locates prefix bytes / length prefixes / Program fields for the
//!   mutations.  It never decides a verdict;
//! * every case runs in a worker process (this executable, re-invoked): a stack overflow or an
//!   allocation failure aborts only the worker, and the parent records `ABORT` for that case.
//!
//! Known finding (C14): `hash()` of a decodable version-2 ProofOfSpace whose quality string is `None`
//! panics.  A case line gets the marker `@v2pos-nohash` iff (a) the input contains such a proof of space
//! (computed from the input by `Walk`) AND (b) the implementation's result is exactly `PANIC@hash small`.
//! Any other deviation on such an input (panic while decoding, BIG allocation, …) carries no marker and
//! is reported as a violation.
use crate::out::{hx, unhx, Out};
use crate::prng::Rng;
use chia_traits::Streamable;
use std::alloc::{GlobalAlloc, Layout, System};
use std::panic::{catch_unwind, AssertUnwindSafe};
use std::sync::atomic::{AtomicUsize, Ordering};

// ------------------------------------------------------------------------------------------------
// counting allocator: bytes currently allocated and the peak since the last reset
pub struct Counting;
static CUR: AtomicUsize = AtomicUsize::new(0);
static PEAK: AtomicUsize = AtomicUsize::new(0);
unsafe impl GlobalAlloc for Counting {
    unsafe fn alloc(&self, l: Layout) -> *mut u8 {
        let p = System.alloc(l);
        if !p.is_null() {
            let c = CUR.fetch_add(l.size(), Ordering::Relaxed) + l.size();
            PEAK.fetch_max(c, Ordering::Relaxed);
        }
        p
    }
    unsafe fn dealloc(&self, p: *mut u8, l: Layout) {
        System.dealloc(p, l);
        CUR.fetch_sub(l.size(), Ordering::Relaxed);
    }
    unsafe fn realloc(&self, p: *mut u8, l: Layout, new: usize) -> *mut u8 {
        let q = System.realloc(p, l, new);
        if !q.is_null() {
            if new >= l.size() {
                let c = CUR.fetch_add(new - l.size(), Ordering::Relaxed) + (new - l.size());
                PEAK.fetch_max(c, Ordering::Relaxed);
            } else {
                CUR.fetch_sub(l.size() - new, Ordering::Relaxed);
            }
        }
        q
    }
}
fn peak_reset() -> usize {
    let c = CUR.load(Ordering::Relaxed);
    PEAK.store(c, Ordering::Relaxed);
    c
}
fn peak_since(start: usize) -> usize { PEAK.load(Ordering::Relaxed).saturating_sub(start) }

// ------------------------------------------------------------------------------------------------
/// runtime type descriptor (mirror of `ChiaModel.Streamable.Ty`)
#[derive(Clone, Debug)]
pub enum Ty {
    U(usize), I(usize), Bool, Unit, Bytes, BytesN(usize), Str,
    Option(Box<Ty>), Vec(Box<Ty>), Tuple(Vec<Ty>), Array(usize, Box<Ty>),
    Struct(&'static str, Vec<Ty>), Enum(Vec<u8>), Program, G1, G2, Gt, Sk,
    OptPair(Box<Ty>, Box<Ty>), GenTail(bool), Pos,
}

impl Ty {
    /// approximation of size_of (same table as the model's `memSize`)
    fn mem(&self) -> usize {
        match self {
            Ty::U(n) | Ty::I(n) | Ty::BytesN(n) => *n,
            Ty::Bool | Ty::Enum(_) => 1, Ty::Unit => 0,
            Ty::Bytes | Ty::Str | Ty::Vec(_) | Ty::Program => 24,
            Ty::Option(t) => t.mem() + 1,
            Ty::Tuple(ts) | Ty::Struct(_, ts) => ts.iter().map(Ty::mem).sum(),
            Ty::Array(n, t) => n * t.mem(),
            Ty::G1 => 144, Ty::G2 => 288, Ty::Gt => 576, Ty::Sk => 32,
            Ty::OptPair(a, b) => a.mem() + b.mem() + 2, Ty::GenTail(_) => 80, Ty::Pos => 400,
        }
    }
    fn min_wire(&self) -> usize {
        match self {
            Ty::U(n) | Ty::I(n) | Ty::BytesN(n) => *n,
            Ty::Bool | Ty::Enum(_) | Ty::Option(_) | Ty::Program | Ty::OptPair(..) | Ty::GenTail(_) => 1,
            Ty::Unit => 0, Ty::Bytes | Ty::Str | Ty::Vec(_) => 4,
            Ty::Tuple(ts) | Ty::Struct(_, ts) => ts.iter().map(Ty::min_wire).sum(),
            Ty::Array(n, t) => n * t.min_wire(),
            Ty::G1 => 48, Ty::G2 => 96, Ty::Gt => 576, Ty::Sk => 32, Ty::Pos => 87,
        }
    }
    /// greatest in-memory / wire ratio of a vector element anywhere in the type
    fn max_ratio(&self) -> usize {
        match self {
            Ty::Vec(t) => (t.mem().div_ceil(t.min_wire().max(1))).max(t.max_ratio()),
            Ty::Option(t) | Ty::Array(_, t) => t.max_ratio(),
            Ty::Tuple(ts) | Ty::Struct(_, ts) => ts.iter().map(Ty::max_ratio).max().unwrap_or(0),
            Ty::OptPair(a, b) => a.max_ratio().max(b.max_ratio()),
            // measured: the validating CLVM scan of clvmr keeps ~27.5 bytes per input byte at its peak
            // (three 8-byte pairs per node in a doubling Vec): 5 507 072 bytes for 200 001 bytes of
            // `ff`*100000 + `80`*100001, 9 963 520 for twice that (linear)
            Ty::GenTail(_) | Ty::Program => 12,
            _ => 0,
        }
    }
    fn vec_depth(&self) -> usize {
        match self {
            Ty::Vec(t) => t.vec_depth() + 1,
            Ty::Option(t) | Ty::Array(_, t) => t.vec_depth(),
            Ty::Tuple(ts) | Ty::Struct(_, ts) => ts.iter().map(Ty::vec_depth).max().unwrap_or(0),
            Ty::OptPair(a, b) => a.vec_depth().max(b.vec_depth()),
            Ty::GenTail(_) => 1,
            _ => 0,
        }
    }
    /// allocation class bound: peak <= K * len + slack  (K and slack recorded in the run summary)
    pub fn alloc_k(&self) -> usize { 4 * self.max_ratio() + 8 }
    pub fn alloc_slack(&self) -> usize { (self.vec_depth() + 1) * (2 << 20) + (64 << 10) }
}

// ------------------------------------------------------------------------------------------------
// pools of externally produced elements
pub struct Pools {
    g1: Vec<Vec<u8>>,
    g2: Vec<Vec<u8>>,
    programs: Vec<Vec<u8>>,
    ids: Vec<[u8; 32]>,
    /// wire encodings of version-2 proofs of space with a quality string (from /repo's test vectors)
    pos2: Vec<Vec<u8>>,
    /// points accepted by from_bytes_unchecked only (on the curve, outside the subgroup)
    g1_unchecked: Vec<Vec<u8>>,
    g2_unchecked: Vec<Vec<u8>>,
}

fn rand_tree(a: &mut clvmr::Allocator, r: &mut Rng, depth: u32) -> clvmr::NodePtr {
    if depth == 0 || r.chance(2, 5) {
        let len = *r.pick(&[0usize, 1, 1, 2, 3, 8, 32, 32, 48, 63, 64, 65, 200]);
        let mut v = r.bytes(len);
        if len == 1 && r.chance(1, 2) { v[0] = *r.pick(&[0u8, 1, 0x7f, 0x80, 0xff]); }
        a.new_atom(&v).unwrap()
    } else {
        let l = rand_tree(a, r, depth - 1);
        let rr = if r.chance(1, 4) { l } else { rand_tree(a, r, depth - 1) };
        a.new_pair(l, rr).unwrap()
    }
}

impl Pools {
    pub fn new(seed: u64) -> Self {
        let mut r = Rng::new(seed ^ 0x5eed);
        let mut g1 = vec![chia_bls::G1Element::default().to_bytes().to_vec()];
        let mut g2 = vec![chia_bls::G2Element::default().to_bytes().to_vec()];
        for i in 0..7u8 {
            let sk = chia_bls::SecretKey::from_seed(&[i + 1; 32]);
            g1.push(sk.public_key().to_bytes().to_vec());
            g2.push(chia_bls::sign(&sk, [i, 7, 7]).to_bytes().to_vec());
        }
        let mut programs: Vec<Vec<u8>> = vec![vec![0x80], vec![0x01], vec![0xff, 0x01, 0x80], vec![0xff, 0x80, 0x80]];
        for i in 0..40 {
            let mut a = clvmr::Allocator::new();
            let t = rand_tree(&mut a, &mut r, 1 + i % 6);
            programs.push(clvmr::serde::node_to_bytes(&a, t).unwrap());
            if i % 2 == 0 { programs.push(clvmr::serde::node_to_bytes_backrefs(&a, t).unwrap()); }
        }
        let ids: Vec<[u8; 32]> = (0..6u8).map(|i| { let mut x = [i.wrapping_mul(37); 32]; x[0] = i; x[31] = 0xff - i; x }).collect();
        let mut pos2 = vec![];
        let repo = std::env::var("VERIF_REPO").unwrap_or("/repo".into());
        let plot_pk = hex::decode("a9c96f979d895b9ded08907ecd775abf889d51219bb7776dd73fdbac6b0dcc063c72c9e10d96776f486bbd1416b54533").unwrap();
        if let Ok(rd) = std::fs::read_dir(format!("{repo}/crates/chia-protocol/quality-string-tests")) {
            let mut files: Vec<_> = rd.filter_map(|e| e.ok()).map(|e| e.path()).collect();
            files.sort();
            for p in files {
                let Ok(txt) = std::fs::read_to_string(&p) else { continue };
                let l: Vec<&str> = txt.lines().map(|x| x.split('#').next().unwrap().trim()).filter(|s| !s.is_empty()).collect();
                if l.len() != 7 { continue; }
                let (Ok(ch), Ok(strength), Ok(pi), Ok(mg), Ok(pool), Ok(proof)) =
                    (hex::decode(l[0]), l[1].parse::<u8>(), l[2].parse::<u16>(), l[3].parse::<u8>(), hex::decode(l[4]), hex::decode(l[5])) else { continue };
                let mut w = ch.clone();
                if pool.len() == 48 { w.push(1); w.extend(&pool); w.push(2); } else { w.push(0); w.push(3); w.extend(&pool); }
                w.extend(&plot_pk);
                w.extend(pi.to_be_bytes()); w.push(mg); w.push(strength);
                w.extend((proof.len() as u32).to_be_bytes()); w.extend(&proof);
                pos2.push(w);
            }
        }
        let (mut g1_unchecked, mut g2_unchecked) = (vec![], vec![]);
        for _ in 0..4000 {
            if g1_unchecked.len() < 3 {
                let mut c = r.bytes(48); c[0] = 0x80 | (c[0] & 0x3f); if c[0] & 0x1f > 0x19 { c[0] &= 0xef; }
                if g1_status(&c) == 1 { g1_unchecked.push(c); }
            }
            if g2_unchecked.len() < 3 {
                let mut c = r.bytes(96); c[0] = 0x80 | (c[0] & 0x3f); if c[0] & 0x1f > 0x19 { c[0] &= 0xef; }
                c[48] &= 0x0f;
                if g2_status(&c) == 1 { g2_unchecked.push(c); }
            }
        }
        Pools { g1, g2, programs, ids, pos2, g1_unchecked, g2_unchecked }
    }
}

// ------------------------------------------------------------------------------------------------
// descriptor-driven generator of valid encodings (independent encoder)
fn gen_uint(n: usize, r: &mut Rng, out: &mut Vec<u8>) {
    match r.below(6) {
        0 => out.extend(std::iter::repeat(0).take(n)),
        1 => out.extend(std::iter::repeat(0xff).take(n)),
        2 => { out.extend(std::iter::repeat(0).take(n - 1)); out.push(r.below(4) as u8); }
        3 => { out.push(*r.pick(&[0x7fu8, 0x80])); out.extend(std::iter::repeat(*r.pick(&[0u8, 0xff])).take(n - 1)); }
        _ => out.extend(r.bytes(n)),
    }
}
fn gen_str(r: &mut Rng) -> String {
    let pool = ['a', 'Z', '0', ' ', '\u{7f}', '\u{80}', '\u{e5}', '\u{7ff}', '\u{800}', '\u{20ac}', '\u{d7ff}', '\u{e000}',
                '\u{ffff}', '\u{10000}', '\u{1f600}', '\u{10ffff}', '\0'];
    let n = *r.pick(&[0usize, 0, 1, 2, 3, 5, 12]);
    (0..n).map(|_| *r.pick(&pool)).collect()
}
fn gen_bytes_field(r: &mut Rng, out: &mut Vec<u8>) {
    let n = *r.pick(&[0usize, 0, 1, 2, 7, 32, 33, 100]);
    out.extend((n as u32).to_be_bytes());
    out.extend(r.bytes(n));
}

pub fn gen(ty: &Ty, r: &mut Rng, p: &Pools, depth: u32, out: &mut Vec<u8>) {
    match ty {
        Ty::U(n) | Ty::I(n) => gen_uint(*n, r, out),
        Ty::Bool => out.push(r.below(2) as u8),
        Ty::Unit => {}
        Ty::Bytes => gen_bytes_field(r, out),
        Ty::BytesN(n) => { if *n == 32 && r.chance(2, 3) { out.extend(r.pick(&p.ids)); } else { out.extend(r.bytes(*n)); } }
        Ty::Str => { let s = gen_str(r); out.extend((s.len() as u32).to_be_bytes()); out.extend(s.as_bytes()); }
        Ty::Option(t) => { if r.chance(1, 2) { out.push(1); gen(t, r, p, depth + 1, out); } else { out.push(0); } }
        Ty::Vec(t) => {
            let big = t.min_wire() <= 8 && r.chance(1, 10);
            let n = if big { r.range(4, 20) } else if depth > 2 { r.below(2) } else { *r.pick(&[0u64, 0, 1, 1, 2, 3]) };
            out.extend((n as u32).to_be_bytes());
            for _ in 0..n { gen(t, r, p, depth + 1, out); }
        }
        Ty::Tuple(ts) | Ty::Struct(_, ts) => { for t in ts { gen(t, r, p, depth + 1, out); } }
        Ty::Array(n, t) => { for _ in 0..*n { gen(t, r, p, depth + 1, out); } }
        Ty::Enum(vals) => out.push(*r.pick(vals)),
        Ty::Program => out.extend(r.pick(&p.programs)),
        Ty::G1 => { if !p.g1_unchecked.is_empty() && r.chance(1, 25) { out.extend(r.pick(&p.g1_unchecked)) } else { out.extend(r.pick(&p.g1)) } }
        Ty::G2 => { if !p.g2_unchecked.is_empty() && r.chance(1, 25) { out.extend(r.pick(&p.g2_unchecked)) } else { out.extend(r.pick(&p.g2)) } }
        Ty::Gt => out.extend(r.bytes(576)),
        Ty::Sk => { let mut b = r.bytes(32); b[0] &= 0x3f; if r.chance(1, 10) { b = vec![0; 32]; } out.extend(b); }
        Ty::OptPair(a, b) => {
            let k = r.below(4) as u8;
            out.push(k);
            if k & 1 != 0 { gen(a, r, p, depth + 1, out); }
            if k & 2 != 0 { gen(b, r, p, depth + 1, out); }
        }
        Ty::GenTail(_) => {
            let k = r.below(4) as u8;
            out.push(k);
            match k {
                0 | 1 => {
                    if k == 1 { out.extend(r.pick(&p.programs)); }
                    let n = r.below(3);
                    out.extend((n as u32).to_be_bytes());
                    for _ in 0..n { gen_uint(4, r, out); }
                }
                2 => {}
                _ => gen_bytes_field(r, out),
            }
        }
        Ty::Pos => {
            let k = r.below(10);
            if k < 3 && !p.pos2.is_empty() {
                out.extend(r.pick(&p.pos2));       // version 2 with a quality string
            } else if k < 4 {
                // version 2 whose proof has no quality string (decodes; hash() is the known finding)
                out.extend(r.pick(&p.ids));
                let pool = r.chance(1, 2);
                if pool { out.push(1); out.extend(r.pick(&p.g1)); out.push(2); } else { out.push(0); out.push(3); out.extend(r.pick(&p.ids)); }
                out.extend(r.pick(&p.g1));
                gen_uint(2, r, out); gen_uint(1, r, out); out.push(r.below(64) as u8);
                let n = *r.pick(&[0usize, 16, 16, 32, 48]);
                out.extend((n as u32).to_be_bytes()); out.extend(r.bytes(n));
            } else {
                // version 1: any combination of pool key / contract hash is accepted
                out.extend(r.pick(&p.ids));
                if r.chance(1, 2) { out.push(1); out.extend(r.pick(&p.g1)); } else { out.push(0); }
                if r.chance(1, 2) { out.push(1); out.extend(r.pick(&p.ids)); } else { out.push(0); }
                out.extend(r.pick(&p.g1));
                gen_uint(1, r, out);
                gen_bytes_field(r, out);
            }
        }
    }
}

// ------------------------------------------------------------------------------------------------
/// descriptor-driven scan (trusted-mode control flow = superset of what either decoder reaches)
pub struct Walk<'a> {
    b: &'a [u8],
    pos: usize,
    g1: Vec<(Vec<u8>, u8)>,
    g2: Vec<(Vec<u8>, u8)>,
    /// (span of a successfully scanned ProofOfSpace, is version 2)
    pos_spans: Vec<(usize, usize, bool)>,
    /// offsets of one-byte prefixes: bool, Option, packed options, version prefixes, enum discriminants
    pub prefixes: Vec<usize>,
    /// offsets of u32 length prefixes
    pub lens: Vec<usize>,
    /// spans of Program fields
    pub programs: Vec<(usize, usize)>,
}

fn g1_status(c: &[u8]) -> u8 {
    let a: &[u8; 48] = c.try_into().unwrap();
    if chia_bls::G1Element::from_bytes(a).is_ok() { 2 } else if chia_bls::G1Element::from_bytes_unchecked(a).is_ok() { 1 } else { 0 }
}
fn g2_status(c: &[u8]) -> u8 {
    let a: &[u8; 96] = c.try_into().unwrap();
    if chia_bls::G2Element::from_bytes(a).is_ok() { 2 } else if chia_bls::G2Element::from_bytes_unchecked(a).is_ok() { 1 } else { 0 }
}

impl<'a> Walk<'a> {
    pub fn new(b: &'a [u8]) -> Self {
        Walk { b, pos: 0, g1: vec![], g2: vec![], pos_spans: vec![], prefixes: vec![], lens: vec![], programs: vec![] }
    }
    fn take(&mut self, n: usize) -> Result<&'a [u8], ()> {
        if self.b.len() - self.pos < n { return Err(()); }
        let s = &self.b[self.pos..self.pos + n];
        self.pos += n;
        Ok(s)
    }
    fn byte(&mut self) -> Result<u8, ()> { Ok(self.take(1)?[0]) }
    fn u32len(&mut self) -> Result<usize, ()> {
        self.lens.push(self.pos);
        let s = self.take(4)?;
        Ok(u32::from_be_bytes(s.try_into().unwrap()) as usize)
    }
    fn g1(&mut self) -> Result<(), ()> {
        let c = self.take(48)?;
        let st = g1_status(c);
        if !self.g1.iter().any(|e| e.0 == c) { self.g1.push((c.to_vec(), st)); }
        if st == 0 { Err(()) } else { Ok(()) }
    }
    fn program(&mut self) -> Result<(), ()> {
        let rest = &self.b[self.pos..];
        let len = clvmr::serde::serialized_length_from_bytes_trusted(rest).map_err(|_| ())? as usize;
        if rest.len() < len { return Err(()); }
        self.programs.push((self.pos, self.pos + len));
        self.pos += len;
        Ok(())
    }
    pub fn walk(&mut self, ty: &Ty) -> Result<(), ()> {
        match ty {
            Ty::U(n) | Ty::I(n) | Ty::BytesN(n) => { self.take(*n)?; }
            Ty::Bool => { self.prefixes.push(self.pos); if self.byte()? > 1 { return Err(()); } }
            Ty::Unit => {}
            Ty::Bytes => { let n = self.u32len()?; self.take(n)?; }
            Ty::Str => { let n = self.u32len()?; let s = self.take(n)?; std::str::from_utf8(s).map_err(|_| ())?; }
            Ty::Option(t) => {
                self.prefixes.push(self.pos);
                match self.byte()? { 0 => {}, 1 => self.walk(t)?, _ => return Err(()) }
            }
            Ty::Vec(t) => {
                let n = self.u32len()?;
                for _ in 0..n { self.walk(t)?; if t.min_wire() == 0 { break; } }
            }
            Ty::Tuple(ts) | Ty::Struct(_, ts) => { for t in ts { self.walk(t)?; } }
            Ty::Array(n, t) => { for _ in 0..*n { self.walk(t)?; } }
            Ty::Enum(vals) => { self.prefixes.push(self.pos); let x = self.byte()?; if !vals.contains(&x) { return Err(()); } }
            Ty::Program => self.program()?,
            Ty::G1 => self.g1()?,
            Ty::G2 => {
                let c = self.take(96)?;
                let st = g2_status(c);
                if !self.g2.iter().any(|e| e.0 == c) { self.g2.push((c.to_vec(), st)); }
                if st == 0 { return Err(()); }
            }
            Ty::Gt => { self.take(576)?; }
            Ty::Sk => { self.take(32)?; }
            Ty::OptPair(a, b) => {
                self.prefixes.push(self.pos);
                let k = self.byte()?;
                if k > 3 { return Err(()); }
                if k & 1 != 0 { self.walk(a)?; }
                if k & 2 != 0 { self.walk(b)?; }
            }
            Ty::GenTail(_) => {
                self.prefixes.push(self.pos);
                let k = self.byte()?;
                match k >> 1 {
                    0 => { if k & 1 != 0 { self.program()?; } let n = self.u32len()?; self.take(n.checked_mul(4).ok_or(())?)?; }
                    1 => { if k & 1 != 0 { let n = self.u32len()?; self.take(n)?; } }
                    _ => return Err(()),
                }
            }
            Ty::Pos => {
                let start = self.pos;
                self.take(32)?;
                self.prefixes.push(self.pos);
                let pp = self.byte()?;
                match pp { 0 => {}, 1 => self.g1()?, _ => return Err(()) }
                self.prefixes.push(self.pos);
                let k = self.byte()?;
                if k & 1 != 0 { self.take(32)?; }
                self.g1()?;
                match k >> 1 {
                    0 => { self.take(1)?; let n = self.u32len()?; self.take(n)?; }
                    1 => {
                        self.take(4)?; let n = self.u32len()?; self.take(n)?;
                        if (pp == 1) == (k & 1 != 0) { return Err(()); }
                    }
                    _ => return Err(()),
                }
                self.pos_spans.push((start, self.pos, k >> 1 == 1));
            }
        }
        Ok(())
    }
    /// oracle entries for the case line, and whether the input contains a version-2 proof of space
    /// without a quality string
    pub fn oracle(&self) -> (String, bool) {
        let mut e: Vec<String> = vec![];
        for (c, s) in &self.g1 { e.push(format!("a{}:{}", hex::encode(c), s)); }
        for (c, s) in &self.g2 { e.push(format!("b{}:{}", hex::encode(c), s)); }
        let mut bad = false;
        let mut seen: Vec<&[u8]> = vec![];
        for (a, b, v2) in &self.pos_spans {
            if !*v2 { continue; }
            let span = &self.b[*a..*b];
            if seen.contains(&span) { continue; }
            seen.push(span);
            let q = catch_unwind(|| chia_protocol::ProofOfSpace::from_bytes_unchecked(span).ok().and_then(|p| p.quality_string()));
            match q {
                Ok(Some(q)) => e.push(format!("q{}:{}", hex::encode(span), hex::encode(q))),
                _ => { bad = true; e.push(format!("q{}:none", hex::encode(span))); }
            }
        }
        (if e.is_empty() { String::new() } else { format!(" o={}", e.join(",")) }, bad)
    }
}

// ------------------------------------------------------------------------------------------------
// the generic per-type drivers

fn errname<E: std::fmt::Debug>(e: &E) -> String { format!("{e:?}").replace(' ', "_") }

/// `C13 rt <Type> <hex>`
fn c13_impl<T: Streamable + PartialEq>(b: &[u8], bad_v2pos: bool) -> String {
    match catch_unwind(|| T::from_bytes(b)) {
        Err(_) => "PANIC@parse".into(),
        Ok(Err(e)) => format!("err ~{}", errname(&e)),
        Ok(Ok(v)) => {
            let enc = match catch_unwind(AssertUnwindSafe(|| v.to_bytes())) {
                Ok(Ok(x)) => hx(&x), Ok(Err(e)) => format!("ENC-ERR:{}", errname(&e)), Err(_) => "PANIC".into() };
            let mut note = "";
            let h = match catch_unwind(AssertUnwindSafe(|| Streamable::hash(&v))) {
                Ok(h) => hex::encode(h),
                // the C13 clause about hashing is undefined for a version-2 proof of space without a
                // quality-string commitment; the panic itself is C14's finding
                Err(_) => if bad_v2pos { note = " ~hash-panic-v2pos"; "undef".into() } else { "PANIC".into() } };
            let agree = match catch_unwind(|| T::from_bytes_unchecked(b)) {
                Ok(Ok(v2)) => match catch_unwind(AssertUnwindSafe(|| v2 == v)) { Ok(true) => "same", _ => "differs" },
                _ => "differs" };
            format!("ok {enc} {h} {agree}{note}")
        }
    }
}

/// `C14 dec <Type> <t|u> <hex>`
fn c14_impl<T: Streamable + PartialEq>(b: &[u8], trusted: bool, k: usize, slack: usize) -> String {
    let t0 = std::time::Instant::now();
    let start = peak_reset();
    let r = catch_unwind(|| if trusted { T::from_bytes_unchecked(b) } else { T::from_bytes(b) });
    let (verdict, note) = match r {
        Err(_) => ("PANIC@parse".to_string(), String::new()),
        Ok(Err(e)) => ("err".to_string(), format!(" ~{}", errname(&e))),
        Ok(Ok(v)) => {
            let mut verdict = "ok".to_string();
            match catch_unwind(AssertUnwindSafe(|| v.to_bytes())) {
                Ok(Ok(_)) => {}
                Ok(Err(e)) => verdict = format!("ERR@to_bytes:{}", errname(&e)),
                Err(_) => verdict = "PANIC@to_bytes".into(),
            }
            if verdict == "ok" && catch_unwind(AssertUnwindSafe(|| Streamable::hash(&v))).is_err() { verdict = "PANIC@hash".into(); }
            #[allow(clippy::eq_op)]
            if verdict == "ok" && catch_unwind(AssertUnwindSafe(|| v == v)).is_err() { verdict = "PANIC@eq".into(); }
            let _ = catch_unwind(AssertUnwindSafe(move || drop(v)));
            (verdict, String::new())
        }
    };
    let peak = peak_since(start);
    let class = if t0.elapsed().as_secs() >= 10 { "SLOW" } else if peak <= k * b.len() + slack { "small" } else { "BIG" };
    if std::env::var("VERIF_C14_PEAK").is_ok() { return format!("{verdict} {class}{note} peak={peak} len={}", b.len()); }
    format!("{verdict} {class}{note}")
}

type C13Fn = fn(&[u8], bool) -> String;
type C14Fn = fn(&[u8], bool, usize, usize) -> String;
pub struct Entry { pub name: &'static str, pub ty: Ty, c13: C13Fn, c14: C14Fn }

pub fn registry() -> Vec<Entry> {
    let mut v: Vec<Entry> = vec![];
    macro_rules! reg { ($name:expr, $t:ty, $d:expr) => {
        v.push(Entry { name: $name, ty: $d, c13: c13_impl::<$t>, c14: c14_impl::<$t> });
    }; }
    crate::for_each_streamable_type!(reg);
    v
}

/// one raw case line (`C13 rt T hex` / `C14 dec T m hex`, anything after the hex is ignored) -> (case line, impl line)
fn run_raw(reg: &[Entry], raw: &str) -> (String, String) {
    let t: Vec<&str> = raw.split_whitespace().collect();
    let c13 = t[0] == "C13";
    let (name, hexs) = if c13 { (t[2], t[3]) } else { (t[2], t[4]) };
    let Some(e) = reg.iter().find(|e| e.name == name) else { return (raw.to_string(), "bad-type".into()); };
    let b = unhx(hexs);
    let mut w = Walk::new(&b);
    let _ = w.walk(&e.ty);
    let (oracle, bad) = w.oracle();
    if c13 {
        (format!("C13 rt {name} {hexs}{oracle}"), (e.c13)(&b, bad))
    } else {
        let out = (e.c14)(&b, t[3] == "t", e.ty.alloc_k(), e.ty.alloc_slack());
        let marker = if bad && out == "PANIC@hash small" { " @v2pos-nohash" } else { "" };
        (format!("C14 dec {name} {} {hexs}{oracle}{marker}", t[3]), out)
    }
}

// ------------------------------------------------------------------------------------------------
// process isolation

fn count_lines(p: &str) -> usize { std::fs::read_to_string(p).map(|s| s.lines().count()).unwrap_or(0) }

/// worker: process raw lines [start..] of the raw file, appending (flushed) to w_cases / w_impl
pub fn worker(dir: &str, start: usize) {
    use std::io::Write;
    std::panic::set_hook(Box::new(|_| {}));
    let reg = registry();
    let raw = std::fs::read_to_string(format!("{dir}/raw.txt")).expect("raw");
    let mut fc = std::fs::OpenOptions::new().create(true).append(true).open(format!("{dir}/w_cases.txt")).unwrap();
    let mut fi = std::fs::OpenOptions::new().create(true).append(true).open(format!("{dir}/w_impl.txt")).unwrap();
    let (mut bc, mut bi) = (String::new(), String::new());
    for (i, l) in raw.lines().enumerate().skip(start) {
        let (c, o) = run_raw(&reg, l);
        bc.push_str(&c); bc.push('\n'); bi.push_str(&o); bi.push('\n');
        // flush in small batches; a crash loses at most the batch, which the parent re-runs one by one
        if i % 64 == 63 || l.len() > 4096 { fc.write_all(bc.as_bytes()).unwrap(); fi.write_all(bi.as_bytes()).unwrap(); bc.clear(); bi.clear(); }
    }
    fc.write_all(bc.as_bytes()).unwrap(); fi.write_all(bi.as_bytes()).unwrap();
}

fn spawn_worker(dir: &str, start: usize, single: bool) -> bool {
    let exe = std::env::current_exe().expect("exe");
    let mut ch = std::process::Command::new(exe)
        .args(["C13-worker", dir, &start.to_string(), if single { "single" } else { "all" }])
        .stderr(std::process::Stdio::null())
        .spawn().expect("spawn worker");
    // watchdog: no progress for 180 s => kill
    let mut last = (0u64, std::time::Instant::now());
    loop {
        match ch.try_wait() {
            Ok(Some(st)) => return st.success(),
            Ok(None) => {}
            Err(_) => return false,
        }
        let sz = std::fs::metadata(format!("{dir}/w_impl.txt")).map(|m| m.len()).unwrap_or(0);
        if sz != last.0 { last = (sz, std::time::Instant::now()); }
        if last.1.elapsed().as_secs() > 180 { let _ = ch.kill(); let _ = ch.wait(); return false; }
        std::thread::sleep(std::time::Duration::from_millis(20));
    }
}

/// run all raw lines in worker processes; a worker that dies marks the case it died on
fn run_isolated(o: &mut Out, dir: &str, raw: &[String]) {
    use std::io::Write;
    let (wc, wi) = (format!("{dir}/w_cases.txt"), format!("{dir}/w_impl.txt"));
    let _ = std::fs::remove_file(&wc);
    let _ = std::fs::remove_file(&wi);
    { let mut f = std::io::BufWriter::new(std::fs::File::create(format!("{dir}/raw.txt")).unwrap());
      for l in raw { writeln!(f, "{l}").unwrap(); } }
    let total = raw.len();
    let mut done = 0usize;
    let mut aborts = 0usize;
    while done < total {
        let ok = spawn_worker(dir, done, false);
        let n = count_lines(&wi).min(count_lines(&wc));
        truncate_lines(&wi, n);
        truncate_lines(&wc, n);
        if ok {
            if n < total { panic!("worker stopped early without failing ({n}/{total})"); }
            done = n;
            continue;
        }
        // the worker died somewhere in its unflushed batch: run these cases one per process
        let end = (n + 65).min(total);
        for idx in n..end {
            let ok1 = spawn_single(dir, idx);
            let m = count_lines(&wi).min(count_lines(&wc));
            truncate_lines(&wi, m);
            truncate_lines(&wc, m);
            if !ok1 || m != idx + 1 {
                truncate_lines(&wi, idx);
                truncate_lines(&wc, idx);
                append_line(&wc, &raw[idx]);
                append_line(&wi, "ABORT");
                aborts += 1;
                if aborts > 200 { panic!("more than 200 aborting cases"); }
            }
        }
        done = end;
    }
    let c = std::fs::read_to_string(&wc).unwrap_or_default();
    let i = std::fs::read_to_string(&wi).unwrap_or_default();
    for (a, b) in c.lines().zip(i.lines()) { o.case(a, b); }
    for f in [&wc, &wi, &format!("{dir}/raw.txt")] { let _ = std::fs::remove_file(f); }
}

fn spawn_single(dir: &str, idx: usize) -> bool { spawn_worker(dir, idx, true) }
fn append_line(p: &str, l: &str) {
    use std::io::Write;
    let mut f = std::fs::OpenOptions::new().create(true).append(true).open(p).unwrap();
    writeln!(f, "{l}").unwrap();
}
fn truncate_lines(p: &str, n: usize) {
    let s = std::fs::read_to_string(p).unwrap_or_default();
    let mut out = String::new();
    for l in s.lines().take(n) { out.push_str(l); out.push('\n'); }
    if out.len() != s.len() { std::fs::write(p, out).unwrap(); }
}

/// entry of the re-invoked executable: `vharness C13-worker <dir> <start> <single|all>`
pub fn worker_main(dir: &str, start: usize, single: bool) {
    if single {
        use std::io::Write;
        std::panic::set_hook(Box::new(|_| {}));
        let reg = registry();
        let raw = std::fs::read_to_string(format!("{dir}/raw.txt")).expect("raw");
        if let Some(l) = raw.lines().nth(start) {
            let (c, o) = run_raw(&reg, l);
            let mut fc = std::fs::OpenOptions::new().create(true).append(true).open(format!("{dir}/w_cases.txt")).unwrap();
            let mut fi = std::fs::OpenOptions::new().create(true).append(true).open(format!("{dir}/w_impl.txt")).unwrap();
            writeln!(fc, "{c}").unwrap(); writeln!(fi, "{o}").unwrap();
        }
    } else {
        worker(dir, start);
    }
}

// ------------------------------------------------------------------------------------------------
// case generation

const PERTURB: [u8; 6] = [0, 1, 2, 3, 0x80, 0xff];

/// byte strings over the CLVM serialisation alphabet: pair and back-reference markers, small atoms, every
/// size-prefix class, truncated and oversized prefixes
fn clvm_fuzz(r: &mut Rng) -> Vec<u8> {
    let n = r.range(1, 14);
    let mut v = vec![];
    for _ in 0..n {
        match r.below(12) {
            0..=3 => v.push(0xff),
            4 | 5 => { v.push(0xfe); v.push(*r.pick(&[0u8, 1, 2, 3, 4, 5, 6, 7, 8, 0x0b, 0x10, 0x7f, 0x80, 0x81, 0x82, 0xc0, 0xff, 0xfe])); }
            6 => v.push(0x80),
            7 => v.push(r.below(0x80) as u8),
            8 => { let k = r.below(5) as usize; v.push(0x80 + k as u8); v.extend(r.bytes(k)); }
            9 => { v.push(*r.pick(&[0x81u8, 0xbf, 0xc0, 0xc1, 0xe0, 0xf0, 0xf8, 0xfc, 0xfd])); let k = r.below(4) as usize; v.extend(r.bytes(k)); }
            10 => { v.push(0xc0); v.push(0x40); v.extend(r.bytes(0x40)); }
            _ => v.push(r.next() as u8),
        }
    }
    if r.chance(1, 2) { let k = v.iter().filter(|&&x| x == 0xff).count(); v.extend(std::iter::repeat(0x80).take(k + 1)); }
    v
}
const LENS: [u32; 6] = [0, 1, 1 << 16, 1 << 24, 1 << 31, u32::MAX];

fn corpus(prop: &str) -> Vec<String> {
    let dir = std::env::var("VERIF_CORPUS").unwrap_or_else(|_| {
        let exe = std::env::current_exe().unwrap();
        // <verif>/.cache/target/release/vharness -> <verif>/corpus
        exe.ancestors().nth(4).map(|p| p.join("corpus").to_string_lossy().to_string()).unwrap_or("corpus".into())
    });
    std::fs::read_to_string(format!("{dir}/{prop}.case")).map(|s| s.lines()
        .filter(|l| !l.starts_with('#') && !l.trim().is_empty()).map(|l| l.to_string()).collect()).unwrap_or_default()
}

/// number of values for a type under a byte budget (average size measured on 8 samples)
fn budget_values(ty: &Ty, r: &mut Rng, p: &Pools, want: usize, budget: usize) -> usize {
    if budget == usize::MAX { return want; }
    let mut tot = 0usize;
    let mut rr = Rng::new(r.next());
    for _ in 0..8 { let mut b = vec![]; gen(ty, &mut rr, p, 0, &mut b); tot += b.len() + 1; }
    want.min((budget / (tot / 8 + 1)).max(200))
}

pub fn run_c13(o: &mut Out, dir: &str, seed: u64, thorough: bool, replay: Option<Vec<String>>) {
    if let Some(lines) = replay { run_isolated(o, dir, &lines); return; }
    let reg = registry();
    let pools = Pools::new(seed);
    let mut r = Rng::new(seed);
    let mut raw: Vec<String> = corpus("C13");
    let nvals = if thorough { 20000 } else { 200 };
    let nmut = if thorough { 16 } else { 6 };
    for e in &reg {
        if matches!(e.ty, Ty::Program) {
            for _ in 0..(if thorough { 200_000 } else { 6000 }) { raw.push(format!("C13 rt {} {}", e.name, hx(&clvm_fuzz(&mut r)))); }
        }
        let mut small_done = 0;
        let nvals = budget_values(&e.ty, &mut r, &pools, nvals, if thorough { 8 << 20 } else { usize::MAX });
        for i in 0..nvals {
            let mut b = vec![];
            gen(&e.ty, &mut r, &pools, 0, &mut b);
            raw.push(format!("C13 rt {} {}", e.name, hx(&b)));
            if i < nmut {
                let mut w = Walk::new(&b);
                let _ = w.walk(&e.ty);
                // every one-byte prefix to each of the six values
                let mut budget = if thorough { ((6usize << 20) / nmut / (b.len() + 1)).clamp(150, 3000) } else { 150 };
                for &p in &w.prefixes { for &x in &PERTURB {
                    if b[p] != x && budget > 0 { let mut m = b.clone(); m[p] = x; raw.push(format!("C13 rt {} {}", e.name, hx(&m))); budget -= 1; }
                }}
                // length prefixes: least and most significant byte
                for &p in &w.lens { for q in [p, p + 3] { for &x in &PERTURB {
                    if b[q] != x && budget > 0 { let mut m = b.clone(); m[q] = x; raw.push(format!("C13 rt {} {}", e.name, hx(&m))); budget -= 1; }
                }}}
                // appended bytes
                for x in [0u8, 1, 0xff] { let mut m = b.clone(); m.push(x); raw.push(format!("C13 rt {} {}", e.name, hx(&m))); }
            }
            // truncation at every offset of small values
            if b.len() <= (if thorough { 400 } else { 120 }) && small_done < (if thorough { 10 } else { 2 }) && !b.is_empty() {
                small_done += 1;
                for k in 0..b.len() { raw.push(format!("C13 rt {} {}", e.name, hx(&b[..k]))); }
            }
        }
    }
    // lists just at and just above the decoder's up-front reservation cap (2 MiB / size_of::<T>() elements): the
    // cap bounds the reservation only, never the number of elements decoded
    for (name, cap, elem) in long_list_shapes() { for n in [cap, cap + 1] {
        let mut b = (n as u32).to_be_bytes().to_vec(); for _ in 0..n { b.extend_from_slice(&elem); }
        raw.push(format!("C13 rt {} {}", name, hx(&b)));
    }}
    run_isolated(o, dir, &raw);
}

/// (registry name, reservation cap in elements, encoding of the smallest element)
fn long_list_shapes() -> Vec<(&'static str, usize, Vec<u8>)> {
    vec![("Vec<Vec<u32>>", 2 * 1024 * 1024 / std::mem::size_of::<Vec<u32>>(), vec![0, 0, 0, 0]),
         ("Vec<(u16,String)>", 2 * 1024 * 1024 / std::mem::size_of::<(u16, String)>(), vec![0, 0, 0, 0, 0, 0])]
}

pub fn run_c14(o: &mut Out, dir: &str, seed: u64, thorough: bool, replay: Option<Vec<String>>) {
    if let Some(lines) = replay { run_isolated(o, dir, &lines); return; }
    let reg = registry();
    let pools = Pools::new(seed);
    let mut r = Rng::new(seed ^ 0xc14);
    let mut raw: Vec<String> = corpus("C14");
    let push = |raw: &mut Vec<String>, name: &str, b: &[u8]| {
        raw.push(format!("C14 dec {name} u {}", hx(b)));
        raw.push(format!("C14 dec {name} t {}", hx(b)));
    };
    let nrand = if thorough { 1500 } else { 40 };
    let nval0 = if thorough { 300 } else { 12 };
    let deep = 100_000usize;
    for e in &reg {
        let nval = budget_values(&e.ty, &mut r, &pools, nval0, if thorough { 512 << 10 } else { usize::MAX }).min(nval0).max(12);
        if matches!(e.ty, Ty::Program) {
            for _ in 0..(if thorough { 100_000 } else { 3000 }) { let b = clvm_fuzz(&mut r); push(&mut raw, e.name, &b); }
        }
        // random bytes of assorted lengths
        for i in 0..nrand {
            let n = match i % 5 { 0 => r.below(8), 1 => r.below(64), 2 => r.below(300), 3 => e.ty.min_wire() as u64 + r.below(8), _ => r.below(2000) } as usize;
            let mut b = r.bytes(n);
            if i % 3 == 0 { for x in b.iter_mut() { if r.chance(2, 3) { *x = *r.pick(&[0u8, 0, 1, 1, 2, 0xff]); } } }
            push(&mut raw, e.name, &b);
        }
        let mut deep_done = false;
        for i in 0..nval {
            let mut b = vec![];
            gen(&e.ty, &mut r, &pools, 0, &mut b);
            push(&mut raw, e.name, &b);
            let mut w = Walk::new(&b);
            let _ = w.walk(&e.ty);
            // mutated valid encodings: flips, insertions, deletions, truncation
            for _ in 0..(if thorough { 12 } else { 4 }) {
                let mut m = b.clone();
                for _ in 0..r.range(1, 3) {
                    if m.is_empty() { m.push(r.next() as u8); continue; }
                    let p = r.below(m.len() as u64) as usize;
                    match r.below(5) {
                        0 => m[p] = r.next() as u8,
                        1 => m[p] = *r.pick(&PERTURB),
                        2 => { m.remove(p); }
                        3 => m.insert(p, r.next() as u8),
                        _ => m.truncate(p),
                    }
                }
                push(&mut raw, e.name, &m);
            }
            // every length prefix set to the boundary lengths, body left short
            if i < (if thorough { 10 } else { 3 }) {
                for &p in &w.lens { for &l in &LENS {
                    let mut m = b.clone(); m[p..p + 4].copy_from_slice(&l.to_be_bytes());
                    push(&mut raw, e.name, &m);
                    let mut m2 = m.clone(); m2.truncate(p + 4 + 3.min(m.len() - p - 4));
                    push(&mut raw, e.name, &m2);
                }}
                for &p in &w.prefixes { for &x in &PERTURB { if b[p] != x {
                    let mut m = b.clone(); m[p] = x; push(&mut raw, e.name, &m);
                }}}
            }
            // deep CLVM nesting in the first Program field
            if !deep_done {
                if let Some(&(a, z)) = w.programs.first() {
                    deep_done = true;
                    let mut open = b[..a].to_vec(); open.extend(std::iter::repeat(0xff).take(deep));
                    let mut closed = open.clone(); closed.extend(std::iter::repeat(0x80).take(deep + 1));
                    open.extend(&b[z..]); closed.extend(&b[z..]);
                    push(&mut raw, e.name, &open);
                    push(&mut raw, e.name, &closed);
                }
            }
        }
    }
    // version-2 ProofOfSpace with every combination of the two pool targets (exactly one is required), both decoders
    {
        let g1 = chia_bls::SecretKey::from_seed(&[1u8; 32]).public_key().to_bytes();
        for has_pk in [false, true] { for has_contract in [false, true] { for proof_len in [0usize, 16] {
            let mut b = vec![7u8; 32];
            if has_pk { b.push(1); b.extend_from_slice(&g1); } else { b.push(0); }
            b.push(0x02 | has_contract as u8);
            if has_contract { b.extend_from_slice(&[9u8; 32]); }
            b.extend_from_slice(&g1);
            b.extend_from_slice(&[0, 1, 2, 3]);                       // plot_index u16, meta_group, strength
            b.extend_from_slice(&(proof_len as u32).to_be_bytes()); b.extend(std::iter::repeat(0u8).take(proof_len));
            push(&mut raw, "ProofOfSpace", &b);
        }}}
    }
    // lists just at and just above the reservation cap
    for (name, cap, elem) in long_list_shapes() { for n in [cap, cap + 1] {
        let mut b = (n as u32).to_be_bytes().to_vec(); for _ in 0..n { b.extend_from_slice(&elem); }
        push(&mut raw, name, &b);
    }}
    run_isolated(o, dir, &raw);
    // the constants of the allocation classes, for the record
    let mut s = String::from("# C14 allocation classes: small iff peak <= K * input_len + slack\n");
    for e in &reg { s.push_str(&format!("{} K={} slack={}\n", e.name, e.ty.alloc_k(), e.ty.alloc_slack())); }
    let _ = std::fs::write(format!("{dir}/alloc_classes.txt"), s);
}
