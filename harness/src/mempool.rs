//! C19: the mempool rewrites — fast-forward of singleton spends (`fast_forward_singleton`), the
//! de-duplication fingerprint (`compute_puzzle_fingerprint`) and the ELIGIBLE_FOR_DEDUP flag.
//!
//! case kinds (second word of the line):
//!   mh  <puzzle hex>                                     the singleton mod hash constant and the hash of the mod
//!   ff  <old coin> <new coin> <new parent> <puzzle> <solution> [@markers]
//!   fp  <conditions hex>                                 compute_puzzle_fingerprint
//!   fpp <kind> <parent> <amount> <conds1> <conds2> <pks> two spends of the SAME coin (identity puzzle) through run_spendbundle
//!   dd  <flags> <pks> <generator output hex>             parse_spends::<MempoolVisitor>: the dedup flag of every spend
//! coins travel as `parent:puzzlehash:amount`.
use crate::cond::*;
use crate::out::Out;
use crate::prng::Rng;
use chia_bls::Signature;
use chia_consensus::allocator::make_allocator;
use chia_consensus::consensus_constants::TEST_CONSTANTS;
use chia_consensus::error::Error as FfErr;
use chia_consensus::fast_forward::fast_forward_singleton;
use chia_consensus::flags::{ConsensusFlags, MEMPOOL_MODE};
use chia_consensus::owned_conditions::{OwnedSpendBundleConditions, OwnedSpendConditions};
use chia_consensus::puzzle_fingerprint::compute_puzzle_fingerprint;
use chia_consensus::spendbundle_conditions::run_spendbundle;
use chia_protocol::{Bytes32, Coin, CoinSpend, Program, SpendBundle};
use chia_puzzle_types::singleton::SingletonArgs;
use chia_puzzles::{SINGLETON_LAUNCHER_HASH, SINGLETON_TOP_LAYER_V1_1, SINGLETON_TOP_LAYER_V1_1_HASH};
use chia_traits::Streamable;
use clvm_traits::ToClvm;
use clvm_utils::CurriedProgram;
use clvmr::allocator::{Allocator, NodePtr};
use clvmr::chia_dialect::ChiaDialect;
use clvmr::reduction::Reduction;
use clvmr::run_program::run_program;
use clvmr::serde::{node_from_bytes, node_to_bytes};

const ELIGIBLE_FOR_DEDUP: u32 = 1;
const F_FINGERPRINT: u32 = 0x4_0000;

fn coin_s(c: &Coin) -> String { format!("{}:{}:{}", hex::encode(c.parent_coin_info), hex::encode(c.puzzle_hash), c.amount) }
fn parse_coin(s: &str) -> Coin {
    let f: Vec<&str> = s.split(':').collect();
    Coin::new(Bytes32::new(hex::decode(f[0]).unwrap().try_into().unwrap()), Bytes32::new(hex::decode(f[1]).unwrap().try_into().unwrap()), f[2].parse().unwrap())
}
fn b32(b: [u8; 32]) -> Bytes32 { Bytes32::new(b) }
fn bytes_t(b: &[u8]) -> Option<T> { let mut a = Allocator::new(); let n = node_from_bytes(&mut a, b).ok()?; Some(node_to_t(&a, n)) }
fn coin_id(parent: &[u8], ph: &[u8], amount: u64) -> [u8; 32] { let T::A(amt) = int(amount) else { unreachable!() }; sha(&[parent, ph, &amt]) }

// ---------------------------------------------------------------------------------------------
// fast forward

fn ff_kind(e: &FfErr) -> &'static str {
    match e {
        FfErr::CoinAmountEven => "CoinAmountEven", FfErr::PuzzleHashMismatch => "PuzzleHashMismatch", FfErr::FromClvm(_) => "FromClvm",
        FfErr::ExpectedLineageProof => "ExpectedLineageProof", FfErr::NotSingletonModHash => "NotSingletonModHash",
        FfErr::CoinAmountMismatch => "CoinAmountMismatch", FfErr::ParentCoinMismatch => "ParentCoinMismatch",
        FfErr::InnerPuzzleHashMismatch => "InnerPuzzleHashMismatch", FfErr::CoinMismatch => "CoinMismatch", _ => "Other",
    }
}

/// a coin that pays for whatever the spend under test creates (so that the one-spend question
/// "are these conditions valid for this coin" is not masked by value conservation)
fn funder(i: u8) -> CoinSpend {
    let puzzle = pair(at(&[1]), nil());                       // (q) : no conditions
    let coin = Coin::new(b32([0xfd - i; 32]), b32(tree_hash_t(&puzzle)), u64::MAX);
    CoinSpend::new(coin, Program::from(to_bytes(&puzzle)), Program::from(vec![0x80u8]))
}

/// the spend under test, validated in mempool mode by the real `run_spendbundle`
fn run_one(coin: &Coin, puzzle: &[u8], solution: &[u8]) -> Result<OwnedSpendConditions, String> {
    let sb = SpendBundle::new(vec![CoinSpend::new(*coin, Program::from(puzzle.to_vec()), Program::from(solution.to_vec())), funder(0), funder(1)], Signature::default());
    let mut a = make_allocator(ConsensusFlags::LIMIT_HEAP);
    match run_spendbundle(&mut a, &sb, 11_000_000_000, MEMPOOL_MODE | ConsensusFlags::DONT_VALIDATE_SIGNATURE, &TEST_CONSTANTS) {
        Ok((c, _)) => Ok(OwnedSpendBundleConditions::from(&a, c).spends[0].clone()),
        Err(e) => Err(format!("{:?}", e.error_code())),
    }
}

/// the raw conditions of `puzzle(solution)` (real interpreter), as a tree value
fn raw_conditions(puzzle: &[u8], solution: &[u8]) -> Option<T> {
    let mut a = Allocator::new();
    let p = node_from_bytes(&mut a, puzzle).ok()?; let s = node_from_bytes(&mut a, solution).ok()?;
    let dialect = ChiaDialect::new(MEMPOOL_MODE.to_clvm_flags());
    match run_program(&mut a, &dialect, p, s, 11_000_000_000) { Ok(Reduction(_, out)) => Some(node_to_t(&a, out)), Err(_) => None }
}

fn t_list(t: &T) -> Vec<&T> { let mut v = vec![]; let mut c = t; while let T::P(l, r) = c { v.push(&**l); c = r; } v }

/// the property on the implementation's own results; returns (prop, informational note)
fn ff_prop(coin: &Coin, nc: &Coin, np: &Coin, puzzle: &[u8], solution: &[u8], new_sol: &[u8]) -> (String, String) {
    // (1) the rewritten solution differs from the original only in the three fields
    let (Some(old), Some(new)) = (bytes_t(solution), bytes_t(new_sol)) else { return ("VIOLATED:unparsable-solution".into(), String::new()) };
    let expected = |keep_tails: bool| -> Option<T> {
        let T::P(lp, r1) = &old else { return None }; let T::P(amt, r2) = &**r1 else { return None }; let T::P(isol, t2) = &**r2 else { return None };
        let T::P(_pp, l1) = &**lp else { return None }; let T::P(pih, l2) = &**l1 else { return None }; let T::P(_pa, t1) = &**l2 else { return None };
        let _ = amt;
        let (t1n, t2n) = if keep_tails { ((**t1).clone(), (**t2).clone()) } else { (nil(), nil()) };
        Some(pair(pair(at(np.parent_coin_info.as_ref()), pair((**pih).clone(), pair(int(np.amount), t1n))), pair(int(nc.amount), pair((**isol).clone(), t2n))))
    };
    let mut verdict = "ok";
    if expected(true).as_ref() != Some(&new) {
        // trailing data the decoders ignore is re-encoded as nil: recorded finding; the remaining clauses are still checked
        if expected(false).as_ref() == Some(&new) { verdict = "VIOLATED:tail-dropped"; } else { return ("VIOLATED:shape".into(), String::new()); }
    }
    // (2) the original spend must be a valid spend of the old coin, otherwise nothing more is claimed
    let orig = match run_one(coin, puzzle, solution) { Ok(s) => s, Err(e) => return (verdict.into(), format!(" ~orig-invalid:{e}")) };
    // (3) the rewritten spend runs against the new coin
    let newr = match run_one(nc, puzzle, new_sol) { Ok(s) => s, Err(e) => return (format!("VIOLATED:new-run-fails:{e}"), String::new()) };
    // (4) and creates the same coins
    let cc = |s: &OwnedSpendConditions| { let mut v: Vec<String> = s.create_coin.iter().map(|(ph, a, h)| format!("{}:{}:{}", hex::encode(ph), a, h.as_ref().map_or("-".into(), |h| hex::encode(h.as_ref())))).collect(); v.sort(); v };
    if cc(&orig) != cc(&newr) { return ("VIOLATED:create-coin-differ".into(), String::new()); }
    // (5) SingletonSpec, monitored on the raw interpreter outputs (independently of parse_spends): both runs yield
    // (ASSERT_MY_AMOUNT a) (ASSERT_MY_PARENT_ID p) followed by the SAME morphed inner conditions, and the new
    // run's self-assertions name the new coin's amount and parent (and coin id, should the inner puzzle assert it)
    let (Some(oconds), Some(conds)) = (raw_conditions(puzzle, solution), raw_conditions(puzzle, new_sol)) else { return ("VIOLATED:new-run-raises".into(), String::new()) };
    let (T::P(o1, or1), T::P(n1, nr1)) = (&oconds, &conds) else { return ("VIOLATED:spec-shape".into(), String::new()) };
    let (T::P(_o2, otail), T::P(n2, ntail)) = (&**or1, &**nr1) else { return ("VIOLATED:spec-shape".into(), String::new()) };
    let _ = o1;
    if **n1 != list(vec![at(&[73]), int(nc.amount)], nil()) { return ("VIOLATED:assert-my-amount".into(), String::new()); }
    if **n2 != list(vec![at(&[71]), at(nc.parent_coin_info.as_ref())], nil()) { return ("VIOLATED:assert-my-parent-id".into(), String::new()); }
    if otail != ntail { return ("VIOLATED:inner-conditions-differ".into(), String::new()); }
    for c in t_list(ntail) {
        let l = t_list(c);
        if l.len() < 2 { continue; }
        let (T::A(op), T::A(arg)) = (l[0], l[1]) else { continue };
        if op.as_slice() == [73] && T::A(arg.clone()) != int(nc.amount) { return ("VIOLATED:inner-assert-my-amount".into(), String::new()); }
        if op.as_slice() == [71] && arg.as_slice() != nc.parent_coin_info.as_ref() { return ("VIOLATED:inner-assert-my-parent-id".into(), String::new()); }
        if op.as_slice() == [70] && arg.as_slice() != nc.coin_id().as_ref() { return ("VIOLATED:assert-my-coin-id".into(), String::new()); }
    }
    (verdict.into(), String::new())
}

fn ff_impl(coin: &Coin, nc: &Coin, np: &Coin, puzzle: &[u8], solution: &[u8]) -> String {
    let mut a = Allocator::new();
    let (Ok(p), Ok(s)) = (node_from_bytes(&mut a, puzzle), node_from_bytes(&mut a, solution)) else { return "bad-tree".into() };
    match fast_forward_singleton(&mut a, p, s, coin, nc, np) {
        Err(e) => format!("refused prop=ok ~{}", ff_kind(&e)),
        Ok(n) => {
            let new_sol = node_to_bytes(&a, n).unwrap();
            let (prop, note) = ff_prop(coin, nc, np, puzzle, solution, &new_sol);
            format!("ok {} prop={}{}", hex::encode(&new_sol), prop, note)
        }
    }
}

/// marker computed from the INPUT only: the solution has the shape `((a b c . t1) amt isol . t2)` with a
/// non-nil `t1` or `t2` (data the `list` decoders ignore)
fn extra_tail(solution: &[u8]) -> bool {
    let Some(T::P(lp, r1)) = bytes_t(solution) else { return false }; let T::P(_, r2) = &*r1 else { return false }; let T::P(_, t2) = &**r2 else { return false };
    let T::P(_, l1) = &*lp else { return false }; let T::P(_, l2) = &**l1 else { return false }; let T::P(_, t1) = &**l2 else { return false };
    **t1 != nil() || **t2 != nil()
}

pub fn ff_case(o: &mut Out, coin: &Coin, nc: &Coin, np: &Coin, puzzle: &[u8], solution: &[u8], marker: &str) {
    let line = format!("C19 ff {} {} {} {} {}{}{}", coin_s(coin), coin_s(nc), coin_s(np), hex::encode(puzzle), hex::encode(solution), marker,
        if extra_tail(solution) { " @extra-tail" } else { "" });
    o.begin(&line);
    let (c, n, p, pz, so) = (*coin, *nc, *np, puzzle.to_vec(), solution.to_vec());
    let res = std::panic::catch_unwind(move || ff_impl(&c, &n, &p, &pz, &so)).unwrap_or("PANIC".into());
    o.case(&line, &res);
}

fn singleton_mod() -> T { bytes_t(&SINGLETON_TOP_LAYER_V1_1).expect("singleton mod") }

/// `(a (q . mod) (c (q . (mod_hash . (launcher_id . launcher_ph))) (c (q . inner) 1)))`, written out by hand
fn curry_singleton(mod_t: &T, mod_hash: &[u8], launcher_id: &[u8], launcher_ph: &[u8], inner: &T) -> T {
    let st = pair(at(mod_hash), pair(at(launcher_id), at(launcher_ph)));
    let arg = |x: T, rest: T| pair(at(&[4]), pair(pair(at(&[1]), x), pair(rest, nil())));
    let args = arg(st, arg(inner.clone(), at(&[1])));
    pair(at(&[2]), pair(pair(at(&[1]), mod_t.clone()), pair(args, nil())))
}

/// inner puzzles that take their conditions from the inner solution (a quoted condition list cannot
/// name its own hash, and fast-forward needs parent and child to share the inner puzzle)
fn inner_puzzle(kind: u64, conds: Vec<T>) -> (T, T) {
    match kind {
        0 => (at(&[1]), list(conds, nil())),                                                                   // 1
        1 => (list(vec![at(&[4]), pair(at(&[1]), list(vec![at(&[1]), at(b"r")], nil())), at(&[1])], nil()), list(conds, nil())), // (c (q . (1 "r")) 1)
        _ => (list(vec![at(&[6]), at(&[1])], nil()), pair(at(b"junk"), list(conds, nil()))),                    // (r 1)
    }
}

struct Chain { puzzle: T, inner: T, ph: [u8; 32], iph: [u8; 32], lid: [u8; 32], lph: [u8; 32], coins: Vec<Coin>, sols: Vec<T>, condls: Vec<Vec<T>> }

/// a launcher and `n` generations of one singleton; generation k is spent with `sols[k]`
fn build_chain(r: &mut Rng, p: &Pools, n: usize, amounts: &[u64]) -> Chain {
    let mod_t = singleton_mod();
    // the launcher puzzle hash curried into the singleton: the standard launcher, or sometimes another one (the
    // singleton struct carries it explicitly, so lineage checks must use the curried value, not the constant)
    let lph: [u8; 32] = if r.chance(1, 4) { [0x77; 32] } else { SINGLETON_LAUNCHER_HASH };
    let launcher = Coin::new(b32(*r.pick(&p.ids)), b32(lph), *r.pick(&[1u64, 2, 1001]));
    let lid: [u8; 32] = launcher.coin_id().to_bytes();
    let kind = r.below(3);
    let (inner, _) = inner_puzzle(kind, vec![]);
    let iph = tree_hash_t(&inner);
    let puzzle = curry_singleton(&mod_t, &SINGLETON_TOP_LAYER_V1_1_HASH, &lid, &lph, &inner);
    let ph = tree_hash_t(&puzzle);
    let mut coins = vec![Coin::new(b32(lid), b32(ph), amounts[0])];
    let mut sols = vec![]; let mut condls = vec![];
    for k in 0..n {
        let next_amount = amounts[k + 1];
        // inner conditions: the next singleton coin (odd), plus harmless extras
        let mut cc_args = vec![at(&iph), int(next_amount)];
        match r.below(5) { 0 => cc_args.push(list(vec![at(r.pick(&p.ids))], nil())), 1 => cc_args.push(nil()), 2 => cc_args.push(list(vec![at(b"hint"), at(b"memo")], nil())), _ => {} }
        let mut conds = vec![pair(at(&[51]), list(cc_args, nil()))];
        for _ in 0..r.below(4) {
            conds.push(match r.below(9) {
                0 => pair(at(&[51]), list(vec![at(r.pick(&p.ids)), int(2 * r.below(50))], nil())),      // even outputs are left alone
                1 => pair(at(&[1]), list(vec![at(b"remark")], nil())),
                2 => pair(at(&[52]), list(vec![int(r.below(5))], nil())),
                3 => pair(at(&[62]), list(vec![at(r.pick(&p.msgs[..5]))], nil())),
                4 => pair(at(&[83]), list(vec![int(r.below(1000))], nil())),
                5 => pair(at(&[81]), list(vec![int(r.below(100000))], nil())),
                6 => pair(at(&[72]), list(vec![at(&ph)], nil())),
                7 => pair(at(&[49]), list(vec![at(&p.pks[0]), at(b"msg")], nil())),
                _ => pair(at(&[44]), list(vec![at(&p.pks[1]), at(b"m2")], nil())),
            });
        }
        if conds.len() > 1 && r.chance(1, 2) { let i = r.below(conds.len() as u64) as usize; conds.swap(0, i); }
        let (_, isol) = inner_puzzle(kind, conds.clone());
        condls.push(conds);
        let me = coins[k];
        let proof = if k == 0 { list(vec![at(launcher.parent_coin_info.as_ref()), int(launcher.amount)], nil()) }
            else { let par = coins[k - 1]; list(vec![at(par.parent_coin_info.as_ref()), at(&iph), int(par.amount)], nil()) };
        sols.push(list(vec![proof, int(me.amount), isol], nil()));
        coins.push(Coin::new(me.coin_id(), b32(ph), next_amount));
    }
    Chain { puzzle, inner, ph, iph, lid, lph, coins, sols, condls }
}

/// replace the `path`-th … helpers to edit solution trees
fn sol_parts(sol: &T) -> (T, T, T, T) { // (lineage proof, amount, inner solution, tail)
    let T::P(lp, r1) = sol else { panic!() }; let T::P(amt, r2) = &**r1 else { panic!() }; let T::P(isol, t) = &**r2 else { panic!() };
    ((**lp).clone(), (**amt).clone(), (**isol).clone(), (**t).clone())
}

/// every single-field corruption of an accepted call; all but the marked ones must be refused
fn ff_corruptions(o: &mut Out, r: &mut Rng, p: &Pools, ch: &Chain, k: usize, nc: &Coin, np: &Coin) {
    let coin = ch.coins[k];
    let (pz, sol) = (to_bytes(&ch.puzzle), ch.sols[k].clone());
    let solb = to_bytes(&sol);
    let mod_t = singleton_mod();
    let inner = ch.inner.clone();
    let other: [u8; 32] = sha(&[b"another id", &r.bytes(8)]);
    let _ = p;
    let mut flip = |h: &[u8]| -> Vec<u8> { let mut v = h.to_vec(); let i = r.below(v.len() as u64) as usize; v[i] ^= 1 << r.below(8); v };
    let mh = SINGLETON_TOP_LAYER_V1_1_HASH; let lph = ch.lph;
    let pc = |o: &mut Out, puzzle: T, m: &str| ff_case(o, &coin, nc, np, &to_bytes(&puzzle), &solb, m);
    // --- the puzzle reveal
    pc(o, curry_singleton(&nil(), &mh, &ch.lid, &lph, &inner), " @c:mod-nil");
    { // one atom of the mod changed
        let mut b = SINGLETON_TOP_LAYER_V1_1.to_vec(); let i = b.len() - 3; b[i] ^= 1; // ...ff018080 -> a changed small atom near the end
        if let Some(m2) = bytes_t(&b) { if m2 != mod_t { pc(o, curry_singleton(&m2, &mh, &ch.lid, &lph, &inner), " @c:mod-atom"); } }
    }
    pc(o, curry_singleton(&mod_t, &flip(&mh), &ch.lid, &lph, &inner), " @c:struct-modhash");
    pc(o, curry_singleton(&mod_t, &mh[..31], &ch.lid, &lph, &inner), " @c:struct-modhash-31");
    pc(o, curry_singleton(&mod_t, &mh, &flip(&ch.lid), &lph, &inner), " @c:launcher-id");
    pc(o, curry_singleton(&mod_t, &mh, &other, &lph, &inner), " @c:launcher-id-other");
    pc(o, curry_singleton(&mod_t, &mh, &ch.lid, &flip(&lph), &inner), " @c:launcher-ph");
    pc(o, curry_singleton(&mod_t, &mh, &ch.lid, &lph[..31], &inner), " @c:launcher-ph-31");
    pc(o, curry_singleton(&mod_t, &mh, &ch.lid, &lph, &pair(at(&[1]), nil())), " @c:inner-puzzle");
    // shapes of the curried form
    let st = pair(at(&mh), pair(at(&ch.lid), at(&lph)));
    let arg = |x: T, rest: T| pair(at(&[4]), pair(pair(at(&[1]), x), pair(rest, nil())));
    let wrap = |args: T| pair(at(&[2]), pair(pair(at(&[1]), mod_t.clone()), pair(args, nil())));
    pc(o, wrap(arg(st.clone(), arg(inner.clone(), nil()))), " @c:curry-term-nil");
    pc(o, wrap(arg(st.clone(), arg(inner.clone(), arg(at(b"x"), at(&[1]))))), " @c:curry-extra-arg");
    pc(o, wrap(arg(st.clone(), at(&[1]))), " @c:curry-missing-arg");
    pc(o, wrap(arg(pair(at(&mh), pair(at(&ch.lid), pair(at(&lph), nil()))), arg(inner.clone(), at(&[1])))), " @c:struct-proper-list");
    pc(o, pair(at(&[2]), pair(pair(at(&[1]), mod_t.clone()), pair(arg(st.clone(), arg(inner.clone(), at(&[1]))), at(&[1])))), " @c:apply-term");
    pc(o, pair(at(&[0, 2]), pair(pair(at(&[1]), mod_t.clone()), pair(arg(st.clone(), arg(inner.clone(), at(&[1]))), nil()))), " @c:apply-op");
    pc(o, pair(at(&[2]), pair(pair(at(&[1]), mod_t.clone()), pair(pair(at(&[4]), pair(pair(at(&[1]), st.clone()), pair(arg(inner.clone(), at(&[1])), at(&[1])))), nil()))), " @c:cons-term");
    pc(o, mod_t.clone(), " @c:uncurried");
    // --- the solution
    let (lp, amt, isol, _) = sol_parts(&sol);
    let lpv: Vec<T> = t_list(&lp).into_iter().cloned().collect();
    let sc = |o: &mut Out, s: T, m: &str| ff_case(o, &coin, nc, np, &pz, &to_bytes(&s), m);
    let mk = |lp: T, amt: T, rest: Vec<T>, term: T| { let mut v = vec![lp, amt]; v.extend(rest); list(v, term) };
    if lpv.len() == 3 {
        let T::A(pp) = &lpv[0] else { panic!() }; let T::A(pa) = &lpv[2] else { panic!() };
        let pa_v = { let mut v = 0u64; for b in pa { v = (v << 8) | *b as u64; } v };
        sc(o, mk(list(vec![at(&flip(pp)), lpv[1].clone(), lpv[2].clone()], nil()), amt.clone(), vec![isol.clone()], nil()), " @c:lineage-parent");
        sc(o, mk(list(vec![at(&pp[..31]), lpv[1].clone(), lpv[2].clone()], nil()), amt.clone(), vec![isol.clone()], nil()), " @c:lineage-parent-31");
        sc(o, mk(list(vec![lpv[0].clone(), at(&flip(&ch.iph)), lpv[2].clone()], nil()), amt.clone(), vec![isol.clone()], nil()), " @c:lineage-inner-ph");
        sc(o, mk(list(vec![lpv[0].clone(), lpv[1].clone(), int(pa_v.wrapping_add(2))], nil()), amt.clone(), vec![isol.clone()], nil()), " @c:lineage-amount");
        sc(o, mk(list(vec![lpv[0].clone(), lpv[1].clone(), int(pa_v ^ 1)], nil()), amt.clone(), vec![isol.clone()], nil()), " @c:lineage-amount-parity");
        sc(o, mk(list(vec![lpv[0].clone(), lpv[1].clone(), at(&[0xff])], nil()), amt.clone(), vec![isol.clone()], nil()), " @c:lineage-amount-negative");
        sc(o, mk(list(vec![lpv[0].clone(), lpv[2].clone()], nil()), amt.clone(), vec![isol.clone()], nil()), " @c:eve-proof");
        sc(o, mk(list(vec![lpv[0].clone(), lpv[1].clone()], nil()), amt.clone(), vec![isol.clone()], nil()), " @c:lineage-short");
        sc(o, mk(at(pp), amt.clone(), vec![isol.clone()], nil()), " @c:lineage-atom");
        // same values, other representations: still the same call (not a corruption)
        if !pa.is_empty() { let mut z = vec![0u8]; z.extend(pa); sc(o, mk(list(vec![lpv[0].clone(), lpv[1].clone(), at(&z)], nil()), amt.clone(), vec![isol.clone()], nil()), " @same:lineage-amount-leading-zero"); }
        for k in [64usize, 65] { let mut z = vec![0u8; k]; z.extend(pa); sc(o, mk(list(vec![lpv[0].clone(), lpv[1].clone(), at(&z)], nil()), amt.clone(), vec![isol.clone()], nil()), " @pad:lineage-amount"); }
        // extra elements: the `list` representation ignores whatever follows
        sc(o, mk(list(vec![lpv[0].clone(), lpv[1].clone(), lpv[2].clone(), at(b"x")], nil()), amt.clone(), vec![isol.clone()], nil()), " @tail:lineage-extra");
        sc(o, mk(list(vec![lpv[0].clone(), lpv[1].clone(), lpv[2].clone()], at(&[7])), amt.clone(), vec![isol.clone()], nil()), " @tail:lineage-term");
    }
    sc(o, mk(lp.clone(), int(coin.amount.wrapping_add(2)), vec![isol.clone()], nil()), " @c:solution-amount");
    sc(o, mk(lp.clone(), int(coin.amount ^ 1), vec![isol.clone()], nil()), " @c:solution-amount-parity");
    sc(o, mk(lp.clone(), pair(amt.clone(), nil()), vec![isol.clone()], nil()), " @c:solution-amount-pair");
    { let T::A(ab) = &amt else { panic!() }; let mut z = vec![0u8]; z.extend(ab); sc(o, mk(lp.clone(), at(&z), vec![isol.clone()], nil()), " @same:solution-amount-leading-zero");
      // decode_number's padding budget (64 bytes)
      for k in [63usize, 64, 65, 72] { let mut z = vec![0u8; k]; z.extend(ab); sc(o, mk(lp.clone(), at(&z), vec![isol.clone()], nil()), " @pad:solution-amount"); } }
    sc(o, mk(lp.clone(), amt.clone(), vec![], nil()), " @c:solution-missing-inner");
    sc(o, list(vec![lp.clone()], nil()), " @c:solution-missing-amount");
    sc(o, nil(), " @c:solution-nil");
    sc(o, mk(lp.clone(), amt.clone(), vec![isol.clone(), at(b"extra")], nil()), " @tail:solution-extra");
    sc(o, mk(lp.clone(), amt.clone(), vec![isol.clone()], at(&[9])), " @tail:solution-term");
    // --- the three coins
    let cc = |o: &mut Out, c: Coin, n: Coin, q: Coin, m: &str| ff_case(o, &c, &n, &q, &pz, &solb, m);
    let with = |c: &Coin, f: &dyn Fn(&mut Coin)| { let mut x = *c; f(&mut x); x };
    let oid = b32(other);
    cc(o, with(&coin, &|c| c.parent_coin_info = oid), *nc, *np, " @c:coin-parent");
    cc(o, with(&coin, &|c| c.puzzle_hash = oid), *nc, *np, " @c:coin-ph");
    cc(o, with(&coin, &|c| c.amount ^= 1), *nc, *np, " @c:coin-amount-parity");
    cc(o, with(&coin, &|c| c.amount = c.amount.wrapping_add(2)), *nc, *np, " @c:coin-amount");
    cc(o, coin, with(nc, &|c| c.parent_coin_info = oid), *np, " @c:new-coin-parent");
    cc(o, coin, with(nc, &|c| c.puzzle_hash = oid), *np, " @c:new-coin-ph");
    cc(o, coin, with(nc, &|c| c.amount ^= 1), *np, " @c:new-coin-amount-parity");
    cc(o, coin, *nc, with(np, &|c| c.parent_coin_info = oid), " @c:new-parent-parent");
    cc(o, coin, *nc, with(np, &|c| c.puzzle_hash = oid), " @c:new-parent-ph");
    cc(o, coin, *nc, with(np, &|c| c.amount ^= 1), " @c:new-parent-amount-parity");
    cc(o, coin, *nc, with(np, &|c| c.amount = c.amount.wrapping_add(2)), " @c:new-parent-amount");
    // all three puzzle hashes changed together: still not the hash of the revealed puzzle
    cc(o, with(&coin, &|c| c.puzzle_hash = oid), with(nc, &|c| c.puzzle_hash = oid), with(np, &|c| c.puzzle_hash = oid), " @c:all-ph");
    // any other odd amount of the new coin is a legitimate target (not a corruption)
    cc(o, coin, with(nc, &|c| c.amount = c.amount.wrapping_add(2) | 1), *np, " @same:new-coin-amount-odd");
}

fn rebase_targets(r: &mut Rng, p: &Pools, ph: [u8; 32], same: u64) -> Vec<(Coin, Coin)> {
    let parents: [[u8; 32]; 4] = [[0xab; 32], [0; 32], [0xff; 32], *r.pick(&p.ids)];
    let amts: [u64; 9] = [same, 1, 3, 5, 2, 0x7fff_ffff_ffff_ffff, 0x8000_0000_0000_0001, u64::MAX, 0x81];
    let mut v = vec![];
    for _ in 0..3 {
        let np = Coin::new(b32(*r.pick(&parents)), b32(ph), *r.pick(&amts));
        let nc = Coin::new(np.coin_id(), b32(ph), *r.pick(&amts));
        v.push((nc, np));
    }
    v
}

fn ff_recorded(o: &mut Out, thorough: bool) {
    for name in ["e3c0", "bb13"] {
        let Ok(bytes) = std::fs::read(format!("/repo/ff-tests/{name}.spend")) else { continue };
        let Ok(spend) = CoinSpend::from_bytes(&bytes) else { continue };
        let mut a = Allocator::new();
        let (Ok(pn), Ok(sn)) = (spend.puzzle_reveal.to_clvm(&mut a), spend.solution.to_clvm(&mut a)) else { continue };
        let (pz, so) = (node_to_bytes(&a, pn).unwrap(), node_to_bytes(&a, sn).unwrap());
        let ph = clvm_utils::tree_hash(&a, pn).to_bytes();
        for (pi, pp) in [[0xabu8; 32], [0; 32], [0xff; 32]].into_iter().enumerate() { for (ni, new_amount) in [0u64, 1, 3, 5].into_iter().enumerate() { for (qi, prev_amount) in [0u64, 1, 3, 5].into_iter().enumerate() {
            if !thorough && (pi + ni + 2 * qi) % 6 != 0 { continue; }     // quick tier: 8 of the 48 targets per file
            let np = Coin::new(b32(pp), b32(ph), if prev_amount == 0 { spend.coin.amount } else { prev_amount });
            let nc = Coin::new(np.coin_id(), b32(ph), if new_amount == 0 { spend.coin.amount } else { new_amount });
            ff_case(o, &spend.coin, &nc, &np, &pz, &so, " @recorded");
        }}}
        // the repository's own negative tests on the recorded spend
        let np = Coin::new(b32([0xab; 32]), b32(ph), spend.coin.amount);
        let nc = Coin::new(np.coin_id(), b32(ph), spend.coin.amount);
        let mut c2 = spend.coin; c2.amount = 2; ff_case(o, &c2, &nc, &np, &pz, &so, " @recorded @c:coin-amount-parity");
        let mut c3 = spend.coin; c3.amount = 3; ff_case(o, &c3, &nc, &np, &pz, &so, " @recorded @c:coin-amount");
        let mut n2 = nc; n2.amount = 2; ff_case(o, &spend.coin, &n2, &np, &pz, &so, " @recorded @c:new-coin-amount-parity");
        let mut p2 = np; p2.amount = 2; ff_case(o, &spend.coin, &nc, &p2, &pz, &so, " @recorded @c:new-parent-amount-parity");
    }
}

fn run_ff(o: &mut Out, r: &mut Rng, p: &Pools, thorough: bool) {
    // the hand-written curried form is what CurriedProgram::to_clvm builds
    {
        let mut a = Allocator::new();
        let m = node_from_bytes(&mut a, &SINGLETON_TOP_LAYER_V1_1).unwrap();
        let inner = a.one();
        let lid = [7u8; 32];
        let cp = CurriedProgram { program: m, args: SingletonArgs::<NodePtr>::new(b32(lid), inner) }.to_clvm(&mut a).unwrap();
        let mine = curry_singleton(&singleton_mod(), &SINGLETON_TOP_LAYER_V1_1_HASH, &lid, &SINGLETON_LAUNCHER_HASH, &at(&[1]));
        assert_eq!(node_to_bytes(&a, cp).unwrap(), to_bytes(&mine), "curried singleton form");
    }
    o.case(&format!("C19 mh {}", hex::encode(SINGLETON_TOP_LAYER_V1_1)),
        &format!("{} {}", hex::encode(SINGLETON_TOP_LAYER_V1_1_HASH), hex::encode(tree_hash_t(&singleton_mod()))));
    ff_recorded(o, thorough);
    let n = if thorough { 150 } else { 24 };
    let odd: [u64; 8] = [1, 3, 5, 1001, 0x7f, 0x81, 0x7fff_ffff_ffff_ffff, u64::MAX];
    for i in 0..n {
        let len = 1 + (i % 3) as usize;                       // spend generation 0 (eve), 1 or 2
        let mut amounts: Vec<u64> = (0..=len + 1).map(|_| *r.pick(&odd)).collect();
        if r.chance(1, 12) { let j = r.below(amounts.len() as u64) as usize; amounts[j] = *r.pick(&[0u64, 2, 1000]); }   // an even amount somewhere
        if r.chance(1, 2) { let a0 = amounts[0]; for a in amounts.iter_mut() { *a = a0; } }                              // the usual constant-amount singleton
        let ch = build_chain(r, p, len, &amounts);
        let pz = to_bytes(&ch.puzzle);
        for k in 0..len {
            let coin = ch.coins[k];
            let solb = to_bytes(&ch.sols[k]);
            let mut targets = rebase_targets(r, p, ch.ph, coin.amount);
            // its own place in the chain, and its successor's (the realistic rebase)
            if k >= 1 { targets.push((coin, ch.coins[k - 1])); }
            targets.push((ch.coins[k + 1], coin));
            for (nc, np) in &targets { ff_case(o, &coin, nc, np, &pz, &solb, if k == 0 { " @eve" } else { "" }); }
            if k == len - 1 && k >= 1 {
                let (nc, np) = targets[r.below(targets.len() as u64) as usize];
                let (nc, np) = if nc.amount % 2 == 1 && np.amount % 2 == 1 { (nc, np) } else { (ch.coins[k + 1], coin) };
                if ff_impl(&coin, &nc, &np, &pz, &solb).starts_with("ok ") { ff_corruptions(o, r, p, &ch, k, &nc, &np); }
            }
        }
        // a valid singleton spend whose parent had ANOTHER inner puzzle: lineage does not match, refused
        if len >= 2 && r.chance(1, 3) {
            let mod_t = singleton_mod();
            let inner2 = pair(at(&[1]), list(ch.condls[len - 1].clone(), nil()));   // (q . conds)
            let puzzle2 = curry_singleton(&mod_t, &SINGLETON_TOP_LAYER_V1_1_HASH, &ch.lid, &ch.lph, &inner2);
            let ph2 = tree_hash_t(&puzzle2);
            let par = ch.coins[len - 2];
            let me = Coin::new(par.coin_id(), b32(ph2), ch.coins[len - 1].amount);
            let sol = list(vec![list(vec![at(par.parent_coin_info.as_ref()), at(&ch.iph), int(par.amount)], nil()), int(me.amount), nil()], nil());
            let np = Coin::new(b32([0xab; 32]), b32(ph2), me.amount); let nc = Coin::new(np.coin_id(), b32(ph2), me.amount);
            ff_case(o, &me, &nc, &np, &to_bytes(&puzzle2), &to_bytes(&sol), " @c:parent-other-inner-puzzle");
        }
    }
}

// ---------------------------------------------------------------------------------------------
// fingerprints

fn fp_impl(bytes: &[u8]) -> String {
    let mut a = Allocator::new();
    let Ok(n) = node_from_bytes(&mut a, bytes) else { return "bad-tree".into() };
    match compute_puzzle_fingerprint(&a, n) { Ok(h) => hex::encode(h), Err(e) => format!("ERR ~{:?}", e.error_code()) }
}

fn fp_case(o: &mut Out, t: &T) {
    let b = to_bytes(t);
    let bb = b.clone();
    let res = std::panic::catch_unwind(move || fp_impl(&bb)).unwrap_or("PANIC".into());
    o.case(&format!("C19 fp {}", hex::encode(&b)), &res);
}

fn id_puzzle_hash() -> [u8; 32] { tree_hash_t(&at(&[1])) }

/// the conditions summary of a one-spend bundle (identity puzzle, the condition list as solution)
fn fpp_run(parent: &[u8; 32], amount: u64, conds: &T) -> (String, String, bool) { // (fingerprint, summary, accepted)
    let coin = Coin::new(b32(*parent), b32(id_puzzle_hash()), amount);
    let sb = SpendBundle::new(vec![CoinSpend::new(coin, Program::from(vec![1u8]), Program::from(to_bytes(conds)))], Signature::default());
    let mut a = make_allocator(ConsensusFlags::LIMIT_HEAP);
    let f = MEMPOOL_MODE | ConsensusFlags::DONT_VALIDATE_SIGNATURE | ConsensusFlags::from_bits_retain(F_FINGERPRINT);
    match run_spendbundle(&mut a, &sb, 11_000_000_000, f, &TEST_CONSTANTS) {
        Ok((c, _)) => {
            let mut c = OwnedSpendBundleConditions::from(&a, c);
            c.cost = 0; c.execution_cost = 0; c.num_atoms = 0; c.num_pairs = 0; c.heap_size = 0;
            for s in &mut c.spends { s.execution_cost = 0; }
            let fp = c.spends[0].fingerprint.as_ref().to_vec();
            (if fp.is_empty() { "-".into() } else { hex::encode(fp) }, bundle_s(&c), true)
        }
        Err(e) => { let s = err_s(&e); ("-".into(), if let Some(i) = s.find(" ~") { s[..i].to_string() } else { s }, false) }
    }
}

fn fpp_case(o: &mut Out, kind: &str, parent: &[u8; 32], amount: u64, c1: &T, c2: &T) {
    let mut pks = vec![]; valid_pks(c1, &mut pks); valid_pks(c2, &mut pks);
    let pk_s = if pks.is_empty() { "-".to_string() } else { pks.iter().map(hex::encode).collect::<Vec<_>>().join(",") };
    let line = format!("C19 fpp {} {} {} {} {} {}", kind, hex::encode(parent), amount, hex::encode(to_bytes(c1)), hex::encode(to_bytes(c2)), pk_s);
    o.begin(&line);
    let (p1, p2, t1, t2) = (*parent, *parent, c1.clone(), c2.clone());
    let res = std::panic::catch_unwind(move || {
        let (f1, s1, ok1) = fpp_run(&p1, amount, &t1);
        let (f2, s2, ok2) = fpp_run(&p2, amount, &t2);
        // both pass mempool validation with equal fingerprints => identical parsed conditions
        let prop = if ok1 && ok2 && f1 != "-" && f1 == f2 && s1 != s2 { "VIOLATED:same-fingerprint-different-conditions" } else { "ok" };
        format!("A={f1} {s1} || B={f2} {s2} || prop={prop}")
    }).unwrap_or("PANIC".into());
    o.case(&line, &res);
}

/// a condition list that passes mempool-mode validation for the coin (parent, id-puzzle, amount)
fn valid_conds(r: &mut Rng, p: &Pools, parent: &[u8; 32], amount: u64) -> Vec<T> {
    let ph = id_puzzle_hash();
    let id = coin_id(parent, &ph, amount);
    let n = r.range(1, 6);
    let mut v = vec![]; let mut created: Vec<(Vec<u8>, u64)> = vec![];
    for _ in 0..n {
        let c = match r.below(24) {
            0..=5 => {
                let left = amount - created.iter().map(|c| c.1).sum::<u64>();      // never mint: a one-spend bundle has no other funding
                let (cph, amt) = (r.pick(&p.ids).to_vec(), (*r.pick(&[0u64, 1, 2, 3, 0x80, 0x100, 1000])).min(left));
                if created.contains(&(cph.clone(), amt)) { continue; }
                created.push((cph.clone(), amt));
                let mut args = vec![at(&cph), int(amt)];
                match r.below(8) { 0 => args.push(nil()), 1 => args.push(pair(nil(), nil())), 2 => args.push(list(vec![at(r.pick(&p.ids))], nil())),
                    3 => args.push(list(vec![at(&[4; 33])], nil())), 4 => args.push(list(vec![at(b"hi"), at(b"more")], nil())),
                    5 => args.push(list(vec![pair(at(b"a"), nil())], nil())), 6 => args.push(at(b"memo-atom")), _ => {} }
                pair(at(&[51]), list(args, nil()))
            }
            6 => pair(at(&[52]), list(vec![int(0)], nil())),
            7 => pair(at(&[60]), list(vec![at(r.pick(&p.msgs[..5]))], nil())),
            8 => pair(at(&[62]), list(vec![at(r.pick(&p.msgs[..5]))], nil())),
            9 => pair(at(&[70]), list(vec![at(&id)], nil())),
            10 => pair(at(&[71]), list(vec![at(parent)], nil())),
            11 => pair(at(&[72]), list(vec![at(&ph)], nil())),
            12 => pair(at(&[73]), list(vec![int(amount)], nil())),
            13 => pair(at(&[74]), list(vec![int(*r.pick(&[0u64, 5, 1000]))], nil())),
            14 => pair(at(&[80 + r.below(4) as u8]), list(vec![if r.chance(1, 4) { at(&[0xff, r.next() as u8]) } else { int(r.below(300)) }], nil())),
            15 => pair(at(&[84 + r.below(4) as u8]), list(vec![if r.chance(1, 4) { at(&[1, 0, 0, 0, 0, 0, 0, 0, r.next() as u8]) } else { int(1_000_000 + r.below(300)) }], nil())),
            16 => pair(at(&[1]), list(if r.chance(1, 2) { vec![at(b"any"), at(b"thing")] } else { vec![] }, nil())),
            17 => pair(at(&[64]), list(vec![at(&id)], nil())),
            18 => pair(at(&[65]), list(vec![at(&ph)], nil())),
            19 => if r.chance(1, 3) { pair(at(&[49]), list(vec![at(&p.pks[0]), at(b"m")], nil())) } else { pair(at(&[63]), list(vec![at(&sha(&[&ph, b"hello"]))], nil())) },
            20 => if r.chance(1, 4) { pair(at(&[66]), list(vec![int(0), at(b"m")], nil())) } else { pair(at(&[62]), list(vec![at(b"hello")], nil())) },   // (an unbalanced message: rejected)
            21 => if r.chance(1, 4) { pair(at(&[76]), nil()) } else { pair(at(&[60]), list(vec![at(b"hello")], nil())) },
            22 => pair(at(&[75]), list(vec![int(r.below(5))], nil())),
            _ => pair(at(&[61]), list(vec![at(&sha(&[&id, b"hello"]))], nil())),
        };
        v.push(c);
    }
    // announcements asserted above are usually made, and the created value usually covers the coin (dedup-eligible)
    let has = |v: &Vec<T>, op: u8| v.iter().any(|c| matches!(c, T::P(o, _) if **o == at(&[op])));
    if has(&v, 61) && r.chance(9, 10) { v.push(pair(at(&[60]), list(vec![at(b"hello")], nil()))); }
    if has(&v, 63) && r.chance(9, 10) { v.push(pair(at(&[62]), list(vec![at(b"hello")], nil()))); }
    let total: u64 = created.iter().map(|c| c.1).sum();
    if total < amount && r.chance(5, 6) {
        let cph = vec![0x77u8; 32];
        let mut args = vec![at(&cph), int(amount - total)];
        if r.chance(1, 3) { args.push(list(vec![at(r.pick(&p.ids))], nil())); }
        let i = r.below(v.len() as u64 + 1) as usize;
        v.insert(i, pair(at(&[51]), list(args, nil())));
    }
    v
}

fn mutate_atom(r: &mut Rng, t: &T, budget: &mut i64) -> T {
    match t {
        T::A(b) => { *budget -= 1; if *budget == 0 { let mut v = b.clone(); if v.is_empty() { v.push(1); } else { let i = r.below(v.len() as u64) as usize; v[i] ^= 1 << r.below(8); } T::A(v) } else { t.clone() } }
        T::P(l, rr) => { let l2 = mutate_atom(r, l, budget); let r2 = mutate_atom(r, rr, budget); pair(l2, r2) }
    }
}
fn count_atoms(t: &T) -> i64 { match t { T::A(_) => 1, T::P(l, r) => count_atoms(l) + count_atoms(r) } }

fn run_fp(o: &mut Out, r: &mut Rng, p: &Pools, thorough: bool) {
    let parent = p.ids[0];
    let h = at(&p.ids[2]);
    // every opcode alone with a table of argument shapes (direct calls)
    let shapes: Vec<T> = vec![nil(), at(&[1]), list(vec![nil()], nil()), list(vec![int(1)], nil()), list(vec![int(1)], at(&[1])), list(vec![int(1), int(2)], nil()),
        list(vec![pair(int(1), nil())], nil()), list(vec![h.clone()], nil()), list(vec![h.clone(), int(1)], nil()), list(vec![h.clone(), int(1)], at(&[1])),
        list(vec![h.clone(), int(1), nil()], nil()), list(vec![h.clone(), int(1), pair(nil(), nil())], nil()), list(vec![h.clone(), int(1), list(vec![h.clone()], nil())], nil()),
        list(vec![h.clone(), int(1), list(vec![at(&[4; 33])], nil())], nil()), list(vec![h.clone(), int(1), list(vec![at(&[4; 32])], nil()), nil()], nil()),
        list(vec![h.clone(), int(1), list(vec![pair(at(b"a"), nil())], nil())], nil()), list(vec![h.clone(), int(1), h.clone()], nil()),
        list(vec![h.clone(), pair(int(1), nil())], nil()), list(vec![h.clone()], nil()), pair(h.clone(), h.clone()),
        list(vec![at(&p.pks[0]), at(b"msg")], nil()), list(vec![int(0), at(b"m")], nil())];
    let mut opcodes: Vec<Vec<u8>> = (0..=255u8).map(|b| vec![b]).collect();
    for op in [vec![], vec![0, 51], vec![1, 0], vec![0xff, 7], vec![0, 0, 51]] { opcodes.push(op); }
    for opb in &opcodes { for sh in &shapes {
        fp_case(o, &list(vec![pair(at(opb), sh.clone())], nil()));
    }}
    for t in [nil(), at(&[1]), list(vec![at(&[51])], nil()), list(vec![pair(pair(at(&[51]), nil()), nil())], nil()),
              list(vec![pair(at(&[1]), nil())], at(&[7])), list(vec![pair(at(&[1]), nil()), nil()], nil())] { fp_case(o, &t); }
    // hand-picked pairs: length split, hint shapes, unknown condition, order
    let cc = |args: Vec<T>| pair(at(&[51]), list(args, nil()));
    let ann = |m: &[u8]| pair(at(&[62]), list(vec![at(m)], nil()));
    let pairs: Vec<(&str, Vec<T>, Vec<T>)> = vec![
        ("split", vec![ann(b"ab"), ann(b"c")], vec![ann(b"a"), ann(b"bc")]),
        ("split", vec![ann(b"ab")], vec![ann(b"a"), ann(b"b")]),
        ("split", vec![cc(vec![h.clone(), at(&[1, 2]), list(vec![at(&[3])], nil())])], vec![cc(vec![h.clone(), at(&[1]), list(vec![at(&[2, 3])], nil())])]),
        ("split", vec![ann(&[0, 0, 0, 1, 62])], vec![ann(&[]), ann(&[])]),                 // an atom that looks like an encoded condition
        ("split", vec![ann(&[]), pair(at(&[1]), nil())], vec![ann(&[0, 0, 0, 1, 1])]),
        ("hint", vec![cc(vec![h.clone(), int(1)])], vec![cc(vec![h.clone(), int(1), nil()])]),
        ("hint", vec![cc(vec![h.clone(), int(1)])], vec![cc(vec![h.clone(), int(1), pair(nil(), nil())])]),
        ("hint", vec![cc(vec![h.clone(), int(1)])], vec![cc(vec![h.clone(), int(1), list(vec![at(&[4; 33])], nil())])]),
        ("hint", vec![cc(vec![h.clone(), int(1)])], vec![cc(vec![h.clone(), int(1), list(vec![pair(at(b"a"), nil())], nil())])]),
        ("hint", vec![cc(vec![h.clone(), int(1)])], vec![cc(vec![h.clone(), int(1), at(b"atom")])]),
        ("hint", vec![cc(vec![h.clone(), int(1), list(vec![h.clone()], nil())])], vec![cc(vec![h.clone(), int(1), list(vec![h.clone(), at(b"more")], nil())])]),
        ("hint", vec![cc(vec![h.clone(), int(1), list(vec![h.clone()], nil())])], vec![cc(vec![h.clone(), int(1)])]),
        ("hint", vec![cc(vec![h.clone(), int(1), list(vec![at(&[0])], nil())])], vec![cc(vec![h.clone(), int(1)])]),
        ("hint", vec![cc(vec![h.clone(), int(1), list(vec![at(&[4; 32])], nil())])], vec![cc(vec![h.clone(), int(1), list(vec![at(&[4; 31])], nil())])]),
        ("unknown", vec![ann(b"x")], vec![ann(b"x"), pair(at(&[2]), list(vec![int(1)], nil()))]),
        ("unknown", vec![ann(b"x")], vec![ann(b"x"), pair(at(&[1]), list(vec![at(b"remark")], nil()))]),
        ("remark", vec![pair(at(&[1]), list(vec![at(b"a")], nil()))], vec![pair(at(&[1]), list(vec![at(b"b"), at(b"c")], nil()))]),
        ("order", vec![ann(b"x"), ann(b"y")], vec![ann(b"y"), ann(b"x")]),
        ("order", vec![cc(vec![h.clone(), int(1)]), cc(vec![h.clone(), int(2)])], vec![cc(vec![h.clone(), int(2)]), cc(vec![h.clone(), int(1)])]),
        ("int", vec![pair(at(&[81]), list(vec![at(&[0x80])], nil()))], vec![pair(at(&[81]), list(vec![at(&[0xff])], nil()))]),   // two negative (ignored) locks
        ("int", vec![pair(at(&[83]), list(vec![int(0)], nil()))], vec![pair(at(&[83]), list(vec![at(&[0xff])], nil()))]),
        ("int", vec![pair(at(&[85]), list(vec![at(&[1, 0, 0, 0, 0, 0, 0, 0, 0])], nil()))], vec![pair(at(&[85]), list(vec![at(&[2, 0, 0, 0, 0, 0, 0, 0, 0])], nil()))]),
    ];
    for amount in [0u64, 1, 3] { for (k, a, b) in &pairs {
        // amounts above the created value: not dedup-eligible (no fingerprint); otherwise a covering output is added to both
        for cover in [false, true] {
            let (mut a, mut b) = (a.clone(), b.clone());
            if cover { if amount == 0 { continue; } let c = cc(vec![at(&[0x77; 32]), int(amount)]); a.push(c.clone()); b.push(c); }
            fpp_case(o, k, &parent, amount, &list(a.clone(), nil()), &list(b, nil()));
            fpp_case(o, "same", &parent, amount, &list(a.clone(), nil()), &list(a, nil()));
        }
    }}
    // generated lists and their one-point mutations
    let n = if thorough { 40_000 } else { 2_500 };
    for _ in 0..n {
        let amount = *r.pick(&[0u64, 0, 1, 2, 3, 1000, 0x1_0000_0001]);
        let conds = valid_conds(r, p, &parent, amount);
        let t1 = list(conds.clone(), nil());
        fp_case(o, &t1);
        let (kind, t2) = match r.below(8) {
            0 | 1 => { let mut b = r.below(count_atoms(&t1) as u64) as i64 + 1; ("atom", mutate_atom(r, &t1, &mut b)) }
            2 => { let mut c2 = conds.clone(); if c2.len() > 1 { let i = r.below(c2.len() as u64) as usize; let j = r.below(c2.len() as u64) as usize; c2.swap(i, j); } ("order", list(c2, nil())) }
            3 => { let mut c2 = conds.clone(); let i = r.below(c2.len() as u64) as usize; c2.remove(i); ("drop", list(c2, nil())) }
            4 => { let mut c2 = conds.clone(); let i = r.below(c2.len() as u64) as usize; let c = c2[i].clone(); c2.insert(i, c); ("dup", list(c2, nil())) }
            5 => { let mut c2 = conds.clone(); c2.push(pair(at(&[1]), list(vec![at(&r.bytes(3))], nil()))); ("remark", list(c2, nil())) }
            6 => { let other = valid_conds(r, p, &parent, amount); ("other", list(other, nil())) }
            _ => ("same", t1.clone()),
        };
        fpp_case(o, kind, &parent, amount, &t1, &t2);
        if r.chance(1, 4) { fp_case(o, &t2); }
    }
    // malformed trees straight into compute_puzzle_fingerprint
    for _ in 0..(if thorough { 20_000 } else { 1_500 }) {
        let me = SpendG { parent, ph: id_puzzle_hash(), amount: 1, conds: vec![], term: nil() };
        let k = r.range(0, 5);
        let conds: Vec<T> = (0..k).map(|_| gen_cond(r, p, &me, &[me.clone()])).collect();
        fp_case(o, &list(conds, if r.chance(1, 10) { at(&[1]) } else { nil() }));
    }
}

// ---------------------------------------------------------------------------------------------
// dedup eligibility

/// the closed form, read off the generator-output tree by independent code: no AGG_SIG_*, no
/// SEND/RECEIVE_MESSAGE among the conditions with a recognised opcode, created value >= coin amount
fn dd_closed_form(tree: &T) -> Vec<u8> {
    let T::P(spends, _) = tree else { return vec![] };
    t_list(spends).iter().map(|sp| {
        let f = t_list(sp);
        if f.len() < 4 { return 0; }
        let T::A(amt) = f[2] else { return 0 };
        let amount = amt.iter().fold(0u128, |v, b| (v << 8) | *b as u128);
        let (mut blocked, mut created) = (false, 0u128);
        for c in t_list(f[3]) {
            let T::P(op, args) = c else { continue }; let T::A(op) = &**op else { continue };
            if op.len() != 1 { continue; }
            match op[0] {
                43..=50 | 66 | 67 => blocked = true,
                51 => { let a = t_list(args); if a.len() >= 2 { if let T::A(v) = a[1] { created += v.iter().fold(0u128, |x, b| (x << 8) | *b as u128); } } }
                _ => {}
            }
        }
        (!blocked && created >= amount) as u8
    }).collect()
}

fn dd_case(o: &mut Out, flags: u32, t: &T) {
    let bytes = to_bytes(t);
    let mut pks = vec![]; valid_pks(t, &mut pks);
    let pk_s = if pks.is_empty() { "-".to_string() } else { pks.iter().map(hex::encode).collect::<Vec<_>>().join(",") };
    let line = format!("C19 dd {} {} {}", flags, pk_s, hex::encode(&bytes));
    o.begin(&line);
    let tt = t.clone();
    let res = std::panic::catch_unwind(move || match run_parse_owned(true, flags, 11_000_000_000, 0, &bytes) {
        Ok(Ok(c)) => {
            let got: Vec<u8> = c.spends.iter().map(|s| (s.flags & ELIGIBLE_FOR_DEDUP != 0) as u8).collect();
            let want = dd_closed_form(&tt);
            let s = got.iter().map(|b| b.to_string()).collect::<Vec<_>>().join(",");
            format!("OK dd=[{}] prop={}", s, if got == want { "ok" } else { "VIOLATED:flag-differs-from-closed-form" })
        }
        Ok(Err(e)) => { let s = err_s(&e); if s.starts_with("REJECT cost") { "REJECT".to_string() } else { s } }
        Err(e) => e,
    }).unwrap_or("PANIC".into());
    o.case(&line, &res);
}

fn run_dd(o: &mut Out, r: &mut Rng, p: &Pools, thorough: bool) {
    let n = if thorough { 120_000 } else { 9_000 };
    for i in 0..n {
        let mut sp = gen_bundle(r, p);
        // value-flow bias: outputs around the coin's own amount, so that the excess rule is exercised on both sides
        if i % 2 == 0 { for s in sp.iter_mut() {
            let k = r.below(3);
            let mut left = s.amount;
            for j in 0..k { let a = match r.below(4) { 0 => left, 1 => left / 2, 2 => left.saturating_sub(1), _ => r.below(3) }; left = left.saturating_sub(a);
                s.conds.push(pair(at(&[51]), list(vec![at(&p.ids[(j as usize + 3) % 6]), int(a)], nil()))); }
            if r.chance(1, 3) { s.conds.retain(|c| !matches!(c, T::P(op, _) if matches!(&**op, T::A(b) if b.len() == 1 && ((43..=50).contains(&b[0]) || b[0] == 66 || b[0] == 67)))); }
        }}
        let t = bundle_tree(r, &sp);
        let flags = rand_flags(r) | F_DONT_VALIDATE;
        dd_case(o, flags, &t);
    }
}

// ---------------------------------------------------------------------------------------------

fn replay_line(o: &mut Out, l: &str) {
    let t: Vec<&str> = l.split_whitespace().collect();
    match t.get(1).copied() {
        Some("mh") => o.case(l, &format!("{} {}", hex::encode(SINGLETON_TOP_LAYER_V1_1_HASH), hex::encode(bytes_t(&hex::decode(t[2]).unwrap()).map(|x| tree_hash_t(&x)).unwrap_or([0; 32])))),
        Some("ff") => {
            let (c, n, p) = (parse_coin(t[2]), parse_coin(t[3]), parse_coin(t[4]));
            let (pz, so) = (hex::decode(t[5]).unwrap(), hex::decode(t[6]).unwrap());
            let res = std::panic::catch_unwind(move || ff_impl(&c, &n, &p, &pz, &so)).unwrap_or("PANIC".into());
            o.case(l, &res);
        }
        Some("fp") => { let b = hex::decode(t[2]).unwrap(); let res = std::panic::catch_unwind(move || fp_impl(&b)).unwrap_or("PANIC".into()); o.case(l, &res); }
        Some("fpp") => {
            let parent: [u8; 32] = hex::decode(t[3]).unwrap().try_into().unwrap();
            let (Some(c1), Some(c2)) = (bytes_t(&hex::decode(t[5]).unwrap()), bytes_t(&hex::decode(t[6]).unwrap())) else { o.case(l, "bad-tree"); return };
            fpp_case(o, t[2], &parent, t[4].parse().unwrap(), &c1, &c2);
        }
        Some("dd") => { let Some(tree) = bytes_t(&hex::decode(t[4]).unwrap()) else { o.case(l, "bad-tree"); return }; dd_case(o, t[2].parse().unwrap(), &tree); }
        _ => o.case(l, "bad-op"),
    }
}

pub fn run(o: &mut Out, seed: u64, thorough: bool, replay: Option<Vec<String>>) {
    if let Some(lines) = replay { for l in lines { replay_line(o, &l); } return; }
    if let Ok(c) = std::fs::read_to_string("/verif/corpus/C19.case") { for l in c.lines().filter(|l| l.starts_with("C19 ")) { replay_line(o, l); } }
    let p = pools();
    let mut r = Rng::new(seed ^ 0xc19);
    run_ff(o, &mut r, &p, thorough);
    run_fp(o, &mut r, &p, thorough);
    run_dd(o, &mut r, &p, thorough);
}
