//! C12: Merkle set roots (both implementations), proof generation and proof validation of the real
//! chia-consensus code, on engineered sets and on honest + adversarial proofs.
//!
//! case kinds
//!   C12 root <leaves>                 -> "<compute_merkle_set_root> <MerkleSet::from_leafs().get_root()>"
//!   C12 proof <leaves> <item>         -> "<0|1> <proof hex>"            (generate_proof)
//!   C12 validate <root> <item> <proof>-> "true" | "false" | "ERR"       (validate_merkle_proof)
//!   C12 sound <leaves> <item> <proof> -> same, validated against the root of <leaves>; the harness
//!                                        appends " UNSOUND" when the verdict is not the membership
//! <leaves> = "-" or comma-separated 32-byte hex strings (order and duplicates as given).
use crate::out::{hx, unhx, Out};
use crate::prng::Rng;
use chia_consensus::merkle_set::compute_merkle_set_root;
use chia_consensus::merkle_tree::{validate_merkle_proof, MerkleSet};
use chia_sha2::Sha256;
use std::collections::BTreeSet;
use std::panic::{catch_unwind, AssertUnwindSafe};

type Leaf = [u8; 32];

fn leaves_str(l: &[Leaf]) -> String {
    if l.is_empty() { "-".into() } else { l.iter().map(hex::encode).collect::<Vec<_>>().join(",") }
}
fn parse_leaves(s: &str) -> Vec<Leaf> {
    if s == "-" { vec![] } else { s.split(',').map(|h| to_leaf(&unhx(h))).collect() }
}
fn to_leaf(b: &[u8]) -> Leaf {
    let mut x = [0u8; 32];
    x.copy_from_slice(b);
    x
}

// ---------------------------------------------------------------- calls into the real code

fn root_case(o: &mut Out, leaves: &[Leaf]) {
    let r = catch_unwind(AssertUnwindSafe(|| {
        let mut a = leaves.to_vec();
        let r1 = compute_merkle_set_root(&mut a);
        let mut b = leaves.to_vec();
        let r2 = MerkleSet::from_leafs(&mut b).get_root();
        format!("{} {}", hex::encode(r1), hex::encode(r2))
    }))
    .unwrap_or_else(|_| "PANIC".into());
    o.case(&format!("C12 root {}", leaves_str(leaves)), &r);
}

fn gen_proof(leaves: &[Leaf], item: &Leaf) -> Option<(bool, Vec<u8>)> {
    let mut a = leaves.to_vec();
    MerkleSet::from_leafs(&mut a).generate_proof(item).ok()
}

fn proof_case(o: &mut Out, leaves: &[Leaf], item: &Leaf) {
    o.begin(&format!("C12 proof {} {}", leaves_str(leaves), hex::encode(item)));
    let r = catch_unwind(AssertUnwindSafe(|| match gen_proof(leaves, item) {
        Some((inc, p)) => format!("{} {}", inc as u8, hx(&p)),
        None => "ERR".into(),
    }))
    .unwrap_or_else(|_| "PANIC".into());
    o.case(&format!("C12 proof {} {}", leaves_str(leaves), hex::encode(item)), &r);
}

fn verdict(proof: &[u8], item: &Leaf, root: &Leaf) -> Result<Option<bool>, ()> {
    catch_unwind(AssertUnwindSafe(|| validate_merkle_proof(proof, item, root).ok())).map_err(|_| ())
}
fn verdict_str(v: &Result<Option<bool>, ()>) -> String {
    match v {
        Err(()) => "PANIC".into(),
        Ok(None) => "ERR".into(),
        Ok(Some(true)) => "true".into(),
        Ok(Some(false)) => "false".into(),
    }
}

/// `claim`: what the harness knows about `root`: Some(b) = it is the root of a set for which
/// membership of `item` is `b` (a verdict contradicting it is marked UNSOUND); None = nothing known
fn validate_case(o: &mut Out, root: &Leaf, item: &Leaf, proof: &[u8], claim: Option<bool>) {
    let c0 = match claim { Some(true) => "in", Some(false) => "out", None => "any" };
    o.begin(&format!("C12 validate {} {} {} {c0}", hex::encode(root), hex::encode(item), hx(proof)));
    let v = verdict(proof, item, root);
    let mut s = verdict_str(&v);
    if let (Ok(Some(b)), Some(c)) = (&v, claim) {
        if *b != c { s.push_str(" UNSOUND"); }
    }
    let c = match claim { Some(true) => "in", Some(false) => "out", None => "any" };
    o.case(&format!("C12 validate {} {} {} {c}", hex::encode(root), hex::encode(item), hx(proof)), &s);
}

fn sound_case(o: &mut Out, leaves: &[Leaf], item: &Leaf, proof: &[u8]) {
    o.begin(&format!("C12 sound {} {} {}", leaves_str(leaves), hex::encode(item), hx(proof)));
    let root = catch_unwind(AssertUnwindSafe(|| {
        let mut a = leaves.to_vec();
        compute_merkle_set_root(&mut a)
    }));
    let r = match root {
        Err(_) => "PANIC".to_string(),
        Ok(root) => {
            let v = verdict(proof, item, &root);
            let mut s = verdict_str(&v);
            if let Ok(Some(b)) = v {
                if b != leaves.contains(item) { s.push_str(" UNSOUND"); }
            }
            s
        }
    };
    o.case(&format!("C12 sound {} {} {}", leaves_str(leaves), hex::encode(item), hx(proof)), &r);
}

// ---------------------------------------------------------------- proof trees (harness side, for rewriting)

#[derive(Clone, Debug, PartialEq)]
enum PT {
    Empty,
    Term(Leaf),
    Trunc(Leaf),
    Mid(Box<PT>, Box<PT>),
}

fn ser(t: &PT, out: &mut Vec<u8>) {
    match t {
        PT::Empty => out.push(0),
        PT::Term(x) => { out.push(1); out.extend_from_slice(x); }
        PT::Trunc(x) => { out.push(3); out.extend_from_slice(x); }
        PT::Mid(l, r) => { out.push(2); ser(l, out); ser(r, out); }
    }
}
fn ser_vec(t: &PT) -> Vec<u8> { let mut v = Vec::new(); ser(t, &mut v); v }

/// structural parse without any of the implementation's checks (only used on honest proofs)
fn parse(b: &[u8], pos: &mut usize) -> Option<PT> {
    let tag = *b.get(*pos)?;
    *pos += 1;
    match tag {
        0 => Some(PT::Empty),
        1 | 3 => {
            let x = to_leaf(b.get(*pos..*pos + 32)?);
            *pos += 32;
            Some(if tag == 1 { PT::Term(x) } else { PT::Trunc(x) })
        }
        2 => {
            let l = parse(b, pos)?;
            let r = parse(b, pos)?;
            Some(PT::Mid(Box::new(l), Box::new(r)))
        }
        _ => None,
    }
}

/// (hash, kind) of a proof tree the way a verifier computes it; kind: 0 empty, 1 term, 2 mid, 3 mid-double.
/// Only used to manufacture root-preserving truncations.
fn eval(t: &PT) -> (Leaf, u8) {
    match t {
        PT::Empty => ([0u8; 32], 0),
        PT::Term(x) => (*x, 1),
        PT::Trunc(x) => (*x, 2),
        PT::Mid(l, r) => {
            let (lh, lk) = eval(l);
            let (rh, rk) = eval(r);
            match (lk, rk) {
                (0, 3) => (rh, 3),
                (3, 0) => (lh, 3),
                _ => {
                    let mut h = Sha256::new();
                    h.update([0u8; 30]);
                    h.update([lk.min(2), rk.min(2)]);
                    h.update(lh);
                    h.update(rh);
                    (h.finalize(), if lk == 1 && rk == 1 { 3 } else { 2 })
                }
            }
        }
    }
}

/// (kind, number of SHA-256 evaluations a verifier spends) of a proof tree, without hashing
fn kind_cost(t: &PT) -> (u8, usize) {
    match t {
        PT::Empty => (0, 0),
        PT::Term(_) => (1, 0),
        PT::Trunc(_) => (2, 0),
        PT::Mid(l, r) => {
            let (lk, lc) = kind_cost(l);
            let (rk, rc) = kind_cost(r);
            match (lk, rk) {
                (0, 3) | (3, 0) => (3, lc + rc),
                (1, 1) => (3, lc + rc + 1),
                _ => (2, lc + rc + 1),
            }
        }
    }
}
fn hash_cost(t: &PT) -> usize { kind_cost(t).1 }

fn count_nodes(t: &PT) -> usize {
    match t { PT::Mid(l, r) => 1 + count_nodes(l) + count_nodes(r), _ => 1 }
}

/// apply `f` to the node with pre-order number `n`
fn rewrite_at(t: &PT, n: &mut usize, f: &dyn Fn(&PT) -> PT) -> PT {
    if *n == 0 {
        *n = usize::MAX;
        return f(t);
    }
    if *n != usize::MAX { *n -= 1; }
    match t {
        PT::Mid(l, r) => {
            let l2 = rewrite_at(l, n, f);
            let r2 = rewrite_at(r, n, f);
            PT::Mid(Box::new(l2), Box::new(r2))
        }
        x => x.clone(),
    }
}
fn at(t: &PT, i: usize, f: &dyn Fn(&PT) -> PT) -> PT { let mut n = i; rewrite_at(t, &mut n, f) }

fn flip(x: &Leaf, bit: usize) -> Leaf {
    let mut y = *x;
    y[bit / 8] ^= 0x80 >> (bit % 8);
    y
}

fn wrap(t: &PT, k: usize, left_empty: bool) -> PT {
    let mut cur = t.clone();
    for _ in 0..k {
        cur = if left_empty { PT::Mid(Box::new(PT::Empty), Box::new(cur)) } else { PT::Mid(Box::new(cur), Box::new(PT::Empty)) };
    }
    cur
}

/// every single-step rewrite of an honest proof tree (as byte strings)
fn rewrites(t: &PT, r: &mut Rng, deep: bool) -> Vec<Vec<u8>> {
    let mut out: Vec<Vec<u8>> = Vec::new();
    let n = count_nodes(t);
    let junk = to_leaf(&r.bytes(32));
    // all positions of small trees; for long chains the first and last 8 and 24 random ones
    let positions: Vec<usize> = if n <= 48 { (0..n).collect() } else {
        let mut v: Vec<usize> = (0..8).chain(n - 8..n).collect();
        for _ in 0..24 { v.push(r.below(n as u64) as usize); }
        v.sort(); v.dedup(); v
    };
    for i in positions {
        // swap the sides of a middle node
        out.push(ser_vec(&at(t, i, &|x| match x { PT::Mid(l, r) => PT::Mid(r.clone(), l.clone()), y => y.clone() })));
        // truncate the sub-tree: with its real hash (root preserving) and with a junk hash
        out.push(ser_vec(&at(t, i, &|x| match x { PT::Mid(_, _) => PT::Trunc(eval(x).0), y => y.clone() })));
        out.push(ser_vec(&at(t, i, &|x| match x { PT::Mid(_, _) => PT::Trunc(junk), y => y.clone() })));
        // replace tags
        out.push(ser_vec(&at(t, i, &|x| match x { PT::Term(h) => PT::Trunc(*h), PT::Trunc(h) => PT::Term(*h), PT::Empty => PT::Term([0u8; 32]), y => y.clone() })));
        out.push(ser_vec(&at(t, i, &|x| match x { PT::Term(_) | PT::Trunc(_) => PT::Empty, PT::Empty => PT::Trunc([0u8; 32]), PT::Mid(_, _) => PT::Empty })));
        out.push(ser_vec(&at(t, i, &|x| match x { PT::Mid(_, _) => PT::Term(eval(x).0), PT::Empty => PT::Trunc(junk), y => y.clone() })));
        // expand an empty node / a leaf into a middle node
        out.push(ser_vec(&at(t, i, &|x| match x {
            PT::Empty => PT::Mid(Box::new(PT::Empty), Box::new(PT::Empty)),
            PT::Term(h) => PT::Mid(Box::new(PT::Term(*h)), Box::new(PT::Empty)),
            PT::Trunc(h) => PT::Mid(Box::new(PT::Empty), Box::new(PT::Trunc(*h))),
            PT::Mid(l, _) => (**l).clone(),
        })));
        out.push(ser_vec(&at(t, i, &|x| match x {
            PT::Term(h) => PT::Mid(Box::new(PT::Empty), Box::new(PT::Term(*h))),
            PT::Mid(_, r) => (**r).clone(),
            y => y.clone(),
        })));
        // collapse / extend a one-sided chain by one level
        out.push(ser_vec(&at(t, i, &|x| match x { PT::Mid(_, _) => wrap(x, 1, true), y => y.clone() })));
        out.push(ser_vec(&at(t, i, &|x| match x { PT::Mid(_, _) => wrap(x, 1, false), y => y.clone() })));
        // flip one bit of a leaf / truncated hash
        for bit in [0usize, 1, 7, 8, 254, 255, r.below(256) as usize] {
            out.push(ser_vec(&at(t, i, &|x| match x { PT::Term(h) => PT::Term(flip(h, bit)), PT::Trunc(h) => PT::Trunc(flip(h, bit)), y => y.clone() })));
        }
    }
    let base = ser_vec(t);
    // trailing bytes, cut tails, bad tags
    for tail in [vec![0u8], vec![1u8], vec![2u8], vec![3u8], vec![0u8, 0], r.bytes(33)] {
        let mut v = base.clone(); v.extend(tail); out.push(v);
    }
    for cut in [1usize, 2, 32, 33, 34] { if base.len() > cut { out.push(base[..base.len() - cut].to_vec()); } }
    for tag in [4u8, 0x80, 0xff] { let mut v = base.clone(); v[0] = tag; out.push(v); }
    out.push(vec![]);
    // deepen: wrap the whole proof in k one-sided levels (beyond the depth guard)
    let ks: &[usize] = if deep { &[1, 2, 254, 255, 256, 257, 258] } else { &[1, 2] };
    for &k in ks {
        out.push(ser_vec(&wrap(t, k, true)));
        out.push(ser_vec(&wrap(t, k, false)));
    }
    out.sort();
    out.dedup();
    out.retain(|p| *p != base);
    out
}

// ---------------------------------------------------------------- engineered leaves

fn lf(first: u8, last: u8) -> Leaf { let mut x = [0u8; 32]; x[0] = first; x[31] = last; x }

/// 8 leaves sharing prefixes of 0, 1, 2, 128, 254 and 255 bits
fn pool8() -> Vec<Leaf> {
    let mut m = [0u8; 32]; m[16] = 0x80;
    let mut fe = [0xffu8; 32]; fe[31] = 0xfe;
    vec![lf(0, 0), lf(0, 1), lf(0, 2), lf(0, 3), lf(0x80, 0), m, [0xffu8; 32], fe]
}

const HOT_BITS: [usize; 12] = [255, 255, 254, 253, 248, 247, 128, 9, 8, 7, 1, 0];

/// random leaves, duplicates, and leaves sharing a prefix with an earlier one down to a chosen bit.
/// A base leaf is mostly used once (pairs with long common prefixes are cheap to hash); with
/// probability 1/8 a base is reused, which creates deep hashed chains.
fn random_set(r: &mut Rng, n: usize) -> Vec<Leaf> {
    let mut v: Vec<Leaf> = Vec::new();
    let mut fresh: Vec<Leaf> = Vec::new();
    for _ in 0..n {
        if v.is_empty() || r.chance(1, 3) || (fresh.is_empty() && !r.chance(1, 8)) {
            let x = to_leaf(&r.bytes(32));
            v.push(x); fresh.push(x);
        } else if r.chance(1, 6) {
            let x = *r.pick(&v); v.push(x);                     // duplicate
        } else {
            // share a prefix with an existing leaf down to bit k
            let base = if !fresh.is_empty() && !r.chance(1, 8) {
                let i = r.below(fresh.len() as u64) as usize; fresh.swap_remove(i)
            } else { *r.pick(&v) };
            let k = if r.chance(2, 3) { *r.pick(&HOT_BITS) } else { r.below(256) as usize };
            let mut x = flip(&base, k);
            if r.chance(1, 2) { for b in (k + 1)..256 { if r.chance(1, 2) { x = flip(&x, b); } } }
            v.push(x);
        }
    }
    v
}

fn shuffle(r: &mut Rng, v: &mut Vec<Leaf>) {
    for i in (1..v.len()).rev() { let j = r.below(i as u64 + 1) as usize; v.swap(i, j); }
}

fn non_members(r: &mut Rng, set: &[Leaf]) -> Vec<Leaf> {
    let mut v = vec![to_leaf(&r.bytes(32)), [0u8; 32], [0xffu8; 32]];
    if !set.is_empty() {
        let x = *r.pick(set);
        for k in [255usize, 254, 128, 1, 0, r.below(256) as usize] { v.push(flip(&x, k)); }
    }
    v.retain(|x| !set.contains(x));
    v.sort(); v.dedup();
    v
}

/// The Lean SHA-256 model runs at a few thousand compressions per second, so cases on sets whose
/// trie has long hashed chains (three or more leaves sharing a long prefix) are rationed.
pub struct Budget { pub hashes: i64 }
impl Budget {
    fn spend(&mut self, n: usize) -> bool {
        if self.hashes >= n as i64 { self.hashes -= n as i64; true } else { false }
    }
}

/// everything for one set: roots (several orders / duplicates), honest proofs, adversarial proofs.
/// `adv_items`: for how many members (and one non-member) the honest proof is rewritten;
/// `cap`: at most that many rewrites per honest proof (sampled).
#[allow(clippy::too_many_arguments)]
fn set_cases(o: &mut Out, r: &mut Rng, bud: &mut Budget, set: &[Leaf], max_items: usize, adv_items: usize, deep: bool, cap: usize) {
    // hashing cost of this set's trie along one path (0 for the empty set)
    let set_cost = set.first().and_then(|x| gen_proof(set, x)).and_then(|(_, p)| { let mut pos = 0; parse(&p, &mut pos) }).map_or(0, |t| hash_cost(&t));
    let heavy = set_cost > 32;
    root_case(o, set);
    if !heavy || bud.spend(6 * set_cost) {
        if set.len() > 1 {
            let mut s2 = set.to_vec(); s2.reverse(); root_case(o, &s2);
            let mut s3 = set.to_vec(); shuffle(r, &mut s3); s3.push(set[0]); s3.insert(0, *set.last().unwrap()); root_case(o, &s3);
        } else if set.len() == 1 {
            root_case(o, &[set[0], set[0]]);
            root_case(o, &[set[0], set[0], set[0]]);
        }
    }
    let (max_items, adv_items, cap) = if heavy { (1, adv_items.min(1), 4) } else { (max_items, adv_items, cap) };
    let mut items: Vec<Leaf> = Vec::new();
    let distinct: BTreeSet<Leaf> = set.iter().copied().collect();
    let mut members: Vec<Leaf> = distinct.into_iter().collect();
    shuffle(r, &mut members);
    items.extend(members.iter().take(max_items));
    let n_mem = items.len();
    let mut nm = non_members(r, set);
    shuffle(r, &mut nm);
    items.extend(nm.iter().take(if heavy { 1 } else { max_items.max(2) }));
    let root = { let mut a = set.to_vec(); compute_merkle_set_root(&mut a) };
    for (idx, item) in items.iter().enumerate() {
        let is_in = set.contains(item);
        let Some((_, p)) = gen_proof(set, item) else { proof_case(o, set, item); continue };
        let mut pos = 0;
        let Some(t) = parse(&p, &mut pos) else { continue };
        let cost = hash_cost(&t);
        if heavy && !bud.spend(2 * cost + set_cost) { continue; }
        proof_case(o, set, item);
        validate_case(o, &root, item, &p, Some(is_in));
        if !heavy && set.len() <= 12 { sound_case(o, set, item, &p); }
        // the honest proof for one item, offered for the other items
        for other in items.iter().take(3) {
            if other != item && !heavy { validate_case(o, &root, other, &p, Some(set.contains(other))); }
        }
        // adversarial rewrites: for the first `adv_items` members and for the first non-member
        let adversarial = adv_items > 0 && (idx < adv_items.min(n_mem) || idx == n_mem);
        if !adversarial { continue; }
        if heavy && !bud.spend(cap * cost) { continue; }
        let mut qs = rewrites(&t, r, deep && !heavy);
        if qs.len() > cap {
            for i in (1..qs.len()).rev() { let j = r.below(i as u64 + 1) as usize; qs.swap(i, j); }
            qs.truncate(cap);
            if deep && !heavy {
                for k in [255usize, 256, 257, 258] { qs.push(ser_vec(&wrap(&t, k, true))); qs.push(ser_vec(&wrap(&t, k, false))); }
            }
        }
        for q in qs {
            // a rewrite that breaks the collapsing of a long one-sided chain makes every level hash
            let qcost = { let mut pos = 0; parse(&q, &mut pos).map_or(0, |t| hash_cost(&t)) };
            if qcost > 16 && !bud.spend(qcost) { continue; }
            validate_case(o, &root, item, &q, Some(is_in));
            // the same adversarial bytes against their own root: exercises the walk on odd trees
            if !heavy && qcost <= 16 && r.chance(1, 2) {
                if let Ok(Ok(m)) = catch_unwind(AssertUnwindSafe(|| MerkleSet::from_proof(&q))) {
                    let own = m.get_root();
                    if own != root { validate_case(o, &own, item, &q, None); }
                }
            }
        }
    }
}

/// all proof trees with at most `max_nodes` nodes over the given leaf kinds
fn small_trees(kinds: &[PT], max_nodes: usize) -> Vec<PT> {
    // by[n] = trees with exactly n nodes (n odd)
    let mut by: Vec<Vec<PT>> = vec![Vec::new(); max_nodes + 1];
    by[1] = kinds.to_vec();
    let mut n = 3;
    while n <= max_nodes {
        let mut cur = Vec::new();
        let mut a = 1;
        while a <= n - 2 {
            let b = n - 1 - a;
            for l in &by[a] { for rr in &by[b] { cur.push(PT::Mid(Box::new(l.clone()), Box::new(rr.clone()))); } }
            a += 2;
        }
        by[n] = cur;
        n += 2;
    }
    by.into_iter().flatten().collect()
}

fn exhaustive_small(o: &mut Out, max_nodes: usize, thorough: bool) {
    let a = lf(0x00, 0); let b = lf(0x40, 0); let c = lf(0x80, 0); let d = lf(0xc0, 0);
    let hab = eval(&PT::Mid(Box::new(PT::Term(a)), Box::new(PT::Term(b)))).0;
    let hbc = eval(&PT::Mid(Box::new(PT::Term(b)), Box::new(PT::Term(c)))).0;
    let mut kinds = vec![PT::Empty, PT::Term(a), PT::Term(b), PT::Term(c), PT::Trunc(hab), PT::Trunc(c)];
    if thorough { kinds.push(PT::Trunc(hbc)); }
    let trees = small_trees(&kinds, max_nodes);
    let pool = [a, b, c];
    let mut subsets: Vec<(Vec<Leaf>, Leaf)> = Vec::new();
    for m in 0..8u32 {
        let s: Vec<Leaf> = (0..3).filter(|i| m >> i & 1 == 1).map(|i| pool[i]).collect();
        let root = { let mut x = s.clone(); compute_merkle_set_root(&mut x) };
        root_case(o, &s);
        subsets.push((s, root));
    }
    for t in &trees {
        let p = ser_vec(t);
        let own = catch_unwind(AssertUnwindSafe(|| MerkleSet::from_proof(&p).ok().map(|m| m.get_root()))).unwrap_or(None);
        for item in [a, b, c, d] {
            for (s, root) in &subsets { validate_case(o, root, &item, &p, Some(s.contains(&item))); }
            if let Some(own) = own {
                if !subsets.iter().any(|(_, r)| *r == own) { validate_case(o, &own, &item, &p, None); }
            }
        }
    }
}

/// proofs nested to the depth guard and across the u8 wrap of the walk depth
fn deep_cases(o: &mut Out, r: &mut Rng, thorough: bool) {
    let x = lf(0x80, 1);
    let zero = [0u8; 32];
    let ones = [0xffu8; 32];
    let ks: &[usize] = if thorough { &[253, 254, 255, 256, 257, 258, 259, 300] } else { &[255, 256, 257, 258] };
    for &k in ks {
        for (leaf, left_empty) in [(ones, true), (zero, false), (x, true), (x, false)] {
            if !thorough && leaf == x && k != 256 { continue; }
            let bottoms = [PT::Term(leaf), PT::Empty, PT::Trunc(leaf),
                           PT::Mid(Box::new(PT::Term(zero)), Box::new(PT::Term(ones))),
                           PT::Mid(Box::new(PT::Term(leaf)), Box::new(PT::Empty)),
                           PT::Mid(Box::new(PT::Empty), Box::new(PT::Term(leaf)))];
            for (bi, bottom) in bottoms.iter().enumerate() {
                if !thorough && (bi == 2 || bi == 5) { continue; }
                let q = ser_vec(&wrap(bottom, k, left_empty));
                let own = catch_unwind(AssertUnwindSafe(|| MerkleSet::from_proof(&q).ok().map(|m| m.get_root()))).unwrap_or(None);
                let items = if thorough { vec![leaf, flip(&leaf, 0), flip(&leaf, 255), to_leaf(&r.bytes(32))] } else { vec![leaf, flip(&leaf, 0)] };
                for item in items {
                    sound_case(o, &[leaf], &item, &q);
                    if let Some(own) = own { validate_case(o, &own, &item, &q, None); }
                }
            }
        }
    }
    // only MIDDLE bytes / unterminated nesting
    for k in [1usize, 256, 257, 258, 259, 1000] {
        let q = vec![2u8; k];
        sound_case(o, &[x], &x, &q);
    }
}

pub fn replay_line(o: &mut Out, l: &str) {
    let t: Vec<&str> = l.split_whitespace().collect();
    match t[1] {
        "root" => root_case(o, &parse_leaves(t[2])),
        "proof" => proof_case(o, &parse_leaves(t[2]), &to_leaf(&unhx(t[3]))),
        "validate" => validate_case(o, &to_leaf(&unhx(t[2])), &to_leaf(&unhx(t[3])), &unhx(t[4]),
            match t.get(5) { Some(&"in") => Some(true), Some(&"out") => Some(false), _ => None }),
        "sound" => sound_case(o, &parse_leaves(t[2]), &to_leaf(&unhx(t[3])), &unhx(t[4])),
        _ => panic!("bad C12 line {l}"),
    }
}

pub fn run(o: &mut Out, seed: u64, thorough: bool, replay: Option<Vec<String>>) {
    if let Some(lines) = replay {
        for l in lines { replay_line(o, &l); }
        return;
    }
    let mut r = Rng::new(seed);
    let cap = if thorough { 250 } else { 50 };
    let mut bud = Budget { hashes: if thorough { 600_000 } else { 50_000 } };
    let b = &mut bud;
    // 0/1/2-element sets, duplicates, and every 2-/3-element subset of the 8-leaf pool
    let pool = pool8();
    set_cases(o, &mut r, b, &[], 2, 9, true, cap);
    for x in &pool { set_cases(o, &mut r, b, &[*x], 2, 1, false, cap); }
    for i in 0..pool.len() { for j in (i + 1)..pool.len() {
        set_cases(o, &mut r, b, &[pool[i], pool[j]], 2, 1, (i + j) % 5 == 0, cap);
        for k in (j + 1)..pool.len() {
            set_cases(o, &mut r, b, &[pool[k], pool[i], pool[j]], 3, if thorough { 3 } else { 1 }, false, cap);
        }
    }}
    set_cases(o, &mut r, b, &pool, 8, if thorough { 9 } else { 2 }, true, cap);
    // the two trees of the Rust unit tests
    let t5: Vec<Leaf> = [0x58u8, 0x23, 0x21, 0xca, 0x20].iter().map(|b| lf(*b, 0)).collect();
    set_cases(o, &mut r, b, &t5, 5, 2, false, cap);
    set_cases(o, &mut r, b, &[lf(0x80, 0), lf(0, 1), lf(0, 2), lf(0, 3)], 4, 2, true, cap);
    // random sets of 0..40 leaves with engineered shared prefixes and duplicates
    let nsets = if thorough { 500 } else { 60 };
    for i in 0..nsets {
        let n = if i % 3 == 0 { r.range(0, 6) } else { r.range(0, 40) } as usize;
        let set = random_set(&mut r, n);
        let adv = if n <= 8 { 1 } else { 0 };
        set_cases(o, &mut r, b, &set, if thorough { 6 } else { 3 }, if thorough { adv + 1 } else { adv }, false, cap);
    }
    deep_cases(o, &mut r, thorough);
    // bounded-exhaustive: all proof trees with <= 5 (thorough: 7) nodes over a 3-leaf pool,
    // against the roots of all 8 subsets and against their own root, for 4 items
    exhaustive_small(o, if thorough { 7 } else { 5 }, thorough);
}
