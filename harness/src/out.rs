//! case/impl line writers
use std::fs::File;
use std::io::{BufWriter, Write};
pub struct Out {
    pub cases: BufWriter<File>,
    pub imp: BufWriter<File>,
    pub n: u64,
    dir: String,
    cur: Option<File>,
}
impl Out {
    pub fn new(dir: &str) -> Self {
        std::fs::create_dir_all(dir).unwrap();
        Out {
            cases: BufWriter::new(File::create(format!("{dir}/cases.txt")).unwrap()),
            imp: BufWriter::new(File::create(format!("{dir}/impl.txt")).unwrap()),
            n: 0,
            dir: { let _ = std::fs::remove_file(format!("{dir}/current.txt")); dir.to_string() },
            cur: None,
        }
    }
    /// announce the case about to be run (written through at once): if the implementation then aborts, exhausts
    /// memory or never returns, the check driver finds the input here and reports it as the replay
    pub fn begin(&mut self, input: &str) {
        // one positioned write per case into a file kept open: `<decimal length, 10 digits>\n<input>`; a longer
        // earlier case may leave a stale tail, which the length prefix cuts off
        use std::os::unix::fs::FileExt;
        if self.cur.is_none() { self.cur = File::create(format!("{}/current.txt", self.dir)).ok(); }
        if let Some(f) = &self.cur {
            let mut buf = format!("{:010}\n", input.len()).into_bytes();
            buf.extend_from_slice(input.as_bytes());
            let _ = f.write_at(&buf, 0);
        }
    }
    /// one case: the input line (sent to the model driver) and the implementation's canonical output
    pub fn case(&mut self, input: &str, output: &str) {
        debug_assert!(!input.contains('\n') && !output.contains('\n'));
        writeln!(self.cases, "{input}").unwrap();
        writeln!(self.imp, "{output}").unwrap();
        self.n += 1;
    }
    pub fn finish(mut self) -> u64 {
        let _ = std::fs::remove_file(format!("{}/current.txt", self.dir));
        self.cases.flush().unwrap();
        self.imp.flush().unwrap();
        self.n
    }
}
pub fn hx(b: &[u8]) -> String { if b.is_empty() { "-".to_string() } else { hex::encode(b) } }
pub fn unhx(s: &str) -> Vec<u8> { if s == "-" { vec![] } else { hex::decode(s).expect("hex") } }
