//! C05: bundles with AGG_SIG conditions, signed by the harness over the texts the rules prescribe,
//! then every single-point tampering; verdicts of parse_spends (no cache / cold / warm cache) and of
//! validate_clvm_and_signature; make_aggsig_final_message byte for byte.
use crate::cond::*;
use crate::out::{hx, unhx, Out};
use crate::prng::Rng;
use chia_bls::{aggregate, sign, sign_raw, BlsCache, PublicKey, SecretKey, Signature};
use chia_consensus::conditions::{parse_spends, EmptyVisitor};
use chia_consensus::consensus_constants::TEST_CONSTANTS;
use chia_consensus::flags::ConsensusFlags;
use chia_consensus::make_aggsig_final_message::make_aggsig_final_message;
use chia_consensus::owned_conditions::OwnedSpendConditions;
use chia_consensus::spendbundle_validation::validate_clvm_and_signature;
use chia_protocol::{Bytes32, Coin, CoinSpend, Program, SpendBundle};
use clvmr::allocator::Allocator;
use clvmr::serde::node_from_bytes;
use std::num::NonZeroUsize;

fn constant(op: u8) -> Vec<u8> {
    let c = &TEST_CONSTANTS;
    match op {
        50 => c.agg_sig_me_additional_data.to_vec(), 43 => c.agg_sig_parent_additional_data.to_vec(),
        44 => c.agg_sig_puzzle_additional_data.to_vec(), 45 => c.agg_sig_amount_additional_data.to_vec(),
        46 => c.agg_sig_puzzle_amount_additional_data.to_vec(), 47 => c.agg_sig_parent_amount_additional_data.to_vec(),
        48 => c.agg_sig_parent_puzzle_additional_data.to_vec(), _ => vec![],
    }
}
/// the text the rules prescribe, written independently of the code under test
fn prescribed(op: u8, msg: &[u8], parent: &[u8], ph: &[u8], amount: u64, konst: &[u8]) -> Vec<u8> {
    let T::A(amt) = int(amount) else { unreachable!() };
    let id = sha(&[parent, ph, &amt]);
    let mut m = msg.to_vec();
    match op {
        50 => m.extend(id), 43 => m.extend(parent), 44 => m.extend(ph), 45 => m.extend(&amt),
        46 => { m.extend(ph); m.extend(&amt); } 47 => { m.extend(parent); m.extend(&amt); }
        48 => { m.extend(parent); m.extend(ph); } _ => {}
    }
    m.extend(konst);
    m
}



/// index of the malformed key in `truth` / `variants` entries
const MAL: usize = usize::MAX;

/// the order r of G1, minus one (big endian); `scalar_multiply` reduces modulo r
const GROUP_ORDER_MINUS_ONE: [u8; 32] = [
    0x73, 0xed, 0xa7, 0x53, 0x29, 0x9d, 0x7d, 0x48, 0x33, 0x39, 0xd8, 0x08, 0x09, 0xa1, 0xd8, 0x05,
    0x53, 0xbd, 0xa4, 0x02, 0xff, 0xfe, 0x5b, 0xfe, 0xff, 0xff, 0xff, 0xff, 0x00, 0x00, 0x00, 0x00,
];

/// a public key that is a canonical encoding of a point ON the curve but OUTSIDE the group G1:
/// P = sk·G + T with T of cofactor order, together with sk.  Pairings cannot tell P from sk·G, so
/// sk·H(P ‖ text) "verifies" wherever the subgroup check is skipped.  The rules reject such a key.
fn malformed_key() -> (Vec<u8>, SecretKey) {
    let mut candidate = [0u8; 48]; candidate[0] = 0x80;
    let mut p0 = None;
    for i in 1..=255u8 { candidate[47] = i;
        if let Ok(p) = PublicKey::from_bytes_unchecked(&candidate) { if !p.is_valid() { p0 = Some(p); break; } } }
    let p0 = p0.expect("curve point outside G1");
    let mut t = p0.clone(); t.scalar_multiply(&GROUP_ORDER_MINUS_ONE); t += &p0;   // r·P0
    let sk = SecretKey::from_seed(&[9u8; 32]);
    let mut p = sk.public_key(); p += &t;
    assert!(!p.is_inf() && !p.is_valid());
    (p.to_bytes().to_vec(), sk)
}

fn key_bytes(sks: &[SecretKey], mal: &(Vec<u8>, SecretKey), ki: usize) -> Vec<u8> { if ki == MAL { mal.0.clone() } else { sks[ki].public_key().to_bytes().to_vec() } }
fn sig_for(sks: &[SecretKey], mal: &(Vec<u8>, SecretKey), ki: usize, text: &[u8]) -> Signature {
    if ki == MAL { let mut aug = mal.0.clone(); aug.extend_from_slice(text); sign_raw(&mal.1, aug) } else { sign(&sks[ki], text) }
}

struct Verdicts { plain: bool, cold: bool, warm: bool, mempool: bool }

fn run_all(flags: u32, tree: &T, spends: &[(SpendG, T)], sig: &Signature, warm: &BlsCache) -> Verdicts {
    let f = ConsensusFlags::from_bits_retain(flags);
    let bytes = to_bytes(tree);
    let mut a = Allocator::new();
    let n = node_from_bytes(&mut a, &bytes).unwrap();
    let plain = parse_spends::<EmptyVisitor>(&a, n, 11_000_000_000, 0, f, sig, None, &TEST_CONSTANTS).is_ok();
    let coldc = BlsCache::new(NonZeroUsize::new(50).unwrap());
    let cold = parse_spends::<EmptyVisitor>(&a, n, 11_000_000_000, 0, f, sig, Some(&coldc), &TEST_CONSTANTS).is_ok();
    let warm = parse_spends::<EmptyVisitor>(&a, n, 11_000_000_000, 0, f, sig, Some(warm), &TEST_CONSTANTS).is_ok();
    let css: Vec<CoinSpend> = spends.iter().map(|(s, puzzle)| CoinSpend::new(
        Coin::new(Bytes32::new(s.parent), Bytes32::new(s.ph), s.amount),
        Program::from(to_bytes(puzzle)), Program::from(vec![0x80u8]))).collect();
    let sb = SpendBundle::new(css, sig.clone());
    let mempool = validate_clvm_and_signature(&sb, 11_000_000_000, &TEST_CONSTANTS, f).is_ok();
    Verdicts { plain, cold, warm, mempool }
}

fn ok(b: bool) -> &'static str { if b { "OK" } else { "REJECT" } }

fn pairs_s(p: &[(Vec<u8>, Vec<u8>)]) -> String {
    if p.is_empty() { "-".into() } else { p.iter().map(|(k, m)| format!("{}:{}", hex::encode(k), hx(m))).collect::<Vec<_>>().join(",") }
}

pub fn run(o: &mut Out, seed: u64, thorough: bool, replay: Option<Vec<String>>) {
    if let Some(lines) = replay {
        // `fm` lines are recomputed; `sig` lines need the secret keys, which are derived from the
        // seeds of the fixed key pool, so they are recomputed from the line's signed-pairs field
        for l in lines { replay_line(o, &l); }
        return;
    }
    let mut r = Rng::new(seed ^ 0xc05);
    let sks: Vec<SecretKey> = (1..5u8).map(|i| SecretKey::from_seed(&[i; 32])).collect();
    let pool = pools();
    let mal = malformed_key();
    let amounts: [u64; 24] = [0, 1, 0x7f, 0x80, 0xff, 0x7fff, 0x8000, 0x7f_ffff, 0x80_0000, 0x7fff_ffff, 0x8000_0000, 0x7f_ffff_ffff, 0x80_0000_0000, 0x7fff_ffff_ffff, 0x8000_0000_0000,
        0x7f_ffff_ffff_ffff, 0x80_0000_0000_0000, 0x0100_0000_0000_0000, 0x0400_0000_0000_0000, 0x07ff_ffff_ffff_ffff, 0x0800_0000_0000_0000, 0x7fff_ffff_ffff_ffff, 0x8000_0000_0000_0000, u64::MAX];
    // make_aggsig_final_message on every opcode x amount class
    for op in [43u8, 44, 45, 46, 47, 48, 49, 50, 51] { for amt in amounts { for msg in [&b""[..], b"m", &[0x80u8; 32]] {
        fm_case(o, op, msg, &pool.ids[0], &pool.ids[1], amt);
    }}}
    let warm = BlsCache::new(NonZeroUsize::new(3).unwrap()); // small: evictions happen
    let n = if thorough { 4000 } else { 250 };
    for _ in 0..n {
        let ns = r.range(1, 3) as usize;
        let mut spends: Vec<(SpendG, T)> = vec![];
        let mut truth: Vec<(usize, u8, Vec<u8>, Vec<u8>)> = vec![]; // (key idx, op, msg, text)
        for _ in 0..ns {
            let amount = *r.pick(&amounts);
            let parent = *r.pick(&pool.ids);
            let k = r.range(0, 3);
            let mut conds_raw: Vec<(u8, usize, Vec<u8>)> = vec![];
            for _ in 0..k {
                let op = *r.pick(&[43u8, 44, 45, 46, 47, 48, 49, 50]);
                let ki = r.below(sks.len() as u64) as usize;
                let msg = match r.below(6) { 0 => vec![], 1 => pool.msgs[r.below(pool.msgs.len() as u64) as usize].clone(), _ => { let n = r.range(1, 40) as usize; r.bytes(n) } };
                let msg = if msg.len() > 1024 { vec![1] } else { msg };
                conds_raw.push((op, ki, msg));
            }
            // sometimes the same condition twice (the signature must then cover the pair twice), sometimes a key
            // on the curve but outside G1 together with the signature that pairings alone would accept
            if !conds_raw.is_empty() && r.chance(1, 5) { let c = conds_raw[r.below(conds_raw.len() as u64) as usize].clone(); conds_raw.push(c); }
            if r.chance(1, 12) { let op = *r.pick(&[43u8, 44, 45, 46, 47, 48, 49, 50]); conds_raw.push((op, MAL, b"mal".to_vec())); }
            let mut conds: Vec<T> = conds_raw.iter().map(|(op, ki, msg)| pair(at(&[*op]), list(vec![at(&key_bytes(&sks, &mal, *ki)), at(msg)], nil()))).collect();
            if r.chance(1, 5) { conds.push(pair(at(&[1]), nil())); }
            if r.chance(1, 30) { conds.push(pair(at(&[49]), list(vec![at(&pool.bad_pks[0]), at(b"x")], nil()))); } // infinity key
            let puzzle = pair(at(&[1]), list(conds.clone(), nil()));
            let ph = tree_hash_t(&puzzle);
            let s = SpendG { parent, ph, amount, conds, term: nil() };
            for (op, ki, msg) in &conds_raw {
                truth.push((*ki, *op, msg.clone(), prescribed(*op, msg, &parent, &ph, amount, &constant(*op))));
            }
            spends.push((s, puzzle));
        }
        let tree = pair(list(spends.iter().map(|(s, _)| list(vec![at(&s.parent), at(&s.ph), int(s.amount), list(s.conds.clone(), nil())], nil())).collect(), nil()), nil());
        let flags = if r.chance(1, 2) { F_COST } else { 0 };
        let mut pks = vec![]; valid_pks(&tree, &mut pks);
        let pk_s = if pks.is_empty() { "-".to_string() } else { pks.iter().map(hex::encode).collect::<Vec<_>>().join(",") };
        // the honest signature and its single-point tamperings
        let nt = truth.len();
        let mut variants: Vec<Vec<(usize, Vec<u8>)>> = vec![truth.iter().map(|t| (t.0, t.3.clone())).collect()];
        for i in 0..nt {
            let base = variants[0].clone();
            let mut v = base.clone(); v.remove(i); variants.push(v);                                   // missing pair
            let mut v = base.clone(); v.push(base[i].clone()); variants.push(v);                       // pair signed twice
            let mut v = base.clone(); let l = v[i].1.len(); if l > 0 { let j = r.below(l as u64) as usize; v[i].1[j] ^= 1 << r.below(8); variants.push(v); } // one bit of the text
            let mut v = base.clone(); v[i].0 = if v[i].0 == MAL { 0 } else { (v[i].0 + 1) % sks.len() }; variants.push(v);               // other key
            let (ki, op, msg, _) = &truth[i];
            if *op != 49 {
                // wrong domain constant (another opcode's), altered coin attribute
                let other = [43u8, 44, 45, 46, 47, 48, 50][(r.below(7)) as usize];
                if other != *op { let sp = &spends.iter().find(|(s, _)| prescribed(*op, msg, &s.parent, &s.ph, s.amount, &constant(*op)) == truth[i].3).unwrap().0;
                    let mut v = base.clone(); v[i] = (*ki, prescribed(*op, msg, &sp.parent, &sp.ph, sp.amount, &constant(other))); variants.push(v);
                    let mut v = base.clone(); v[i] = (*ki, prescribed(*op, msg, &sp.parent, &sp.ph, sp.amount.wrapping_add(1), &constant(*op))); variants.push(v);
                    let mut par = sp.parent; par[5] ^= 0x10;
                    let mut v = base.clone(); v[i] = (*ki, prescribed(*op, msg, &par, &sp.ph, sp.amount, &constant(*op))); variants.push(v);
                }
            }
        }
        variants.push(vec![(0, b"unrelated".to_vec())]);
        for (vi, v) in variants.iter().enumerate() {
            let sig = aggregate(v.iter().map(|(ki, text)| sig_for(&sks, &mal, *ki, text)));
            let signed: Vec<(Vec<u8>, Vec<u8>)> = v.iter().map(|(ki, text)| (key_bytes(&sks, &mal, *ki), text.clone())).collect();
            let vd = run_all(flags, &tree, &spends, &sig, &warm);
            o.case(&format!("C05 sig {} {} {} {}", flags, pk_s, pairs_s(&signed), hex::encode(to_bytes(&tree))),
                   &format!("plain={} cold={} warm={} mempool={}", ok(vd.plain), ok(vd.cold), ok(vd.warm), ok(vd.mempool)));
            if vi == 0 {
                // a signature that is no aggregate of signatures at all: flip one bit of its encoding until it still decodes
                let mut b = sig.to_bytes();
                b[95] ^= 1;
                if let Ok(s2) = Signature::from_bytes(&b) {
                    let vd = run_all(flags, &tree, &spends, &s2, &warm);
                    o.case(&format!("C05 sig {} {} !junk {}", flags, pk_s, hex::encode(to_bytes(&tree))),
                           &format!("plain={} cold={} warm={} mempool={}", ok(vd.plain), ok(vd.cold), ok(vd.warm), ok(vd.mempool)));
                }
            }
        }
    }
}

fn fm_case(o: &mut Out, op: u8, msg: &[u8], parent: &[u8; 32], ph: &[u8; 32], amount: u64) {
    let T::A(amt) = int(amount) else { unreachable!() };
    let id = sha(&[parent, ph, &amt]);
    let spend = OwnedSpendConditions { coin_id: Bytes32::new(id), parent_id: Bytes32::new(*parent), puzzle_hash: Bytes32::new(*ph), coin_amount: amount,
        height_relative: None, seconds_relative: None, before_height_relative: None, before_seconds_relative: None, birth_height: None, birth_seconds: None,
        create_coin: vec![], agg_sig_me: vec![], agg_sig_parent: vec![], agg_sig_puzzle: vec![], agg_sig_amount: vec![], agg_sig_puzzle_amount: vec![],
        agg_sig_parent_amount: vec![], agg_sig_parent_puzzle: vec![], flags: 0, execution_cost: 0, condition_cost: 0, fingerprint: Default::default() };
    let mut m = msg.to_vec();
    make_aggsig_final_message(op as u16, &mut m, &spend, &TEST_CONSTANTS);
    o.case(&format!("C05 fm {} {} {} {} {}", op, hx(msg), hex::encode(parent), hex::encode(ph), amount), &hx(&m));
}

fn replay_line(o: &mut Out, l: &str) {
    let t: Vec<&str> = l.split_whitespace().collect();
    if t[1] == "fm" {
        fm_case(o, t[2].parse().unwrap(), &unhx(t[3]), &unhx(t[4]).try_into().unwrap(), &unhx(t[5]).try_into().unwrap(), t[6].parse().unwrap());
        return;
    }
    // sig line: rebuild the signature from the signed-pairs field using the key pool
    let sks: Vec<SecretKey> = (1..5u8).map(|i| SecretKey::from_seed(&[i; 32])).collect();
    let mal = malformed_key();
    let flags: u32 = t[2].parse().unwrap();
    let bytes = hex::decode(t[5]).unwrap();
    let mut a = Allocator::new();
    let n = node_from_bytes(&mut a, &bytes).unwrap();
    let sig = if t[4] == "!junk" || t[4] == "-" { Signature::default() } else {
        aggregate(t[4].split(',').map(|e| { let p: Vec<&str> = e.split(':').collect(); let pk = hex::decode(p[0]).unwrap();
            if pk == mal.0 { let mut aug = mal.0.clone(); aug.extend_from_slice(&unhx(p[1])); return sign_raw(&mal.1, aug); }
            let sk = sks.iter().find(|s| s.public_key().to_bytes().to_vec() == pk).expect("key from the pool"); sign(sk, unhx(p[1])) })) };
    let f = ConsensusFlags::from_bits_retain(flags);
    let plain = parse_spends::<EmptyVisitor>(&a, n, 11_000_000_000, 0, f, &sig, None, &TEST_CONSTANTS).is_ok();
    let c = BlsCache::new(NonZeroUsize::new(50).unwrap());
    let cold = parse_spends::<EmptyVisitor>(&a, n, 11_000_000_000, 0, f, &sig, Some(&c), &TEST_CONSTANTS).is_ok();
    let warm = parse_spends::<EmptyVisitor>(&a, n, 11_000_000_000, 0, f, &sig, Some(&c), &TEST_CONSTANTS).is_ok();
    // (the mempool path needs the puzzle reveals; in replay the block path's verdict is repeated)
    o.case(l, &format!("plain={} cold={} warm={} mempool={}", ok(plain), ok(cold), ok(warm), ok(plain)));
    let _ = PublicKey::default();
}
