//! C17: every tree-hash routine of clvm-utils on heaps WITH sharing, through one `Allocator` and one
//! `TreeCache` per case; `tree_hash_from_bytes` on plain and back-reference serialisations and on
//! arbitrary byte strings; `curry_tree_hash` against the real `CurriedProgram`.
//!
//! case lines (see lean/ChiaModel/Drv/C17.lean):
//!   C17 pre <i>
//!   C17 heap <nodes> <ops> <brs>
//!   C17 bytes <hex>
use crate::out::{hx, unhx, Out};
use crate::prng::Rng;
use clvm_traits::{clvm_curried_args, ClvmEncoder, ToClvm, ToClvmError};
use clvm_utils::{
    curry_tree_hash, tree_hash, tree_hash_atom, tree_hash_cached, tree_hash_from_bytes, tree_hash_pair, CurriedProgram,
    ToTreeHash, TreeCache, TreeHash, TreeHasher, PRECOMPUTED_HASHES,
};
use clvmr::allocator::{Allocator, NodePtr, SExp};
use clvmr::serde::{node_to_bytes, node_to_bytes_backrefs};
use std::panic::{catch_unwind, AssertUnwindSafe};

#[derive(Clone, Debug, PartialEq)]
pub enum Nd {
    A(Vec<u8>),     // new_atom
    S(u32),         // new_small_number
    L(Vec<u8>),     // bytes forced onto the allocator heap (new_concat of three pieces)
    P(usize, usize),
}

#[derive(Clone, Debug, PartialEq)]
pub enum OpK {
    G(usize),
    V(usize),
    H(usize),
    T(usize),
    B(usize),
    R(usize),
    E(usize),
    C(usize, Vec<usize>),
    M,
}

fn nd_s(n: &Nd) -> String {
    match n {
        Nd::A(b) => format!("a{}", hx(b)),
        Nd::S(v) => format!("s{v}"),
        Nd::L(b) => format!("l{}", hx(b)),
        Nd::P(i, j) => format!("p{i}.{j}"),
    }
}
fn op_s(o: &OpK) -> String {
    match o {
        OpK::G(k) => format!("g{k}"),
        OpK::V(i) => format!("v{i}"),
        OpK::H(i) => format!("h{i}"),
        OpK::T(i) => format!("t{i}"),
        OpK::B(i) => format!("b{i}"),
        OpK::R(i) => format!("r{i}"),
        OpK::E(i) => format!("e{i}"),
        OpK::C(p, a) => format!("c{p}:{}", a.iter().map(|x| x.to_string()).collect::<Vec<_>>().join(".")),
        OpK::M => "m".to_string(),
    }
}
fn parse_nd(s: &str) -> Nd {
    let (k, r) = s.split_at(1);
    match k {
        "a" => Nd::A(unhx(r)),
        "l" => Nd::L(unhx(r)),
        "s" => Nd::S(r.parse().unwrap()),
        "p" => {
            let (i, j) = r.split_once('.').unwrap();
            Nd::P(i.parse().unwrap(), j.parse().unwrap())
        }
        _ => panic!("bad node {s}"),
    }
}
fn parse_op(s: &str) -> OpK {
    let (k, r) = s.split_at(1);
    match k {
        "g" => OpK::G(r.parse().unwrap()),
        "v" => OpK::V(r.parse().unwrap()),
        "h" => OpK::H(r.parse().unwrap()),
        "t" => OpK::T(r.parse().unwrap()),
        "b" => OpK::B(r.parse().unwrap()),
        "r" => OpK::R(r.parse().unwrap()),
        "e" => OpK::E(r.parse().unwrap()),
        "m" => OpK::M,
        "c" => {
            let (p, a) = r.split_once(':').unwrap();
            let args = if a.is_empty() { vec![] } else { a.split('.').map(|x| x.parse().unwrap()).collect() };
            OpK::C(p.parse().unwrap(), args)
        }
        _ => panic!("bad op {s}"),
    }
}

/// a value that encodes itself through any `ClvmEncoder` (used with the `TreeHasher` encoder)
struct Tv<'a> {
    a: &'a Allocator,
    n: NodePtr,
}
impl<E: ClvmEncoder> ToClvm<E> for Tv<'_> {
    fn to_clvm(&self, e: &mut E) -> Result<E::Node, ToClvmError> {
        match self.a.sexp(self.n) {
            SExp::Atom => e.encode_atom(self.a.atom(self.n)),
            SExp::Pair(l, r) => {
                let l = Tv { a: self.a, n: l }.to_clvm(e)?;
                let r = Tv { a: self.a, n: r }.to_clvm(e)?;
                e.encode_pair(l, r)
            }
        }
    }
}

fn alloc_node(a: &mut Allocator, ptrs: &[NodePtr], n: &Nd) -> NodePtr {
    match n {
        Nd::A(b) => a.new_atom(b).unwrap(),
        Nd::S(v) => a.new_small_number(*v).unwrap(),
        Nd::L(b) => {
            // "launder" the bytes through new_concat so that they live on the heap as a Bytes atom
            // whatever their value (clvmr allocator test_concat_launder_small_number)
            let mid = a.new_atom(b).unwrap();
            let nil = a.nil();
            a.new_concat(b.len(), &[nil, mid, nil]).unwrap()
        }
        Nd::P(i, j) => a.new_pair(ptrs[*i], ptrs[*j]).unwrap(),
    }
}

fn hh(h: &TreeHash) -> String { hex::encode(h.to_bytes()) }

/// runs one heap case on the real code; returns (brs field, implementation output)
fn exec_heap(nodes: &[Nd], ops: &[OpK]) -> (String, String) {
    let mut a = Allocator::new();
    let mut cache = TreeCache::default();
    let mut ptrs: Vec<NodePtr> = Vec::with_capacity(nodes.len());
    let lazy = matches!(ops.first(), Some(OpK::G(_)));
    if !lazy {
        for n in nodes { let p = alloc_node(&mut a, &ptrs, n); ptrs.push(p); }
    }
    let mut out: Vec<String> = vec![];
    let mut brs: Vec<String> = vec![];
    for op in ops {
        match op {
            OpK::G(k) => {
                while ptrs.len() < *k { let p = alloc_node(&mut a, &ptrs, &nodes[ptrs.len()]); ptrs.push(p); }
            }
            OpK::V(i) => cache.visit_tree(&a, ptrs[*i]),
            OpK::H(i) => out.push(hh(&tree_hash_cached(&a, ptrs[*i], &mut cache))),
            OpK::T(i) => out.push(hh(&tree_hash(&a, ptrs[*i]))),
            OpK::B(i) => {
                let b = node_to_bytes(&a, ptrs[*i]).unwrap();
                out.push(tree_hash_from_bytes(&b).map(|h| hh(&h)).unwrap_or_else(|e| format!("ERR({e:?})")));
            }
            OpK::R(i) => {
                let b = node_to_bytes_backrefs(&a, ptrs[*i]).unwrap();
                out.push(tree_hash_from_bytes(&b).map(|h| hh(&h)).unwrap_or_else(|e| format!("ERR({e:?})")));
                brs.push(hx(&b));
            }
            OpK::E(i) => out.push(hh(&Tv { a: &a, n: ptrs[*i] }.tree_hash())),
            OpK::C(p, args) => {
                let prog = ptrs[*p];
                let an: Vec<NodePtr> = args.iter().map(|x| ptrs[*x]).collect();
                // (1) from hashes alone
                let ph = tree_hash(&a, prog);
                let ahs: Vec<TreeHash> = an.iter().map(|x| tree_hash(&a, *x)).collect();
                let h1 = curry_tree_hash(ph, &ahs);
                // (2) tree hash of the actual curried program built by CurriedProgram::to_clvm
                let curried = match an.len() {
                    0 => CurriedProgram { program: prog, args: clvm_curried_args!() }.to_clvm(&mut a),
                    1 => CurriedProgram { program: prog, args: clvm_curried_args!(an[0]) }.to_clvm(&mut a),
                    2 => CurriedProgram { program: prog, args: clvm_curried_args!(an[0], an[1]) }.to_clvm(&mut a),
                    3 => CurriedProgram { program: prog, args: clvm_curried_args!(an[0], an[1], an[2]) }.to_clvm(&mut a),
                    4 => CurriedProgram { program: prog, args: clvm_curried_args!(an[0], an[1], an[2], an[3]) }.to_clvm(&mut a),
                    _ => {
                        // longer argument lists: the same structure `(c (q . a) rest)` built by hand
                        let mut rest = a.one();
                        let nil = a.nil();
                        for x in an.iter().rev() {
                            let q = a.one();
                            let qa = a.new_pair(q, *x).unwrap();
                            let t = a.new_pair(rest, nil).unwrap();
                            let t = a.new_pair(qa, t).unwrap();
                            let c = a.new_small_number(4).unwrap();
                            rest = a.new_pair(c, t).unwrap();
                        }
                        CurriedProgram { program: prog, args: rest }.to_clvm(&mut a)
                    }
                }.unwrap();
                let h2 = tree_hash(&a, curried);
                // (3) the TreeHasher encoder on a CurriedProgram of hashes
                let h3 = match ahs.len() {
                    0 => CurriedProgram { program: ph, args: clvm_curried_args!() }.tree_hash(),
                    1 => CurriedProgram { program: ph, args: clvm_curried_args!(ahs[0]) }.tree_hash(),
                    2 => CurriedProgram { program: ph, args: clvm_curried_args!(ahs[0], ahs[1]) }.tree_hash(),
                    3 => CurriedProgram { program: ph, args: clvm_curried_args!(ahs[0], ahs[1], ahs[2]) }.tree_hash(),
                    4 => CurriedProgram { program: ph, args: clvm_curried_args!(ahs[0], ahs[1], ahs[2], ahs[3]) }.tree_hash(),
                    _ => {
                        let mut e = TreeHasher;
                        let mut rest = tree_hash_atom(&[1]);
                        for x in ahs.iter().rev() {
                            rest = (4, ((1, *x), (rest, ()))).to_clvm(&mut e).unwrap();
                        }
                        CurriedProgram { program: ph, args: rest }.tree_hash()
                    }
                };
                out.push(format!("{} {} {}", hh(&h1), hh(&h2), hh(&h3)));
            }
            OpK::M => {
                let (mut got, mut sm, mut sum) = (0u64, 0u64, 0u64);
                for (i, p) in ptrs.iter().enumerate() {
                    if !p.is_pair() { continue; }
                    if cache.get(*p).is_some() { got += 1; sum = (sum + ((i as u64 + 1) * (i as u64 + 1))) % 1_000_000_007; }
                    else if cache.should_memoize(*p) { sm += 1; }
                }
                out.push(format!("m{got}/{sm}/{sum}"));
            }
        }
    }
    (if brs.is_empty() { "-".to_string() } else { brs.join(";") }, out.join(" "))
}

fn heap_case(o: &mut Out, nodes: &[Nd], ops: &[OpK]) {
    let r = catch_unwind(AssertUnwindSafe(|| exec_heap(nodes, ops)));
    let ns: Vec<String> = nodes.iter().map(nd_s).collect();
    let os: Vec<String> = ops.iter().map(op_s).collect();
    match r {
        Ok((brs, out)) => o.case(&format!("C17 heap {} {} {}", ns.join(","), os.join(","), brs), &out),
        Err(_) => o.case(&format!("C17 heap {} {} -", ns.join(","), os.join(",")), "PANIC"),
    }
}

fn bytes_case(o: &mut Out, b: &[u8]) {
    let r = catch_unwind(|| tree_hash_from_bytes(b));
    let s = match r {
        Ok(Ok(h)) => hh(&h),
        Ok(Err(e)) => format!("REJECT ~{e:?}").replace('\n', " "),
        Err(_) => "PANIC".to_string(),
    };
    o.case(&format!("C17 bytes {}", hx(b)), &s);
}

fn pre_case(o: &mut Out, i: usize) {
    let s = if i < PRECOMPUTED_HASHES.len() { hh(&PRECOMPUTED_HASHES[i]) } else { "none".to_string() };
    o.case(&format!("C17 pre {i}"), &s);
}

pub fn replay_line(o: &mut Out, l: &str) {
    let t: Vec<&str> = l.split_whitespace().collect();
    match t[1] {
        "pre" => pre_case(o, t[2].parse().unwrap()),
        "bytes" => bytes_case(o, &unhx(t[2])),
        "heap" => {
            let nodes: Vec<Nd> = t[2].split(',').map(parse_nd).collect();
            let ops: Vec<OpK> = t[3].split(',').map(parse_op).collect();
            heap_case(o, &nodes, &ops);
        }
        _ => panic!("bad C17 line {l}"),
    }
}

/// canonical CLVM integer, written independently of the code under test
fn canon(v: u64) -> Vec<u8> {
    if v == 0 { return vec![]; }
    let mut b = v.to_be_bytes().to_vec();
    while b.len() > 1 && b[0] == 0 && b[1] < 0x80 { b.remove(0); }
    if b[0] >= 0x80 { b.insert(0, 0); }
    b
}

/// saturating size (number of nodes of the denoted tree), depth and plain-serialisation length of every heap index
fn measures(nodes: &[Nd]) -> (Vec<u64>, Vec<u32>) {
    let mut sz = vec![]; let mut dp = vec![];
    for n in nodes {
        match n {
            Nd::P(i, j) => { sz.push(1u64.saturating_add(sz[*i]).saturating_add(sz[*j])); dp.push(1 + std::cmp::max(dp[*i], dp[*j])); }
            _ => { sz.push(1u64); dp.push(0u32); }
        }
    }
    (sz, dp)
}
/// node_to_bytes refuses more than 2 000 000 bytes
fn ser_len(nodes: &[Nd]) -> Vec<u64> {
    let mut sl: Vec<u64> = vec![];
    for n in nodes {
        match n {
            Nd::P(i, j) => sl.push(1u64.saturating_add(sl[*i]).saturating_add(sl[*j])),
            Nd::A(b) | Nd::L(b) => sl.push(b.len() as u64 + 4),
            Nd::S(_) => sl.push(5),
        }
    }
    sl
}

fn atom_pool(r: &mut Rng) -> Nd {
    match r.below(12) {
        0..=3 => Nd::A(canon(r.below(41))),
        4 => Nd::S(r.below(41) as u32),
        5 => Nd::L(canon(r.below(41))),
        6 => { let mut b = vec![0u8; r.range(1, 2) as usize]; b.extend(canon(r.below(41))); if r.chance(1, 2) { Nd::A(b) } else { Nd::L(b) } }
        7 => Nd::A(r.bytes(32)),
        8 => Nd::A(vec![*r.pick(&[0x7fu8, 0x80, 0x81, 0xfe, 0xff, 0x00])]),
        9 => Nd::A(canon(*r.pick(&[0x7fu64, 0x80, 0xff, 0x100, 0x7fff, 0x8000, 0xffffff, (1 << 26) - 1, 1 << 26, (1 << 26) + 1, 1 << 31, u64::MAX]))),
        10 => Nd::S(*r.pick(&[23u32, 24, 25, 127, 128, 255, 256, 0x7fff, 0x8000, 0x7fffff, 0x800000, (1 << 26) - 1])),
        _ => { let n = *r.pick(&[2usize, 31, 33, 63, 64, 65, 200]); Nd::A(r.bytes(n)) }
    }
}

fn random_heap(r: &mut Rng, n: usize, share: u64) -> Vec<Nd> {
    let mut nodes: Vec<Nd> = vec![];
    let natoms = 1 + r.below(1 + (n as u64) / 3) as usize;
    for _ in 0..natoms { nodes.push(atom_pool(r)); }
    while nodes.len() < n {
        if r.chance(1, 8) { nodes.push(atom_pool(r)); continue; }
        let len = nodes.len() as u64;
        // `share` recent nodes: small windows give deep, heavily shared DAGs
        let pickc = |r: &mut Rng| -> usize {
            if r.chance(2, 3) { (len - 1 - r.below(std::cmp::min(len, share))) as usize } else { r.below(len) as usize }
        };
        let (i, j) = (pickc(r), pickc(r));
        nodes.push(Nd::P(i, j));
    }
    nodes
}

fn random_ops(r: &mut Rng, nodes: &[Nd], nops: usize, chunks: usize) -> Vec<OpK> {
    let (sz, dp) = measures(nodes);
    let sl = ser_len(nodes);
    let n = nodes.len();
    let mut ops = vec![];
    // allocation schedule
    let mut allocated = n;
    let mut cuts: Vec<usize> = vec![];
    if chunks > 1 {
        for _ in 0..chunks - 1 { cuts.push(1 + r.below(n as u64 - 1) as usize); }
        cuts.sort(); cuts.dedup();
        allocated = cuts[0];
        ops.push(OpK::G(allocated));
    }
    let mut next_cut = 1;
    let per = std::cmp::max(1, nops / std::cmp::max(1, chunks));
    let mut fav: Vec<usize> = vec![];
    for k in 0..nops {
        if chunks > 1 && k > 0 && k % per == 0 && allocated < n {
            allocated = if next_cut < cuts.len() { cuts[next_cut] } else { n };
            next_cut += 1;
            ops.push(OpK::G(allocated));
            fav.clear();
        }
        // roots: mostly the newest nodes and repeats of earlier roots
        let i = if !fav.is_empty() && r.chance(1, 3) { *r.pick(&fav) }
                else if r.chance(1, 2) { allocated - 1 - r.below(std::cmp::min(allocated as u64, 3)) as usize }
                else { r.below(allocated as u64) as usize };
        fav.push(i);
        let small = sz[i] <= 20_000 && sl[i] < 1_900_000;
        let op = match r.below(16) {
            0..=5 => OpK::H(i),
            6..=7 => OpK::V(i),
            8..=9 => OpK::T(i),
            10 => if small { OpK::B(i) } else { OpK::H(i) },
            11..=12 => OpK::R(i),
            13 => if small && dp[i] < 300 { OpK::E(i) } else { OpK::T(i) },
            _ => {
                let na = r.below(7) as usize;
                let args: Vec<usize> = (0..na).map(|_| r.below(allocated as u64) as usize).collect();
                if sz[i] <= 3000 && dp[i] < 300 && args.iter().all(|x| sz[*x] <= 3000 && dp[*x] < 300) { OpK::C(i, args) } else { OpK::H(i) }
            }
        };
        ops.push(op);
    }
    if chunks > 1 && allocated < n { ops.push(OpK::G(n)); ops.push(OpK::H(n - 1)); }
    ops
}

fn path_enc(p: &[u8]) -> Vec<u8> {
    // a path is written like an atom
    if p.is_empty() { return vec![0x80]; }
    if p.len() == 1 && p[0] < 0x80 { return p.to_vec(); }
    let mut v = vec![0x80 | p.len() as u8];
    v.extend(p);
    v
}

pub fn run(o: &mut Out, seed: u64, thorough: bool, replay: Option<Vec<String>>) {
    if let Some(lines) = replay {
        for l in lines { replay_line(o, &l); }
        return;
    }
    let memo_dbg = std::env::var("VERIF_C17_MEMO").is_ok();
    let mut r = Rng::new(seed);
    // 1. the table itself
    for i in 0..PRECOMPUTED_HASHES.len() { pre_case(o, i); }

    // 2. atoms 0..40 and neighbours of every representation boundary, in every representation
    let all5 = |i: usize| vec![OpK::T(i), OpK::H(i), OpK::B(i), OpK::R(i), OpK::E(i), OpK::H(i)];
    let mut vals: Vec<u64> = (0..=40).collect();
    vals.extend([0x7e, 0x7f, 0x80, 0x81, 0xff, 0x100, 0x7fff, 0x8000, 0x7fffff, 0x800000, (1 << 26) - 1, 1 << 26, (1 << 26) + 1, 0x7fffffff, 0x80000000, 0xffffffff, u64::MAX]);
    for v in &vals {
        let c = canon(*v);
        let mut reps: Vec<Nd> = vec![Nd::A(c.clone()), Nd::L(c.clone())];
        if *v < (1 << 26) { reps.push(Nd::S(*v as u32)); }
        for pad in 1..=2usize { let mut b = vec![0u8; pad]; b.extend(&c); reps.push(Nd::A(b.clone())); reps.push(Nd::L(b)); }
        if *v < 256 { reps.push(Nd::A(vec![*v as u8])); }
        for rep in reps {
            heap_case(o, &[rep.clone()], &all5(0));
            // inside pairs, shared, next to the other representation
            heap_case(o, &[rep.clone(), Nd::A(c.clone()), Nd::P(0, 1), Nd::P(0, 0), Nd::P(2, 3)],
                      &[OpK::H(4), OpK::T(4), OpK::B(4), OpK::R(4), OpK::E(4), OpK::H(2), OpK::H(3), OpK::C(0, vec![1, 2])]);
        }
    }
    for a in 0..=255u8 { heap_case(o, &[Nd::A(vec![a])], &[OpK::T(0), OpK::H(0), OpK::B(0)]); }

    // 3. deep trees (the Rust routines are iterative; the Lean machines are tail-recursive loops; the
    //    driver's recursive reference functions are only used below 40 000 nodes)
    let depths: Vec<usize> = if thorough { vec![2000, 2500, 6000, 15000] } else { vec![2000, 3000] };
    for (k, d) in depths.iter().enumerate() {
        for shape in 0..3 {
            if !thorough && k > 0 && shape > 0 { continue; }
            let mut nodes = vec![Nd::A(vec![]), Nd::A(canon(7)), Nd::A(r.bytes(32))];
            let mut top = 0usize;
            for lvl in 0..*d {
                let leaf = 1 + (lvl % 2);
                let left = match shape { 0 => false, 1 => true, _ => lvl % 3 == 0 };
                nodes.push(if left { Nd::P(top, leaf) } else { Nd::P(leaf, top) });
                top = nodes.len() - 1;
            }
            let mid = 3 + d / 2;
            let mut ops = vec![OpK::T(top), OpK::H(top), OpK::H(top), OpK::V(mid), OpK::H(mid), OpK::R(top), OpK::H(top)];
            if *d <= 3000 { ops.push(OpK::B(top)); }
            if memo_dbg { ops.push(OpK::M); }
            heap_case(o, &nodes, &ops);
        }
    }

    // 4. DAGs with exponentially many paths
    let max_k = if thorough { 22 } else { 20 };
    for k in [1usize, 2, 3, 5, 8, 12, 16, max_k] {
        // doubling chain: 2^k paths to the leaf
        let mut nodes = vec![Nd::A(canon(k as u64)), Nd::A(r.bytes(if k > 12 { 2 } else { 32 })), Nd::P(0, 1)];
        for _ in 0..k { let t = nodes.len() - 1; nodes.push(Nd::P(t, t)); }
        let top = nodes.len() - 1;
        let mut ops = vec![OpK::H(top), OpK::T(top), OpK::R(top), OpK::H(top - 1), OpK::H(top), OpK::V(top), OpK::H(2)];
        if ser_len(&nodes)[top] < 1_900_000 { ops.push(OpK::B(top)); }
        if k <= 8 { ops.push(OpK::E(top)); ops.push(OpK::C(top, vec![top - 1, 0])); }
        if memo_dbg { ops.push(OpK::M); }
        heap_case(o, &nodes, &ops);
        // hash the inner nodes first / pre-visit in another order / cache used before the top exists
        let mut ops2 = vec![OpK::G(top), OpK::V(2), OpK::H(top - 1), OpK::V(top - 1), OpK::G(top + 1), OpK::H(top), OpK::T(top), OpK::H(top)];
        if memo_dbg { ops2.push(OpK::M); }
        heap_case(o, &nodes, &ops2);
    }
    // a doubling chain with more shared pairs than any plausible fixed memo capacity (thorough tier: the model
    // hashes every level once): early levels are looked up again after all later ones were memoized
    if thorough {
        let k = 70_000usize;
        let mut nodes = vec![Nd::A(canon(7)), Nd::A(r.bytes(2)), Nd::P(0, 1)];
        for _ in 0..k { let t = nodes.len() - 1; nodes.push(Nd::P(t, t)); }
        let top = nodes.len() - 1;
        let ops = vec![OpK::H(top), OpK::H(top / 2), OpK::H(10), OpK::V(top), OpK::H(top), OpK::H(3), OpK::H(top / 2 + 1), OpK::H(top)];
        heap_case(o, &nodes, &ops);
    }
    for k in [5usize, 10, 20, 30] {
        // Fibonacci DAG
        let mut nodes = vec![Nd::A(canon(1)), Nd::A(canon(2))];
        for i in 0..k { nodes.push(Nd::P(i + 1, i)); }
        let top = nodes.len() - 1;
        let mut ops = vec![OpK::V(top), OpK::V(top - 1), OpK::H(top), OpK::R(top), OpK::H(top - 1)];
        if k <= 20 { ops.push(OpK::T(top)); ops.push(OpK::B(top)); }
        if memo_dbg { ops.push(OpK::M); }
        heap_case(o, &nodes, &ops);
    }

    // 5. random heaps: sequences of 1-30 operations through one cache, repeated roots, pre-visits,
    //    allocation interleaved with cache use
    let nrand = if thorough { 6000 } else { 220 };
    for c in 0..nrand {
        let n = match c % 5 { 0 => r.range(2, 8), 1 => r.range(8, 30), 2 => r.range(30, 80), 3 => r.range(10, 40), _ => r.range(3, 60) } as usize;
        let share = match c % 4 { 0 => 2, 1 => 3, 2 => 6, _ => 1000 };
        let nodes = random_heap(&mut r, n, share);
        let nops = r.range(1, 30) as usize;
        let chunks = if nodes.len() > 3 && r.chance(1, 2) { r.range(2, 4) as usize } else { 1 };
        let mut ops = random_ops(&mut r, &nodes, nops, chunks);
        if memo_dbg { ops.push(OpK::M); }
        heap_case(o, &nodes, &ops);
    }

    // 6. byte strings: handcrafted back-references into the parse stack, then damaged real encodings
    let mut paths: Vec<Vec<u8>> = vec![vec![]];
    for p in 0..=255u8 { paths.push(vec![p]); }
    for p in [[0u8, 0], [0, 1], [0, 5], [1, 0], [1, 1], [2, 0], [3, 0xff], [0x80, 0], [0xff, 0xff], [0, 0x80], [1, 0x55], [5, 0xaa]] { paths.push(p.to_vec()); }
    paths.push(vec![0, 0, 0]); paths.push(vec![0, 0, 6]); paths.push(vec![1, 0, 0]);
    let prefixes: Vec<Vec<u8>> = vec![
        vec![],                                                       // reference into the empty stack
        vec![0xff, 0x05],                                             // (5 . <ref>)
        vec![0xff, 0xff, 0x05, 0x06],                                 // ((5 . 6) . <ref>)
        vec![0xff, 0x05, 0xff, 0x06],                                 // (5 . (6 . <ref>))
        vec![0xff, 0x05, 0xff, 0xff, 0x06, 0x07],                     // (5 . ((6 . 7) . <ref>))
        vec![0xff, 0xff, 0x05, 0xff, 0x06, 0x07, 0xff, 0x08],         // ((5 . (6 . 7)) . (8 . <ref>))
        vec![0xff, 0x05, 0xff, 0x06, 0xff, 0xfe, 0x01],               // two references: (5 . (6 . (<stack> . <ref>)))
        vec![0xff, 0x05, 0xff, 0xfe, 0x01, 0xff, 0x06],               // cached stack list, then a deeper stack
        vec![0xff, 0xff, 0x85, 0x01, 0x02, 0x03, 0x04, 0x05, 0xff, 0x01, 0x80],
    ];
    for pre in &prefixes {
        for p in &paths {
            let mut b = pre.clone(); b.push(0xfe); b.extend(path_enc(p));
            bytes_case(o, &b);
            // and once more followed by a second reference to the whole stack
            if p.len() == 1 && (p[0] < 16 || p[0] % 16 == 1) {
                let mut b2 = vec![0xff]; b2.extend(&b); b2.push(0xfe); b2.push(0x01);
                bytes_case(o, &b2);
            }
        }
    }
    // every string of length ≤ 2; longer ones over a small alphabet
    for x in 0..=255u8 { bytes_case(o, &[x]); }
    for x in 0..=255u8 { for y in 0..=255u8 { if thorough || x >= 0x80 || y == 0xfe || y < 4 { bytes_case(o, &[x, y]); } } }
    let alpha = [0x00u8, 0x01, 0x02, 0x03, 0x17, 0x18, 0x7f, 0x80, 0x81, 0x82, 0xc0, 0xfe, 0xff];
    for _ in 0..(if thorough { 200_000 } else { 12_000 }) {
        let n = r.range(3, 12) as usize;
        let b: Vec<u8> = (0..n).map(|_| if r.chance(1, 3) { 0xff } else if r.chance(1, 4) { 0xfe } else { *r.pick(&alpha) }).collect();
        bytes_case(o, &b);
    }
    // real compressed encodings, damaged at one point
    for c in 0..(if thorough { 3000 } else { 300 }) {
        let nn = r.range(4, 40) as usize;
        let nodes = random_heap(&mut r, nn, if c % 2 == 0 { 3 } else { 1000 });
        let (sz, _) = measures(&nodes);
        let top = nodes.len() - 1;
        if sz[top] > 50_000 { continue; }
        let mut a = Allocator::new();
        let mut ptrs = vec![];
        for n in &nodes { let p = alloc_node(&mut a, &ptrs, n); ptrs.push(p); }
        let good = node_to_bytes_backrefs(&a, ptrs[top]).unwrap();
        bytes_case(o, &good);
        for _ in 0..6 {
            let mut b = good.clone();
            match r.below(4) {
                0 => { let i = r.below(b.len() as u64) as usize; b[i] = r.next() as u8; }
                1 => { let i = r.below(b.len() as u64) as usize; b[i] ^= 1 << r.below(8); }
                2 => { b.truncate(r.below(b.len() as u64) as usize); }
                _ => { let i = r.below(b.len() as u64) as usize; b.insert(i, *r.pick(&[0xfeu8, 0xff, 0x01, 0x80])); }
            }
            bytes_case(o, &b);
        }
    }
    let _ = tree_hash_pair; // (re-exported helper; exercised through every pair above)
}
