//! C03: lock-heavy bundles through parse_spends, then check_time_locks against generated chain states.
use crate::cond::*;
use crate::out::Out;
use crate::prng::Rng;
use chia_consensus::check_time_locks::check_time_locks;
use chia_consensus::validation_error::ErrorCode;
use chia_protocol::{Bytes32, Coin, CoinRecord};
use std::collections::HashMap;

const HEIGHTS: [u64; 10] = [0, 1, 2, 100, 0x7fff_ffff, 0x8000_0000, 0xffff_fffd, 0xffff_fffe, 0xffff_ffff, 1000];
const SECONDS: [u64; 11] = [0, 1, 2, 1000, 0xffff_ffff, 0x1_0000_0000, 0x7fff_ffff_ffff_ffff, 0x8000_0000_0000_0000, u64::MAX - 2, u64::MAX - 1, u64::MAX];

fn run_one(flags: u32, nowrap: bool, prev: u32, ts: u64, recs: &[([u8; 32], u32, u64)], tree_bytes: &[u8]) -> String {
    match run_parse_owned(false, flags, 11_000_000_000, 0, tree_bytes) {
        Err(e) => e,
        Ok(Err(e)) => err_s(&e).replace("REJECT cost", "REJECT ~CostExceeded"),
        Ok(Ok(c)) => {
            let mut map = HashMap::<Bytes32, CoinRecord>::new();
            for (id, h, t) in recs {
                let coin = Coin::new(Bytes32::new([0; 32]), Bytes32::new([0; 32]), 0);
                map.insert(Bytes32::new(*id), CoinRecord::new(coin, *h, 0, false, *t));
            }
            match check_time_locks(&map, &c, prev, ts, nowrap) {
                Ok(()) => "LOCKS ok".to_string(),
                Err(e) => { let k: ErrorCode = e.error_code(); format!("LOCKS fail ~{k:?}") }
            }
        }
    }
}

fn emit(o: &mut Out, flags: u32, nowrap: bool, prev: u32, ts: u64, recs: &[([u8; 32], u32, u64)], t: &T) {
    let bytes = to_bytes(t);
    let rs = if recs.is_empty() { "-".to_string() } else {
        recs.iter().map(|(id, h, tt)| format!("{}:{}:{}", hex::encode(id), h, tt)).collect::<Vec<_>>().join(",") };
    let mut pks = vec![]; valid_pks(t, &mut pks);
    let pk_s = if pks.is_empty() { "-".to_string() } else { pks.iter().map(hex::encode).collect::<Vec<_>>().join(",") };
    let line = format!("C03 {} {} {} {} {} {} {}", flags, nowrap as u8, prev, ts, rs, pk_s, hex::encode(&bytes));
    o.begin(&line);
    let b2 = bytes.clone(); let r2 = recs.to_vec();
    let res = std::panic::catch_unwind(move || run_one(flags, nowrap, prev, ts, &r2, &b2)).unwrap_or("PANIC".to_string());
    o.case(&line, &res);
}

fn replay_line(o: &mut Out, l: &str) {
    let t: Vec<&str> = l.split_whitespace().collect();
    let recs: Vec<([u8; 32], u32, u64)> = if t[5] == "-" { vec![] } else { t[5].split(',').map(|e| {
        let p: Vec<&str> = e.split(':').collect();
        (hex::decode(p[0]).unwrap().try_into().unwrap(), p[1].parse().unwrap(), p[2].parse().unwrap()) }).collect() };
    let bytes = hex::decode(t[7]).unwrap();
    let (flags, nowrap, prev, ts): (u32, bool, u32, u64) = (t[1].parse().unwrap(), t[2] == "1", t[3].parse().unwrap(), t[4].parse().unwrap());
    let res = std::panic::catch_unwind(move || run_one(flags, nowrap, prev, ts, &recs, &bytes)).unwrap_or("PANIC".to_string());
    o.case(l, &res);
}

fn lock_arg(r: &mut Rng, seconds: bool) -> T {
    match r.below(20) {
        0 => at(&[0x80]), 1 => at(&[0xff, 0xff]),                 // negative
        2 => if seconds { at(&[1, 0, 0, 0, 0, 0, 0, 0, 0]) } else { at(&[1, 0, 0, 0, 0]) }, // oversized
        3 => at(&[0, 1]),                                          // redundant zero
        _ => int(if seconds { *r.pick(&SECONDS) } else { *r.pick(&HEIGHTS) }),
    }
}

pub fn run(o: &mut Out, seed: u64, thorough: bool, replay: Option<Vec<String>>) {
    if let Some(lines) = replay { for l in lines { replay_line(o, &l); } return; }
    let p = pools();
    let mut r = Rng::new(seed ^ 0xc03);
    // ephemeral sweep: every lock/birth opcode x argument class (in range, zero, negative, oversized)
    // x {alone, before an in-range relative lock, after one}, on a coin created in the same bundle and
    // on an ordinary coin
    {
        let parent0 = SpendG { parent: p.ids[0], ph: p.ids[1], amount: 10, conds: vec![], term: nil() };
        for op in [80u8, 81, 82, 83, 84, 85, 86, 87, 74, 75] {
            let seconds = matches!(op, 80 | 81 | 84 | 85 | 74);
            let args: Vec<T> = vec![int(5), nil(), at(&[0x80]), at(&[0xff, 0xff]),
                if seconds { at(&[1, 0, 0, 0, 0, 0, 0, 0, 0]) } else { at(&[1, 0, 0, 0, 0]) }, int(0xffff_ffff)];
            for arg in &args { for shape in 0..3 { for ephemeral in [true, false] { for flags in [F_DONT_VALIDATE, F_DONT_VALIDATE | F_COST | F_STRICT] {
                let mut child = SpendG { parent: if ephemeral { parent0.coin_id() } else { p.ids[2] }, ph: p.ids[3], amount: 4, conds: vec![], term: nil() };
                let c = pair(at(&[op]), list(vec![arg.clone()], nil()));
                let real = pair(at(&[82]), list(vec![int(3)], nil()));
                child.conds = match shape { 0 => vec![c], 1 => vec![c, real], _ => vec![real, c] };
                let mut par = parent0.clone();
                par.conds.push(pair(at(&[51]), list(vec![at(&child.ph), int(child.amount)], nil())));
                // both listings: parent first, and child first (spends of a bundle are unordered)
                for child_first in [false, true] {
                    let pt = list(vec![at(&par.parent), at(&par.ph), int(par.amount), list(par.conds.clone(), nil())], nil());
                    let ct = list(vec![at(&child.parent), at(&child.ph), int(child.amount), list(child.conds.clone(), nil())], nil());
                    let t = pair(list(if child_first { vec![ct, pt] } else { vec![pt, ct] }, nil()), nil());
                    let recs = vec![(par.coin_id(), 100u32, 1000u64), (child.coin_id(), 100u32, 1000u64)];
                    emit(o, flags, true, 200, 2000, &recs, &t);
                }
            }}}}
        }
    }
    let n = if thorough { 400_000 } else { 40_000 };
    for _ in 0..n {
        let ns = r.range(1, 3) as usize;
        let mut sp: Vec<SpendG> = vec![];
        for i in 0..ns {
            let mut s = SpendG { parent: *r.pick(&p.ids), ph: *r.pick(&p.ids), amount: r.below(3), conds: vec![], term: nil() };
            if i > 0 && r.chance(1, 8) { s.parent = sp[0].coin_id(); } // ephemeral candidate
            let k = match r.below(8) { 0 => 0, 1..=4 => r.range(1, 2), _ => r.range(3, 5) };
            for _ in 0..k {
                let op = *r.pick(&[80u8, 81, 82, 83, 84, 85, 86, 87, 74, 75]);
                let seconds = matches!(op, 80 | 81 | 84 | 85 | 74);
                let arg = lock_arg(&mut r, seconds);
                s.conds.push(pair(at(&[op]), list(vec![arg], nil())));
            }
            if r.chance(1, 10) { let c = gen_cond(&mut r, &p, &s.clone(), &[s.clone()]); s.conds.push(c); }
            sp.push(s);
        }
        if ns > 1 && r.chance(1, 10) { // parent creates the child so that it is ephemeral
            let c = pair(at(&[51]), list(vec![at(&sp[1].ph), int(sp[1].amount)], nil()));
            if sp[1].parent == sp[0].coin_id() { sp[0].conds.push(c); sp[0].amount = 2; }
        }
        let t = bundle_tree(&mut r, &sp);
        let flags = F_DONT_VALIDATE | (if r.chance(1, 4) { F_STRICT } else { 0 }) | (if r.chance(1, 2) { F_COST } else { 0 });
        // chain states chosen around the locks' own thresholds
        for _ in 0..(if thorough { 3 } else { 2 }) {
            let mut recs = vec![];
            for s in &sp {
                if r.chance(1, 25) { continue; } // missing record
                recs.push((s.coin_id(), *r.pick(&HEIGHTS) as u32, *r.pick(&SECONDS)));
            }
            let base_h = if recs.is_empty() { 0 } else { recs[0].1 as u64 };
            let base_s = if recs.is_empty() { 0 } else { recs[0].2 };
            let dh = *r.pick(&HEIGHTS); let ds = *r.pick(&SECONDS);
            let prev = match r.below(4) { 0 => *r.pick(&HEIGHTS), _ => (base_h + dh).min(u32::MAX as u64).wrapping_add(r.below(3)).wrapping_sub(1) & 0xffff_ffff } as u32;
            let ts = match r.below(4) { 0 => *r.pick(&SECONDS), _ => base_s.saturating_add(ds).wrapping_add(r.below(3)).wrapping_sub(1) };
            emit(o, flags, !r.chance(1, 6), prev, ts, &recs, &t);
        }
    }
}
