"""Per-property registry: theorems (proof obligations), translator extractors, lake targets,
what counts as a trivial case, and the trusted base.  bin/check reads this."""

STD_TRUST = [
    "Lean 4.33.0 kernel; axioms limited to propext, Classical.choice, Quot.sound (audited per theorem via #print axioms)",
    "translator/extract.py renders Rust tables/ladders as Lean definitions (cross-checked by running them against the Rust functions)",
    "harness (vharness) + bin/check diff: implementation = model only on the cases run",
    "Lean compiler for the model driver (chiadrv); not used inside any proof",
]

PROPS = {
    "C11": {
        "extractors": ["ladders"],
        "extra": "ladders.thresholds",
        "theorems": [
            "ChiaModel.C11.canonNat_spec", "ChiaModel.C11.u64ToBytes_canon", "ChiaModel.C11.coinIdAmount_canon",
            "ChiaModel.C11.encoders_agree", "ChiaModel.C11.clvmBytesLen_ok", "ChiaModel.C11.sanitizeUint_ok",
            "ChiaModel.C11.sanitizeUint_complete", "ChiaModel.C11.sanitizeUint_neg", "ChiaModel.C11.sanitizeUint_err",
            "ChiaModel.C11.sanitizeUint_pos", "ChiaModel.C11.encodeNumber_nonneg",
            "ChiaModel.C11.canon_unique", "ChiaModel.C11.sanitizeUint_canon",
        ],
        "gen_theorems": ["ChiaModel.C11.u64ToBytes_canon", "ChiaModel.C11.coinIdAmount_canon", "ChiaModel.C11.clvmBytesLen_ok"],
        "level_text": "Proof: the three threshold ladders (u64_to_bytes, Coin::coin_id amount, clvm_bytes_len) are regenerated from the Rust source on every run and proved equal to the canonical minimal two's-complement form for every v < 2^64; sanitize_uint is proved to accept exactly the canonical atoms that fit the width and to classify the rest (negative / redundant zero / positive overflow) without truncation; encode_number proved canonical for non-negative inputs. Loop-based codecs are hand models tied to the code by differential correspondence on boundary-exhaustive inputs.",
        "level_note": "Trusted: Lean kernel + 3 standard axioms; the translator (cross-checked by running Gen definitions against the Rust functions at every threshold ±2); implementation = model only on the cases run for encode_number/decode_number/sanitize_uint; clvmr new_number external. Open (correspondence only): encode_number on negative inputs, decode_number.",
        "trivial": r"^(none|bad-op|ok)$",
        "rule": "u64 at every byte-class boundary ±2 and random per bit-length; typed ints at both ends and every power of two of all ten widths; "
                "all atoms of length ≤ 2 (≤ 3 with boundary lead byte in thorough) and structured atoms up to 20 bytes with leading bytes in {00,01,7f,80,ff}, "
                "64-byte padding budget runs; each through u64_to_bytes, Coin::coin_id, calculate_generator_length, clvmr new_number, ToClvm/FromClvm, "
                "encode_number, decode_number<1,2,4,8,16>, sanitize_uint; non-trivial = distinct case whose result is not `none`",
        "trusted": ["clvmr Allocator::new_number (external crate) is compared with canonNat on every u64 case, not verified",
                    "open statements (not claimed as theorems yet): encode_number for negative inputs, decode_number value/padding — correspondence only"],
    },
    "C01": {
        "extractors": ["ladders", "opcodes", "flags", "constants"],
        "harness": "C01",
        "theorems": ["ChiaModel.C01.opcode_whitelist", "ChiaModel.C01.opcode_constants", "ChiaModel.C01.parseOpcode_spec",
                     "ChiaModel.C01.validateConditions_iff"],
        "gen_theorems": ["ChiaModel.C01.opcode_whitelist", "ChiaModel.C01.opcode_constants"],
        "open": ["C01_refines: parseSpends = ok s <-> Accepts (order-free declarative rules) and s = summary (DESIGN 6, C01) - the per-condition argument grammar and the per-spend folds are so far tied to the rules only through the executable model's own definitions"],
        "trivial": r"^(REJECT|bad-op|bad-tree)",
        "level": "other",
        "rule": "generator-output trees through parse_spends<EmptyVisitor|MempoolVisitor>: (a) single-condition sweep: every one-byte opcode 0..255, 30 two-byte opcodes, empty and 3-byte opcode x 32 argument-list shapes x 4 (quick) / 16 (thorough) flag subsets; (b) random bundles of 0-6 spends from pools of 6 ids / 18 amounts / 9 messages / 3 valid + 3 invalid keys, 0-14 conditions per spend over all 35 opcodes plus unknown, with per-argument shape damage (missing, extra, pair-for-atom, non-nil terminator, 31/33-byte hashes, 1025-byte messages, negative / redundant-zero / 2^32 / 2^64 integers), engineered matching announcements, messages, ephemeral parents, double spends, singleton-shaped spends; random flag subsets of {DONT_VALIDATE_SIGNATURE, NO_UNKNOWN_CONDS, STRICT_ARGS_COUNT, COST_CONDITIONS, LIMIT_SPENDS}, both visitors, cost limits small and large; (c) 5999/6000/6001 spends with and without LIMIT_SPENDS. non-trivial = distinct accepted case",
        "level_text": "Model + correspondence + partial proofs. A complete executable Lean model of parse_spends (argument grammar of all 35 opcodes, two-byte opcodes, sanitizers, per-spend folds, both visitors, deferred validation, cost countdown) is compared with the real parse_spends on every generated tree: verdict (accept / reject / cost-exceeded) and the full OwnedSpendBundleConditions summary. Proved in Lean: the opcode whitelist extracted from the source equals the documented set; parse_opcode's recognition rule; validate_conditions accepts iff the declarative cross-spend predicates hold (matching announcement / concurrent spend / ephemeral / message counterparts). The full refinement of the parser to an order-free declarative rule set is still open, hence level `other`, not `proof`.",
        "level_note": "Trusted: Lean kernel (for the proved part); hand model = code only on the cases run; blst key validity enters as a per-case oracle (list of valid keys computed by the harness with chia_bls); signature offered is the identity, so BLS verification reduces to `no pairs collected`.",
        "technique": "Lean 4 executable model + differential correspondence; Lean theorems for opcode recognition and deferred validation",
    },
    "C02": {
        "extractors": ["ladders", "opcodes", "flags", "constants"],
        "harness": "C02",
        "theorems": ["ChiaModel.C02.conservation", "ChiaModel.C02.accepted_invariants", "ChiaModel.C11.canon_unique",
                     "ChiaModel.C11.coinIdAmount_canon"],
        "gen_theorems": ["ChiaModel.C11.coinIdAmount_canon"],
        "open": ["puzzle hash = tree hash of the revealed puzzle for run_block_generator2 / run_spendbundle (needs the native-loop model of C07/C08)"],
        "trivial": r"^(REJECT|bad-op|bad-tree)",
        "rule": "C01's generator biased to value flow: amounts from {0,1,2^32,2^63,2^64-1,...} so sums cross 2^64, many CREATE_COINs per spend with repeated (puzzle hash, amount), repeated coins, RESERVE_FEE near the excess; on every accepted implementation result the harness additionally asserts the five facts directly (totals are sums, fee+additions<=removals, distinct coin ids, distinct outputs per spend, coin id = sha256(parent|ph|canonical amount) computed independently) and marks the line if one fails. non-trivial = distinct accepted case",
        "level_text": "Proof: for every tree whose atoms are byte strings, every flag set, both visitors and every cost limit, an accepting run of the parse_spends model satisfies: additions + reserve fee <= removals; removal/addition totals and the condition cost are the sums over the listed spends and created coins; coin ids pairwise distinct; no spend creates two coins with equal (puzzle hash, amount); every coin id = SHA-256(parent | puzzle hash | minimal big-endian amount). Proved by induction over the spend and condition loops with a bundle invariant (unbounded sizes, Nat arithmetic so no wrap-around is assumed away: amounts are < 2^64 by the sanitizer theorem). The model is tied to the code by correspondence on generated trees.",
        "level_note": "Trusted: Lean kernel + standard axioms; model = code only on the cases run (summary fields incl. coin ids and totals are compared on every case); u128 accumulators of the Rust code are modelled as unbounded Nat - overflow would need > 2^64 spends. Entry points other than parse_spends reach the same process_single_spend; their own loops are covered under C07/C08.",
    },
    "C03": {
        "extractors": ["ladders", "opcodes", "flags", "constants"],
        "theorems": ["ChiaModel.C03.locks_iff", "ChiaModel.C03.check_iff_core", "ChiaModel.C03.lock_refused_only_if_unsat",
                     "ChiaModel.C03.abs_height_refused_only_if_unsat", "ChiaModel.C03.abs_seconds_refused_only_if_unsat",
                     "ChiaModel.TL.applyCond_locks", "ChiaModel.TL.condLoop_locks", "ChiaModel.TL.spendLoop_locks"],
        "open": ["ephemeral rule as a theorem: a spend carrying a relative or birth condition (incl. negative relative ones) whose parent is spent in the bundle and created it is rejected - currently covered by validateConditions_iff (C01) plus correspondence only"],
        "trivial": r"^(REJECT|bad-op|bad-tree)",
        "rule": "bundles of 1-3 spends with 0-5 lock/birth conditions each over all ten kinds, arguments from {0,1,2,100,2^31-1,2^31,2^32-3..2^32-1} (heights) and {0,1,2,1000,2^32-1,2^32,2^63-1,2^63,2^64-3..2^64-1} (seconds) plus negative / oversized / redundant-zero atoms; coin records with confirmation height and timestamp from the same pools (4% missing); previous height / timestamp drawn around record+lock thresholds (-1/0/+1, saturating) so equality boundaries and saturation are hit; 5/6 in the saturating mode (property), 1/6 legacy wrapping (correspondence only). non-trivial = distinct case that reached check_time_locks",
        "level_text": "Proof: locks_iff - for every accepted generator output, flag set, coin-record map and chain state, check_time_locks (saturating mode) succeeds iff every spend has a record and every individual ASSERT_{HEIGHT,SECONDS}_{RELATIVE,ABSOLUTE}, ASSERT_BEFORE_* and ASSERT_MY_BIRTH_* assertion holds by its arithmetic definition with saturating sums. Proved by an invariant (max / min / common value of the individual arguments; 0 neutral for absolute) carried through the condition and spend loops of the parse_spends model, then monotonicity of saturating addition. lock_refused_only_if_unsat / abs_*_refused_only_if_unsat: a constraint is refused as impossible at parse time only when an earlier assertion contradicts it in every chain state. The driver prints the per-assertion verdict, so a disagreement with the implementation is a counterexample to the property.",
        "level_note": "Trusted: Lean kernel + standard axioms; parse_spends and check_time_locks models = code only on the cases run. The legacy wrapping mode is modelled and compared but no theorem is claimed for it (the property excludes it). The ephemeral rule is not yet a theorem (see open_statements).",
    },
    "C04": {
        "extractors": ["ladders", "opcodes", "flags", "constants"],
        "harness": "C04",
        "theorems": ["ChiaModel.C04.limit_exact", "ChiaModel.C04.cost_le_limit", "ChiaModel.C04.cost_is_table_sum",
                     "ChiaModel.C04.table_values", "ChiaModel.C04.preCharge_table", "ChiaModel.C04.unknown_cost_closed_form",
                     "ChiaModel.C04.unknown_cost_fn"],
        "gen_theorems": ["ChiaModel.C04.table_values", "ChiaModel.C04.unknown_cost_closed_form", "ChiaModel.C04.unknown_cost_fn"],
        "open": ["byte cost / CLVM execution cost / interned-size cost bookkeeping of run_block_generator(2) and run_spendbundle (external CLVM cost values): built with C07/C08"],
        "trivial": r"^(REJECT|bad-op|bad-tree)$",
        "rule": "C01's generator with cost emphasis: every accepted case is re-run at limit = reported cost (must accept with the identical summary) and at cost-1 (must fail with cost-exceeded); all 65 536 opcodes through compute_unknown_condition_cost; SOFTFORK arguments {0,1,2^32-1,2^32}; COST_CONDITIONS on/off. non-trivial = distinct accepted case or distinct non-zero table slot",
        "level_text": "Proof: (1) limit_exact - for every tree, flags and limit L, if the parse_spends model accepts reporting cost c then c <= L, it accepts with the identical result at limit c, and at every limit below c it fails with cost-exceeded (compositional `Shift` lemma over all guarded subtractions; unbounded). (2) cost_is_table_sum - the reported cost, the condition-cost sub-total and the per-spend condition costs equal the sums prescribed by the cost table (per-spend charge + per-condition pre-charge + SOFTFORK/two-byte extra). (3) the table constants regenerated from opcodes.rs have the documented values and the 256-slot two-byte table equals trunc3(100*17^k/16^k) (kernel computation over exact arithmetic).",
        "level_note": "Trusted: Lean kernel + standard axioms; translator for the constants and the const-fn table algorithm (pinned skeleton, re-evaluated; cross-checked against compute_unknown_condition_cost on all 65 536 opcodes every run); model = code on the cases run. CLVM execution cost and byte cost are outside parse_spends and not covered by these theorems yet.",
    },
}
