"""Per-property registry: theorems (proof obligations), translator extractors, lake targets,
what counts as a trivial case, and the trusted base.  bin/check reads this."""

STD_TRUST = [
    "Lean 4.33.0 kernel; axioms limited to propext, Classical.choice, Quot.sound (audited per theorem via #print axioms)",
    "translator/extract.py renders Rust tables/ladders as Lean definitions (cross-checked by running them against the Rust functions)",
    "harness (vharness) + bin/check diff: implementation = model only on the cases run",
    "Lean compiler for the model driver (chiadrv); not used inside any proof",
]

PROPS = {
    "C05": {
        "extractors": ["ladders", "opcodes", "flags", "constants"],
        "theorems": ["ChiaModel.C05.distinct_consts", "ChiaModel.C05.opcode_values", "ChiaModel.C05.suffix_eq_spec",
                     "ChiaModel.C05.finalMessage_spec", "ChiaModel.C05.domain_separation", "ChiaModel.C05.unsafe_separated",
                     "ChiaModel.C05.pairs_spec", "ChiaModel.C05.sig_needed", "ChiaModel.C05.sig_sufficient", "ChiaModel.C05.bad_key_rejected"],
        "gen_theorems": ["ChiaModel.C05.distinct_consts", "ChiaModel.C05.opcode_values", "ChiaModel.C05.suffix_eq_spec", "ChiaModel.C05.finalMessage_spec"],
        "open": ["BLS-level statements (valid exactly for the multiset of prescribed pairs; cache independence) are theorems of the ideal-BLS model of C15; here the verdict of blst enters as the oracle `sigOk`, instantiated in the driver by multiset equality between the pairs the model collects and the pairs the harness actually signed"],
        "trivial": r"^plain=REJECT",
        "rule": "bundles of 1-3 spends whose puzzles are quoted condition lists, 0-3 AGG_SIG conditions each over all 8 opcodes, 4 keys, amounts from all 10 encoding-length classes, messages incl. ones ending in a domain constant and an infinity-key condition; the harness computes the prescribed texts independently, signs them with its own keys (real blst) and offers the honest aggregate plus every single-point tampering (pair missing, pair twice, one text bit, other key, another opcode's constant, amount+1, parent bit, unrelated text, a non-aggregate signature); verdicts of parse_spends without cache / cold cache / warm 3-entry cache and of validate_clvm_and_signature; make_aggsig_final_message for 9 opcodes x 14 amounts x 3 messages byte for byte. non-trivial = distinct accepted case or final-message case",
        "level_text": "Proof (of everything that is logic of /repo): pairs_spec - for every accepted generator output the list handed to BLS verification is exactly, in order, (key, message | suffix) for each AGG_SIG condition; suffix_eq_spec / finalMessage_spec - the suffix appended by the code (generated u64_to_bytes / Coin::coin_id ladders) and make_aggsig_final_message equal the prescribed text (canonical amount, SHA-256 coin id, the opcode's constant); domain_separation / unsafe_separated - texts of different coin-bound opcodes never coincide and an accepted AGG_SIG_UNSAFE message never equals one (only needs the seven constants distinct and 32 bytes: distinct_consts, re-checked from the source); sig_needed / sig_sufficient - acceptance depends on the signature exactly through the BLS verdict on those pairs; bad_key_rejected. The correspondence runs real signatures: accept iff the signed multiset equals the prescribed multiset.",
        "level_note": "Trusted: Lean kernel + standard axioms; blst (pairing, hash-to-curve, key validity) is an oracle - its ideal behaviour (aggregate valid iff multisets of (key,text) agree) is assumed in the driver and exercised with real signatures incl. tamperings; model = code on the cases run.",
    },
    "C06": {
        "extractors": ["ladders", "opcodes", "flags", "constants"],
        "theorems": ["ChiaModel.C06.strict_monotone", "ChiaModel.C06.strict_flags_only_restrict", "ChiaModel.C06.strict_mask_only_restrict",
                     "ChiaModel.C06.strictMask_values", "ChiaModel.C06.cost_strict_equal", "ChiaModel.C06.perm_conditions_partial",
                     "ChiaModel.C06.perm_accept_iff_partial", "ChiaModel.C06.perm_accept", "ChiaModel.C06.perm_conditions_fields_partial",
                     "ChiaModel.C06.perm_conditions_loop_partial", "ChiaModel.C06.wrapF_clear_ff", "ChiaModel.C06.perm_conditions_spend_partial",
                     "ChiaModel.C06.condLoop_factorisation"],
        "open": ["open_perm_conditions_bundle: a reordering inside one spend carried through the rest of the bundle (spendLoop, post-processing, deferred validation) to parse_spends",
                 "open_perm_spends: reordering the spends of a bundle - both are covered by the metamorphic correspondence only"],
        "trivial": r"^A=(REJECT|bad)",
        "level": "other",
        "rule": "metamorphic pairs from C01's bundle generator: (strict) the same tree under base|S and base for random non-empty S of {NO_UNKNOWN_CONDS, STRICT_ARGS_COUNT, LIMIT_SPENDS}; (perm) a tree and a copy with spends swapped/reversed and conditions reversed/rotated/swapped inside each spend, under the same flags and visitor; the harness evaluates the property on the two implementation results (strict accepted => lenient accepted with identical summary; same verdict, cost and aggregates up to listing order and the positional FF bit) and the model is run on both members. non-trivial = distinct pair whose first member is accepted",
        "level_text": "Proof of the first sentence, partial proof of the second. strict_monotone / strict_mask_only_restrict: for every tree, limit, visitor and each of the 8 subsets of the strictness flags, if the parse_spends model accepts with the flags set it accepts without them with the identical bundle summary, parse state and cost (all 35 argument grammars, the spend limit, the unknown-condition rule). Ordering: for one condition loop / one spend, any permutation of the conditions is accepted iff the original is, charges the same cost and yields the same state up to listing order and the positionally defined fast-forward bit (condLoop_factorisation gives an order-free characterisation of the loop); carrying this through the whole bundle and permuting spends is open, hence level other. The metamorphic correspondence checks both sentences on the real code.",
        "level_note": "Trusted: Lean kernel + standard axioms; model = code on the cases run. Which error a rejected bundle reports may depend on order (not part of the property).",
    },
    "C07": {
        "extractors": ["ladders", "opcodes", "flags", "constants"],
        "theorems": ["ChiaModel.C07.simple_generator_rules", "ChiaModel.C07.legacy_cost", "ChiaModel.C04.limit_exact", "ChiaModel.C04.native_limit_exact", "ChiaModel.C04.legacy_limit_exact", "ChiaModel.C02.accepted_invariants"],
        "open": ["C07_legacy_accepts / C07_native_accepts (DESIGN 6): legacy accepts => native accepts with the same conditions and no larger cost, under EvalContract + RomSpec + RomCostDominates - models of both paths exist and are compared with the code; the theorem is not proved yet",
                 "back-reference deserialisation is taken from the harness (decoded program on the case line) until the C17 model is merged"],
        "trivial": r"^L=REJECT[^|]*\|\| N=REJECT",
        "level": "other",
        "rule": "generators: quoted spend lists whose spends carry C01-generated conditions (identity puzzle with the conditions as solution, or quoted puzzle), structural damage (pair amount, raising puzzle, short tuple, improper terminators, non-quote wrapper), plain and back-reference serialisations, the recorded generators of /repo/generator-tests under 20 kB, block reference lists of 0-2, flag subsets of {COST_CONDITIONS, LIMIT_SPENDS, SIMPLE_GENERATOR, INTERNED_GENERATOR, strict}, limits: unbounded, each path's own total and total-1. Every interpreter run (generator, each puzzle, the ROM) is recomputed by the harness with clvmr and shipped as an oracle value; the Lean transcription of the ROM is compared with the ROM's real output on every case (rom=ok). The harness evaluates the property on the two implementation results. non-trivial = distinct case in which at least one path accepts",
        "level_text": "Model + correspondence + property predicate. Lean models of run_block_generator (ROM path) and run_block_generator2 (native loop: base cost by bytes or interned size, generator and per-puzzle cost countdown, extract_n, puzzle tree hash, nil terminator, SIMPLE_GENERATOR checks) are compared with the real functions on every case: verdict and the full summary for both paths. The property relation itself (both reject, or both accept with identical conditions and native cost <= legacy cost; legacy may additionally fail on cost / interpreter limits) is evaluated on the implementation's two results on every case. The agreement theorem over all programs is still open, hence level other.",
        "level_note": "Trusted: clvmr (interpreter, serialiser) and the ROM bytes are external: their results enter as per-case oracle values under EvalContract; the harness; model = code on the cases run. One genuine finding is recorded (INTERNED_GENERATOR cost), one defect was repaired (SIMPLE_GENERATOR block references) - see known_findings.txt.",
        "technique": "Lean 4 executable models of both paths with oracle-supplied interpreter results + differential correspondence + property predicate on implementation results",
    },
    "C08": {
        "extractors": ["ladders", "opcodes", "flags", "constants"],
        "theorems": ["ChiaModel.C08.generator_length", "ChiaModel.C08.base_cost_offset", "ChiaModel.C11.clvmBytesLen_ok", "ChiaModel.C04.limit_exact", "ChiaModel.C04.runSpendbundle_limit_exact"],
        "gen_theorems": ["ChiaModel.C08.generator_length", "ChiaModel.C08.base_cost_offset", "ChiaModel.C11.clvmBytesLen_ok"],
        "open": ["C08_same_conditions and the execution-cost part of C08_cost_offset (bundle path = native path on the built generator, up to the quote's 20 and the visitor) - currently checked by correspondence on every case"],
        "trivial": r"^D=REJECT",
        "level": "other",
        "rule": "spend bundles of 0-6 coin spends with C01-generated conditions (identity puzzle / quoted puzzle, 2.5% wrong declared puzzle hash), amounts of every encoding length, flag subsets of {COST_CONDITIONS, LIMIT_SPENDS, INTERNED_GENERATOR, strict}; per case: run_spendbundle, solution_generator bytes, calculate_generator_length, solution_generator_backrefs decoding to the same tree, run_block_generator2 on the plain and on the back-reference generator (its byte cost re-based to the plain length). The model prints the bundle-path result, its own serialisation of the generator (must equal the real bytes; predicted = actual length) and the native-path result on it. non-trivial = distinct accepted bundle",
        "level_text": "Model + correspondence. Lean models of run_spendbundle (base cost from the predicted generator length or the interned size, per-spend run, puzzle-hash check, MempoolVisitor), build_generator (spend order reversed, canonical amounts), calculate_generator_length (generated clvm_bytes_len ladder) and the native block path are compared with the real code on every case, including the exact generator bytes and both block-path runs. clvm_bytes_len is proved equal to the serialised length of the canonical amount for every u64. The equivalence theorems between the two model paths are open, hence level other.",
        "level_note": "Trusted: clvmr interpreter and serialisers (oracle values / byte comparison); harness; model = code on the cases run.",
        "technique": "Lean 4 executable models + differential correspondence incl. byte-exact generator serialisation",
    },
    "C09": {
        "extractors": ["ladders", "opcodes", "flags", "constants"],
        "theorems": ["ChiaModel.C02.accepted_invariants"],
        "open": ["C09_removals / C09_additions / C09_lookup as theorems relating the scanner models (scanCreateCoins, addRemLoop, getPuzzleAndSolution) to the native model"],
        "trivial": r"^native-rejects",
        "level": "other",
        "rule": "generators accepted by run_block_generator2: 10 memo/hint shapes x 5 amounts x 2 flag sets exhaustively, then quoted spend lists with C01-generated conditions (plain and back-reference serialised, with spend-level and block-level extension data); per case additions_and_removals, get_coinspends_for_trusted_block + solution_generator + re-run, get_puzzle_and_solution_for_coin for every removed coin; the model prints what full validation (native model) prescribes. non-trivial = distinct accepted generator",
        "level_text": "Model + correspondence against the property's prescription: on every generated block that full validation accepts, the trusted helpers must report exactly the removals (ids and coins, in order) and additions with hints that the validated conditions report (computed by the Lean native-path model), the recovered coin spends must rebuild the same conditions, and every removed coin must be found by the lookup. Two genuine defects found this way were repaired (see known_findings.txt). The scanner-vs-validation theorems are open, hence level other.",
        "level_note": "Trusted: clvmr (oracle values), harness; model = code on the cases run.",
        "technique": "Lean 4 executable model of full validation as the prescription for the helpers + differential correspondence",
    },
    "C20": {
        "extractors": ["streamable", "jsondict"],
        "harness": "C20",
        "harness_dir": "harness_py",          # second harness crate: embeds a Python interpreter (py-bindings)
        "harness_bin": "vharness_py",
        "theorems": [
            "ChiaModel.C20.roundtrip", "ChiaModel.C20.roundtrip_same_bytes_and_hash", "ChiaModel.C20.no_nested_option",
            "ChiaModel.C20.exported_roundtrip", "ChiaModel.C20.roundtrip_needs_WFjson",
            "ChiaModel.C20.decoded_bytesOK", "ChiaModel.C20.from_bytes_roundtrip", "ChiaModel.C20.json_views_same_wire",
            "ChiaModel.C20.rejects_wrong_length", "ChiaModel.C20.rejects_bad_digit", "ChiaModel.C20.rejects_odd_digits",
            "ChiaModel.C20.rejects_missing_prefix", "ChiaModel.C20.bls_prefix_optional",
            "ChiaModel.C20.rejects_uint_out_of_range", "ChiaModel.C20.rejects_sint_out_of_range", "ChiaModel.C20.rejects_enum_unknown",
            "ChiaModel.C20.uint_accept", "ChiaModel.C20.rejects_non_int",
            "ChiaModel.C20.rejects_tuple_count", "ChiaModel.C20.rejects_array_count",
            "ChiaModel.C20.rejects_missing_key", "ChiaModel.C20.rejects_missing_key_pos",
            "ChiaModel.C20.rejects_null", "ChiaModel.C20.rejects_null_field", "ChiaModel.C20.hex_fixed_accept",
            "ChiaModel.C20.fromJson_canonical_partial", "ChiaModel.C20.fromJson_canonical_uint",
            "ChiaModel.C20.empty_struct_accepts_anything", "ChiaModel.C20.bool_accepted_as_int", "ChiaModel.C20.vec_accepts_empty_str_and_dict",
        ],
        "gen_theorems": ["ChiaModel.C20.no_nested_option", "ChiaModel.C20.exported_roundtrip", "ChiaModel.C20.json_views_same_wire"],
        "open": ["fromJson_canonical: fromJson t j = ok v => toJson t v = j up to the normalisations (hex case, optional 0x of BLS elements, \"0x\" for empty Bytes, "
                 "extra keys, bool for int, iterable for list) - proved for the leaves only (fromJson_canonical_partial: accepted fixed-length hex re-renders as the same digits in lower case behind 0x; fromJson_canonical_uint), open for composite types"
                 ],
        "trivial": r"^(err |err$|bad-type|bad-json)",
        "level": "proof",
        "rule": "every type with ToJsonDict/FromJsonDict found by the translator (all #[streamable] classes of chia-protocol, the consensus and datalayer records, enums, "
                "Bytes/BytesN/Program/BLS elements) plus instances of every primitive and combinator impl of chia-traits: 110 (quick) / up to 1500 (thorough) values per type produced as BYTES by a "
                "descriptor-driven generator (integers at both ends of every width incl. u128/i128, None/Some, empty and nested lists, strings with every JSON escape class, "
                "both FullBlock generator formats, v1 and v2 proofs of space), parsed by the real from_bytes, converted by the real to_json_dict (embedded CPython), json.dumps, "
                "json.loads, real from_json_dict, ==, to_bytes, hash, with the property predicate evaluated on these results; for the first 4 (30) values of each type every single-point "
                "corruption of the JSON tree (hex: +-1 byte, bad / non-ASCII / space digit, odd count, no / upper / double prefix, upper-case digits, empty, int list; integers: max+1, min-1, "
                "negative, at both bounds, float, string, bool, null, list; bool/str by other types; lists as string/dict/null, appended null; tuples/arrays +-1 element; dicts: each key "
                "missing (optional and not), null for each field, extra key, list/null/string instead; enums: unknown, 256, -1, bool, string, float), as text through json.loads into the "
                "real from_json_dict. non-trivial = distinct case that is not a rejection",
        "level_text": "Proof: roundtrip - for every descriptor satisfying WFjson and every well-formed value, fromJson (toJson v) = ok v (mutual induction over the descriptor universe, "
                      "element lists, transparent structs and field lists incl. the packed option pairs, the generator tail and ProofOfSpace), hence identical encoding and hash "
                      "(with C13: from_bytes_roundtrip - whatever from_bytes accepts comes back from its JSON as the same value whose encoding is the input); no_nested_option - every exported class regenerated from the source satisfies WFjson (kernel-decided), so the round trip is unconditional for the classes that "
                      "exist, and roundtrip_needs_WFjson shows the side condition is exactly what fails for Option<Option<_>>; rejects_* - one theorem per malformation class over the whole "
                      "descriptor universe: wrong byte length, invalid hex digit, odd digit count, missing 0x (Bytes/BytesN/Program), integer outside the width (uN, iN, enum discriminants), "
                      "non-integers, wrong element count (tuples, arrays), missing key for ANY field (optional or not, incl. ProofOfSpace), null for a non-optional value; uint_accept / "
                      "hex_fixed_accept characterise what is accepted (the integer itself, exactly the decoded bytes): never truncation, wrap or default. The leniencies of the real code "
                      "that the property does not list are theorems too (bool as int, optional 0x and int lists for BLS elements, any iterable as list, extra keys, field-less structs accept anything).",
        "level_note": "Trusted: Lean kernel + 3 standard axioms; translator (JSON views: keys incl. py_uppercase, transparent tuple structs; hand-written conversions and the derive pinned by digest); "
                      "pyo3 extract as assumption PyExtract (range checks; bool is an int) compared on every boundary; CPython's json module renders/parses the text on the implementation side, "
                      "the model has its own renderer (compared on every value) and parser; implementation = model only on the cases run.",
        "trusted": ["pyo3 `extract::<uN/iN/bool/String/Vec<u8>>()` (assumption PyExtract: exact range checks, bool accepted as int) - compared at min-1/min/max/max+1 of every width on every run",
                    "CPython json.dumps / json.loads on the implementation side (the model's renderer is compared with json.dumps on every value; its parser with json.loads through the verdicts)",
                    "blst validity of G1/G2 candidates in JSON inputs is an oracle answer computed by the harness with the real library (`o=` entries)"],
        "technique": "Lean 4 proofs by mutual structural induction over the descriptor universe; translator (JSON views) + differential correspondence through an embedded Python interpreter",
    },
    "C13": {
        "extractors": ["streamable", "panicsites"],
        "harness": "C13",
        "theorems": [
            "ChiaModel.C13.roundtrip", "ChiaModel.C13.canonical", "ChiaModel.C13.trusted_codec", "ChiaModel.C13.encode_injective",
            "ChiaModel.C13.hash_is_sha_of_encoding", "ChiaModel.C13.encodeForHash_eq_encode", "ChiaModel.C13.encodeForHash_pos",
            "ChiaModel.C13.trusted_agrees", "ChiaModel.C13.from_bytes_iff", "ChiaModel.C13.from_bytes_to_bytes",
            "ChiaModel.C13.to_bytes_from_bytes", "ChiaModel.C13.descriptors_closed", "ChiaModel.C13.generated_types_codec",
            "ChiaModel.C13.clvm_scan_contract",
        ],
        "gen_theorems": ["ChiaModel.C13.descriptors_closed", "ChiaModel.C13.generated_types_codec"],
        "open": [],
        "trivial": r"^(err|bad-type)",
        "level": "proof",
        "rule": "every concrete Streamable type found by the translator (structs, enums, hand-written codecs, BLS elements, primitives, combinator samples): "
                "200 (quick) / 20 000 (thorough) values per type produced as BYTES by a descriptor-driven generator that is independent of the crates' stream() "
                "(integer boundary values, valid multi-byte UTF-8, back-reference CLVM serialisations, valid and infinity BLS points, version-1 and version-2 proofs of space "
                "from /repo's quality-string vectors, both FullBlock generator formats, all four packed-option prefixes), each parsed by the real from_bytes / from_bytes_unchecked, "
                "re-encoded and hashed; every one-byte prefix (bool, Option, packed options, version prefixes, enum discriminants) and the first and last byte of every u32 length prefix "
                "set to each of {0,1,2,3,0x80,0xff}; truncation at every offset of small values; appended bytes. non-trivial = distinct accepted input",
        "level_text": "Proof: for every type descriptor (by induction on the descriptor universe, mutually with field lists), every value and every byte string: "
                      "decode(encode v ++ r) = (v, r) for well-formed v; whatever the decoder accepts re-encodes to exactly the consumed bytes and is well-formed (one encoding per value, "
                      "encode injective); update_digest feeds exactly the prescribed pre-image (the encoding, with the proof replaced by the quality-string commitment inside version-2 "
                      "proofs of space) and panics exactly when that pre-image does not exist; the trusted decoder agrees with the untrusted one wherever the latter accepts; from_bytes = parse + "
                      "whole input consumed. The ~136 struct/enum descriptors are regenerated from the Rust source on every run (field lists in declaration order, discriminant lists, "
                      "the item order of the hand-written codecs checked against parse/stream/update_digest) and the generic theorems are instantiated for them; "
                      "the model is tied to the code by correspondence on every type.",
        "level_note": "Trusted: Lean kernel + 3 standard axioms; translator (descriptors cross-checked by running every generated descriptor against the real type); implementation = model only on "
                      "the cases run; blst point validity and the chia_pos2 quality string are oracle answers shipped per case; the clvmr serialised-length scan is an executable model compared on "
                      "every Program, and its contract (prefix stability, trusted scan follows the validating scan, length >= 1) is PROVED for that model (clvm_scan_contract); SHA-256 streaming (update a; update b = update (a++b)) of chia-sha2 is "
                      "observed (hash() compared with the model's sha256 of the concatenation on every accepted case).",
        "trusted": ["blst G1/G2 validity and chia_pos2 quality strings are oracle answers computed by the harness with the real libraries (per case, `o=` entries)",
                    "OracleContract (serialised-length scan reads only the bytes it reports; trusted scan accepts what the validating scan accepts; length >= 1) is a hypothesis of the generic theorems "
                    "and is proved for the executable scan model used by the driver (clvm_scan_contract); that model = clvmr only on the Program cases run "
                    "(the allocator's 62.5 M pair limit of clvmr is not modelled)"],
        "technique": "Lean 4 proofs by mutual structural induction over a descriptor universe (nested inductive) built from higher-order codec combinators; translator + differential correspondence",
    },
    "C14": {
        "extractors": ["streamable", "panicsites"],
        "harness": "C14",
        "theorems": [
            "ChiaModel.C14.decode_total", "ChiaModel.C14.from_bytes_total", "ChiaModel.C14.trailing_rejected", "ChiaModel.C14.missing_rejected",
            "ChiaModel.C14.no_unit_vec", "ChiaModel.C14.post_ops_partial", "ChiaModel.C14.witness_decodes_and_digest_panics",
            "ChiaModel.C14.post_ops_full_false", "ChiaModel.C14.panic_sites_reviewed", "ChiaModel.C14.reservation_bound",
            "ChiaModel.C14.alloc_bound", "ChiaModel.C14.elements_bounded", "ChiaModel.C14.generated_alloc_bound",
        ],
        "gen_theorems": ["ChiaModel.C14.no_unit_vec", "ChiaModel.C14.panic_sites_reviewed", "ChiaModel.C14.generated_alloc_bound"],
        "open": [],
        "trivial": r"^(bad-type)",
        "level": "proof",
        "rule": "all Streamable types x {from_bytes, from_bytes_unchecked}, each call in a worker process under catch_unwind with a counting global allocator: random bytes of assorted lengths "
                "(uniform and 0/1/2/0xff-biased), valid encodings and 4-12 random mutations of each (byte flips, prefix values, insertions, deletions, truncations), every u32 length prefix "
                "set to {0,1,2^16,2^24,2^31,2^32-1} with the body left as is and with the body cut to 3 bytes, every one-byte prefix set to {0,1,2,3,0x80,0xff}, nested vectors of options, "
                "10^5 x `ff` (open) and 10^5 x `ff` + (10^5+1) x `80` (closed) in the first Program field of every type that has one; on success to_bytes, hash, == are run as well. "
                "Allocation class small iff peak <= K*len + slack (K, slack per type in alloc_classes.txt). non-trivial = every case (the observable is the absence of PANIC/BIG/ABORT)",
        "level_text": "Proof (for the model, whose panic points are explicit): for every descriptor, trust mode and byte string the decoder returns a value or an error and consumes a prefix; "
                      "from_bytes rejects trailing bytes and every proper prefix of a valid encoding; bytes reserved ahead of parsing are at most allocFactor(t) * |input| + vecDepth(t) * 2 MiB "
                      "(2 MiB cap per open vector header, elements parsed bounded by input length) and no generated descriptor has a zero-width vector element; on a decoded value re-encoding succeeds, "
                      "and update_digest can panic only at quality_string().expect for a version-2 proof of space without quality string - the full statement (hash never panics) is refuted by a "
                      "kernel-checked 154-byte witness that is replayed on the real code on every run (KNOWN-FINDING). Every panic site of the anchored sources is extracted on every run and must "
                      "equal the reviewed list. Real panics, allocation and termination of the Rust code are observed by the correspondence, not proved.",
        "level_note": "Trusted: Lean kernel + 3 standard axioms; translator; harness (catch_unwind, counting allocator, worker processes turn stack overflow / allocation failure / hang into ABORT / HANG lines); "
                      "implementation = model only on the cases run. Memory safety, stack depth of derived Drop, real allocation and time are observed, not proved; "
                      "memSize in the model is an approximation of size_of (only the cap arithmetic matters to the bound).",
        "trusted": ["oracle answers (blst, chia_pos2) shipped per case; OracleContract hypothesis as in C13",
                    "real panics / peak allocation / termination are runtime observations of the harness, not theorems"],
        "technique": "Lean 4 proofs over a model with explicit panic branches and a pre-allocation counter; kernel-checked negation witness; differential correspondence under catch_unwind with a counting allocator in worker processes",
    },
    "C12": {
        "extractors": [],
        "harness": "C12",
        "theorems": ["ChiaModel.C12.root_canonical", "ChiaModel.C12.root_perm", "ChiaModel.C12.root_dedup",
                     "ChiaModel.C12.roots_agree", "ChiaModel.C12.complete", "ChiaModel.C12.sound",
                     "ChiaModel.C12.parse_rejects_trailing", "ChiaModel.C12.parse_rejects_deep", "ChiaModel.C12.parse_total"],
        "gen_theorems": [],
        "open": [],
        "trivial": r"^(ERR|bad-op)",
        "level": "proof",
        "rule": "leaf sets: the empty set, 8 singletons, all 28 pairs and all 56 triples of an 8-leaf pool engineered to share prefixes of 0/1/2/128/254/255 bits, the whole pool, "
                "the two trees of the Rust unit tests, 60 (thorough: 1500) random sets of 0-40 leaves with duplicates and leaves forked from earlier ones at bits {255,254,253,248,247,128,9,8,7,1,0,random}; "
                "each set through compute_merkle_set_root and MerkleSet::from_leafs().get_root() in several orders and with duplicates added (root), generate_proof for members and engineered non-members "
                "(proof, byte-for-byte), validate_merkle_proof of every honest proof against the honest root, for the right and for other items (validate/sound). "
                "Adversarial proofs: every honest proof rewritten at every node (swap sides, truncate the sub-tree with its real hash / a junk hash, Empty<->Term<->Trunc tag changes, "
                "leaf<->middle expansion, one more / one less level in a one-sided chain, flip leaf bit 0/1/7/8/254/255/random), appended and cut bytes, bad tags, empty input, wrapping in 1..258 one-sided levels; "
                "sampled down to 50 (thorough: 600) per honest proof and rationed by hashing cost (the kernel-evaluable SHA-256 of the model runs at ~4000 compressions/s); each against the honest root "
                "(claimed membership known to the harness: a contradicting verdict is marked UNSOUND) and, when it parses, against its own root (exercises the walk on odd trees). "
                "Depth guard: chains of 255..258 (thorough 253..300) levels over 4-6 bottoms incl. the u8 wrap of the walk depth; MIDDLE-only inputs. "
                "Bounded-exhaustive: all proof trees with <= 5 (thorough <= 7) nodes over {Empty, Term a/b/c, Trunc(hash{a,b}), Trunc(c)} x roots of all 8 subsets of {a,b,c} and own root x 4 items. "
                "non-trivial = distinct case whose model output is not ERR",
        "level_text": "Proof: for an arbitrary hash H with 32-byte digests (instantiated with the kernel-evaluable SHA-256) and all lists of 32-byte leaves of any length: "
                      "(a) compute_merkle_set_root equals the reference collapsed binary-trie hash Spec.root of any enumeration of the same set, hence is invariant under permutation and duplication (root_canonical, root_perm, root_dedup); "
                      "(b) the node vector built by MerkleSet::from_leafs has the same root (roots_agree); "
                      "(c) generate_proof returns exactly the membership flag and validate_merkle_proof accepts the generated bytes against the root with that verdict, for every item (complete); "
                      "(d) from_proof rejects every proper extension of an accepted proof and every serialised proof tree with more than 257 nested MIDDLEs (parse_total; tightness shown by kernel evaluation at 257/258); "
                      "(e) for EVERY byte string p: a verdict of validate_merkle_proof against the root of S equals membership in S, or p exhibits an explicit SHA-256 collision or a pre-image of the all-zero digest (sound) - no injectivity assumed. "
                      "The node vector with index redirection of collapsed (Empty, MidDbl) levels, the bit-position audit incl. the `pos as u8` wrap, the depth guard and the u8 walk depth are modelled as in the Rust code; the model is tied to the code by correspondence.",
        "level_note": "Trusted: Lean kernel + 3 standard axioms; model = code only on the cases run (roots, proof bytes, verdicts compared on every case). Modelled, not verified: the in-place two-pointer partition of radix_sort "
                      "(functional partition in the model), the explicit stack machine of deserialize_proof_impl (recursive descent with the same visiting order, depth counter and bit route in the model). "
                      "The walk depth of generate_proof_impl is a u8: the model wraps (release build, overflow-checks off); a build with overflow checks would panic instead on a proof nested 256 deep that matches its own root.",
        "technique": "Lean 4 executable model + theorems for all inputs (induction on trie depth / parser fuel, refinement of the node vector to an inductive tree) + differential correspondence",
        "trusted": ["hypothesis of complete/sound: H returns 32-byte digests (proved for the model's SHA-256: sha256_length); leaves are 32-byte strings (IsLeaf) as in the Rust type [u8; 32]"],
    },
    "C17": {
        "extractors": ["precomputed"],
        "harness": "C17",
        "theorems": [
            "ChiaModel.C17.precomputed_ok", "ChiaModel.C17.precomputed_entry", "ChiaModel.C17.prefixes_ok",
            "ChiaModel.C17.iter_run", "ChiaModel.C17.iter_eq", "ChiaModel.C17.hashTable_spec",
            "ChiaModel.C17.cache_inv_empty", "ChiaModel.C17.cache_inv_visit", "ChiaModel.C17.cache_inv",
            "ChiaModel.C17.cache_inv_append", "ChiaModel.C17.cached_eq", "ChiaModel.C17.history_eq",
            "ChiaModel.C17.sharing_irrelevant",
            "ChiaModel.C17.deser_wf", "ChiaModel.C17.from_bytes_eq", "ChiaModel.C17.from_bytes_none",
            "ChiaModel.C17.deser_serialize", "ChiaModel.C17.from_bytes_serialize", "ChiaModel.C17.from_bytes_modes",
            "ChiaModel.C17.curry_eq", "ChiaModel.C17.curry_and_treehash_eq",
        ],
        "gen_theorems": ["ChiaModel.C17.precomputed_ok", "ChiaModel.C17.precomputed_entry", "ChiaModel.C17.prefixes_ok"],
        "open": [],
        "trivial": r"^(REJECT|bad-op|bad-heap)",
        "level": "proof",
        "rule": "(1) PRECOMPUTED_HASHES[0..24) read directly; (2) atoms 0..40 and the neighbours of every representation boundary "
                "(0x7f/0x80, 0xff/0x100, 0x7fff/0x8000, 2^23, 2^26-1/2^26/2^26+1, 2^31, 2^32-1, 2^64-1) as canonical new_atom, as new_small_number, "
                "as the same bytes forced onto the allocator heap (new_concat), with one and two redundant leading zero bytes (`00`, `0017`, `000017`), "
                "alone and inside shared pairs, all 256 one-byte atoms; (3) right-, left- and zigzag-leaning trees of depth 2000 and 3000 "
                "(thorough: up to 15000); (4) DAGs with exponentially many paths: doubling chains up to 2^20 (thorough 2^22) paths, Fibonacci DAGs, "
                "each also with inner nodes hashed / pre-visited first and with the top allocated only after the cache was used; "
                "(5) 220 (thorough 6000) random heaps of 2-80 nodes with tunable sharing, each driven through ONE Allocator and ONE TreeCache by a "
                "random sequence of 1-30 operations: visit_tree, tree_hash_cached, tree_hash, tree_hash_from_bytes(node_to_bytes), "
                "tree_hash_from_bytes(node_to_bytes_backrefs), ToTreeHash via the TreeHasher encoder, curry_tree_hash vs tree_hash of the real "
                "CurriedProgram::to_clvm vs CurriedProgram<TreeHash>.tree_hash() with 0-6 arguments, repeated roots, allocation interleaved in 2-4 chunks; "
                "(6) tree_hash_from_bytes on byte strings: back-references with every one-byte path and selected longer paths (leading zero bytes, "
                "empty path) into 9 parse-stack shapes incl. references to the stack itself and cached stack lists, all strings of length <= 2 over "
                "the structural bytes, 12 000 (thorough 200 000) random strings over {ff, fe, small atoms, length prefixes}, 300 (thorough 3000) real "
                "compressed encodings each with 6 single-point damages (byte replaced, bit flipped, truncated, marker inserted). "
                "The model line is the SPECIFICATION's hash (hashTable = treeHash(denote heap root)) for every routine; "
                "non-trivial = distinct case whose output contains at least one hash (not REJECT)",
        "level_text": "Proof: for every well-formed heap (pairs point to earlier nodes; any sharing) and every pointer, the explicit two-stack machine of "
                      "tree_hash (same push/pop order, fuel 2*size+1 supplied by the routine) returns treeHash(denote heap n), the SHA-256 tree hash with "
                      "atom prefix 1 and pair prefix 2 (iter_eq). The TreeCache invariant CacheOK (every memoised slot of a pair holds the tree hash of what "
                      "the pair denotes, size limits) holds for the empty cache and is preserved by visit_tree (also proved to terminate within its fuel), "
                      "by tree_hash_cached, and by the allocator appending nodes; under it tree_hash_cached returns treeHash(denote heap n) and never fails, "
                      "hence for EVERY sequence of pre-visits and hashes through one shared cache (history_eq) - unbounded sizes, by invariant/induction. "
                      "Results depend only on the denoted tree (sharing_irrelevant). The 24 PRECOMPUTED_HASHES and the two prefix bytes are regenerated from "
                      "tree_hash.rs on every run and proved equal to sha256(1 :: canonNat i) by kernel evaluation (precomputed_ok). The model of clvmr's "
                      "node_from_bytes_backrefs (incl. path traversal into the parse stack and cached stack lists) is proved to build a well-formed heap; "
                      "if it yields a tree then tree_hash_from_bytes is the tree hash of that tree, it reads the plain serialisation of every tree back as "
                      "that tree (all five length-prefix classes), so plain and back-reference encodings of one tree hash equally. curry_tree_hash of the "
                      "hashes equals the tree hash of the actual curried program, for any number of arguments; same for fast_forward's curry_and_treehash.",
        "level_note": "Trusted: Lean kernel + 3 standard axioms; translator for the table (cross-checked: PRECOMPUTED_HASHES[i] is also read through the Rust "
                      "constant on every run); hand models = code only on the cases run (all routines' outputs compared with the specification's value on "
                      "every case; a debug op comparing the memo state cache.get/should_memoize of every pair with the model's agreed on all quick-tier cases). "
                      "clvmr (Allocator, node_to_bytes, node_to_bytes_backrefs, node_from_bytes_backrefs) is external: modelled, not verified; the allocator's "
                      "global limits (62.5 M pairs/atoms, heap limit, ghost counters) and the 2^32-3 memo limit are outside the explored range. "
                      "fast_forward.rs `curry_and_treehash` is a private fn: proved on the model, not reachable from the harness (exercised under C19). "
                      "Driver-side recursion (denote/serialize) is only used for trees below 8000 nodes; deeper/larger cases use the linear table (hashTable_spec).",
        "technique": "Lean 4 theorems over an executable heap-with-sharing model (stack machines, cache invariant, back-reference deserialiser) + translator-regenerated table checked by kernel evaluation + differential correspondence on shared heaps and operation histories",
        "trusted": ["clvmr Allocator / serialisers / back-reference deserialiser are external: modelled (deserialiser) or used as black boxes (serialisers), compared on every case",
                    "Allocator append-only-ness: assumed (cache_inv_append states what is used); the harness allocates between cache uses",
                    "fast_forward::curry_and_treehash is private: theorem on the model only"],
    },
    "C11": {
        "extractors": ["ladders"],
        "extra": "ladders.thresholds",
        "theorems": [
            "ChiaModel.C11.canonNat_spec", "ChiaModel.C11.u64ToBytes_canon", "ChiaModel.C11.coinIdAmount_canon",
            "ChiaModel.C11.encoders_agree", "ChiaModel.C11.clvmBytesLen_ok", "ChiaModel.C11.sanitizeUint_ok",
            "ChiaModel.C11.sanitizeUint_complete", "ChiaModel.C11.sanitizeUint_neg", "ChiaModel.C11.sanitizeUint_err",
            "ChiaModel.C11.sanitizeUint_pos", "ChiaModel.C11.encodeNumber_nonneg",
            "ChiaModel.C11.canon_unique", "ChiaModel.C11.sanitizeUint_canon", "ChiaModel.C11.encodeNumber_neg", "ChiaModel.C11.decodeNumber_value",
        ],
        "gen_theorems": ["ChiaModel.C11.u64ToBytes_canon", "ChiaModel.C11.coinIdAmount_canon", "ChiaModel.C11.clvmBytesLen_ok"],
        "level_text": "Proof: the three threshold ladders (u64_to_bytes, Coin::coin_id amount, clvm_bytes_len) are regenerated from the Rust source on every run and proved equal to the canonical minimal two's-complement form for every v < 2^64; sanitize_uint is proved to accept exactly the canonical atoms that fit the width and to classify the rest (negative / redundant zero / positive overflow) without truncation; encode_number proved value-preserving and minimal for non-negative and for negative inputs; decode_number proved never to truncate (result has the requested width and the atom's signed value). Loop-based codecs are hand models tied to the code by differential correspondence on boundary-exhaustive inputs.",
        "level_note": "Trusted: Lean kernel + 3 standard axioms; the translator (cross-checked by running Gen definitions against the Rust functions at every threshold ±2); implementation = model only on the cases run for encode_number/decode_number/sanitize_uint; clvmr new_number external.",
        "trivial": r"^(none|bad-op|ok)$",
        "rule": "u64 at every byte-class boundary ±2 and random per bit-length; typed ints at both ends and every power of two of all ten widths; "
                "all atoms of length ≤ 2 (≤ 3 with boundary lead byte in thorough) and structured atoms up to 20 bytes with leading bytes in {00,01,7f,80,ff}, "
                "64-byte padding budget runs; each through u64_to_bytes, Coin::coin_id, calculate_generator_length, clvmr new_number, ToClvm/FromClvm, "
                "encode_number, decode_number<1,2,4,8,16>, sanitize_uint; non-trivial = distinct case whose result is not `none`",
        "trusted": ["clvmr Allocator::new_number (external crate) is compared with canonNat on every u64 case, not verified",
                    "decode_number completeness (every in-range canonical atom is accepted) is covered by correspondence only; the proved direction is: whatever it returns has the requested width and the atom's value"],
    },
    "C01": {
        "extractors": ["ladders", "opcodes", "flags", "constants"],
        "harness": "C01",
        "theorems": ["ChiaModel.C01.opcode_whitelist", "ChiaModel.C01.opcode_constants", "ChiaModel.C01.parseOpcode_spec",
                     "ChiaModel.C01.validateConditions_iff"],
        "gen_theorems": ["ChiaModel.C01.opcode_whitelist", "ChiaModel.C01.opcode_constants"],
        "open": ["C01_refines: parseSpends = ok s <-> Accepts (order-free declarative rules) and s = summary (DESIGN 6, C01) - the per-condition argument grammar and the per-spend folds are so far tied to the rules only through the executable model's own definitions"],
        "trivial": r"^(REJECT|bad-op|bad-tree)",
        "level": "other",
        "rule": "generator-output trees through parse_spends<EmptyVisitor|MempoolVisitor>: (a) single-condition sweep: every one-byte opcode 0..255, 30 two-byte opcodes, empty and 3-byte opcode x 32 argument-list shapes x 4 (quick) / 16 (thorough) flag subsets; (b) random bundles of 0-6 spends from pools of 6 ids / 18 amounts / 9 messages / 3 valid + 3 invalid keys, 0-14 conditions per spend over all 35 opcodes plus unknown, with per-argument shape damage (missing, extra, pair-for-atom, non-nil terminator, 31/33-byte hashes, 1025-byte messages, negative / redundant-zero / 2^32 / 2^64 integers), engineered matching announcements, messages, ephemeral parents, double spends, singleton-shaped spends; random flag subsets of {DONT_VALIDATE_SIGNATURE, NO_UNKNOWN_CONDS, STRICT_ARGS_COUNT, COST_CONDITIONS, LIMIT_SPENDS}, both visitors, cost limits small and large; (c) 5999/6000/6001 spends with and without LIMIT_SPENDS. non-trivial = distinct accepted case",
        "level_text": "Model + correspondence + partial proofs. A complete executable Lean model of parse_spends (argument grammar of all 35 opcodes, two-byte opcodes, sanitizers, per-spend folds, both visitors, deferred validation, cost countdown) is compared with the real parse_spends on every generated tree: verdict (accept / reject / cost-exceeded) and the full OwnedSpendBundleConditions summary. Proved in Lean: the opcode whitelist extracted from the source equals the documented set; parse_opcode's recognition rule; validate_conditions accepts iff the declarative cross-spend predicates hold (matching announcement / concurrent spend / ephemeral / message counterparts). The full refinement of the parser to an order-free declarative rule set is still open, hence level `other`, not `proof`.",
        "level_note": "Trusted: Lean kernel (for the proved part); hand model = code only on the cases run; blst key validity enters as a per-case oracle (list of valid keys computed by the harness with chia_bls); signature offered is the identity, so BLS verification reduces to `no pairs collected`.",
        "technique": "Lean 4 executable model + differential correspondence; Lean theorems for opcode recognition and deferred validation",
    },
    "C02": {
        "extractors": ["ladders", "opcodes", "flags", "constants"],
        "harness": "C02",
        "theorems": ["ChiaModel.C02.conservation", "ChiaModel.C02.accepted_invariants", "ChiaModel.C02.native_invariants", "ChiaModel.C02.spendbundle_invariants", "ChiaModel.C02.legacy_invariants", "ChiaModel.C11.canon_unique",
                     "ChiaModel.C11.coinIdAmount_canon"],
        "gen_theorems": ["ChiaModel.C11.coinIdAmount_canon"],
        "open": [],
        "trivial": r"^(REJECT|bad-op|bad-tree)",
        "rule": "C01's generator biased to value flow: amounts from {0,1,2^32,2^63,2^64-1,...} so sums cross 2^64, many CREATE_COINs per spend with repeated (puzzle hash, amount), repeated coins, RESERVE_FEE near the excess; on every accepted implementation result the harness additionally asserts the five facts directly (totals are sums, fee+additions<=removals, distinct coin ids, distinct outputs per spend, coin id = sha256(parent|ph|canonical amount) computed independently) and marks the line if one fails. non-trivial = distinct accepted case",
        "level_text": "Proof: for every tree whose atoms are byte strings, every flag set, both visitors and every cost limit, an accepting run of the parse_spends model satisfies: additions + reserve fee <= removals; removal/addition totals and the condition cost are the sums over the listed spends and created coins; coin ids pairwise distinct; no spend creates two coins with equal (puzzle hash, amount); every coin id = SHA-256(parent | puzzle hash | minimal big-endian amount). Proved by induction over the spend and condition loops with a bundle invariant (unbounded sizes, Nat arithmetic so no wrap-around is assumed away: amounts are < 2^64 by the sanitizer theorem). The same conclusions (predicate Invariants) are proved for the models of the other entry points: run_block_generator2 (native_invariants: additionally the i-th reported puzzle hash is the tree hash of the i-th revealed puzzle), run_spendbundle (spendbundle_invariants: additionally reported puzzle hash = tree hash of the revealed puzzle = puzzle hash declared by the coin) and run_block_generator (legacy_invariants), for every interpreter result (a universally quantified parameter) whose atoms are byte strings. The model is tied to the code by correspondence on generated trees (parse_spends here, the execution paths under C07/C08/C09).",
        "level_note": "Trusted: Lean kernel + standard axioms; model = code only on the cases run (summary fields incl. coin ids and totals are compared on every case); u128 accumulators of the Rust code are modelled as unbounded Nat - overflow would need > 2^64 spends. The CLVM interpreter (clvmr) is external: its result for the generator / each puzzle is a parameter of the path models, so the theorems hold for whatever it returns. validate_clvm_and_signature = run_spendbundle + signature check (C05).",
    },
    "C03": {
        "extractors": ["ladders", "opcodes", "flags", "constants"],
        "theorems": ["ChiaModel.C03.locks_iff", "ChiaModel.C03.check_iff_core", "ChiaModel.C03.lock_refused_only_if_unsat",
                     "ChiaModel.C03.abs_height_refused_only_if_unsat", "ChiaModel.C03.abs_seconds_refused_only_if_unsat",
                     "ChiaModel.TL.applyCond_locks", "ChiaModel.TL.condLoop_locks", "ChiaModel.TL.spendLoop_locks", "ChiaModel.C03.ephemeral_rule"],
        "open": [],
        "trivial": r"^(REJECT|bad-op|bad-tree)",
        "rule": "bundles of 1-3 spends with 0-5 lock/birth conditions each over all ten kinds, arguments from {0,1,2,100,2^31-1,2^31,2^32-3..2^32-1} (heights) and {0,1,2,1000,2^32-1,2^32,2^63-1,2^63,2^64-3..2^64-1} (seconds) plus negative / oversized / redundant-zero atoms; coin records with confirmation height and timestamp from the same pools (4% missing); previous height / timestamp drawn around record+lock thresholds (-1/0/+1, saturating) so equality boundaries and saturation are hit; 5/6 in the saturating mode (property), 1/6 legacy wrapping (correspondence only). non-trivial = distinct case that reached check_time_locks",
        "level_text": "Proof: locks_iff - for every accepted generator output, flag set, coin-record map and chain state, check_time_locks (saturating mode) succeeds iff every spend has a record and every individual ASSERT_{HEIGHT,SECONDS}_{RELATIVE,ABSOLUTE}, ASSERT_BEFORE_* and ASSERT_MY_BIRTH_* assertion holds by its arithmetic definition with saturating sums. Proved by an invariant (max / min / common value of the individual arguments; 0 neutral for absolute) carried through the condition and spend loops of the parse_spends model, then monotonicity of saturating addition. lock_refused_only_if_unsat / abs_*_refused_only_if_unsat: a constraint is refused as impossible at parse time only when an earlier assertion contradicts it in every chain state. ephemeral_rule: in every accepted output a spend carrying a relative or birth assertion (negative / oversized tautologies included) is not an ephemeral coin. The driver prints the per-assertion verdict, so a disagreement with the implementation is a counterexample to the property.",
        "level_note": "Trusted: Lean kernel + standard axioms; parse_spends and check_time_locks models = code only on the cases run. The legacy wrapping mode is modelled and compared but no theorem is claimed for it (the property excludes it).",
    },
    "C04": {
        "extractors": ["ladders", "opcodes", "flags", "constants"],
        "harness": "C04",
        "theorems": ["ChiaModel.C04.limit_exact", "ChiaModel.C04.native_limit_exact", "ChiaModel.C04.legacy_limit_exact", "ChiaModel.C04.runSpendbundle_limit_exact", "ChiaModel.C04.cost_le_limit", "ChiaModel.C04.cost_is_table_sum",
                     "ChiaModel.C04.table_values", "ChiaModel.C04.preCharge_table", "ChiaModel.C04.unknown_cost_closed_form",
                     "ChiaModel.C04.unknown_cost_fn"],
        "gen_theorems": ["ChiaModel.C04.table_values", "ChiaModel.C04.unknown_cost_closed_form", "ChiaModel.C04.unknown_cost_fn"],
        "open": ["byte cost / CLVM execution cost / interned-size cost bookkeeping of run_block_generator(2) and run_spendbundle (external CLVM cost values): built with C07/C08"],
        "trivial": r"^(REJECT|bad-op|bad-tree)$",
        "rule": "C01's generator with cost emphasis: every accepted case is re-run at limit = reported cost (must accept with the identical summary) and at cost-1 (must fail with cost-exceeded); all 65 536 opcodes through compute_unknown_condition_cost; SOFTFORK arguments {0,1,2^32-1,2^32}; COST_CONDITIONS on/off. non-trivial = distinct accepted case or distinct non-zero table slot",
        "level_text": "Proof: (1) limit_exact - for every tree, flags and limit L, if the parse_spends model accepts reporting cost c then c <= L, it accepts with the identical result at limit c, and at every limit below c it fails with cost-exceeded (compositional `Shift` lemma over all guarded subtractions; unbounded). (2) cost_is_table_sum - the reported cost, the condition-cost sub-total and the per-spend condition costs equal the sums prescribed by the cost table (per-spend charge + per-condition pre-charge + SOFTFORK/two-byte extra). (3) the table constants regenerated from opcodes.rs have the documented values and the 256-slot two-byte table equals trunc3(100*17^k/16^k) (kernel computation over exact arithmetic).",
        "level_note": "Trusted: Lean kernel + standard axioms; translator for the constants and the const-fn table algorithm (pinned skeleton, re-evaluated; cross-checked against compute_unknown_condition_cost on all 65 536 opcodes every run); model = code on the cases run. CLVM execution cost and byte cost are outside parse_spends and not covered by these theorems yet.",
    },
}


def _c15_features():
    """`verif-hooks` (forced interleavings of real threads) only when repo_hook_c15.patch is applied to the
    repository under test; the harness builds and runs sequential histories without it."""
    import os
    try:
        toml = open(os.path.join(os.environ.get('VERIF_REPO', '/repo'), 'crates', 'chia-bls', 'Cargo.toml')).read()
    except OSError:
        return []
    return []   # the harness crate enables `verif-hooks` (-> chia-bls/verif-hooks) by default


PROPS["C15"] = {
    "extractors": [],
    "harness": "C15",
    "features": _c15_features(),
    "theorems": [
        "ChiaModel.C15.cap_invariant", "ChiaModel.C15.cap_invariant_new", "ChiaModel.C15.new_zero",
        "ChiaModel.C15.cap_zero_breaks", "ChiaModel.C15.keys_nodup",
        "ChiaModel.C15.cache_sound_inv", "ChiaModel.C15.cache_sound_inv_or_collision", "ChiaModel.C15.history_sound",
        "ChiaModel.C15.transparent", "ChiaModel.C15.transparent_prefix", "ChiaModel.C15.cacheVerify_transparent",
        "ChiaModel.C15.agree_noinf", "ChiaModel.C15.agree_noinf_sched", "ChiaModel.C15.gt_noinf",
        "ChiaModel.C15.aggregateVerify_spec", "ChiaModel.C15.verify_spec", "ChiaModel.C15.ideal_correct",
        "ChiaModel.C15.inf_partial", "ChiaModel.C15.inf_witness", "ChiaModel.C15.inf_witness2",
        "ChiaModel.C15.inf_full_false", "ChiaModel.C15.pairing_convention",
    ],
    "gen_theorems": [],
    "open": [
        "inf_full (\"never valid if any key is the point at infinity\" on the cache-assisted path) is FALSE for the current code: "
        "proved negation witness inf_full_false, replayed on the implementation (corpus/C15.case line 1, known_findings.txt); "
        "becomes provable with repo_fix_c15.patch",
    ],
    "trivial": r"^(nocache|bad-op)",
    "level": "proof",
    "rule": "one case = one history on one BlsCache: capacity in {0,1,2,3,50}, 1-25 ops of av (BlsCache::aggregate_verify + aggregate_verify + verify + "
            "aggregate_verify_gt + aggregate_pairing on the same input) / upd (truthful BlsCache::update) / ev (evict) / len, pair lists of 0-5 pairs over 1-4 real keys "
            "(SecretKey::from_seed) and the infinity key, message pool incl. empty/32-byte/100-byte messages (repeated keys and messages by construction), signatures "
            "~50% honest aggregate, else junk term / extra pair / missing pair / wrong message / wrong key / doubled term / Signature::default() / off-subgroup point; "
            "exhaustive: 0-5 pairs x infinity key at each position x capacities 1,2,3,50; after each av all five verdicts + len(), at the end len() and the cache "
            "contents in FIFO order (observed through clone/evict/update only). With the verif-hooks feature: 2-3 real threads under forced interleavings "
            "(random schedules; all 70 interleavings of two 2-pair verifications x 5 list shapes x cold/warm on capacity 1/2/3), compared with runSchedule; "
            "without it the same ops run as sequential histories. Every history with an infinity key in an av is run twice: mode h (marker @infkey, full observables) "
            "and mode hm (cache verdict of those av ops masked) so that the known finding cannot hide another disagreement. non-trivial = distinct history on a constructible cache",
    "level_text": "Proof: over an executable ideal-BLS model (keys = known scalars, hashes = formal generators, G2/GT = normalised formal sums) of the five verifiers as "
                  "signature.rs composes the primitives, the FIFO cache with put exactly as coded, and a lock-granularity thread model of BlsCache, Lean proves for all "
                  "capacities, contents, pair lists, signatures, call lists and schedules: (1) cap_invariant - len <= capacity after every atomic step of every schedule "
                  "(incl. re-insert at capacity; capacity 0 unconstructible and shown necessary); (2) cache_sound_inv - every entry maps sha256(pk|m) to e(pk,H(pk|m)) is "
                  "preserved by every step given truthful updates, with CollisionFree over the finitely many keys used as explicit hypothesis/disjunct; (3) transparent - "
                  "every call returns and each cache-assisted verdict = aggregate_verify_gt(sig, true pairings), independent of capacity, prior contents, evictions and "
                  "interleaving; (4) agree_noinf / aggregateVerify_spec / verify_spec / ideal_correct - without an infinity key all paths return the same verdict, true iff "
                  "sig = sum sk_i H(pk_i|m_i); aggregate_verify and verify return false with an infinity key; aggregate_pairing under its (pk_i,H_i)...,(-g,sig) convention = aggregate_verify_gt (pairing_convention, via canonicity of normal forms: a - b = 0 <-> a = b); (5) inf_partial + inf_full_false - the cache-assisted path "
                  "accepts lists containing the infinity key (kernel-checked witness, reproduced on the real code: known finding).",
    "level_note": "Trusted: Lean kernel + 3 standard axioms; blst (curve, pairing, hash-to-curve) is idealised - real blst verdicts are compared with the ideal verdicts on every case "
                  "for harness-made keys; model = code only on the histories/schedules run; SHA-256 collisions excluded by the CollisionFree hypothesis (checked on every line); "
                  "schedules are at lock granularity (the hook sits immediately before each Mutex acquisition) - OS scheduling inside a lock scope and Mutex poisoning are not "
                  "modelled; public keys off the subgroup are not modelled. Known finding: BlsCache::aggregate_verify accepts pair lists containing the infinity key "
                  "(repo_fix_c15.patch); with an infinity key aggregate_pairing is reported informationally only.",
    "technique": "Lean 4 invariants over an executable thread model (induction over schedules) + differential correspondence on operation histories and forced real-thread interleavings",
    "trusted": ["blst (pairing, hash_to_g2, point validity) idealised as BlsIdeal: free Z-module on augmented-message generators; every real verdict is compared with the ideal one",
                "linked-hash-map insertion-order semantics (insert of an existing key moves it to the back) modelled by hand; FIFO order is observed on every case",
                "schedules with real threads require repo_hook_c15.patch (cargo feature verif-hooks of chia-bls); without it only sequential histories are run"],
}


PROPS["C16"] = {
    "extractors": [],
    "harness": "C16",
    "theorems": [
        "ChiaModel.C16.endianness", "ChiaModel.C16.endianness_digest",
        "ChiaModel.C16.derive_commutes", "ChiaModel.C16.deriveSk_lt", "ChiaModel.C16.derive_path_commutes", "ChiaModel.C16.wallet_commutes",
        "ChiaModel.C16.add_hom",
        "ChiaModel.C16.groupOrderBytes_val", "ChiaModel.C16.modByGroupOrder_spec",
        "ChiaModel.C16.synthetic_offset_total", "ChiaModel.C16.synthetic_commutes", "ChiaModel.C16.synthetic_total",
        "ChiaModel.C16.sk_roundtrip",
        "ChiaModel.C16.flag_bits_table", "ChiaModel.C16.flag_bits_errors", "ChiaModel.C16.flag_bits_vs_format",
        "ChiaModel.C16.flag_bits_bytes", "ChiaModel.C16.flag_bits_g2",
        "ChiaModel.C16.checked_subset_unchecked", "ChiaModel.C16.checked_rejects",
        "ChiaModel.C16.roundtrip_under_codec", "ChiaModel.C16.roundtrip_under_codec_g2", "ChiaModel.C16.oracle_unique_encoding",
        "ChiaModel.C16.gt_roundtrip", "ChiaModel.C16.sign_deterministic", "ChiaModel.C16.sign_verifies",
    ],
    "gen_theorems": [],
    "open": [
        "G1Codec / G2Codec (blst: compress and uncompress are mutually inverse on accepted inputs, infinity = c0 00..00, flag bits of a finite point, "
        "format table for G2, no valid point with x = k*2^376) are named HYPOTHESES of roundtrip_under_codec(_g2), not proved: the curve, its compression and "
        "the subgroup test are blst's; every clause is monitored against real blst on each run (stage 2 of DESIGN, an executable BLS12-381 G1 in Lean, is not built)",
        "the group-level theorems (derive_commutes, synthetic_commutes, add_hom) are about the scalar model (pk = sk mod r); that blst's G1 realises it is trusted and "
        "compared on every derive/synth/add case",
        "derive_hardened / from_seed (EIP-2333, HKDF inside blst_keygen_v3) are not modelled: the property does not constrain them; their outputs are used as further secret keys",
    ],
    "trivial": r"^(bad-op|bad-sk|bad-path)",
    "level": "proof",
    "rule": "2200 seeds (quick; 20000 thorough) -> SecretKey::from_seed (32/33/64-byte seeds); per seed: rt sk, rt g1 of the public key + coordinate-bit and sign-bit "
            "perturbations (every 20th: each flag-bit flip, x+p, last byte +1), derive along a path of length 1-4 with indices from {0,1,2^31,2^32-1,2^31-1,2^24,small,random} "
            "(every 5th also master_to_wallet_unhardened(_intermediate) for both key types, every 7th a derive_hardened child as a further start), synth with hidden puzzle hash "
            "default/00../ff../random, add with the previous key (every 10th: sk+(r-sk)=0 and sk+sk), modr on a random 32-byte string with forced leading byte classes (+ sk, sk+r, -sk), "
            "sign twice + signature round trip + verify against same/other key/other message (every 2nd seed), every 8th: rt g2 of the signature + perturbations, GT of a real pairing. "
            "Exhaustive: all 256 first bytes x tails {zero, 00..01, tail of a valid point} for G1 (incl. the 62 encodings x = k*2^376) and G2; all 8 flag combinations on valid points; "
            "x in {p-2,p-1,p,p+1} (G1, both G2 components); x = 0..299 with both signs (G1, G2: on-curve/off-subgroup points found by blst), infinity, generators; "
            "sk in {0,1,2,r-2,r-1,r,r+1,2^256-1,...} through every operation; modr boundaries {0,1,r-1,r,r+1,2r,-1,-2,-r-1,-r,-r+1,-2^255,2^255-1,...}; /repo's own derivation test vectors; "
            "malformed stream: 400 random 48/96/32-byte strings. Oracle fields u,v on rt lines come from raw blst FFI calls in the harness (blst_pN_uncompress, blst_pN_affine_in_gN), "
            "not through chia-bls; the sk=pk table on derive/synth/add/sign lines is SecretKey::public_key().to_bytes(). The harness also evaluates the property on the "
            "implementation's own results (prop=). non-trivial = distinct case on a well-formed line",
    "level_text": "Proof of everything that is logic of /repo, for all inputs: endianness (the PublicKey route multiplies the generator by exactly the big-endian integer of the digest that the "
                  "SecretKey route adds: lendian -> scalar -> bendian -> little-endian read by blst_p1_mult); derive_commutes / derive_path_commutes / wallet_commutes (in the scalar model "
                  "pk = sk mod r: pkOf(derive_unhardened(sk,i)) = derive_unhardened(pkOf sk, i) for every index and, by induction, every path incl. master_to_wallet_unhardened); "
                  "synthetic_commutes + synthetic_offset_total (synthetic secret key's public key = synthetic public key; the unwrap in synthetic_offset cannot fail); add_hom; "
                  "modByGroupOrder_spec (for every input length: result = 32-byte big-endian of the signed value mod r, < r; truncating % repaired, minimal to_bytes_be re-padded); "
                  "sk_roundtrip (from_bytes accepts iff value < r, zero included; accepted strings re-serialise to themselves; unique); flag_bits_table / flag_bits_errors / flag_bits_vs_format "
                  "(all 256 first bytes x zero/non-zero tail by kernel evaluation: the code implements the ZCash format table except that it also rejects x = k*2^376; Signature has no rule of its own); "
                  "checked_subset_unchecked / checked_rejects (checked = unchecked and subgroup test, also for Streamable::parse<TRUSTED>); roundtrip_under_codec(_g2) (round trip and unique encoding "
                  "of public keys and signatures, with blst's codec contract G1Codec/G2Codec as explicit named hypotheses, non-vacuous); gt_roundtrip; sign_deterministic / sign_verifies in the ideal BLS of C15. "
                  "The correspondence runs every sentence of the property on the real code with real blst.",
    "level_note": "Trusted: Lean kernel + 3 standard axioms; blst realises the prime-order group law of the scalar model and the point codec contract (G1Codec/G2Codec: hypotheses, monitored on every rt case "
                  "through raw FFI calls and on every derive/synth/add case through real public keys); num-bigint (from_signed_bytes_be, truncating %, to_bytes_be) modelled by hand and compared on every modr case; "
                  "the model's own SHA-256 is compared with chia-sha2 on every derived key; GROUP_ORDER_BYTES is a literal of the model (tied by the modr boundary cases, not by the translator); "
                  "mod_by_group_order takes [u8;32] in Rust - other lengths are covered by the theorem only. Observation (not a violation): PublicKey::from_bytes_unchecked rejects 62 encodings "
                  "8k/ak 00..00 (x = k*2^376) as G1InfinityNotZero although blst finds a curve point for 28 of them; none is in the subgroup, so from_bytes and round trips are unaffected.",
    "technique": "Lean 4 proofs over an executable scalar model of G1 + byte-level models of the wrappers (kernel-evaluated finite tables, induction over paths), blst as a record of functions with its "
                 "contract as hypotheses; differential correspondence with real blst as oracle",
    "trusted": ["blst: G1 is a group of prime order r generated by blst_p1_generator, blst_p1_mult multiplies by the given integer, blst_sk_add_n_check / blst_scalar_from_be_bytes reduce mod r, "
                "blst_sk_check = [1, r) - the scalar model; compared with the real library on every derive/synth/add/rt-sk case",
                "blst point codec: G1Codec / G2Codec (hypotheses of roundtrip_under_codec, monitored via raw FFI oracle calls on every rt case)",
                "num-bigint BigInt::from_signed_bytes_be / % / to_bytes_be modelled by hand (compared on every modr case)"],
}


PROPS["C10"] = {
    "extractors": ["builder-consts", "constants"],
    "harness": "C10",
    "theorems": [
        "ChiaModel.C10.builder_consts", "ChiaModel.C10.wrapper_weight",
        "ChiaModel.C10.interned_all_or_nothing", "ChiaModel.C10.interned_rejected_no_effect", "ChiaModel.C10.interned_contents",
        "ChiaModel.C10.interned_signature", "ChiaModel.C10.triangle", "ChiaModel.C10.interned_estimate_upper",
        "ChiaModel.C10.interned_within_limit", "ChiaModel.C10.interned_exact_limit",
        "ChiaModel.C10.compressed_all_or_nothing_full_false", "ChiaModel.C10.compressed_all_or_nothing_partial",
        "ChiaModel.C10.compressed_contents", "ChiaModel.C10.compressed_signature", "ChiaModel.C10.compressed_within_limit",
        "ChiaModel.C10.compressed_estimate_upper_full_false", "ChiaModel.C10.compressed_estimate_upper_partial",
        "ChiaModel.C10.compressed_exact_limit",
    ],
    "gen_theorems": ["ChiaModel.C10.builder_consts", "ChiaModel.C10.wrapper_weight"],
    "open": [
        "consensus_cost: for truthful declared costs the cost finalize returns equals the cost Gn.native (run_block_generator2) charges on the finalized generator "
        "(INTERNED_GENERATOR for the interned builder, byte cost for the compressed one) - needs the C04/C07 cost decomposition of the native path over a quoted "
        "spend list; covered per case by comparing the returned cost with run_block_generator2 on the real bytes",
        "compressed builder, 'a rejected attempt leaves the later output unchanged' at the level of BYTES and cost: depends on clvmr's TreeCache, which Serializer::restore "
        "does not fully undo (known finding); in the model the serializer sizes are oracle values, so only the decoded contents / signature / accounting are theorems",
    ],
    "trivial": r"^((0,[01],\d+|E,\d+) )*\| ",
    "level": "other",
    "rule": "whole histories, one per line, for both builders alternately: 0-40 add_spend_bundles calls, each a batch of 0-3 bundles of 0-3 coin spends (13 puzzles incl. "
            "identity puzzle and puzzles sharing a 180-byte atom for interning / back-reference gains, 10 solutions, 8 amount encodings, unique parents) with a real "
            "signature tag (keys from_seed, tag 0 = identity), declared cost truthful (execution + condition cost from the real interpreter; then the returned cost must "
            "equal what run_block_generator2 charges for the emitted bytes) or untruthful; ConsensusConstants cloned from TEST_CONSTANTS with cost_per_byte in {12000, 700, 1} "
            "and max_block_cost_clvm chosen from the no-rejection cost trajectory so that an add lands on limit-1/limit/limit+1 (preferring adds of >= 6 000 000 so the "
            "near-full guard lets them through), on the near-full boundary +-1, at a random point, or never; untruthful histories bend one declared cost to land on the "
            "limit; malformed streams: declared costs 2^63, 2^64-k, 2^64-cost() (wrap in the release build), reveals that do not deserialize; fixed cases: empty history, "
            "limits below the empty generator's cost, a rejected first attempt followed by a small one around 6 000 020..6 132 020. Per history the harness prints "
            "(added, done), cost() after every call, finalize's decoded tree, signature equality against the aggregate of the accepted bundles' real signatures, returned "
            "cost, consensus cost, contents equality, the metamorphic reruns without the rejected attempts, and evaluates the property relation on these results. For the "
            "compressed builder a shadow clvmr Serializer fed the same trees supplies size-after-add / size-after-restore / final size as oracle values. "
            "non-trivial = distinct history with at least one accepted attempt",
    "level_text": "Proof for everything except the consensus-cost sentence (open; compared per case), hence level other. Interned builder, fully modelled: all-or-nothing "
                  "(unconditional, wrapping arithmetic included), a rejected attempt changes nothing later (verdicts, cost(), finalize), contents and signature of finalize "
                  "for every history, finite-set sub-additivity of interned_vbytes (direct proof over the duplicate-free list, no Mathlib) and from it: exact cost <= cost() "
                  "<= limit in every reachable state, finalize's assert cannot fire, accepted iff true total <= limit (exactly on the limit is accepted). Compressed builder "
                  "with the incremental serializer as oracle under SerContract (restore undoes the size, size monotone, closing costs <= 2 bytes): contents, signature, no "
                  "panic and cost <= limit, exact limit; the two sentences that fail on the unchanged code (estimate below final cost on a builder whose serializer no "
                  "attempt has reached; first rejected-after-serialization attempt changes cost()) are stated in full, refuted by kernel-checked witnesses replayed on the "
                  "real code, and proved with the exact exclusion. Hypotheses where sums occur: limit < 2^62 and >= cost of the empty generator, declared <= 2^63.",
    "level_note": "Trusted: Lean kernel + standard axioms; clvmr (Serializer/TreeCache, intern_tree, node_to_bytes_backrefs, node_from_bytes_backrefs, interpreter) is external: "
                  "the serializer enters as per-add oracle sizes under SerContract (monitored on every add), intern_tree as the set of distinct subtrees (InternContract, "
                  "monitored through cost() and the final cost on every case), decoding of the emitted bytes is checked on every case; model = code on the cases run. "
                  "Four findings on the unchanged code are recorded in known_findings.txt (compressed builder's initial byte_cost 0; Serializer::restore not undoing the "
                  "TreeCache so later bytes/cost differ; u64 wrap for declared costs >= 2^63 incl. a finalize panic; limits below the empty generator's cost).",
    "technique": "Lean 4 state-machine models of both builders (u64-faithful), invariants over all histories, finite-set sub-additivity; incremental serializer as an oracle "
                 "under a stated contract; differential correspondence on whole histories incl. metamorphic reruns and property predicate on implementation results",
    "trusted": ["clvmr incremental Serializer: per-add sizes measured on a shadow instance fed the same trees (SerContract monitored: restore returns the size, size monotone, final bytes = size + <= 2)",
                "clvmr intern_tree = set of distinct subtrees (InternContract): compared through cost() after every add and the exact final cost",
                "release-build u64 wrapping (overflow-checks = false in the harness profile); with overflow checks the same inputs panic inside add_spend_bundles"],
}

PROPS["C19"] = {
    "extractors": ["ladders", "opcodes", "flags", "constants", "precomputed"],
    "harness": "C19",
    "theorems": [
        "ChiaModel.C19.ff_shape", "ChiaModel.C19.ff_shape_proper", "ChiaModel.C19.ff_shape_full_false", "ChiaModel.C19.witness_accepted",
        "ChiaModel.C19.ff_guards", "ChiaModel.C19.ff_iff", "ChiaModel.C19.ff_parent_same_puzzle", "ChiaModel.C19.ff_corruption",
        "ChiaModel.C19.ff_preserves",
        "ChiaModel.C19.fp_stream", "ChiaModel.C19.fp_injective", "ChiaModel.C19.fp_injective_accepted",
        "ChiaModel.C19.dedup_flag_iff", "ChiaModel.C19.dedup_flag", "ChiaModel.C19.dedup_flag_bundle",
    ],
    "gen_theorems": [],
    "open": [
        "ff_shape_full (\"the rewritten solution differs from the original ONLY in lineage parent, parent amount and coin amount\", for every "
        "accepted call) is FALSE for the current code when the (valid) solution or lineage proof carries data after its last field - a genuine, benign "
        "finding: proved negation witness ff_shape_full_false, reproduced on the implementation (cases marked @extra-tail, corpus/C19.case, known_findings.txt); "
        "ff_shape states the exact form, ff_shape_proper the full-strength sentence for proper lists; patches/repo_fix_c19.patch (rebuild the solution in place) "
        "makes ff_shape_full provable once the model's result keeps t1 / t2 instead of nil",
        "\"runs successfully against the new coin, satisfying its self-assertions, and creates the same coins\" is a statement about the CLVM program "
        "singleton_top_layer_v1_1 (chia-puzzles, external): proved conditionally on the hypothesis structure SingletonSpec (ff_preserves) and checked "
        "unconditionally at run time (harness prop=: both solutions run with clvmr and validated by run_spendbundle in mempool mode)",
        "that the 967 bytes of SINGLETON_TOP_LAYER_V1_1 hash to SINGLETON_TOP_LAYER_V1_1_HASH is confirmed by the correspondence on every run (case kind mh: "
        "the model's own SHA-256 tree hash of the crate's bytes), not by kernel evaluation",
    ],
    "trivial": r"^(refused|ERR|REJECT|bad-|A=- REJECT[^|]*\|\| B=- REJECT)",
    "level": "proof",
    "rule": "(mh) the singleton mod hash constant and the model's tree hash of the crate's puzzle bytes. (ff) genuine singletons built by the harness: the real "
            "SINGLETON_TOP_LAYER_V1_1 curried by hand with (mod hash, launcher id, launcher puzzle hash) and one of three solution-driven inner puzzles (1, (c (q . remark) 1), (r 1)); "
            "launcher + 1-3 generations (eve proof for generation 0, lineage proofs after), inner conditions = the odd CREATE_COIN of the next generation (with/without memos) plus "
            "0-3 of {even CREATE_COIN, REMARK, RESERVE_FEE, CREATE_PUZZLE_ANNOUNCEMENT, ASSERT_HEIGHT/SECONDS_ABSOLUTE, ASSERT_MY_PUZZLEHASH, AGG_SIG_UNSAFE, AGG_SIG_PUZZLE}, "
            "amounts from {1,3,5,1001,0x7f,0x81,2^63-1,2^64-1} (constant along the chain in half of the cases, an even amount in 1/12); every generation x 5 rebase targets "
            "(parents ab.., 00.., ff.., pool id; amounts incl. even, 2^63+1, 2^64-1; the coin's own place and its successor's); for the last generation EVERY single-field corruption "
            "of an accepted call (55: mod nil / one atom, struct mod hash flipped / 31 bytes, launcher id flipped / other, launcher puzzle hash flipped / 31 bytes, inner puzzle, "
            "curry terminator / extra / missing argument / proper-list struct / apply terminator / apply opcode / cons terminator / uncurried, lineage parent flipped / 31 bytes, lineage inner "
            "puzzle hash, lineage amount +2 / parity / negative, eve proof, short / atom lineage proof, solution amount +2 / parity / pair, missing inner solution / amount / nil solution, "
            "each field of each of the three coins, all three puzzle hashes together) - expect refused - plus representations of the same call (leading-zero amounts, another odd new "
            "amount) and extra trailing elements - expect accepted; a valid spend whose parent had another inner puzzle (refused); the two recorded /repo/ff-tests/*.spend with the "
            "repository's own targets (quick: 8 of 48 each) and negative tests. Implementation output: ok + new solution / refused (~kind); prop= on the implementation's own results: "
            "new solution = old with exactly the three fields replaced (tree comparison), original and rewritten spend both validated by run_spendbundle in mempool mode (with two "
            "funding coins), equal CREATE_COIN sets, ASSERT_MY_AMOUNT / ASSERT_MY_PARENT_ID / ASSERT_MY_COIN_ID of the raw clvmr output hold for the new coin. "
            "(fp) compute_puzzle_fingerprint on all 256 one-byte + 5 other opcodes x 22 argument shapes, generated mempool-valid lists and malformed lists from C01's generator. "
            "(fpp) pairs of condition lists as two spends of the SAME coin (identity puzzle, list as solution) through run_spendbundle with MEMPOOL_MODE | COMPUTE_FINGERPRINT: "
            "hand-picked pairs (length split ab|c vs a|bc, atoms that look like encodings, hint absent / nil / (()) / ((h)) / 33-byte / pair / atom / (h . more) / 1-byte, unknown and REMARK "
            "conditions, reordering, ignored negative / oversized locks) x amounts {0,1,3}, and generated lists against a one-atom mutation / swap / drop / duplicate / added REMARK / "
            "other list; prints both fingerprints and both conditions summaries; prop= (both accepted and fingerprints equal => summaries identical). "
            "(dd) C01's bundle generator with value-flow bias through parse_spends::<MempoolVisitor> under random flag subsets: the ELIGIBLE_FOR_DEDUP bit of every spend vs the "
            "closed form computed by independent harness code and by the model. non-trivial = distinct case that is not a refusal / error / rejection",
    "level_text": "Proof (of everything that is logic of /repo). fast_forward_singleton: ff_iff - the model accepts exactly when the decoded parts satisfy the 17 guards; ff_shape - "
                  "the result is ((new parent's parent, same lineage inner puzzle hash, canonical new parent amount) canonical new coin amount, same inner solution): exactly the three "
                  "fields replaced, nothing else touched (tails the list decoders ignore are re-encoded as nil: the one recorded finding); ff_guards / ff_parent_same_puzzle - acceptance implies odd "
                  "amounts, equal puzzle hashes, singleton mod hash twice, old coin's parent = coin id of (lineage parent, this very puzzle hash, lineage amount), revealed puzzle hashes "
                  "to the coin's puzzle hash, new coin's parent = id of the new parent; ff_corruption - each of 18 single-field corruptions of an accepted call is refused or exhibits an "
                  "explicit SHA-256 collision; ff_preserves - under SingletonSpec the rewritten solution runs, asserts the new coin's amount and parent id and yields the same morphed "
                  "inner conditions. compute_puzzle_fingerprint: fp_stream + fp_injective - the byte stream (4-byte length prefixes, opcode first, opcode-determined arity, empty-atom hint "
                  "marker) determines the list of parsed conditions of any two lists that parse (any flags; atoms < 2^32 bytes); fp_injective_accepted - two lists accepted by the "
                  "parse_conditions model with equal fingerprints have equal parsed conditions or exhibit a collision. MempoolVisitor: dedup_flag_iff / dedup_flag / dedup_flag_bundle - "
                  "for every accepted generator output the ELIGIBLE_FOR_DEDUP bits are exactly the closed form (no AGG_SIG_*, no SEND/RECEIVE_MESSAGE, created value >= coin amount), "
                  "by a ghost-trace invariant over the condition loop.",
    "level_note": "Trusted: Lean kernel + 3 standard axioms; hand models = code on the cases run (verdict, error kind, new solution bytes, fingerprints, summaries, flags all compared); "
                  "clvmr and the singleton puzzle are external (SingletonSpec is a hypothesis; its conclusion is checked with real runs on every accepted case); atoms of 2^32 bytes or more "
                  "(impossible in a clvmr Allocator) are excluded from fp_injective by hypothesis; SHA-256 collisions appear as explicit disjuncts. Known finding (genuine, benign; repair drafted in patches/repo_fix_c19.patch): trailing solution / lineage-proof "
                  "elements are dropped by the rewrite.",
    "technique": "Lean 4 theorems over executable models of fast_forward_singleton (FromClvm decoders as values), compute_puzzle_fingerprint (byte stream, unique decodability) and the "
                 "MempoolVisitor (ghost-trace loop invariant) + differential correspondence with property predicates evaluated on real clvmr runs",
    "trusted": ["clvmr (interpreter) and chia-puzzles (singleton_top_layer_v1_1 bytes and hash) are external: the puzzle's behaviour is the hypothesis structure SingletonSpec; its conclusion is checked by real runs",
                "clvm-derive / clvm-traits decoders (list, curry, transparent representations; decode_number) are modelled by hand from their source and compared on every case"],
}

PROPS["C18"] = {
        "extractors": [],
        "harness": "C18",
        "theorems": [
            "ChiaModel.C18.map_refinement", "ChiaModel.C18.keys_unique", "ChiaModel.C18.hashes_unique",
            "ChiaModel.C18.history_refinement", "ChiaModel.C18.history_refinement_empty",
            "ChiaModel.C18.root_hash", "ChiaModel.C18.check_good", "ChiaModel.C18.proof_valid",
            "ChiaModel.C18.proofOf_stored", "ChiaModel.C18.proof_valid_after_recompute",
            "ChiaModel.C18.fail_unchanged", "ChiaModel.C18.fail_unchanged_batch_validation",
            "ChiaModel.C18.batch_commit_succeeds", "ChiaModel.C18.insert_succeeds",
            "ChiaModel.C18.linv_preserved_insert", "ChiaModel.C18.linv_preserved_upsert",
            "ChiaModel.C18.inserts_upserts_history",
            "ChiaModel.C18.reload_partial", "ChiaModel.C18.block_format_roundtrip",
            "ChiaModel.C18.former_witness_batch_rejected", "ChiaModel.C18.former_witness_upsert_rejected",
            "ChiaModel.C18.former_witness_failed_batch_unchanged",
        ],
        "gen_theorems": [],
        "open": [
            "InvPreserved (inv_preserved): wf and LInv are preserved by insert/delete/upsert/batch/hashes - `def InvPreserved : Prop` (proved so far: LInv is preserved by insert at any location and by upsert - linv_preserved_insert, linv_preserved_upsert; LInv alone is not inductive for delete, which needs the global reachability part of wf); checked at run time after every step (tags NEWFAIL:wf / NEWFAIL:linv)",
            "AbsCommutes (abs_commutes, refinement L2->L1): abs (op s) = opL1 (abs s) and equal success flags on well-formed states - `def AbsCommutes : Prop`; checked at run time on every step (tag ABSFAIL)",
            "HashesCommute: calculate_lazy_hashes on blocks = HT.recompute on the abstraction, and get_proof_of_inclusion = HT.proofOf - `def HashesCommute : Prop`; checked at run time after every `hashes` op (tag ABSFAIL)",
            "ReloadCaches (second half of reload): the cache rebuilt by MerkleBlob::new equals the live cache up to free-list order - `def ReloadCaches : Prop`; observed as reload=same on every step",
            "IntegrityOfWf: wf s -> check_integrity s = ok and LInv s - `def IntegrityOfWf : Prop`; checked at run time (tags NEWFAIL:integrity, NEWFAIL:linv)",
            "fail_unchanged for calculate_lazy_hashes (it can only fail on a blob whose reachable part is not a tree)",
        ],
        "trivial": r"^(-|bad-op|integrity=ok content=eq.*)$",
        "level": "other",
        "rule": "operation histories, one per line (`C18 hist op;op;...`), ops ins (auto / left:<key> / right:<key>, incl. unknown reference keys), ups, del, batch n, hashes; after EACH op the real MerkleBlob and the Lean index-level model print: Ok/Err/panic, SHA-256 of the exact blob bytes, sorted key/values, check_integrity, reload (MerkleBlob::new(bytes): loads, same key/values, integrity ok); after `hashes` the root hash and per key proof.valid() and proof.root == root. Generated: the histories on which the code broke the property before commits 934ac687/fbd3f8c2 and neighbours; exhaustive histories of length <= 2 (quick, + 1500 random of length 3) / <= 3 (thorough, first op restricted to ops that can succeed on the empty blob) over an alphabet of 64 ops on 3 keys / 3 hashes; batch sizes 0..9 on trees of 0,1,2,3,5,8,17 leaves; insert n, delete down to 0/1/2 leaves in random order, insert again (free-index reuse, promotion to the root); random histories of 1-60 ops over 6 keys / 8 hashes and over random i64 keys (negative included) with random 32-byte hashes, incl. batches with present/repeated keys and hashes and upserts to another leaf's hash. `C18 prop <history>[ @dupbatch][ @upshash]` lines evaluate the PROPERTY on the real code against a BTreeMap oracle (integrity, content, failed-op-unchanged, reload, root = independent recomputation and proofs); the model side prints the prescription; the markers (computed from the history alone) name the two classes of operation repaired by those commits. non-trivial = a distinct `hist` line",
        "level_text": "Model + correspondence + partial proofs. Lean: (L1, plain trees, all proved, unbounded) every insert/upsert/delete/batch insert acts on the key->value content exactly like a plain map when it succeeds and leaves the tree unchanged when it fails (map_refinement); keys and leaf hashes stay pairwise distinct (keys_unique, hashes_unique); by induction over ANY finite history from the empty blob the content equals that of a plain map subjected to the same successful operations (history_refinement); lazy hash recomputation on a tree satisfying the dirtiness invariant stores the independently recomputed Merkle root and cleans every node (root_hash); every key has an inclusion proof that is valid and ends in that root, also when read off the stored hashes (proof_valid, proof_valid_after_recompute). (L2, index-level model of MerkleBlob, byte-exact) a failed insert/upsert/delete/batch insert leaves the blob unchanged (fail_unchanged, under the decidable local invariant LInv that the driver evaluates on every state; for a batch: failing the validation changes nothing, fail_unchanged_batch_validation, and a validated batch cannot fail, batch_commit_succeeds - incl. termination of the pseudo-random walk and of the breadth-first search); insert at any location and upsert preserve LInv (linv_preserved_insert, linv_preserved_upsert), so along any history of inserts and upserts LInv holds (inserts_upserts_history); the block byte format round-trips and reloading the serialized bytes yields the same blocks (reload_partial). The three histories on which the code violated the property before the repairs are kept as regression theorems (former_witness_*). Open (runtime-checked, not proved): preservation of the L2 invariant by delete/upsert/batch/hashes, the refinement L2->L1. Every model output is compared with the real MerkleBlob after every op of every history (blob bytes by SHA-256).",
        "level_note": "Trusted: Lean kernel + standard axioms for the proved part; the hand-written L2 model = code only on the histories run; KeyId/ValueId i64 modelled by their 64-bit patterns; MerkleBlob::new decodes blocks lazily, the model decodes all (equal on every blob the operations produce, block_format_roundtrip). Repaired in /repo: 934ac687 (batch_insert), fbd3f8c2 (upsert) - recorded as `fixed:` lines; no known finding remains for C18.",
        "technique": "Lean 4 two-level model (byte-exact index level + plain trees) with refinement checked at run time; Lean theorems for the tree level, the byte format and failed-operation atomicity; differential correspondence on operation histories",
        "trusted": ["open statements are validated only by the run-time checks of the driver on the explored histories (tags ABSFAIL / NEWFAIL)"],
    }

# ---- C07/C08/C09: path theorems (merged from the prover) ----
PROPS["C07"]["theorems"] = ["ChiaModel.C07.legacy_accepts_native_accepts", "ChiaModel.C07.legacy_accepts_native_accepts_size",
    "ChiaModel.C07.native_accepts_legacy", "ChiaModel.C07.native_rejects_legacy_rejects",
    "ChiaModel.C07.simple_generator_rules", "ChiaModel.C07.legacy_cost", "ChiaModel.C04.limit_exact",
    "ChiaModel.C04.native_limit_exact", "ChiaModel.C04.legacy_limit_exact", "ChiaModel.C02.accepted_invariants",
    "ChiaModel.C02.native_invariants", "ChiaModel.C02.legacy_invariants"]
PROPS["C07"]["open"] = ["the cost clause under INTERNED_GENERATOR is FALSE for the code (recorded finding): legacy_accepts_native_accepts_size states exactly which size inequality it needs; RomSpec / RomCostDominates are hypotheses about the CLVM ROM and clvmr cost accounting (external), monitored on every case (rom=ok, prop=ok)",
                        "back-reference deserialisation enters through the decoded program on the case line (C17 proves the deserialiser model's round trip separately)"]
PROPS["C07"]["level"] = "proof"
PROPS["C07"]["level_text"] = ("Proof, conditional on two named hypotheses about the external interpreter. For every generator input, flags without INTERNED_GENERATOR, reference count and cost limit: "
    "(legacy_accepts_native_accepts) if the legacy path model accepts with bundle bl then the native path model accepts with a bundle bn that has the same spends (all fields except the execution-cost bookkeeping), the same fee, locks, unsafe signatures, amounts, condition cost and signature verdict, and bn.cost <= bl.cost; "
    "(native_accepts_legacy) if the native path accepts then the legacy path accepts with the same conditions, or fails with cost-exceeded, or the ROM run itself failed (interpreter limits) - the permitted asymmetry; "
    "(native_rejects_legacy_rejects) if the native path rejects, so does the legacy path. "
    "Hypotheses: RomSpec (the ROM program computes romModel, a Lean transcription of rom_bootstrap_generator - compared with a real clvmr run of the ROM on every case) and RomCostDominates (the ROM run costs at least generator + puzzle runs - compared on every case). "
    "Both path models are tied to run_block_generator / run_block_generator2 by correspondence (verdict, full summary, cost) and the property relation is also evaluated on the implementation's own two results on every case. Under INTERNED_GENERATOR the cost clause is false for the real code (known finding); the _size variant of the theorem isolates the needed inequality.")
PROPS["C07"]["technique"] = "Lean 4 theorems relating the two executable path models for all programs/flags/limits (interpreter results universally quantified, ROM behaviour as a named monitored hypothesis) + differential correspondence + property predicate on implementation results"

PROPS["C08"]["theorems"] = ["ChiaModel.C08.bundle_path_eq_block_path_partial", "ChiaModel.C08.bundle_path_eq_block_path_reversed_partial",
    "ChiaModel.C08.generator_length", "ChiaModel.C08.base_cost_offset", "ChiaModel.C11.clvmBytesLen_ok", "ChiaModel.C04.limit_exact",
    "ChiaModel.C04.runSpendbundle_limit_exact", "ChiaModel.C02.spendbundle_invariants"]
PROPS["C08"]["open"] = ["bundle_path_eq_block_path without _partial: run_spendbundle on css versus the generator build_generator(css) (which lists the spends in REVERSE order) needs the spend-permutation theorem of C06 (open); proved for equal order (and for the reversed bundle against build_generator css)",
                        "INTERNED_GENERATOR mode and the back-reference-compressed / block-builder serialisations are covered by correspondence only (decoder = clvmr, external)",
                        "top-level statement is accept/accept; equality of error kinds is proved at loop level only (LIMIT_SPENDS is checked up front by the bundle path, inside the loop by the native path)"]
PROPS["C08"]["level_text"] = ("Partial proof + correspondence. Proved for all bundles of well-formed coin spends with matching declared puzzle hashes, without INTERNED_GENERATOR: run_spendbundle(css, L) accepts (and its signature check passes) iff run_block_generator2 accepts the quoted generator that lists the same spends in the same order under L + 20 + 2*cost_per_byte; the two summaries agree up to the mempool visitor's eligibility bits (spends, fee, locks, amounts, condition cost equal), native cost = bundle cost + 20 + 2*cost_per_byte and execution cost differs by the quote's 20; the predicted generator length equals the serialised length (generator_length, with clvm_bytes_len from the translator). "
    "The statement for build_generator's own (reversed) order is reduced to the open spend-permutation theorem, hence level other. All serialisation modes and both builders are compared on every generated bundle by correspondence (byte-exact generators, both block paths).")
PROPS["C08"]["technique"] = "Lean 4 theorems relating the mempool-path and block-path models (partial: equal spend order) + translator for clvm_bytes_len + differential correspondence incl. byte-exact generator serialisation"

PROPS["C09"]["theorems"] = ["ChiaModel.C09.additions_removals_spec", "ChiaModel.C09.removals_spec", "ChiaModel.C09.additions_spec",
    "ChiaModel.C09.lookup_spec", "ChiaModel.C02.native_invariants"]
PROPS["C09"]["open"] = ["C09_coinspends_rebuild (get_coinspends_for_trusted_block rebuilds a generator with the same conditions) and C09_bundle_additions (SpendBundle::additions) are checked by correspondence on every accepted block / bundle, not proved"]
PROPS["C09"]["level_text"] = ("Partial proof + correspondence. Proved for every block the native-path model accepts (any flags, limit <= the block maximum, generator output made of byte strings): additions_and_removals' model returns exactly the removals (coin id, parent, puzzle hash, amount) of the validated spends in order (removals_spec) and exactly the created coins with the same hints in spend and condition order (additions_spec - the scanner's hint rule is proved equal to parse_args'), and get_puzzle_and_solution_for_coin's model finds every removed coin and returns a puzzle whose tree hash is the coin's puzzle hash (lookup_spec). "
    "The coin-spend recovery and SpendBundle::additions clauses are compared with the prescription on every case but not proved, hence level other. Two genuine defects found by this check were repaired (known_findings.txt).")
PROPS["C09"]["technique"] = "Lean 4 theorems relating the trusted-helper scanner models to the full-validation model + differential correspondence against the validated conditions"


# ---- C01: refinement to the order-free rule specification (merged from the prover) ----
PROPS["C01"]["theorems"] = ['ChiaModel.C01.C01_refines', 'ChiaModel.C01.C01_rejects', 'ChiaModel.C01.C01_summary_unique',
    'ChiaModel.C01.spend_refines', 'ChiaModel.C01.spend_rejects', 'ChiaModel.C01.spend_accepts_order_free', 'ChiaModel.C01.spend_result_fields',
    'ChiaModel.C01.summary_aggregates_spec', 'ChiaModel.C01.spend_locks_spec', 'ChiaModel.C01.condLoop_refines',
    'ChiaModel.C01.dedup_flag_closed_form', 'ChiaModel.C01.ff_flag_closed_form', 'ChiaModel.C01.flags_empty_visitor',
    'ChiaModel.C01.msgKey_injective', 'ChiaModel.C01.message_keys_wellformed',
    'ChiaModel.C01.opcode_whitelist', 'ChiaModel.C01.opcode_constants', 'ChiaModel.C01.parseOpcode_spec', 'ChiaModel.C01.validateConditions_iff']
PROPS["C01"]["open"] = ['open_message_opcode_inversion: only opcodes 66/67 parse to SEND/RECEIVE_MESSAGE conditions (35-branch case analysis of parseArgs not carried out)',
    "the argument grammar of the individual conditions (Appendix A table for parse_args) is not restated independently of the model: C01_refines uses the model's parseArgs through parseAll; that table is tied to the code by the correspondence sweep (every opcode x every argument shape) only"]
PROPS["C01"]["level"] = "proof"
PROPS["C01"]["level_text"] = ("Proof of refinement to an order-free declarative rule set + correspondence. For every tree, every flag set, both visitors, every cost limit and every signature verdict: "
    "C01_refines: the parse_spends model accepts with (bundle, state) iff the tree parses as a list of spend tuples ps (parseBundle: list termination, tuple shape, sanitised parent / puzzle hash / amount, per-condition parse), BundleAccepts holds (spend count within the limit, coin ids pairwise distinct, total cost <= limit, per spend SpendAccepts - nine order-free clauses: no duplicate outputs, concurring relative locks / birth facts, no impossible lock pairs, assert-my-* facts equal to the coin's attributes, ephemeral restrictions, fee and announcement budgets - total fee < 2^64, the deferred cross-spend assertions each have a counterpart in the bundle, signature verdict) and (bundle, state) = bundleSummary ps, whose 48 per-spend fields are proved to be maxima / minima / common values / sums / filtered lists of the conditions (spend_result_fields, summary_aggregates_spec); C01_rejects: it rejects iff no such ps exists; "
    "spend_accepts_order_free: the per-spend acceptance predicate is invariant under permutation of the conditions; the mempool eligibility flags have closed forms (dedup_flag_closed_form, ff_flag_closed_form, flags_empty_visitor); message keys are injective (msgKey_injective). "
    "The opcode whitelist and cost constants are regenerated from the source (opcode_whitelist, opcode_constants, parseOpcode_spec); validate_conditions is proved equivalent to the declarative cross-spend predicates (validateConditions_iff). "
    "The per-condition argument grammar (parse_args table: arity, atom sizes, sanitizers, hint rule) is used by the specification as written in the model (parseAll) - it is not restated independently; it is tied to the code by the correspondence sweep over every opcode x every argument shape x flags. The model as a whole is compared with the real parse_spends on every generated tree: verdict and the full summary.")
PROPS["C01"]["level_note"] = ("Trusted: Lean kernel + standard axioms; hand model = code only on the cases run; the argument grammar table is shared between specification and model (see level text); blst key validity enters as a per-case oracle (list of valid keys computed by the harness with chia_bls); signature offered is the identity, so BLS verification reduces to `no pairs collected` (C05 covers the signature rule).")
PROPS["C01"]["technique"] = "Lean 4 refinement theorem (executable parse_spends model <-> order-free declarative acceptance predicate and summary function, for all trees/flags/visitors/limits) + translator for opcode/cost tables + differential correspondence on the full summary"

# ---- C06 / C08: permutation theorems (merged from the prover) ----
PROPS["C06"]["theorems"] = ['ChiaModel.C06.strict_monotone', 'ChiaModel.C06.strict_flags_only_restrict', 'ChiaModel.C06.strict_mask_only_restrict', 'ChiaModel.C06.strictMask_values', 'ChiaModel.C06.cost_strict_equal', 'ChiaModel.C06.perm_conditions_partial', 'ChiaModel.C06.perm_accept_iff_partial', 'ChiaModel.C06.perm_accept', 'ChiaModel.C06.perm_conditions_fields_partial', 'ChiaModel.C06.perm_conditions_loop_partial', 'ChiaModel.C06.wrapF_clear_ff', 'ChiaModel.C06.perm_conditions_spend_partial', 'ChiaModel.C06.condLoop_factorisation', 'ChiaModel.C06.perm_spends', 'ChiaModel.C06.perm_spends_accept_iff', 'ChiaModel.C06.perm_conditions_bundle', 'ChiaModel.C06.perm_conditions_bundle_accept_iff']
PROPS["C06"]["open"] = []
PROPS["C06"]["level"] = 'proof'
PROPS["C06"]["level_text"] = 'Proof of both sentences. strict_monotone / strict_mask_only_restrict: for every tree, limit, visitor and each of the 8 subsets of the strictness flags, if the parse_spends model accepts with the flags set it accepts without them with the identical bundle summary, parse state and cost (all 35 argument grammars, the spend limit, the unknown-condition rule). Ordering, whole of parse_spends (via the refinement C01_refines to the order-free rules): perm_spends - any permutation of the spends is accepted iff the original is (given a signature verdict that does not depend on the order of the pairs), with equal cost, condition/execution cost, removal/addition amounts, reserve fee, the four absolute locks and spend count; the spend records are permuted accordingly (every field, both eligibility flags) and agg_sig_unsafe up to listing order. perm_conditions_bundle - permuting the conditions of one spend: accepted iff the original is, same aggregates, all other spend records identical, the record of that spend equal up to the listing order of create_coin / agg_sig_* and up to ELIGIBLE_FOR_FF, and ELIGIBLE_FOR_FF included unless the mempool visitor sees an ASSERT_MY_PARENT_ID in that spend (the positional rule). The index-based deferred rules (ASSERT_EPHEMERAL, not-ephemeral) are put in index-free form (eph_clauses_iff). The per-loop / per-spend statements (perm_conditions_loop_partial, condLoop_factorisation) remain as lemma-level theorems. The metamorphic correspondence checks both sentences on the real code.'
PROPS["C06"]["level_note"] = 'Trusted: Lean kernel + standard axioms; model = code on the cases run. Which error a rejected bundle reports may depend on order (not part of the property).'
PROPS["C08"]["theorems"] = ['ChiaModel.C08.bundle_path_eq_block_path', 'ChiaModel.C08.bundle_path_eq_block_path_partial', 'ChiaModel.C08.bundle_path_eq_block_path_reversed_partial', 'ChiaModel.C08.generator_length', 'ChiaModel.C08.base_cost_offset', 'ChiaModel.C11.clvmBytesLen_ok', 'ChiaModel.C04.limit_exact', 'ChiaModel.C04.runSpendbundle_limit_exact', 'ChiaModel.C02.spendbundle_invariants']
PROPS["C08"]["open"] = ['INTERNED_GENERATOR mode and the back-reference-compressed / block-builder serialisations are covered by correspondence only (decoder = clvmr, external)', 'top-level statement is accept/accept; equality of error kinds is proved at loop level only (LIMIT_SPENDS is checked up front by the bundle path, inside the loop by the native path)']
PROPS["C08"]["level"] = 'other'
PROPS["C08"]["level_text"] = "Partial proof + correspondence. Proved for all bundles of well-formed coin spends with matching declared puzzle hashes, without INTERNED_GENERATOR: run_spendbundle(css, L) accepts (and its signature check passes) iff run_block_generator2 accepts the quoted generator that lists the same spends in the same order under L + 20 + 2*cost_per_byte; the two summaries agree up to the mempool visitor's eligibility bits (spends, fee, locks, amounts, condition cost equal), native cost = bundle cost + 20 + 2*cost_per_byte and execution cost differs by the quote's 20; the predicted generator length equals the serialised length (generator_length, with clvm_bytes_len from the translator). bundle_path_eq_block_path states the same for build_generator's own (reversed) order, the block path's puzzle runs re-indexed and the spend records coming out in reverse order (runSpendbundle_reverse: the order of the spends does not matter to run_spendbundle, via the C01 refinement of the spend loop and the C06 permutation lemmas; needs a signature verdict that is independent of the order of the pairs). INTERNED_GENERATOR mode and the compressed serialisations remain correspondence-only, hence level other. All serialisation modes and both builders are compared on every generated bundle by correspondence (byte-exact generators, both block paths)."
PROPS["C08"]["level_note"] = 'Trusted: clvmr interpreter and serialisers (oracle values / byte comparison); harness; model = code on the cases run.'
PROPS["C08"]["technique"] = "Lean 4 theorems relating the mempool-path and block-path models (same order and build_generator's reversed order) + translator for clvm_bytes_len + differential correspondence incl. byte-exact generator serialisation"

# ---- C09: coin-spend recovery and bundle additions (merged from the prover) ----
PROPS["C09"]["theorems"] = ['ChiaModel.C09.additions_removals_spec', 'ChiaModel.C09.removals_spec', 'ChiaModel.C09.additions_spec', 'ChiaModel.C09.lookup_spec', 'ChiaModel.C09.coinspends_rebuild', 'ChiaModel.C09.coinspends_rebuild_reversed', 'ChiaModel.C09.bundle_additions', 'ChiaModel.C09.bundle_additions_of_limit', 'ChiaModel.C02.native_invariants']
PROPS["C09"]["open"] = ['excluded by hypothesis, recorded findings (known_findings.txt): coinspends_rebuild* assume every puzzle reveal and solution of the generator output serialises plainly within 2 000 000 bytes (revealsFit fits2MB; marker @reveal-over-2MB - above that get_coinspends_for_trusted_block substitutes the default program and the clause is FALSE for the code); bundle_additions assumes no condition has a pair in the opcode position (noPairOpcode; marker @pair-opcode - there SpendBundle::additions returns Err on a bundle run_spendbundle accepts)', "interpreter is external: the puzzle runs are one oracle shared by validation and the helpers; SpendBundle::additions runs the puzzles with ClvmFlags::empty() where validation uses the flags' dialect - bundle_additions is about bundles whose runs coincide under both (compared with the real code on every case); the rebuilt generator's run is modelled as the value of its quote at cost 20 (as in C08)", 'get_coinspends_with_conditions_for_trusted_block is not modelled (same recovery loop plus a condition listing)']
PROPS["C09"]["level"] = 'proof'
PROPS["C09"]["level_text"] = "Proof. For every block the native-path model accepts (any flags, limit <= the block maximum, generator output made of byte strings): additions_and_removals' model returns exactly the removals (coin id, parent, puzzle hash, amount) of the validated spends in order (removals_spec) and exactly the created coins with the same hints in spend and condition order (additions_spec - the scanner's hint rule is proved equal to parse_args'); get_puzzle_and_solution_for_coin's model finds every removed coin and returns a puzzle whose tree hash is the coin's puzzle hash (lookup_spec); get_coinspends_for_trusted_block's model (getCoinspends: extract_n::<5> failures skipped, 32-byte parent, parse_amount, puzzle hash = tree hash, Program::from_clvm(..).unwrap_or_default() with the 2 MB size test as parameter) succeeds with coin spends that describe the generator's spend list element by element, in order (Recovered: parent, reveal, canonical amount, solution; lengths = plain serialised lengths) and name the validated coins, and both the quoted generator listing them in order (coinspends_rebuild) and the generator build_generator makes of them, which lists them in REVERSE order (coinspends_rebuild_reversed, puzzle runs re-indexed, signature verdict independent of the order of the pairs), are accepted by the native-path model - every flag set, INTERNED_GENERATOR included, since only the spend loop is compared - with the same spend records (every field; reversed order in the second case), fee, locks, amounts, condition cost and signature verdict; execution_cost and cost differ exactly by the generator-run cost against the quote's 20 and by the two size costs. SpendBundle::additions' model (bundleAdditions: own 11 000 000 000 countdown charging the puzzle runs and 1 350 000 per created coin, coin id of the DECLARED coin as parent, opcode atoms of length != 1 skipped, (Bytes32, (u64, rest)) destructuring with clvm-traits' decode_number) on every bundle the run_spendbundle model accepts with cost <= 11 000 000 000 returns exactly the created coins of the validated conditions in spend and condition order (bundle_additions; the query's countdown is proved to stay above validation's, so no extra cost hypothesis). Exact exclusions = the two recorded findings: reveals or solutions whose plain serialisation exceeds 2 MB (hypothesis revealsFit, marker @reveal-over-2MB) and conditions with a pair in the opcode position (hypothesis noPairOpcode, marker @pair-opcode); on both the models reproduce the code's deviation (non-vacuity examples in Props/C09.lean). The models are tied to the code by correspondence: every helper is compared with the prescription on every accepted block / bundle, and the driver also runs the helper models themselves (scanner=agrees, #model=agrees). Two further defects found by this check were repaired (known_findings.txt)."
PROPS["C09"]["level_note"] = 'Trusted: clvmr (oracle values), harness; model = code on the cases run.'
PROPS["C09"]["technique"] = 'Lean 4 theorems relating the trusted-helper models (additions_and_removals, get_puzzle_and_solution_for_coin, get_coinspends_for_trusted_block, SpendBundle::additions) to the full-validation models, reusing the C08 block/bundle bridge and the C01/C06 permutation lemmas + differential correspondence against the validated conditions'

# ---- C04 / C10: cost decomposition on the execution paths ----
PROPS["C04"]["theorems"] = PROPS["C04"]["theorems"] + ["ChiaModel.C04.native_cost_decomposition", "ChiaModel.C04.runSpendbundle_cost_decomposition"]
PROPS["C10"]["theorems"] = PROPS["C10"]["theorems"] + ["ChiaModel.C10.interned_consensus_cost"]

# ---- C18: invariant, abstraction and reload theorems (merged from the builder) ----
PROPS["C18"]["theorems"] = ['ChiaModel.C18.map_refinement', 'ChiaModel.C18.keys_unique', 'ChiaModel.C18.hashes_unique', 'ChiaModel.C18.history_refinement', 'ChiaModel.C18.history_refinement_empty', 'ChiaModel.C18.root_hash', 'ChiaModel.C18.check_good', 'ChiaModel.C18.proof_valid', 'ChiaModel.C18.proofOf_stored', 'ChiaModel.C18.proof_valid_after_recompute', 'ChiaModel.C18.struct_ok_decides', 'ChiaModel.C18.struct_ok_empty', 'ChiaModel.C18.struct_ok_linv', 'ChiaModel.C18.inv_preserved', 'ChiaModel.C18.abs_commutes', 'ChiaModel.C18.abs_defined', 'ChiaModel.C18.integrity_of_inv', 'ChiaModel.C18.history_refinement_l2', 'ChiaModel.C18.history_success_agrees', 'ChiaModel.C18.hashes_commute', 'ChiaModel.C18.hashes_never_fails', 'ChiaModel.C18.hash_inv_preserved', 'ChiaModel.C18.history_hashes_ok', 'ChiaModel.C18.root_after_hashes', 'ChiaModel.C18.proof_commutes', 'ChiaModel.C18.authenticated_map', 'ChiaModel.C18.reload_caches', 'ChiaModel.C18.reload', 'ChiaModel.C18.fail_unchanged', 'ChiaModel.C18.fail_unchanged_all', 'ChiaModel.C18.fail_unchanged_batch_validation', 'ChiaModel.C18.batch_commit_succeeds', 'ChiaModel.C18.insert_succeeds', 'ChiaModel.C18.linv_preserved_insert', 'ChiaModel.C18.linv_preserved_upsert', 'ChiaModel.C18.inserts_upserts_history', 'ChiaModel.C18.reload_partial', 'ChiaModel.C18.block_format_roundtrip', 'ChiaModel.C18.former_witness_batch_rejected', 'ChiaModel.C18.former_witness_upsert_rejected', 'ChiaModel.C18.former_witness_failed_batch_unchanged']
PROPS["C18"]["gen_theorems"] = []
PROPS["C18"]["open"] = ['no open proof obligation of DESIGN 6 C18 remains. Not proved (and not needed by the theorems): the first executable well-formedness `wf` (several independent traversals of the blocks) is equivalent to structOk && hashesOk - the driver evaluates wf, LInv, structOk and the refinement on every state (tags NEWFAIL:wf / linv / struct, ABSFAIL)']
PROPS["C18"]["level"] = 'proof'
PROPS["C18"]["level_text"] = 'Proof (two-level Lean model, refinement proved for every operation) + correspondence. L1 (plain trees, unbounded): every insert/upsert/delete/batch insert acts on the key->value content exactly like a plain map when it succeeds and leaves the tree unchanged when it fails (map_refinement); keys and leaf hashes stay pairwise distinct (keys_unique, hashes_unique); by induction over ANY finite history the content equals that of a plain map subjected to the same successful operations (history_refinement); lazy hash recomputation on a tree satisfying the hash invariant stores the independently recomputed Merkle root and cleans every node (root_hash); every key has an inclusion proof that is valid and ends in that root, also when read off the stored hashes (proof_valid, proof_valid_after_recompute). L2 (index-level model of MerkleBlob: block array, free list, key->index and hash->index caches; byte-exact): the strengthened invariant - ONE index-annotated tree is stored below index 0 with consistent child and parent pointers, every index below the blob length is a node of that tree or on the free list exactly once (every live node is reachable from the root), both caches hold exactly the leaves, keys and leaf hashes distinct - is decidable (structOk, struct_ok_decides; evaluated by the driver on every state), holds for the empty blob and is preserved by EVERY operation: insert at any location, upsert, delete, batch insert, calculate_lazy_hashes, successful or failed (inv_preserved); it implies the local invariant LInv (struct_ok_linv) and check_integrity = ok (integrity_of_inv). The abstraction commutes with every operation: the operation succeeds on the blob exactly when it succeeds on the tree, and abs (op s) = opL1 (abs s) (abs_commutes). Hence for ANY finite history from the empty blob the reached state satisfies the invariant, passes check_integrity, its abstraction is the tree reached by the same history on the tree model, keys and leaf hashes are pairwise distinct and the content equals that of a plain map subjected to the same successful operations (history_refinement_l2, history_success_agrees). A failed operation leaves the blob unchanged (fail_unchanged_all; calculate_lazy_hashes cannot fail, hashes_never_fails; a validated batch cannot fail, batch_commit_succeeds). Stored hashes: calculate_lazy_hashes on blocks = HT.recompute on the abstraction with stored hashes (hashes_commute); the hash invariant (a clean internal node stores the Merkle hash of its subtree and has only clean descendants) is preserved by every operation - marking the lineage dirty suffices (hash_inv_preserved, history_hashes_ok); get_proof_of_inclusion on the blocks = the proof read off the abstraction (proof_commutes). End to end (authenticated_map): after any finite history from the empty blob followed by calculate_lazy_hashes, get_root_hash returns the Merkle root recomputed independently over the content and, for every key of the content, get_proof_of_inclusion succeeds with a proof that is valid and ends in that root (root_after_hashes). Reload: MerkleBlob::new(bytes s) has the same blocks and bytes, caches with the same content, the same free indexes up to order, the same abstraction and satisfies the invariant (reload, reload_caches, block_format_roundtrip). The three histories on which the code violated the property before the repairs are regression theorems (former_witness_*). Every model output is compared with the real MerkleBlob after every op of every history (blob bytes by SHA-256).'
PROPS["C18"]["level_note"] = 'Trusted: Lean kernel + standard axioms; the hand-written L2 model = code only on the histories run (differential correspondence, blob bytes compared after every op); KeyId/ValueId i64 modelled by their 64-bit patterns; MerkleBlob::new decodes blocks lazily, the model decodes all (equal on every blob the operations produce, block_format_roundtrip); `reload` assumes every block field fits the byte format (BlockOk: indexes < 2^32, 32-byte hashes, 64-bit keys/values); hashes are abstract byte strings and internalHash an uninterpreted function (no collision-resistance argument is made or needed: the theorems compare the stored root with the recomputed one). Repaired in /repo: 934ac687 (batch_insert), fbd3f8c2 (upsert) - recorded as `fixed:` lines; no known finding remains for C18.'
PROPS["C18"]["technique"] = 'Lean 4 two-level model (byte-exact index level + plain trees); representation relation (index-annotated tree stored in the block array) proved inductive and the abstraction proved to commute with every operation; Lean theorems for the tree level, the byte format, reload and failed-operation atomicity; differential correspondence on operation histories'
PROPS["C18"]["rule"] = "operation histories, one per line (`C18 hist op;op;...`), ops ins (auto / left:<key> / right:<key>, incl. unknown reference keys), ups, del, batch n, hashes; after EACH op the real MerkleBlob and the Lean index-level model print: Ok/Err/panic, SHA-256 of the exact blob bytes, sorted key/values, check_integrity, reload (MerkleBlob::new(bytes): loads, same key/values, integrity ok); after `hashes` the root hash and per key proof.valid() and proof.root == root. Generated: the histories on which the code broke the property before commits 934ac687/fbd3f8c2 and neighbours; exhaustive histories of length <= 2 (quick, + 1500 random of length 3) / <= 3 (thorough, first op restricted to ops that can succeed on the empty blob) over an alphabet of 64 ops on 3 keys / 3 hashes; batch sizes 0..9 on trees of 0,1,2,3,5,8,17 leaves; insert n, delete down to 0/1/2 leaves in random order, insert again (free-index reuse, promotion to the root); random histories of 1-60 ops over 6 keys / 8 hashes and over random i64 keys (negative included) with random 32-byte hashes, incl. batches with present/repeated keys and hashes and upserts to another leaf's hash. `C18 prop <history>[ @dupbatch][ @upshash]` lines evaluate the PROPERTY on the real code against a BTreeMap oracle (integrity, content, failed-op-unchanged, reload, root = independent recomputation and proofs); the model side prints the prescription; the markers (computed from the history alone) name the two classes of operation repaired by those commits. non-trivial = a distinct `hist` line"
PROPS["C18"]["trivial"] = '^(-|bad-op|integrity=ok content=eq.*)$'
PROPS["C18"]["trusted"] = ['the L2 model mirrors the Rust code by construction and is validated by the differential runs only (every observable, blob bytes by SHA-256, after every op of every history)']

# ---- C10: consensus cost theorems; level ----
PROPS["C10"]["theorems"] = PROPS["C10"]["theorems"] + ["ChiaModel.C10.compressed_consensus_cost"]
PROPS["C10"]["open"] = ["compressed builder, 'a rejected attempt leaves the later output unchanged' at the level of BYTES and cost: depends on clvmr's TreeCache, which Serializer::restore does not fully undo (recorded finding); in the model the serializer sizes are oracle values, so only the decoded contents / signature / accounting are theorems (compressed_*_partial with kernel-checked counterexamples for the full sentences)",
    "consensus cost: interned_consensus_cost / compressed_consensus_cost take the truthfulness of the declared costs in total (sum of declared = execution + condition cost of the block's own run) as hypothesis; that each bundle's run_spendbundle cost minus its byte cost adds up to that total follows from C08 bundle_path_eq_block_path per bundle but is not stated as one theorem over a list of bundles"]
PROPS["C10"]["level"] = "proof"
PROPS["C10"]["level_text"] = ("Proof, with the recorded findings of the compressed builder as exact exclusions. Interned builder, fully modelled: all-or-nothing (unconditional, wrapping arithmetic included), a rejected attempt changes nothing later (verdicts, cost(), finalize), contents and signature of finalize for every history, finite-set sub-additivity of interned_vbytes and from it: exact cost <= cost() <= limit in every reachable state, finalize's assert cannot fire, accepted iff true total <= limit (exactly on the limit is accepted); interned_consensus_cost: the cost finalize computes equals the cost run_block_generator2 (model, INTERNED_GENERATOR) charges for the emitted generator when the declared costs are truthful in total (via C04 native_cost_decomposition: byte cost + execution + condition cost). "
    "Compressed builder with the incremental serializer as oracle under SerContract (restore undoes the size, size monotone, closing costs <= 2 bytes): contents, signature, no panic and cost <= limit, exact limit, compressed_consensus_cost (returned cost = consensus cost of a generator of the emitted length); the two sentences that fail on the unchanged code (estimate below final cost on a builder whose serializer no attempt has reached; first rejected-after-serialization attempt changes cost()) are stated in full, refuted by kernel-checked witnesses replayed on the real code, and proved with the exact exclusion. Hypotheses where sums occur: limit < 2^62 and >= cost of the empty generator, declared <= 2^63. "
    "Correspondence: builder histories through both real builders, every returned generator decoded and re-run through run_block_generator2 (consensus cost compared per case).")

# ---- C08: all flags, verdicts, serialisation independence (merged from the prover) ----
# ---- C08: every flag value (INTERNED_GENERATOR), error kinds, serialisation modes (merged from the prover) ----
PROPS["C08"]["theorems"] = ['ChiaModel.C08.bundle_path_eq_block_path_all_flags', 'ChiaModel.C08.bundle_path_eq_block_path_interned', 'ChiaModel.C08.bundle_path_eq_block_path', 'ChiaModel.C08.bundle_path_eq_block_path_any_serialization', 'ChiaModel.C08.base_cost_offset_all_flags', 'ChiaModel.C08.verdict_same_order', 'ChiaModel.C08.verdict_same_order_byte_cost', 'ChiaModel.C08.verdict_too_many', 'ChiaModel.C08.both_fail', 'ChiaModel.C08.paths_same_order', 'ChiaModel.C08.paths_too_many', 'ChiaModel.C08.serialization_independent', 'ChiaModel.C08.serialization_independent_accept', 'ChiaModel.C08.Witness.error_kind_differs_reversed_order', 'ChiaModel.C08.Witness.error_kind_differs_too_many_spends', 'ChiaModel.C08.bundle_path_eq_block_path_partial', 'ChiaModel.C08.bundle_path_eq_block_path_reversed_partial', 'ChiaModel.C08.generator_length', 'ChiaModel.C08.base_cost_offset', 'ChiaModel.Gn.runBundleWith_rules', 'ChiaModel.Gn.runBundleWith_reverse', 'ChiaModel.Gn.runSpendbundle_with', 'ChiaModel.C11.clvmBytesLen_ok', 'ChiaModel.C04.limit_exact', 'ChiaModel.C04.runSpendbundle_limit_exact', 'ChiaModel.C04.native_limit_exact', 'ChiaModel.C02.spendbundle_invariants']
PROPS["C08"]["open"] = ['error KINDS of two failing runs are not part of the property and provably need not agree: (a) for build_generator\'s own (reversed) spend order a cost-exceeded in one path can race a reject in the other (Witness.error_kind_differs_reversed_order, 2 spends); (b) with LIMIT_SPENDS and more than 6000 spends run_spendbundle reports TooManySpends up front while run_block_generator2 runs the first 6000 spends first (Witness.error_kind_differs_too_many_spends). Proved instead: both fail (both_fail, verdict_too_many), and the same kind for equal spend order and at most 6000 spends (verdict_same_order)', 'the byte strings themselves are external: a serialisation enters the block-path model as (length, ff01 prefix, decoded tree, number of references); that the back-reference form / the builders\' output decodes to build_generator(css) is checked by correspondence (decoder = clvmr; C17 proves the deserialiser model\'s round trip separately). Generators assembled by the block builders from SEVERAL bundles are covered by C10, not here', 'under INTERNED_GENERATOR the interned size of build_generator depends on the order of the spends (Witness example 106 vs 103), so the same-order statements relate the limits through both size costs (verdict_same_order) rather than by a constant; for build_generator(css) against css itself both paths intern the same tree and the difference is exactly 20']
PROPS["C08"]["level"] = "proof"
PROPS["C08"]["level_text"] = ("Proof. For every spend bundle css of well-formed coin spends (32-byte parents, u64 amounts, plainly serialised reveals) whose declared puzzle hashes match, fewer than 2^64 spends, EVERY flag set (INTERNED_GENERATOR, LIMIT_SPENDS, strictness flags, ...), every interpreter result (universally quantified) and every limit L, with a signature verdict that does not depend on the listing order of the (pk, msg) pairs: "
    "(bundle_path_eq_block_path_all_flags) run_spendbundle(css, L) accepts and its signature check passes iff run_block_generator2 accepts build_generator(css) - which lists the spends in REVERSE order - under L + offset, where offset = 20 + 2*cost_per_byte in byte-cost mode and exactly 20 under INTERNED_GENERATOR (both paths intern the same tree, quote wrapper included: base_cost_offset_all_flags); the two summaries agree up to the mempool visitor's eligibility bits and the order of the spends (spend records reversed, fee, locks, amounts, condition cost equal, AGG_SIG_UNSAFE pairs up to order), block cost = bundle cost + offset, execution cost + 20 (bundle_path_eq_block_path_interned is the flag-set instance). "
    "(serialization_independent, bundle_path_eq_block_path_any_serialization) the block-path model reads the generator bytes only through (length, ff01 prefix, decoded tree, reference count): for two serialisations of the same tree its results are EQUAL (verdict, error kind, conditions, cost) under INTERNED_GENERATOR, and in byte-cost mode equal after shifting limit and cost by (len2-len1)*cost_per_byte; hence the bundle path agrees with the block path on ANY serialisation of build_generator(css), with block cost + saved bytes' cost = bundle cost + offset - the admission-time cost plus the fixed offset bounds the block cost of every serialisation and is attained by the plain one. "
    "(generator_length, base_cost_offset) predicted generator length = actual plain serialised length; size costs differ by exactly the two wrapper bytes. "
    "Verdicts of failing runs: both_fail (one path fails iff the other does, up to the signature stage the bundle path leaves to its caller), verdict_same_order (equal spend order, at most 6000 spends: the SAME error kind in both directions, limits related through both size costs), verdict_too_many (more than 6000 spends under LIMIT_SPENDS: both fail); that error kinds can differ otherwise is shown by two kernel-checked counterexamples (Witness.error_kind_differs_reversed_order, Witness.error_kind_differs_too_many_spends). "
    "Proof route: run_spendbundle with its base cost as a parameter (Gn.runBundleWith, = runSpendbundle by rfl) refines the order-free rules of C01 for every flag set (runBundleWith_rules), so reversing the bundle at a FIXED base cost changes nothing (runBundleWith_reverse; needed because the interned size is order-dependent); the spend loops of the two paths are related step by step (nativeLoop_bundleLoop). The models are tied to the code by correspondence on every generated bundle (byte-exact generators, plain and back-reference forms, both block paths, INTERNED_GENERATOR included).")
PROPS["C08"]["level_note"] = 'Trusted: Lean kernel + standard axioms; clvmr interpreter (its results are universally quantified parameters) and serialisers/deserialisers (byte comparison, decoded tree on the case line); harness; model = code on the cases run. Which error a rejected bundle reports is not part of the property (two counterexamples to kind agreement are proved).'
PROPS["C08"]["technique"] = "Lean 4 theorems relating the mempool-path and block-path models for all bundles / flags (INTERNED_GENERATOR included) / limits / serialisations of the same tree, incl. error-kind agreement with its exact side conditions and kernel-checked counterexamples + translator for clvm_bytes_len + differential correspondence incl. byte-exact generator serialisation"

# ---- C01: table-driven argument grammar (merged from the prover) ----
# ---- C01: argument grammar as an independent data table; message-opcode inversion (merged from prover p01b) ----
PROPS["C01"]["theorems"] = ['ChiaModel.C01.C01_refines', 'ChiaModel.C01.C01_rejects', 'ChiaModel.C01.C01_summary_unique',
    'ChiaModel.C01.C01_refines_grammar', 'ChiaModel.C01.C01_rejects_grammar', 'ChiaModel.C01.condLoop_refines_grammar',
    'ChiaModel.C01.parseArgs_table', 'ChiaModel.Grammar.parseArgs_eq_spec', 'ChiaModel.C01.parse_table',
    'ChiaModel.C01.int_classes_spec',
    'ChiaModel.C01.message_opcode_inversion', 'ChiaModel.C01.message_keys_wellformed_all', 'ChiaModel.C01.createCoin_opcode_inversion',
    'ChiaModel.C01.grammar_domain', 'ChiaModel.C01.aggSig_grammar', 'ChiaModel.C01.grammar_groups', 'ChiaModel.C01.flag_exemptions',
    'ChiaModel.C01.endpointFields_bits', 'ChiaModel.C01.build_total',
    'ChiaModel.C01.spend_refines', 'ChiaModel.C01.spend_rejects', 'ChiaModel.C01.spend_accepts_order_free', 'ChiaModel.C01.spend_result_fields',
    'ChiaModel.C01.summary_aggregates_spec', 'ChiaModel.C01.spend_locks_spec', 'ChiaModel.C01.condLoop_refines',
    'ChiaModel.C01.dedup_flag_closed_form', 'ChiaModel.C01.ff_flag_closed_form', 'ChiaModel.C01.flags_empty_visitor',
    'ChiaModel.C01.msgKey_injective', 'ChiaModel.C01.message_keys_wellformed',
    'ChiaModel.C01.opcode_whitelist', 'ChiaModel.C01.opcode_constants', 'ChiaModel.C01.parseOpcode_spec', 'ChiaModel.C01.validateConditions_iff']
PROPS["C01"]["gen_theorems"] = ["ChiaModel.C01.opcode_whitelist", "ChiaModel.C01.opcode_constants",
    "ChiaModel.C01.grammar_domain", "ChiaModel.C01.aggSig_grammar", "ChiaModel.C01.grammar_groups", "ChiaModel.C01.flag_exemptions"]
PROPS["C01"]["open"] = []
PROPS["C01"]["level"] = "proof"
PROPS["C01"]["level_text"] = ("Proof of refinement to an order-free declarative rule set with a table-driven argument grammar + correspondence. For every tree, every flag set, both visitors, every cost limit and every signature verdict: "
    "C01_refines / C01_refines_grammar: the parse_spends model accepts with (bundle, state) iff the tree parses as a list of spend tuples ps (specParseBundle: list termination, tuple shape, sanitised parent / puzzle hash / amount, per condition the opcode rule parseOpcode_spec and the ARGUMENT GRAMMAR TABLE), BundleAccepts holds (spend count within the limit, coin ids pairwise distinct, total cost <= limit, per spend SpendAccepts - nine order-free clauses: no duplicate outputs, concurring relative locks / birth facts, no impossible lock pairs, assert-my-* facts equal to the coin's attributes, ephemeral restrictions, fee and announcement budgets - total fee < 2^64, the deferred cross-spend assertions each have a counterpart in the bundle, signature verdict) and (bundle, state) = bundleSummary ps, whose 48 per-spend fields are proved to be maxima / minima / common values / sums / filtered lists of the conditions (spend_result_fields, summary_aggregates_spec); C01_rejects / C01_rejects_grammar: it rejects iff no such ps exists. "
    "The per-condition argument grammar is now an independent specification (Spec/ArgGrammar.lean, written from DESIGN Appendix A.1 and the Rust parse_args / sanitizers / SpendId::parse, not from the model): a data table grammar : opcode -> (required argument kinds in order, tail rule) for the 35 one-byte opcodes and all two-byte opcodes; one decoding function per kind (hash32 / pubkey48 exact lengths, announceMsg <= 1024 bytes, integers by the four classes canon / neg / over / bad of sanitize_uint with a per-kind policy: amounts, SOFTFORK cost and birth assertions reject neg and over, ASSERT_{SECONDS,HEIGHT}_* turn neg into a vacuous condition and reject over, ASSERT_BEFORE_* reject neg and turn over into a vacuous condition - skip for absolute, skipRelativeCondition for relative kinds - bad i.e. a redundant leading zero always rejects; message mode = canonical integer 0..63); four tail rules (exact; ignored for REMARK / SOFTFORK / two-byte; the CREATE_COIN memo rule with hint = first memo iff an atom of 1..32 bytes; the mode-selected end-point fields of SEND / RECEIVE_MESSAGE with 7 = coin id); the STRICT_ARGS_COUNT terminator rule stated once; NO_UNKNOWN_CONDS for SOFTFORK and two-byte opcodes; a table of constructors. parseArgs_table (parseArgs_eq_spec): the model's parseArgs equals this interpreter on EVERY tree, EVERY opcode number (unrecognised ones included) and EVERY flag set; parse_table lifts it to condition lists and generator outputs. int_classes_spec: for byte strings and widths <= 8 the class canon v holds iff the atom is canonNat v with v < 256^w (nothing truncated, zero = empty atom only), neg iff the two's-complement value is negative, over iff canonical non-negative with value >= 256^w, bad iff non-negative with a redundant leading zero. Table sanity (decide): the opcodes with an entry are exactly the whitelist extracted from parse_opcode plus 256..65535 (grammar_domain), every AGG_SIG_* is (pubkey48, announceMsg) (aggSig_grammar), the complete grouping of opcodes by grammar (grammar_groups), only REMARK / SOFTFORK are exempt from the terminator rule and only SOFTFORK falls to NO_UNKNOWN_CONDS among one-byte opcodes (flag_exemptions), the end-point field table equals the bit rule (endpointFields_bits), and 82 boundary examples (33-byte hash, 1025-byte message, 2^64, leading zero, negative locks, extra argument with / without STRICT_ARGS_COUNT, hints of 32 / 33 / 0 bytes / pair). message_opcode_inversion (formerly open): only opcodes 66 / 67 parse to message conditions, so message_keys_wellformed_all covers every parsed message condition; createCoin_opcode_inversion likewise for 51. "
    "spend_accepts_order_free: the per-spend acceptance predicate is invariant under permutation of the conditions; the mempool eligibility flags have closed forms (dedup_flag_closed_form, ff_flag_closed_form, flags_empty_visitor); message keys are injective (msgKey_injective). "
    "The opcode whitelist and cost constants are regenerated from the source (opcode_whitelist, opcode_constants, parseOpcode_spec); validate_conditions is proved equivalent to the declarative cross-spend predicates (validateConditions_iff). "
    "What the specification still shares with the model: the mempool eligibility flags inside the summary fold (closed forms proved) and the cost table in list form (C04 proves it equal to the consensus table). The model as a whole is compared with the real parse_spends on every generated tree: verdict and the full summary (incl. an exhaustive single-condition sweep over every opcode x argument shape x flags).")
PROPS["C01"]["level_note"] = ("Trusted: Lean kernel + standard axioms; hand model = code only on the cases run (the argument grammar is now ALSO pinned by an independent table proved equal to the model, so a model error in parse_args would have to coincide with the same error in the table written from Appendix A / the source); blst key validity enters as a per-case oracle (list of valid keys computed by the harness with chia_bls); signature offered is the identity, so BLS verification reduces to `no pairs collected` (C05 covers the signature rule). Trees are values: OwnedSpendConditions::from compares the hint node with a.nil() by pointer, so an empty first memo that is a zero-length substr of a heap atom would be reported as Some(\"\") instead of None (DESIGN 12.3, not reachable from deserialised trees).")
PROPS["C01"]["technique"] = "Lean 4 refinement theorem (executable parse_spends model <-> order-free declarative acceptance predicate and summary function, for all trees/flags/visitors/limits) with a table-driven argument grammar proved equal to the model's parse_args + translator for opcode/cost tables + differential correspondence on the full summary"

# ---- C10: truthfulness of the declared costs derived from per-bundle mempool runs (merged from the prover) ----
# override for bin/props.py: PROPS['C10'] after the list-of-bundles consensus-cost theorems
# usage: exec(open('/tmp/w_p10/props_c10_override.py').read()) after PROPS is defined, or paste the three assignments
PROPS["C10"]["theorems"] = [
  "ChiaModel.C10.builder_consts",
  "ChiaModel.C10.wrapper_weight",
  "ChiaModel.C10.interned_all_or_nothing",
  "ChiaModel.C10.interned_rejected_no_effect",
  "ChiaModel.C10.interned_contents",
  "ChiaModel.C10.interned_signature",
  "ChiaModel.C10.triangle",
  "ChiaModel.C10.interned_estimate_upper",
  "ChiaModel.C10.interned_within_limit",
  "ChiaModel.C10.interned_exact_limit",
  "ChiaModel.C10.compressed_all_or_nothing_full_false",
  "ChiaModel.C10.compressed_all_or_nothing_partial",
  "ChiaModel.C10.compressed_contents",
  "ChiaModel.C10.compressed_signature",
  "ChiaModel.C10.compressed_within_limit",
  "ChiaModel.C10.compressed_estimate_upper_full_false",
  "ChiaModel.C10.compressed_estimate_upper_partial",
  "ChiaModel.C10.compressed_exact_limit",
  "ChiaModel.C10.interned_consensus_cost",
  "ChiaModel.C10.compressed_consensus_cost",
  "ChiaModel.C10.bundles_truthful_total",
  "ChiaModel.C10.bundles_truthful_total_reversed",
  "ChiaModel.C10.interned_consensus_cost_of_bundles_reindexed",
  "ChiaModel.C10.interned_consensus_cost_of_bundles",
  "ChiaModel.C10.compressed_consensus_cost_of_bundles"
]

PROPS["C10"]["open"] = [
  "compressed builder, 'a rejected attempt leaves the later output unchanged' at the level of BYTES and cost: depends on clvmr's TreeCache, which Serializer::restore does not fully undo (recorded finding); in the model the serializer sizes are oracle values, so only the decoded contents / signature / accounting are theorems (compressed_*_partial with kernel-checked counterexamples for the full sentences)",
  "consensus cost from per-bundle mempool acceptance (bundles_truthful_total, interned_/compressed_consensus_cost_of_bundles): the hypothesis 'declared costs truthful in total' is now DERIVED from run_spendbundle accepting every bundle and each batch declaring the sum of (execution + condition cost) of its bundles; what remains hypothesis: (a) ACCEPTANCE of the combined block by run_block_generator2 (it depends on cross-bundle conditions and double spends, so it cannot follow from per-bundle acceptance); (b) the puzzle runs of the block are those of the bundles, re-indexed (a function of the listed item, or positionally q(N-1-i) for the interned builder's reversed order) - the CLVM interpreter is an oracle in the model; (c) the mempool run and the block run use the same flag word p.flags (as in C08): that the extra strictness flags of MEMPOOL_MODE never change the cost of an accepted spend is not proved; (d) for the compressed builder the positional (re-indexed) form is stated only through the item-keyed oracle (its order is batch-wise reversed)"
]

PROPS["C10"]["level_text"] = "Proof, with the recorded findings of the compressed builder as exact exclusions. Interned builder, fully modelled: all-or-nothing (unconditional, wrapping arithmetic included), a rejected attempt changes nothing later (verdicts, cost(), finalize), contents and signature of finalize for every history, finite-set sub-additivity of interned_vbytes and from it: exact cost <= cost() <= limit in every reachable state, finalize's assert cannot fire, accepted iff true total <= limit (exactly on the limit is accepted); interned_consensus_cost: the cost finalize computes equals the cost run_block_generator2 (model, INTERNED_GENERATOR) charges for the emitted generator when the declared costs are truthful in total (via C04 native_cost_decomposition: byte cost + execution + condition cost); interned_consensus_cost_of_bundles(_reindexed) / compressed_consensus_cost_of_bundles derive that truthfulness, for every history of adds on a fresh builder, from per-bundle mempool acceptance: both cost fields of an accepted run_spendbundle / run_block_generator2 are sums over the spends of a quantity read off the spend's own puzzle run (Lemmas/CostAdditive: nativeLoop_costs, bundleLoop_costs), so execution cost = 20 + sum of the bundles' execution costs and condition cost = sum of the bundles' condition costs for ANY order of the spends (bundles_truthful_total; positional re-indexing for the interned builder's reversed order: bundles_truthful_total_reversed), block_cost = 20 + accepted declared costs without wrap, hence finalize returns and its cost equals the consensus cost of the emitted block (acceptance of the combined block stays a hypothesis). Compressed builder with the incremental serializer as oracle under SerContract (restore undoes the size, size monotone, closing costs <= 2 bytes): contents, signature, no panic and cost <= limit, exact limit, compressed_consensus_cost (returned cost = consensus cost of a generator of the emitted length); the two sentences that fail on the unchanged code (estimate below final cost on a builder whose serializer no attempt has reached; first rejected-after-serialization attempt changes cost()) are stated in full, refuted by kernel-checked witnesses replayed on the real code, and proved with the exact exclusion. Hypotheses where sums occur: limit < 2^62 and >= cost of the empty generator, declared <= 2^63. Correspondence: builder histories through both real builders, every returned generator decoded and re-run through run_block_generator2 (consensus cost compared per case)."

# ---- C04: texts brought up to date with the execution-path theorems ----
PROPS["C04"]["open"] = ["the CLVM execution costs themselves are clvmr's (external): in the theorems every interpreter run is a universally quantified value; interned_vbytes is a model function (Model/Generator.lean) compared with the code on every INTERNED_GENERATOR case"]
PROPS["C04"]["level_text"] = PROPS["C04"]["level_text"] + (" (4) the same for every entry point: native_limit_exact / legacy_limit_exact / runSpendbundle_limit_exact (the limit is exact through the byte cost, the generator run, every puzzle run and every spend's conditions) and native_cost_decomposition / runSpendbundle_cost_decomposition (reported cost = byte cost + execution cost + condition cost, exactly). Correspondence: every accepted case is re-run at its own cost and one below; accepted bundles and generators are re-run with the limit at every stage boundary of the countdown.")

# ---- C15: model brought up to the repaired BlsCache::aggregate_verify (merged from the prover) ----

# ---- C15 after the repair 601e785b (BlsCache::aggregate_verify rejects the infinity / invalid key):
# the model carries the invalid_key flag, the driver prints the model's own cache verdict,
# InfFull / inf_witness* / inf_full_false / inf_partial are gone, inf_full and the full agreement
# of the cache-assisted path with aggregate_verify are theorems.
PROPS["C15"]["theorems"] = [
  "ChiaModel.C15.cap_invariant",
  "ChiaModel.C15.cap_invariant_new",
  "ChiaModel.C15.new_zero",
  "ChiaModel.C15.cap_zero_breaks",
  "ChiaModel.C15.keys_nodup",
  "ChiaModel.C15.cache_sound_inv",
  "ChiaModel.C15.cache_sound_inv_or_collision",
  "ChiaModel.C15.history_sound",
  "ChiaModel.C15.transparent",
  "ChiaModel.C15.transparent_prefix",
  "ChiaModel.C15.cacheVerify_transparent",
  "ChiaModel.C15.inf_full",
  "ChiaModel.C15.inf_full_sched",
  "ChiaModel.C15.inf_full_prefix",
  "ChiaModel.C15.gt_flag_eq_plain",
  "ChiaModel.C15.cache_agrees_with_plain",
  "ChiaModel.C15.cache_agrees_with_plain_sched",
  "ChiaModel.C15.agree_noinf",
  "ChiaModel.C15.agree_noinf_sched",
  "ChiaModel.C15.gt_noinf",
  "ChiaModel.C15.aggregateVerify_spec",
  "ChiaModel.C15.verify_spec",
  "ChiaModel.C15.ideal_correct",
  "ChiaModel.C15.inf_all_paths",
  "ChiaModel.C15.former_witness_rejected",
  "ChiaModel.C15.pairing_convention"
]

PROPS["C15"]["open"] = [
  "public keys outside the prime-order subgroup (!PublicKey::is_valid(); reachable only through from_bytes_unchecked) are not representable in the scalar model (a key IS its scalar), so the second disjunct of the repaired check `pk.is_inf() || !pk.is_valid()` is mirrored by Pair.isInf alone; such keys are outside every theorem and are covered by the correspondence runs only (the harness makes its keys from seeds, plus the infinity key)",
  "aggregate_verify_gt over precomputed pairings and aggregate_pairing cannot see the keys: with an infinity key they are not claimed to agree with aggregate_verify (gt_noinf / pairing_convention carry the no-infinity hypothesis; aggregate_pairing with an infinity key is reported informationally only)"
]

PROPS["C15"]["level_text"] = "Proof: over an executable ideal-BLS model (keys = known scalars, hashes = formal generators, G2/GT = normalised formal sums) of the five verifiers as signature.rs composes the primitives, the FIFO cache with put exactly as coded, and a lock-granularity thread model of BlsCache as repaired in 601e785b (per-call flag invalid_key, set for every pair with the infinity key before the lookup, hit or miss; verdict = aggregate_verify_gt(sig, yielded pairings) && !invalid_key; the identity pairing of an infinity key still enters the cache), Lean proves for all capacities, contents, pair lists, signatures, call lists and schedules: (1) cap_invariant - len <= capacity after every atomic step of every schedule (incl. re-insert at capacity; capacity 0 unconstructible and shown necessary); (2) cache_sound_inv - every entry maps sha256(pk|m) to e(pk,H(pk|m)) is preserved by every step given truthful updates, with CollisionFree over the finitely many keys used as explicit hypothesis/disjunct; (3) transparent - every call returns and each cache-assisted verdict = aggregate_verify_gt(sig, true pairings) && no key is infinity, independent of capacity, prior contents, evictions and interleaving; (4) agree_noinf / aggregateVerify_spec / verify_spec / ideal_correct - without an infinity key all paths return the same verdict, true iff sig = sum sk_i H(pk_i|m_i); aggregate_verify and verify return false with an infinity key; aggregate_pairing under its (pk_i,H_i)...,(-g,sig) convention = aggregate_verify_gt (pairing_convention, via canonicity of normal forms: a - b = 0 <-> a = b); (5) the former defect and its repair: before 601e785b BlsCache::aggregate_verify never looked at the keys and accepted pair lists containing the infinity key (e(inf,H) = 1 drops out of the product); the model then carried a kernel-checked negation witness (inf_full_false). With the repaired code mirrored in the model: inf_full / inf_full_sched / inf_full_prefix - a cache-assisted verification of a list containing the infinity key returns false on EVERY cache (no soundness, collision or capacity hypothesis), alone, in every schedule and at every cut of every schedule; cache_agrees_with_plain(_sched) - on a sound cache with CollisionFree the cache-assisted verdict equals aggregate_verify (hence the prescribed verdict) for every pair list and signature, with NO no-infinity hypothesis, alone and for every concurrent call in every interleaving (via gt_flag_eq_plain: aggregate_verify_gt over the true pairings && no infinity key = aggregate_verify); inf_all_paths - with an infinity key every key-aware path returns false; former_witness_rejected - the two inputs that used to be accepted are rejected by the model of the current code (kernel evaluation), the identity pairing still being cached. The driver prints the model's own cache verdict (no substitution of the prescription)."

# OPTIONAL (not applied here, other keys were to be left alone): the current level_note still ends with
# "Known finding: BlsCache::aggregate_verify accepts pair lists containing the infinity key
# (repo_fix_c15.patch); ..." and "public keys off the subgroup are not modelled", and `rule` still says
# "so that the known finding cannot hide another disagreement" about mode hm.  Suggested replacement of
# the last sentence of level_note:
# PROPS["C15"]["level_note"] = PROPS["C15"]["level_note"].replace(
#   "Known finding: BlsCache::aggregate_verify accepts pair lists containing the infinity key (repo_fix_c15.patch); ",
#   "Former finding (fixed in 601e785b): BlsCache::aggregate_verify accepted pair lists containing the infinity key; ")
PROPS["C15"]["level_note"] = PROPS["C15"]["level_note"].replace(
    "Known finding: BlsCache::aggregate_verify accepts pair lists containing the infinity key (repo_fix_c15.patch); ",
    "Former finding (fixed in 601e785b): BlsCache::aggregate_verify accepted pair lists containing the infinity key; ")
PROPS["C15"]["rule"] = PROPS["C15"]["rule"].replace("so that the known finding cannot hide another disagreement", "kept from the time of the (repaired) infinity-key finding: a second, masked view of the same histories")

PROPS["C09"]["open"] = [o.replace("get_coinspends_with_conditions_for_trusted_block is not modelled (same recovery loop plus a condition listing)", "get_coinspends_with_conditions_for_trusted_block is not modelled in Lean (same recovery loop plus a condition listing); it is covered by the correspondence: on every accepted block its coin spends must equal those of get_coinspends_for_trusted_block and its listed CREATE_COIN entries must be the created coins of the validated spend (field withconds=)") for o in PROPS["C09"]["open"]]

# --- C09: the listing variant get_coinspends_with_conditions_for_trusted_block is now modelled (Model/WithConds.lean)
PROPS["C09"]["theorems"] = PROPS["C09"]["theorems"] + ['ChiaModel.C09.withconds_coinspends', 'ChiaModel.C09.withconds_of_accept', 'ChiaModel.C09.listing_spec', 'ChiaModel.C09.listing_create_coin']
PROPS["C09"]["open"] = [o for o in PROPS["C09"]["open"] if not o.startswith('get_coinspends_with_conditions_for_trusted_block is not modelled')]
PROPS["C09"]["level_text"] = PROPS["C09"]["level_text"] + " The listing variant get_coinspends_with_conditions_for_trusted_block is modelled too (getCoinspendsWithConds: extract_n::<3> failure is an error, every puzzle run separately under MAX_BLOCK_COST_CLVM, listing loop with small_number opcode, up to six atom arguments, the 1024-byte skip and the 1024-entry limit that spares AGG_SIG_* and CREATE_COIN): whenever it succeeds its coin spends are exactly those of get_coinspends_for_trusted_block (withconds_coinspends, every generator and flag set), on every accepted block it does succeed, with one listing per validated spend, the k-th being the listing of the k-th validated spend's puzzle output (withconds_of_accept), a listing is the in-order fold of the per-condition entries under the limit, a sub-list of them that keeps every AGG_SIG_* / CREATE_COIN entry (listing_spec), and a CREATE_COIN entry carries the puzzle hash and amount atoms first and is omitted only when a later atom argument has 1024 bytes or more (listing_create_coin). The driver prints the model's listings (wcl=) and the harness the real ones on every accepted block."
