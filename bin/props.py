"""Per-property registry: theorems (proof obligations), translator extractors, lake targets,
what counts as a trivial case, and the trusted base.  bin/check reads this."""

STD_TRUST = [
    "Lean 4.33.0 kernel; axioms limited to propext, Classical.choice, Quot.sound (audited per theorem via #print axioms)",
    "translator/extract.py renders Rust tables/ladders as Lean definitions (cross-checked by running them against the Rust functions)",
    "harness (vharness) + bin/check diff: implementation = model only on the cases run",
    "Lean compiler for the model driver (chiadrv); not used inside any proof",
]

PROPS = {
    "C11": {
        "extractors": ["ladders"],
        "extra": "ladders.thresholds",
        "theorems": [
            "ChiaModel.C11.canonNat_spec", "ChiaModel.C11.u64ToBytes_canon", "ChiaModel.C11.coinIdAmount_canon",
            "ChiaModel.C11.encoders_agree", "ChiaModel.C11.clvmBytesLen_ok", "ChiaModel.C11.sanitizeUint_ok",
            "ChiaModel.C11.sanitizeUint_complete", "ChiaModel.C11.sanitizeUint_neg", "ChiaModel.C11.sanitizeUint_err",
            "ChiaModel.C11.sanitizeUint_pos", "ChiaModel.C11.encodeNumber_nonneg",
        ],
        "gen_theorems": ["ChiaModel.C11.u64ToBytes_canon", "ChiaModel.C11.coinIdAmount_canon", "ChiaModel.C11.clvmBytesLen_ok"],
        "level_text": "Proof: the three threshold ladders (u64_to_bytes, Coin::coin_id amount, clvm_bytes_len) are regenerated from the Rust source on every run and proved equal to the canonical minimal two's-complement form for every v < 2^64; sanitize_uint is proved to accept exactly the canonical atoms that fit the width and to classify the rest (negative / redundant zero / positive overflow) without truncation; encode_number proved canonical for non-negative inputs. Loop-based codecs are hand models tied to the code by differential correspondence on boundary-exhaustive inputs.",
        "level_note": "Trusted: Lean kernel + 3 standard axioms; the translator (cross-checked by running Gen definitions against the Rust functions at every threshold ±2); implementation = model only on the cases run for encode_number/decode_number/sanitize_uint; clvmr new_number external. Open (correspondence only): encode_number on negative inputs, decode_number.",
        "trivial": r"^(none|bad-op|ok)$",
        "rule": "u64 at every byte-class boundary ±2 and random per bit-length; typed ints at both ends and every power of two of all ten widths; "
                "all atoms of length ≤ 2 (≤ 3 with boundary lead byte in thorough) and structured atoms up to 20 bytes with leading bytes in {00,01,7f,80,ff}, "
                "64-byte padding budget runs; each through u64_to_bytes, Coin::coin_id, calculate_generator_length, clvmr new_number, ToClvm/FromClvm, "
                "encode_number, decode_number<1,2,4,8,16>, sanitize_uint; non-trivial = distinct case whose result is not `none`",
        "trusted": ["clvmr Allocator::new_number (external crate) is compared with canonNat on every u64 case, not verified",
                    "open statements (not claimed as theorems yet): encode_number for negative inputs, decode_number value/padding — correspondence only"],
    },
}
