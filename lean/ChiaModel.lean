import ChiaModel.Props.C01
import ChiaModel.Props.C02
import ChiaModel.Props.C03
import ChiaModel.Props.C04
import ChiaModel.Props.C05
import ChiaModel.Props.C11
