import ChiaModel.Props.C11
