import ChiaModel.Base.Sha256
/-
CLVM trees as values, the plain serialisation (what `node_to_bytes` writes and `node_from_bytes`
reads), and the tree hash *definition*.
-/
namespace ChiaModel

inductive Sexp where
  | atom (b : Bytes)
  | pair (l r : Sexp)
  deriving Repr, DecidableEq, Inhabited

namespace Sexp

def nil : Sexp := .atom []

def isNil : Sexp → Bool
  | .atom [] => true
  | _ => false

def isAtom : Sexp → Bool
  | .atom _ => true
  | _ => false

/-- proper or improper list → elements and terminator -/
def unlist : Sexp → List Sexp × Sexp
  | .pair a r => let (l, t) := unlist r; (a :: l, t)
  | t => ([], t)

def ofList (l : List Sexp) (term : Sexp := nil) : Sexp := l.foldr .pair term

def size : Sexp → Nat
  | .atom _ => 1
  | .pair l r => 1 + l.size + r.size

/-- length prefix written before an atom of `size` bytes whose first byte is `b0` -/
def atomPrefix (b0 size : Nat) : Option Bytes :=
  if size = 0 then some [0x80]
  else if size = 1 ∧ b0 < 0x80 then some []
  else if size < 0x40 then some [0x80 ||| size]
  else if size < 0x2000 then some [0xc0 ||| (size >>> 8), size % 256]
  else if size < 0x100000 then some [0xe0 ||| (size >>> 16), (size >>> 8) % 256, size % 256]
  else if size < 0x8000000 then some [0xf0 ||| (size >>> 24), (size >>> 16) % 256, (size >>> 8) % 256, size % 256]
  else if size < 0x400000000 then
    some [0xf8 ||| (size >>> 32), (size >>> 24) % 256, (size >>> 16) % 256, (size >>> 8) % 256, size % 256]
  else none

def serAtom (b : Bytes) : Bytes :=
  match atomPrefix (b.headD 0) b.length with
  | some p => p ++ b
  | none => []   -- atoms ≥ 2^34 bytes cannot occur (allocator limit); never reached by the driver

def serialize : Sexp → Bytes
  | .atom b => serAtom b
  | .pair l r => 0xff :: (serialize l ++ serialize r)

/-- number of leading one bits of a byte -/
def leadingOnes (b : Nat) : Nat :=
  if b < 0x80 then 0 else if b < 0xc0 then 1 else if b < 0xe0 then 2 else if b < 0xf0 then 3
  else if b < 0xf8 then 4 else if b < 0xfc then 5 else if b < 0xfe then 6 else if b < 0xff then 7 else 8

/-- parse an atom whose first byte `b0` has been consumed; returns atom and rest -/
def parseAtomBody (b0 : Nat) (rest : Bytes) : Option (Bytes × Bytes) :=
  if b0 < 0x80 then some ([b0], rest)
  else
    let k := leadingOnes b0
    if k ≥ 7 then none   -- size blob longer than 6 bytes
    else
      let first := b0 % (256 >>> k)
      -- (lengths are taken of the prefixes only, so parsing stays linear in the input)
      if (rest.take (k - 1)).length < k - 1 then none
      else
        let sz := beVal (first :: rest.take (k - 1))
        let rest := rest.drop (k - 1)
        if sz ≥ 0x400000000 then none
        else
          let body := rest.take sz
          if body.length < sz then none
          else some (body, rest.drop sz)

/-- plain deserialisation; fuel bounds the number of nodes (each consumes ≥ 1 byte) -/
def deserFuel : Nat → Bytes → Option (Sexp × Bytes)
  | 0, _ => none
  | _, [] => none
  | f+1, b0 :: rest =>
    if b0 = 0xff then
      match deserFuel f rest with
      | none => none
      | some (l, rest1) =>
        match deserFuel f rest1 with
        | none => none
        | some (r, rest2) => some (.pair l r, rest2)
    else
      match parseAtomBody b0 rest with
      | none => none
      | some (a, rest1) => some (.atom a, rest1)

def deserialize (b : Bytes) : Option (Sexp × Bytes) := deserFuel (b.length + 1) b

/-- `node_from_bytes` ignores trailing bytes; the driver is given exact encodings -/
def ofBytes (b : Bytes) : Option Sexp := (deserialize b).map (·.1)

/-- every atom of the tree is a byte string (all elements below 256) -/
def AllBytes : Sexp → Prop
  | .atom b => isBytes b
  | .pair l r => AllBytes l ∧ AllBytes r

/-- The tree hash: atoms hashed with prefix 1, pairs with prefix 2. -/
def treeHash : Sexp → Bytes
  | .atom b => sha256 (1 :: b)
  | .pair l r => sha256 (2 :: (treeHash l ++ treeHash r))

end Sexp
end ChiaModel
