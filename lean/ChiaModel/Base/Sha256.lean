import ChiaModel.Base.Bytes
/-
SHA-256 over `Nat`/`List`, structural recursion only: the same definition is compiled into the
driver and reduces in the kernel (`decide +kernel`).
-/
namespace ChiaModel.Sha256

def K : List Nat := [0x428a2f98, 0x71374491, 0xb5c0fbcf, 0xe9b5dba5, 0x3956c25b, 0x59f111f1, 0x923f82a4, 0xab1c5ed5, 0xd807aa98, 0x12835b01, 0x243185be, 0x550c7dc3, 0x72be5d74, 0x80deb1fe, 0x9bdc06a7, 0xc19bf174, 0xe49b69c1, 0xefbe4786, 0xfc19dc6, 0x240ca1cc, 0x2de92c6f, 0x4a7484aa, 0x5cb0a9dc, 0x76f988da, 0x983e5152, 0xa831c66d, 0xb00327c8, 0xbf597fc7, 0xc6e00bf3, 0xd5a79147, 0x6ca6351, 0x14292967, 0x27b70a85, 0x2e1b2138, 0x4d2c6dfc, 0x53380d13, 0x650a7354, 0x766a0abb, 0x81c2c92e, 0x92722c85, 0xa2bfe8a1, 0xa81a664b, 0xc24b8b70, 0xc76c51a3, 0xd192e819, 0xd6990624, 0xf40e3585, 0x106aa070, 0x19a4c116, 0x1e376c08, 0x2748774c, 0x34b0bcb5, 0x391c0cb3, 0x4ed8aa4a, 0x5b9cca4f, 0x682e6ff3, 0x748f82ee, 0x78a5636f, 0x84c87814, 0x8cc70208, 0x90befffa, 0xa4506ceb, 0xbef9a3f7, 0xc67178f2]

def m32 : Nat := 4294967296

@[inline] def rotr (x n : Nat) : Nat := ((x >>> n) ||| (x <<< (32 - n))) % m32
@[inline] def bsig0 (x : Nat) : Nat := rotr x 2 ^^^ rotr x 13 ^^^ rotr x 22
@[inline] def bsig1 (x : Nat) : Nat := rotr x 6 ^^^ rotr x 11 ^^^ rotr x 25
@[inline] def ssig0 (x : Nat) : Nat := rotr x 7 ^^^ rotr x 18 ^^^ (x >>> 3)
@[inline] def ssig1 (x : Nat) : Nat := rotr x 17 ^^^ rotr x 19 ^^^ (x >>> 10)
@[inline] def ch (x y z : Nat) : Nat := (x &&& y) ^^^ ((m32 - 1 - x) &&& z)
@[inline] def maj (x y z : Nat) : Nat := (x &&& y) ^^^ (x &&& z) ^^^ (y &&& z)

/-- message schedule; `rev` holds the words computed so far, newest first -/
def schedule : Nat → List Nat → List Nat
  | 0, rev => rev
  | n+1, rev =>
    let w := (ssig1 (rev.getD 1 0) + rev.getD 6 0 + ssig0 (rev.getD 14 0) + rev.getD 15 0) % m32
    schedule n (w :: rev)

structure St where
  a : Nat
  b : Nat
  c : Nat
  d : Nat
  e : Nat
  f : Nat
  g : Nat
  h : Nat

def round (s : St) (kw : Nat × Nat) : St :=
  let t1 := (s.h + bsig1 s.e + ch s.e s.f s.g + kw.1 + kw.2) % m32
  let t2 := (bsig0 s.a + maj s.a s.b s.c) % m32
  { a := (t1 + t2) % m32, b := s.a, c := s.b, d := s.c, e := (s.d + t1) % m32, f := s.e, g := s.f, h := s.g }

def words : List Nat → List Nat
  | a :: b :: c :: d :: rest => (((a * 256 + b) * 256 + c) * 256 + d) :: words rest
  | _ => []

def compress (s : St) (block : List Nat) : St :=
  let w := (schedule 48 (words block).reverse).reverse
  let r := (K.zip w).foldl round s
  { a := (s.a + r.a) % m32, b := (s.b + r.b) % m32, c := (s.c + r.c) % m32, d := (s.d + r.d) % m32,
    e := (s.e + r.e) % m32, f := (s.f + r.f) % m32, g := (s.g + r.g) % m32, h := (s.h + r.h) % m32 }

def init : St := { a := 0x6a09e667, b := 0xbb67ae85, c := 0x3c6ef372, d := 0xa54ff53a,
                   e := 0x510e527f, f := 0x9b05688c, g := 0x1f83d9ab, h := 0x5be0cd19 }

def pad (msg : Bytes) : Bytes :=
  let l := msg.length
  let k := (119 - l % 64) % 64   -- zero bytes so that l + 1 + k + 8 ≡ 0 (mod 64)
  msg ++ 0x80 :: (List.replicate k 0 ++ be 8 (l * 8))

/-- fold over 64-byte blocks; fuel = number of blocks -/
def blocks : Nat → St → List Nat → St
  | 0, s, _ => s
  | n+1, s, bs => blocks n (compress s (bs.take 64)) (bs.drop 64)

def digest (s : St) : Bytes :=
  be 4 s.a ++ be 4 s.b ++ be 4 s.c ++ be 4 s.d ++ be 4 s.e ++ be 4 s.f ++ be 4 s.g ++ be 4 s.h

def sha256 (msg : Bytes) : Bytes :=
  let p := pad msg
  digest (blocks (p.length / 64) init p)

end ChiaModel.Sha256

namespace ChiaModel
export Sha256 (sha256)
end ChiaModel
