/-
Bytes are lists of natural numbers below 256 (`List Nat`); hex conversion and big-endian helpers.
No Mathlib imports: this file is linked into the compiled driver.
-/
namespace ChiaModel

abbrev Bytes := List Nat

def hexDigit (n : Nat) : Char :=
  if n < 10 then Char.ofNat (48 + n) else Char.ofNat (87 + n)

def toHex (b : Bytes) : String :=
  String.ofList (b.foldr (fun x acc => hexDigit (x / 16 % 16) :: hexDigit (x % 16) :: acc) [])

def hexVal (c : Char) : Option Nat :=
  let n := c.toNat
  if 48 ≤ n ∧ n ≤ 57 then some (n - 48)
  else if 97 ≤ n ∧ n ≤ 102 then some (n - 87)
  else if 65 ≤ n ∧ n ≤ 70 then some (n - 55)
  else none

def ofHexChars : List Char → Option Bytes
  | [] => some []
  | [_] => none
  | a :: b :: rest =>
    match hexVal a, hexVal b, ofHexChars rest with
    | some x, some y, some r => some ((x * 16 + y) :: r)
    | _, _, _ => none

/-- `-` denotes the empty byte string on the wire protocol. -/
def ofHex (s : String) : Option Bytes :=
  if s = "-" then some [] else ofHexChars s.toList

def hexOrDash (b : Bytes) : String := if b.isEmpty then "-" else toHex b

/-- big-endian, exactly `n` bytes, of `v` (truncating) -/
def be (n v : Nat) : Bytes := (List.range n).reverse.map (fun i => v / 256 ^ i % 256)

/-- value of a big-endian byte string -/
def beVal (b : Bytes) : Nat := b.foldl (fun acc x => acc * 256 + x) 0

def isBytes (b : Bytes) : Prop := ∀ x ∈ b, x < 256

instance : DecidablePred isBytes := fun b => by unfold isBytes; infer_instance

def zeros (n : Nat) : Bytes := List.replicate n 0

end ChiaModel
