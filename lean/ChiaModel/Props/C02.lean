import ChiaModel.Lemmas.BundleInv
import ChiaModel.Lemmas.NativeInv
/-
C02 — accepted bundles conserve value and never duplicate coins (model of `parse_spends`).
-/
namespace ChiaModel.C02
open ChiaModel ChiaModel.Cond

/-- `postProcess` only rewrites the `flags` field of spends -/
theorem postProcess_spends (env : Env) (ret : Bundle) (st : PState) :
    ∃ g : Spend → Nat, (postProcess env ret st).spends = ret.spends.map (fun sp => { sp with flags := g sp })
      ∧ (postProcess env ret st).removalAmount = ret.removalAmount ∧ (postProcess env ret st).additionAmount = ret.additionAmount
      ∧ (postProcess env ret st).reserveFee = ret.reserveFee ∧ (postProcess env ret st).conditionCost = ret.conditionCost := by
  unfold postProcess
  split
  · exact ⟨fun sp => sp.flags, by simp, rfl, rfl, rfl, rfl⟩
  · refine ⟨fun sp =>
      let f1 := if st.assertConcurrentSpend.contains sp.coinId then clearFlag sp.flags ELIGIBLE_FOR_FF else sp.flags
      if f1 &&& ELIGIBLE_FOR_FF = 0 then f1
      else if sp.createCoin.any (fun cc => st.spentCoins.contains (newCoinId sp.coinId cc.ph cc.amount)) then clearFlag f1 ELIGIBLE_FOR_FF else f1,
      ?_, rfl, rfl, rfl, rfl⟩
    simp only [List.map_map]
    apply List.map_congr_left
    intro sp _
    simp only [Function.comp]
    by_cases h1 : st.assertConcurrentSpend.contains sp.coinId = true <;> simp only [h1, if_true, if_false, Bool.false_eq_true]
    · split
      · rfl
      · split <;> rfl
    · split
      · rfl
      · split <;> rfl

/-- decomposition of an accepting `parseSpends` run -/
theorem parseSpends_ok {env : Env} {sigOk : List (Bytes × Bytes) → Bool} {t : Sexp} {L cc : Nat} {b : Bundle} {st : PState}
    (h : parseSpends env sigOk t L cc = .ok (b, st)) :
    ∃ iter ret left, first t = .ok iter ∧ spendLoop env cc iter {} {} (spendLimit env.flags) L = .ok ((ret, st), left)
      ∧ validateConditions (postProcess env ret st) st = .ok ()
      ∧ b = { postProcess env ret st with validatedSignature := !hasFlag env.flags Gen.flagDontValidateSignature, cost := L - left } := by
  unfold parseSpends at h
  cases hf : first t with
  | error e => rw [hf] at h; cases h
  | ok iter =>
    rw [hf] at h; simp only at h
    cases hl : spendLoop env cc iter {} {} (spendLimit env.flags) L with
    | error e => rw [hl] at h; cases h
    | ok p =>
      obtain ⟨⟨ret, st'⟩, left⟩ := p
      rw [hl] at h; simp only at h
      cases hb : finishBundle env sigOk ret st' with
      | error e => rw [hb] at h; cases h
      | ok ret' =>
        rw [hb] at h; simp only at h
        injection h with h; injection h with h1 h2; subst h2
        unfold finishBundle at hb
        simp only at hb
        cases hv : validateConditions (postProcess env ret st') st' with
        | error e => rw [hv] at hb; cases hb
        | ok u =>
          rw [hv] at hb; simp only at hb
          split at hb
          · cases hb
          · injection hb with hb
            refine ⟨iter, ret, left, rfl, hl, hv, ?_⟩
            rw [← h1, ← hb]

theorem first_allBytes {t iter : Sexp} (h : first t = .ok iter) (hb : t.AllBytes) : iter.AllBytes := by
  cases t with
  | atom b => cases h
  | pair l r => injection h with h; subst h; exact hb.1

theorem validate_conservation {ret : Bundle} {st : PState} (h : validateConditions ret st = .ok ()) :
    ret.additionAmount + ret.reserveFee ≤ ret.removalAmount := by
  unfold validateConditions at h
  split at h
  · rename_i hv
    simp only [validOk, Bool.and_eq_true, Bool.not_eq_true', decide_eq_false_iff_not] at hv
    omega
  · cases h

/-- **Conservation.**  Created amounts plus the reserved fee never exceed the spent amounts. -/
theorem conservation (env : Env) (sigOk : List (Bytes × Bytes) → Bool) (t : Sexp) (L cc : Nat) (b : Bundle) (st : PState)
    (h : parseSpends env sigOk t L cc = .ok (b, st)) : b.additionAmount + b.reserveFee ≤ b.removalAmount := by
  obtain ⟨iter, ret, left, _, _, hv, rfl⟩ := parseSpends_ok h
  exact validate_conservation hv

/-- **Totals, distinct coins, distinct outputs, coin ids.**  For every accepted tree whose atoms are
byte strings: the reported removal and addition amounts are the sums over the listed spends and their
created coins; the per-spend condition costs add up to the bundle's; no coin id occurs twice; no spend
creates two coins with the same (puzzle hash, amount); every coin id is SHA-256 of parent id, puzzle
hash and the canonical (minimal big-endian) amount. -/
theorem accepted_invariants (env : Env) (sigOk : List (Bytes × Bytes) → Bool) (t : Sexp) (L cc : Nat) (b : Bundle) (st : PState)
    (hab : t.AllBytes) (h : parseSpends env sigOk t L cc = .ok (b, st)) :
    b.removalAmount = (b.spends.map (·.coinAmount)).sum ∧
    b.additionAmount = (b.spends.map (fun sp => (sp.createCoin.map (·.amount)).sum)).sum ∧
    b.conditionCost = (b.spends.map (·.conditionCost)).sum ∧
    (b.spends.map (·.coinId)).Nodup ∧
    (∀ sp ∈ b.spends, (sp.createCoin.map (fun c => (c.ph, c.amount))).Nodup) ∧
    (∀ sp ∈ b.spends, sp.coinId = sha256 (sp.parentId ++ sp.puzzleHash ++ canonNat sp.coinAmount) ∧ sp.coinAmount < 2^64) := by
  obtain ⟨iter, ret, left, hf, hl, hv, rfl⟩ := parseSpends_ok h
  have hinv := BInv_spendLoop env cc iter _ L ret st left (first_allBytes hf hab) hl
  obtain ⟨g, hg, r1, r2, r3, r4⟩ := postProcess_spends env ret st
  obtain ⟨b1, b2, b3, b4, b5, b6, b7⟩ := hinv
  have hmap : ∀ {β : Type} (f : Spend → β), (∀ sp fl, f { sp with flags := fl } = f sp) →
      List.map f (ret.spends.map (fun sp => { sp with flags := g sp })) = List.map f ret.spends := by
    intro β f hf
    rw [List.map_map]
    apply List.map_congr_left
    intro sp _
    exact hf sp (g sp)
  simp only [r1, r2, r4]
  rw [hg, hmap (·.coinAmount) (fun _ _ => rfl), hmap (fun sp => (sp.createCoin.map (·.amount)).sum) (fun _ _ => rfl),
    hmap (·.conditionCost) (fun _ _ => rfl), hmap (·.coinId) (fun _ _ => rfl)]
  refine ⟨b1, b2, b6, by rw [← b3]; exact b4, ?_, ?_⟩
  · intro sp hsp
    simp only [List.mem_map] at hsp
    obtain ⟨sp0, h0, rfl⟩ := hsp
    exact b5 sp0 h0
  · intro sp hsp
    simp only [List.mem_map] at hsp
    obtain ⟨sp0, h0, rfl⟩ := hsp
    exact ⟨(b7 sp0 h0).1, (b7 sp0 h0).2.1⟩

/-- the conclusions of `accepted_invariants` as one predicate on a reported bundle -/
def Invariants (b : Bundle) : Prop :=
  b.additionAmount + b.reserveFee ≤ b.removalAmount ∧
  b.removalAmount = (b.spends.map (·.coinAmount)).sum ∧
  b.additionAmount = (b.spends.map (fun sp => (sp.createCoin.map (·.amount)).sum)).sum ∧
  b.conditionCost = (b.spends.map (·.conditionCost)).sum ∧
  (b.spends.map (·.coinId)).Nodup ∧
  (∀ sp ∈ b.spends, (sp.createCoin.map (fun c => (c.ph, c.amount))).Nodup) ∧
  (∀ sp ∈ b.spends, sp.coinId = sha256 (sp.parentId ++ sp.puzzleHash ++ canonNat sp.coinAmount) ∧ sp.coinAmount < 2^64)

/-- (auxiliary) the loop invariant plus the final validation give `Invariants` for any record that
agrees with the post-processed bundle on spends and totals -/
theorem invariants_of_BInv (env : Env) (ret : Bundle) (st : PState) (hinv : BInv ret st)
    (hv : validateConditions (postProcess env ret st) st = .ok ()) (b : Bundle)
    (e1 : b.spends = (postProcess env ret st).spends) (e2 : b.removalAmount = (postProcess env ret st).removalAmount)
    (e3 : b.additionAmount = (postProcess env ret st).additionAmount) (e4 : b.reserveFee = (postProcess env ret st).reserveFee)
    (e5 : b.conditionCost = (postProcess env ret st).conditionCost) : Invariants b := by
  have hc := validate_conservation hv
  obtain ⟨g, hg, r1, r2, r3, r4⟩ := postProcess_spends env ret st
  obtain ⟨b1, b2, b3, b4, b5, b6, b7⟩ := hinv
  have hmap : ∀ {β : Type} (f : Spend → β), (∀ sp fl, f { sp with flags := fl } = f sp) →
      List.map f (ret.spends.map (fun sp => { sp with flags := g sp })) = List.map f ret.spends := by
    intro β f hf
    rw [List.map_map]
    apply List.map_congr_left
    intro sp _
    exact hf sp (g sp)
  unfold Invariants
  rw [e1, e2, e3, e4, e5]
  refine ⟨hc, ?_⟩
  simp only [r1, r2, r4]
  rw [hg, hmap (·.coinAmount) (fun _ _ => rfl), hmap (fun sp => (sp.createCoin.map (·.amount)).sum) (fun _ _ => rfl),
    hmap (·.conditionCost) (fun _ _ => rfl), hmap (·.coinId) (fun _ _ => rfl)]
  refine ⟨b1, b2, b6, by rw [← b3]; exact b4, ?_, ?_⟩
  · intro sp hsp
    simp only [List.mem_map] at hsp
    obtain ⟨sp0, h0, rfl⟩ := hsp
    exact b5 sp0 h0
  · intro sp hsp
    simp only [List.mem_map] at hsp
    obtain ⟨sp0, h0, rfl⟩ := hsp
    exact ⟨(b7 sp0 h0).1, (b7 sp0 h0).2.1⟩

open ChiaModel.Gn

/-- (auxiliary) decomposition of `finishBundle` -/
theorem finishBundle_ok {env : Env} {sigOk : List (Bytes × Bytes) → Bool} {ret ret' : Bundle} {st : PState}
    (hb : finishBundle env sigOk ret st = .ok ret') :
    validateConditions (postProcess env ret st) st = .ok () ∧
    ret' = { postProcess env ret st with validatedSignature := !hasFlag env.flags Gen.flagDontValidateSignature } := by
  unfold finishBundle at hb
  simp only at hb
  cases hv : validateConditions (postProcess env ret st) st with
  | error e => rw [hv] at hb; cases hb
  | ok u =>
    rw [hv] at hb; simp only at hb
    split at hb
    · cases hb
    · injection hb with hb
      exact ⟨rfl, hb.symm⟩

/-- **C02 for `run_block_generator2`.**  Whenever the native path accepts a block whose generator
output consists of byte-string atoms, the reported bundle satisfies all of `Invariants`
(conservation, totals, distinct coin ids, distinct outputs per spend, coin-id formula), and the
reported puzzle hash of the i-th spend is the tree hash of the i-th revealed puzzle. -/
theorem native_invariants (p : Params) (g : GenInput) (c : Nat) (out : Sexp) (puz : Nat → RunRes) (L : Nat) (b : Bundle)
    (hab : out.AllBytes) (h : native p g (some (c, out)) puz L = .ok b) :
    Invariants b ∧ ∃ allSpends, first out = .ok allSpends ∧
      b.spends.map (·.puzzleHash) = (puzzlesOf allSpends).map Sexp.treeHash := by
  rw [native_eq] at h
  by_cases h0 : simpleGen p.flags ∧ !g.startsQuote
  · rw [if_pos h0] at h; cases h
  rw [if_neg h0] at h
  cases hl : nativeCountdown p g (some (c, out)) puz L with
  | error e => rw [hl] at h; cases h
  | ok q =>
    obtain ⟨⟨ret, st⟩, left⟩ := q
    rw [hl] at h; simp only at h
    cases hb : finishBundle (nativeEnv p) p.sigOk ret st with
    | error e => rw [hb] at h; cases h
    | ok ret' =>
      rw [hb] at h; simp only at h
      injection h with h
      obtain ⟨hv, hr⟩ := finishBundle_ok hb
      -- open the countdown
      unfold nativeCountdown at hl
      obtain ⟨⟨_, m0⟩, _, hl⟩ := bind_ok hl
      simp only at hl
      by_cases h1 : (!generatorNodeOk p.flags g.prog) = true
      · rw [if_pos h1] at hl; cases hl
      rw [if_neg h1] at hl
      by_cases h2 : simpleGen p.flags = true ∧ g.nrefs > 0
      · rw [if_pos h2] at hl; cases hl
      rw [if_neg h2] at hl
      obtain ⟨⟨r, m1⟩, hrun, hl⟩ := bind_ok hl
      simp only at hl
      have hr2 : r = (c, out) := by
        unfold runCharge runWithLimit at hrun
        simp only at hrun
        split at hrun
        · cases hrun
        · rename_i heq
          split at heq
          · cases heq
          · injection heq with heq
            split at hrun
            · cases hrun
            · injection hrun with hrun; injection hrun with hrun; rw [← hrun, ← heq]
      subst hr2
      simp only at hl
      cases hf : first out with
      | error e => rw [hf] at hl; cases hl
      | ok allSpends =>
        rw [hf] at hl; simp only at hl
        by_cases h3 : (!allExtract3 allSpends) = true
        · rw [if_pos h3] at hl; cases hl
        rw [if_neg h3] at hl
        have hinv : BInv ret st := nativeLoop_inv (nativeEnv p) puz BInv
          (fun ret st c hq => by obtain ⟨a1, a2, a3, a4, a5, a6, a7⟩ := hq; exact ⟨a1, a2, a3, a4, a5, a6, a7⟩)
          (fun ret st parent h32 amount conds cc m ret' st' m' hq ha hp =>
            BInv_processSingleSpend (nativeEnv p) cc ret st parent (.atom h32) amount conds m ret' st' m' hq ha hp)
          allSpends 0 _ _ _ m1 ret st left (first_allBytes hf hab) hl (by
            obtain ⟨a1, a2, a3, a4, a5, a6, a7⟩ := BInv_init; exact ⟨a1, a2, a3, a4, a5, a6, a7⟩)
        have hph := nativeLoop_puzzleHashes (nativeEnv p) puz allSpends 0 _ _ _ m1 ret st left hl
        refine ⟨invariants_of_BInv (nativeEnv p) ret st hinv hv b ?_ ?_ ?_ ?_ ?_, allSpends, rfl, ?_⟩
        · rw [← h, hr]
        · rw [← h, hr]
        · rw [← h, hr]
        · rw [← h, hr]
        · rw [← h, hr]
        · obtain ⟨g', hg, _⟩ := postProcess_spends (nativeEnv p) ret st
          rw [← h, hr]
          simp only [hg, List.map_map]
          simp only [List.map_nil, List.nil_append] at hph
          rw [← hph]
          apply List.map_congr_left
          intro sp _; rfl

/-- **C02 for `run_spendbundle`** (mempool path).  Every accepted spend bundle satisfies
`Invariants`; the reported puzzle hash of each spend is the tree hash of the puzzle revealed in the
corresponding coin spend, and that equals the puzzle hash declared by the coin. -/
theorem spendbundle_invariants (p : Params) (spends : List CoinSpendM) (puz : Nat → RunRes) (L : Nat)
    (b : Bundle) (pk : List (Bytes × Bytes)) (h : runSpendbundle p spends puz L = .ok (b, pk)) :
    Invariants b ∧ b.spends.map (·.puzzleHash) = spends.map (fun cs => Sexp.treeHash cs.puzzle) ∧
      ∀ cs ∈ spends, cs.puzzleHash = Sexp.treeHash cs.puzzle := by
  rw [runSpendbundle_eq] at h
  cases hl : bundleCountdown p spends puz L with
  | error e => rw [hl] at h; cases h
  | ok q =>
    obtain ⟨⟨ret, st⟩, left⟩ := q
    rw [hl] at h; simp only at h
    cases hv : validateConditions (postProcess (bundleEnv p) ret st) st with
    | error e => rw [hv] at h; cases h
    | ok u =>
      rw [hv] at h; simp only at h
      injection h with h; injection h with h hpk
      unfold bundleCountdown at hl
      obtain ⟨⟨_, m0⟩, _, hl⟩ := bind_ok hl
      simp only at hl
      by_cases h1 : hasFlag p.flags Gen.flagLimitSpends = true ∧ spends.length > MAX_SPENDS_PER_BLOCK
      · rw [if_pos h1] at hl; cases hl
      rw [if_neg h1] at hl
      have hinv : BInv ret st := bundleLoop_inv (bundleEnv p) puz BInv
        (fun ret st c hq => by obtain ⟨a1, a2, a3, a4, a5, a6, a7⟩ := hq; exact ⟨a1, a2, a3, a4, a5, a6, a7⟩)
        (fun ret st parent h32 amount conds cc m ret' st' m' hq ha hp =>
          BInv_processSingleSpend (bundleEnv p) cc ret st parent (.atom h32) amount conds m ret' st' m' hq ha hp)
        spends 0 _ _ m0 ret st left hl BInv_init
      obtain ⟨hph, hdecl⟩ := bundleLoop_puzzleHashes (bundleEnv p) puz spends 0 _ _ m0 ret st left hl
      refine ⟨invariants_of_BInv (bundleEnv p) ret st hinv hv b ?_ ?_ ?_ ?_ ?_, ?_, hdecl⟩
      · rw [← h]
      · rw [← h]
      · rw [← h]
      · rw [← h]
      · rw [← h]
      · obtain ⟨g', hg, _⟩ := postProcess_spends (bundleEnv p) ret st
        rw [← h]
        simp only [hg, List.map_map]
        simp only [List.map_nil, List.nil_append] at hph
        rw [← hph]
        apply List.map_congr_left
        intro sp _; rfl

/-- **C02 for `run_block_generator`** (legacy ROM path): the conditions it reports are those of
`parse_spends` on the ROM's output, so `Invariants` holds for every accepted block. -/
theorem legacy_invariants (p : Params) (g : GenInput) (c : Nat) (out : Sexp) (L : Nat) (b : Bundle)
    (hab : out.AllBytes) (h : legacy p g (some (c, out)) L = .ok b) : Invariants b := by
  unfold legacy at h
  by_cases h0 : simpleGen p.flags ∧ !g.startsQuote
  · rw [if_pos h0] at h; cases h
  rw [if_neg h0] at h
  by_cases h1 : simpleGen p.flags ∧ g.nrefs > 0
  · rw [if_pos h1] at h; cases h
  rw [if_neg h1] at h
  cases hc1 : subtractCost L (g.len * p.costPerByte) with
  | error e => rw [hc1] at h; cases h
  | ok cl1 =>
    rw [hc1] at h; simp only at h
    by_cases h2 : (!generatorNodeOk p.flags g.prog) = true
    · rw [if_pos h2] at h; cases h
    rw [if_neg h2] at h
    simp only [runWithLimit] at h
    by_cases h3 : c > cl1
    · rw [if_pos h3] at h; cases h
    rw [if_neg h3] at h; simp only at h
    cases hc2 : subtractCost cl1 c with
    | error e => rw [hc2] at h; cases h
    | ok cl2 =>
      rw [hc2] at h; simp only at h
      cases hp : parseSpends { flags := p.flags, mempool := false, pkOk := p.pkOk } p.sigOk out cl2 0 with
      | error e => rw [hp] at h; cases h
      | ok r =>
        obtain ⟨ret, st⟩ := r
        rw [hp] at h; simp only at h
        injection h with hb
        have hcons := conservation _ _ _ _ _ _ _ hp
        obtain ⟨a1, a2, a3, a4, a5, a6⟩ := accepted_invariants _ _ _ _ _ _ _ hab hp
        unfold Invariants
        rw [← hb]
        exact ⟨hcons, a1, a2, a3, a4, a5, a6⟩

end ChiaModel.C02
