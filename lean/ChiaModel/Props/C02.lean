import ChiaModel.Lemmas.BundleInv
/-
C02 — accepted bundles conserve value and never duplicate coins (model of `parse_spends`).
-/
namespace ChiaModel.C02
open ChiaModel ChiaModel.Cond

/-- `postProcess` only rewrites the `flags` field of spends -/
theorem postProcess_spends (env : Env) (ret : Bundle) (st : PState) :
    ∃ g : Spend → Nat, (postProcess env ret st).spends = ret.spends.map (fun sp => { sp with flags := g sp })
      ∧ (postProcess env ret st).removalAmount = ret.removalAmount ∧ (postProcess env ret st).additionAmount = ret.additionAmount
      ∧ (postProcess env ret st).reserveFee = ret.reserveFee ∧ (postProcess env ret st).conditionCost = ret.conditionCost := by
  unfold postProcess
  split
  · exact ⟨fun sp => sp.flags, by simp, rfl, rfl, rfl, rfl⟩
  · refine ⟨fun sp =>
      let f1 := if st.assertConcurrentSpend.contains sp.coinId then clearFlag sp.flags ELIGIBLE_FOR_FF else sp.flags
      if f1 &&& ELIGIBLE_FOR_FF = 0 then f1
      else if sp.createCoin.any (fun cc => st.spentCoins.contains (newCoinId sp.coinId cc.ph cc.amount)) then clearFlag f1 ELIGIBLE_FOR_FF else f1,
      ?_, rfl, rfl, rfl, rfl⟩
    simp only [List.map_map]
    apply List.map_congr_left
    intro sp _
    simp only [Function.comp]
    by_cases h1 : st.assertConcurrentSpend.contains sp.coinId = true <;> simp only [h1, if_true, if_false, Bool.false_eq_true]
    · split
      · rfl
      · split <;> rfl
    · split
      · rfl
      · split <;> rfl

/-- decomposition of an accepting `parseSpends` run -/
theorem parseSpends_ok {env : Env} {sigOk : List (Bytes × Bytes) → Bool} {t : Sexp} {L cc : Nat} {b : Bundle} {st : PState}
    (h : parseSpends env sigOk t L cc = .ok (b, st)) :
    ∃ iter ret left, first t = .ok iter ∧ spendLoop env cc iter {} {} (spendLimit env.flags) L = .ok ((ret, st), left)
      ∧ validateConditions (postProcess env ret st) st = .ok ()
      ∧ b = { postProcess env ret st with validatedSignature := !hasFlag env.flags Gen.flagDontValidateSignature, cost := L - left } := by
  unfold parseSpends at h
  cases hf : first t with
  | error e => rw [hf] at h; cases h
  | ok iter =>
    rw [hf] at h; simp only at h
    cases hl : spendLoop env cc iter {} {} (spendLimit env.flags) L with
    | error e => rw [hl] at h; cases h
    | ok p =>
      obtain ⟨⟨ret, st'⟩, left⟩ := p
      rw [hl] at h; simp only at h
      cases hb : finishBundle env sigOk ret st' with
      | error e => rw [hb] at h; cases h
      | ok ret' =>
        rw [hb] at h; simp only at h
        injection h with h; injection h with h1 h2; subst h2
        unfold finishBundle at hb
        simp only at hb
        cases hv : validateConditions (postProcess env ret st') st' with
        | error e => rw [hv] at hb; cases hb
        | ok u =>
          rw [hv] at hb; simp only at hb
          split at hb
          · cases hb
          · injection hb with hb
            refine ⟨iter, ret, left, rfl, hl, hv, ?_⟩
            rw [← h1, ← hb]

theorem first_allBytes {t iter : Sexp} (h : first t = .ok iter) (hb : t.AllBytes) : iter.AllBytes := by
  cases t with
  | atom b => cases h
  | pair l r => injection h with h; subst h; exact hb.1

theorem validate_conservation {ret : Bundle} {st : PState} (h : validateConditions ret st = .ok ()) :
    ret.additionAmount + ret.reserveFee ≤ ret.removalAmount := by
  unfold validateConditions at h
  split at h
  · rename_i hv
    simp only [validOk, Bool.and_eq_true, Bool.not_eq_true', decide_eq_false_iff_not] at hv
    omega
  · cases h

/-- **Conservation.**  Created amounts plus the reserved fee never exceed the spent amounts. -/
theorem conservation (env : Env) (sigOk : List (Bytes × Bytes) → Bool) (t : Sexp) (L cc : Nat) (b : Bundle) (st : PState)
    (h : parseSpends env sigOk t L cc = .ok (b, st)) : b.additionAmount + b.reserveFee ≤ b.removalAmount := by
  obtain ⟨iter, ret, left, _, _, hv, rfl⟩ := parseSpends_ok h
  exact validate_conservation hv

/-- **Totals, distinct coins, distinct outputs, coin ids.**  For every accepted tree whose atoms are
byte strings: the reported removal and addition amounts are the sums over the listed spends and their
created coins; the per-spend condition costs add up to the bundle's; no coin id occurs twice; no spend
creates two coins with the same (puzzle hash, amount); every coin id is SHA-256 of parent id, puzzle
hash and the canonical (minimal big-endian) amount. -/
theorem accepted_invariants (env : Env) (sigOk : List (Bytes × Bytes) → Bool) (t : Sexp) (L cc : Nat) (b : Bundle) (st : PState)
    (hab : t.AllBytes) (h : parseSpends env sigOk t L cc = .ok (b, st)) :
    b.removalAmount = (b.spends.map (·.coinAmount)).sum ∧
    b.additionAmount = (b.spends.map (fun sp => (sp.createCoin.map (·.amount)).sum)).sum ∧
    b.conditionCost = (b.spends.map (·.conditionCost)).sum ∧
    (b.spends.map (·.coinId)).Nodup ∧
    (∀ sp ∈ b.spends, (sp.createCoin.map (fun c => (c.ph, c.amount))).Nodup) ∧
    (∀ sp ∈ b.spends, sp.coinId = sha256 (sp.parentId ++ sp.puzzleHash ++ canonNat sp.coinAmount) ∧ sp.coinAmount < 2^64) := by
  obtain ⟨iter, ret, left, hf, hl, hv, rfl⟩ := parseSpends_ok h
  have hinv := BInv_spendLoop env cc iter _ L ret st left (first_allBytes hf hab) hl
  obtain ⟨g, hg, r1, r2, r3, r4⟩ := postProcess_spends env ret st
  obtain ⟨b1, b2, b3, b4, b5, b6, b7⟩ := hinv
  have hmap : ∀ {β : Type} (f : Spend → β), (∀ sp fl, f { sp with flags := fl } = f sp) →
      List.map f (ret.spends.map (fun sp => { sp with flags := g sp })) = List.map f ret.spends := by
    intro β f hf
    rw [List.map_map]
    apply List.map_congr_left
    intro sp _
    exact hf sp (g sp)
  simp only [r1, r2, r4]
  rw [hg, hmap (·.coinAmount) (fun _ _ => rfl), hmap (fun sp => (sp.createCoin.map (·.amount)).sum) (fun _ _ => rfl),
    hmap (·.conditionCost) (fun _ _ => rfl), hmap (·.coinId) (fun _ _ => rfl)]
  refine ⟨b1, b2, b6, by rw [← b3]; exact b4, ?_, ?_⟩
  · intro sp hsp
    simp only [List.mem_map] at hsp
    obtain ⟨sp0, h0, rfl⟩ := hsp
    exact b5 sp0 h0
  · intro sp hsp
    simp only [List.mem_map] at hsp
    obtain ⟨sp0, h0, rfl⟩ := hsp
    exact ⟨(b7 sp0 h0).1, (b7 sp0 h0).2.1⟩

end ChiaModel.C02
