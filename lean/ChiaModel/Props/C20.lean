import ChiaModel.Lemmas.JsonDictBytes
import ChiaModel.Props.C13
import ChiaModel.Gen.JsonDict
/-!
# C20 — Python JSON representation round-trips every exported value

Theorems about the executable model `ChiaModel.JsonDict` (`toJson`, `fromJson`: the definitions the driver runs), for
every type descriptor, all values, all JSON inputs.  `O : Oracles` is the external code (blst point checks, clvmr's
serialised-length scan); nothing is assumed about it here.  pyo3's `extract` is modelled by `pyIndex` + range checks
(assumption `PyExtract`, see `Model/JsonDict.lean`).
-/
namespace ChiaModel.C20
open ChiaModel ChiaModel.Streamable ChiaModel.JsonDict

/-- a conversion result that is an error -/
def Rejected (x : Except String V) : Prop := ∃ e, x = .error e

/-- executable form of "is an error" -/
def isErr {α : Type} : Except String α → Bool
  | .error _ => true
  | .ok _ => false

theorem exists_of_isErr {α : Type} {x : Except String α} (h : isErr x = true) : ∃ e, x = .error e := by
  cases x with
  | error e => exact ⟨e, rfl⟩
  | ok a => simp [isErr] at h

/-! ## round trip -/

/-- **Round trip.** For every descriptor satisfying `WFjson` (no `Option` around a type whose JSON can be `null`,
tuples of 2 or 3, distinct dict keys, `u8` discriminants) and every well-formed value whose byte strings consist of
bytes: converting to the JSON dict and back yields exactly that value. -/
theorem roundtrip (O : Oracles) (t : Ty) (h : WFjson t = true) (v : V) (hv : WF O false t v = true)
    (hb : bytesOK v = true) : ∃ j, toJson t v = some j ∧ fromJson O t j = .ok v :=
  rt_json O t h v hv hb

/-- … hence with **identical byte encoding and hash**: whatever `fromJson` returns for the JSON of `v` has the
encoding of `v` and feeds the hasher the same chunks (`C13.hash_is_sha_of_encoding` says these are the prescribed
pre-image, `C13.roundtrip` that the encoding decodes to `v` again). -/
theorem roundtrip_same_bytes_and_hash (O : Oracles) (t : Ty) (h : WFjson t = true) (v : V)
    (hv : WF O false t v = true) (hb : bytesOK v = true) :
    ∃ j v', toJson t v = some j ∧ fromJson O t j = .ok v' ∧ v' = v ∧ encode O t v' = encode O t v ∧
      encodeForHash O t v' = encodeForHash O t v ∧ digestChunks O t v' = digestChunks O t v := by
  obtain ⟨j, hj, hg⟩ := roundtrip O t h v hv hb
  exact ⟨j, v, hj, hg, rfl, rfl, rfl, rfl⟩

/-- every value the decoder returns for a real byte string consists of bytes, so the hypothesis `bytesOK` of
`roundtrip` holds for everything that can arrive over the wire -/
theorem decoded_bytesOK (O : Oracles) (hO : OracleContract O) (t : Ty) (b : Bytes) (hb : isBytes b) (v : V) (r : Bytes)
    (h : (decode O false t b).out = .ok (v, r)) : bytesOK v = true := by
  obtain ⟨p, he, hp, hw⟩ := C13.canonical O hO t b hb v r h
  exact bok_encode O false t v p hw he (isBytes_append.mp (hp ▸ hb)).1

/-- **The property as the correspondence exercises it**: whatever `from_bytes` accepts converts to a JSON dict from
which `from_json_dict` returns the same value, whose encoding is the original byte string (and whose hash is therefore
the same, `C13.hash_is_sha_of_encoding`). -/
theorem from_bytes_roundtrip (O : Oracles) (hO : OracleContract O) (t : Ty) (ht : WFjson t = true) (b : Bytes)
    (hb : isBytes b) (v : V) (h : (fromBytes O false t b).out = .ok v) :
    ∃ j, toJson t v = some j ∧ fromJson O t j = .ok v ∧ encode O t v = some b := by
  obtain ⟨he, hw⟩ := C13.from_bytes_to_bytes O hO t b hb v h
  obtain ⟨j, hj, hg⟩ := roundtrip O t ht v hw (bok_encode O false t v b hw he hb)
  exact ⟨j, hj, hg, he⟩

/-- **Every exported class satisfies the side condition**, so the round trip is unconditional for the classes that
exist: no `Option<Option<_>>`, no `Option` of a transparent struct around an `Option`, no colliding keys
(also after `py_uppercase`), only 2- and 3-tuples.  Re-checked against the source on every run (`Gen/JsonDict.lean`). -/
theorem no_nested_option : ∀ d ∈ Gen.JsonDict.exported, WFjson d.2 = true := by
  decide +kernel

/-- **The JSON views are the wire descriptors**: every exported name is a streamable type of `Gen/Streamable.lean`
(the descriptors C13 / C14 are instantiated for) with the same wire shape — the two renderings of the translator agree,
so the bytes / hash statements of C13 speak about the same types. -/
theorem json_views_same_wire : ∀ e ∈ Gen.JsonDict.exported,
    (Gen.Streamable.streamableTypes.any fun w => w.1 == e.1 && sameWire e.2 w.2) = true := by
  decide +kernel

/-- the round trip for every exported class -/
theorem exported_roundtrip (O : Oracles) : ∀ d ∈ Gen.JsonDict.exported, ∀ v, WF O false d.2 v = true → bytesOK v = true →
    ∃ j, toJson d.2 v = some j ∧ fromJson O d.2 j = .ok v :=
  fun d hd v hv hb => roundtrip O d.2 (no_nested_option d hd) v hv hb

/-- **The side condition is needed:** for `Option<Option<u8>>` the value `Some(None)` comes back as `None`
(both are `null`) — the hypothesis `WFjson` excludes exactly this. -/
theorem roundtrip_needs_WFjson (O : Oracles) :
    WF O false (.option (.option (.uint 1))) (.some .none) = true ∧
    toJson (.option (.option (.uint 1))) (.some .none) = some .null ∧
    fromJson O (.option (.option (.uint 1))) .null = .ok .none := by
  refine ⟨rfl, rfl, rfl⟩

/-! ## malformed input is rejected -/

/-- the byte length a hex string of this type must have -/
def fixedLen : Ty → Option Nat
  | .bytesN n => some n
  | .g1 => some 48
  | .g2 => some 96
  | .gt => some 576
  | .secretKey => some 32
  | _ => none

/-- the types whose JSON is a hex string -/
def isHexTy : Ty → Bool
  | .bytes | .bytesN _ | .program | .g1 | .g2 | .gt | .secretKey => true
  | _ => false

/-- the digits of a hex string: what follows the `0x` prefix, or the whole string when there is none -/
def digitsOf (s : Bytes) : Bytes := (strip0x s).getD s

theorem parseHexString_str (n : Nat) (s : Bytes) :
    parseHexString n (.str s) =
      match unhexB (digitsOf s) with
      | some c => if c.length = n then .ok c else .error "invalid length"
      | none => .error "invalid hex" := by
  simp only [parseHexString, digitsOf]
  cases strip0x s <;> rfl

/-- **Wrong byte length** (`BytesImpl<N>`, BLS elements): a hex string holding another number of bytes than the type
has is rejected — never truncated or padded. -/
theorem rejects_wrong_length (O : Oracles) (t : Ty) (n : Nat) (ht : fixedLen t = some n) (s c : Bytes)
    (hs : unhexB (digitsOf s) = some c) (hc : c.length ≠ n) : Rejected (fromJson O t (.str s)) := by
  cases t <;> simp only [fixedLen, Option.some.injEq, reduceCtorEq] at ht
  case bytesN m =>
    subst ht
    simp only [fromJson, fromBytesN]
    unfold digitsOf at hs
    cases h0 : strip0x s with
    | none => exact ⟨_, rfl⟩
    | some d =>
      simp only [h0, Option.getD_some] at hs
      simp only [hs, hc, if_false]
      exact ⟨_, rfl⟩
  all_goals
    subst ht
    simp only [fromJson, fromBls, parseHexString_str, hs, hc, if_false]
    exact ⟨_, rfl⟩

/-- **Invalid hex digit**: a byte that is not a hex digit anywhere in the digits ⇒ rejected (all hex-string types). -/
theorem rejects_bad_digit (O : Oracles) (t : Ty) (ht : isHexTy t = true) (s : Bytes) (x : Nat)
    (hx : x ∈ digitsOf s) (hbad : hexValB x = none) : Rejected (fromJson O t (.str s)) := by
  have hnone : unhexB (digitsOf s) = none := by
    cases h : unhexB (digitsOf s) with
    | none => rfl
    | some c => exact absurd hbad (unhexB_digits _ c h x hx)
  have hne : s.isEmpty = false := by
    cases s with
    | nil => simp [digitsOf, strip0x] at hx
    | cons _ _ => rfl
  unfold digitsOf at hnone
  cases t <;> simp only [isHexTy, Bool.false_eq_true] at ht
  case bytes =>
    simp only [fromJson, fromBytesJ, hexOfBytesJ, hne, Bool.false_eq_true, if_false]
    cases h0 : strip0x s with
    | none => exact ⟨_, rfl⟩
    | some d => simp only [h0, Option.getD_some] at hnone; simp only [hnone]; exact ⟨_, rfl⟩
  case program =>
    simp only [fromJson, fromProgram, hexOfBytesJ, hne, Bool.false_eq_true, if_false]
    cases h0 : strip0x s with
    | none => exact ⟨_, rfl⟩
    | some d => simp only [h0, Option.getD_some] at hnone; simp only [hnone]; exact ⟨_, rfl⟩
  case bytesN n =>
    simp only [fromJson, fromBytesN]
    cases h0 : strip0x s with
    | none => exact ⟨_, rfl⟩
    | some d => simp only [h0, Option.getD_some] at hnone; simp only [hnone]; exact ⟨_, rfl⟩
  all_goals
    simp only [fromJson, fromBls, parseHexString_str, digitsOf, hnone]
    exact ⟨_, rfl⟩

/-- **Odd digit count** ⇒ rejected (all hex-string types). -/
theorem rejects_odd_digits (O : Oracles) (t : Ty) (ht : isHexTy t = true) (s : Bytes)
    (hodd : (digitsOf s).length % 2 = 1) : Rejected (fromJson O t (.str s)) := by
  have hnone : unhexB (digitsOf s) = none := by
    cases h : unhexB (digitsOf s) with
    | none => rfl
    | some c => have := unhexB_length _ c h; omega
  have hne : s.isEmpty = false := by
    cases s with
    | nil => simp [digitsOf, strip0x] at hodd
    | cons _ _ => rfl
  unfold digitsOf at hnone
  cases t <;> simp only [isHexTy, Bool.false_eq_true] at ht
  case bytes =>
    simp only [fromJson, fromBytesJ, hexOfBytesJ, hne, Bool.false_eq_true, if_false]
    cases h0 : strip0x s with
    | none => exact ⟨_, rfl⟩
    | some d => simp only [h0, Option.getD_some] at hnone; simp only [hnone]; exact ⟨_, rfl⟩
  case program =>
    simp only [fromJson, fromProgram, hexOfBytesJ, hne, Bool.false_eq_true, if_false]
    cases h0 : strip0x s with
    | none => exact ⟨_, rfl⟩
    | some d => simp only [h0, Option.getD_some] at hnone; simp only [hnone]; exact ⟨_, rfl⟩
  case bytesN n =>
    simp only [fromJson, fromBytesN]
    cases h0 : strip0x s with
    | none => exact ⟨_, rfl⟩
    | some d => simp only [h0, Option.getD_some] at hnone; simp only [hnone]; exact ⟨_, rfl⟩
  all_goals
    simp only [fromJson, fromBls, parseHexString_str, digitsOf, hnone]
    exact ⟨_, rfl⟩

/-- **Missing `0x` prefix** ⇒ rejected for `Bytes`, `BytesImpl<N>` and `Program` (a non-empty string; the empty string
is the empty `Bytes`).  The BLS elements accept both forms, see `bls_prefix_optional`. -/
theorem rejects_missing_prefix (O : Oracles) (t : Ty) (ht : t = .bytes ∨ (∃ n, t = .bytesN n) ∨ t = .program)
    (s : Bytes) (hne : s ≠ []) (hp : strip0x s = none) : Rejected (fromJson O t (.str s)) := by
  have hne' : s.isEmpty = false := by cases s <;> simp_all
  rcases ht with rfl | ⟨n, rfl⟩ | rfl
  · simp only [fromJson, fromBytesJ, hexOfBytesJ, hne', Bool.false_eq_true, if_false, hp]; exact ⟨_, rfl⟩
  · simp only [fromJson, fromBytesN, hp]; exact ⟨_, rfl⟩
  · simp only [fromJson, fromProgram, hexOfBytesJ, hne', Bool.false_eq_true, if_false, hp]; exact ⟨_, rfl⟩

/-- (documented leniency of `chia_bls::parse_hex_string`) for the BLS elements the prefix is optional: with and
without it the same bytes are parsed — and then checked for length and validity all the same -/
theorem bls_prefix_optional (n : Nat) (d : Bytes) (hd : strip0x d = none) :
    parseHexString n (.str (pfx0x ++ d)) = parseHexString n (.str d) := by
  simp only [parseHexString_str, digitsOf, strip0x_pfx, hd, Option.getD_some, Option.getD_none]

/-- **Integer outside the range of its width** ⇒ rejected: never wrapped or truncated.  (`uN`) -/
theorem rejects_uint_out_of_range (O : Oracles) (n : Nat) (j : J) (i : Int) (hj : pyIndex j = some i)
    (hr : i < 0 ∨ ((256 ^ n : Nat) : Int) ≤ i) : Rejected (fromJson O (.uint n) j) := by
  have : ¬ (0 ≤ i ∧ i < ((256 ^ n : Nat) : Int)) := by omega
  simp only [fromJson, fromUint, hj, this, if_false]
  exact ⟨_, rfl⟩

/-- (`iN`) -/
theorem rejects_sint_out_of_range (O : Oracles) (n : Nat) (j : J) (i : Int) (hj : pyIndex j = some i)
    (hr : 2 * i < -((256 ^ n : Nat) : Int) ∨ ((256 ^ n : Nat) : Int) ≤ 2 * i) : Rejected (fromJson O (.sint n) j) := by
  have : sintOk n i = false := by
    simp only [sintOk, Bool.and_eq_false_iff, decide_eq_false_iff_not]
    omega
  simp only [fromJson, fromSint, hj, this, Bool.false_eq_true, if_false]
  exact ⟨_, rfl⟩

/-- an enum value that is not a declared discriminant (in particular anything outside `u8`) ⇒ rejected -/
theorem rejects_enum_unknown (O : Oracles) (name : String) (vals : List Nat) (j : J) (i : Int) (hj : pyIndex j = some i)
    (hr : i < 0 ∨ i.toNat ∉ vals) : Rejected (fromJson O (.enum8 name vals) j) := by
  simp only [fromJson, fromEnum, fromUint, hj]
  by_cases h : 0 ≤ i ∧ i < ((256 ^ 1 : Nat) : Int)
  · have hv : vals.contains i.toNat = false := by
      rcases hr with hr | hr
      · omega
      · simpa using hr
    simp only [h, and_self, if_true, hv, Bool.false_eq_true, if_false]
    exact ⟨_, rfl⟩
  · simp only [h, if_false]
    exact ⟨_, rfl⟩

/-- what an accepted integer is: the value of the Python integer itself, inside the range (**no wrap, no default**) -/
theorem uint_accept (O : Oracles) (n : Nat) (j : J) (v : V) (h : fromJson O (.uint n) j = .ok v) :
    ∃ i : Int, pyIndex j = some i ∧ 0 ≤ i ∧ i < ((256 ^ n : Nat) : Int) ∧ v = .n i.toNat := by
  simp only [fromJson, fromUint] at h
  cases hj : pyIndex j with
  | none => simp [hj] at h
  | some i =>
    simp only [hj] at h
    split at h
    · rename_i hr
      simp only [Except.ok.injEq] at h
      exact ⟨i, rfl, hr.1, hr.2, h.symm⟩
    · simp at h

/-- **Not an integer** (float, string, `null`, list, dict) where an integer or enum is expected ⇒ rejected -/
theorem rejects_non_int (O : Oracles) (t : Ty) (ht : (∃ n, t = .uint n) ∨ (∃ n, t = .sint n) ∨ ∃ nm vals, t = .enum8 nm vals)
    (j : J) (hj : pyIndex j = none) : Rejected (fromJson O t j) := by
  rcases ht with ⟨n, rfl⟩ | ⟨n, rfl⟩ | ⟨nm, vals, rfl⟩
  · simp only [fromJson, fromUint, hj]; exact ⟨_, rfl⟩
  · simp only [fromJson, fromSint, hj]; exact ⟨_, rfl⟩
  · simp only [fromJson, fromEnum, fromUint, hj]; exact ⟨_, rfl⟩

/-- **Wrong element count** for a tuple ⇒ rejected (no element dropped, none defaulted) -/
theorem rejects_tuple_count (O : Oracles) (ts : List Ty) (l : List J) (h : l.length ≠ ts.length) :
    Rejected (fromJson O (.tuple ts) (.list l)) := by
  simp only [fromJson, fixedSeq, h, if_false]
  split <;> exact ⟨_, rfl⟩

/-- **Wrong element count** for an array ⇒ rejected -/
theorem rejects_array_count (O : Oracles) (n : Nat) (t : Ty) (l : List J) (h : l.length ≠ n) :
    Rejected (fromJson O (.array n t) (.list l)) := by
  simp only [fromJson, fromArray, fixedSeq, h, if_false]
  exact ⟨_, rfl⟩

theorem fieldsFromJ_keys : ∀ (fs : List (String × FromJ)) (d : List (String × J)) (vs : List V),
    fieldsFromJ fs (.dict d) = .ok vs → ∀ kf ∈ fs, d.lookup kf.1 ≠ none
  | [], _, _, _ => by simp
  | (k, f) :: fs, d, vs, h => by
    simp only [fieldsFromJ, getItem] at h
    cases hk : d.lookup k with
    | none => simp [hk] at h
    | some j =>
      simp only [hk] at h
      cases hf : f j with
      | error e => simp [hf] at h
      | ok v =>
        simp only [hf] at h
        cases hr : fieldsFromJ fs (.dict d) with
        | error e => simp [hr] at h
        | ok vs' =>
          intro kf hkf
          simp only [List.mem_cons] at hkf
          rcases hkf with rfl | hkf
          · simp [hk]
          · exact fieldsFromJ_keys fs d vs' hr kf hkf

theorem fromJsonF_nil_cons (O : Oracles) (t : Ty) (ts : List Ty) (o : J) : fromJsonF O [] (t :: ts) o = .error "descriptor" := by
  cases t <;> simp only [fromJsonF]

/-- whatever the field-list conversion accepts contains every key of the struct -/
theorem fromJsonF_keys (O : Oracles) : ∀ (ts : List Ty) (keys : List String) (d : List (String × J)) (vs : List V),
    fromJsonF O keys ts (.dict d) = .ok vs → ∀ k ∈ keys, d.lookup k ≠ none
  | [], [], _, _, _ => by simp
  | [], _ :: _, _, _, h => by simp [fromJsonF] at h
  | t :: ts, keys, d, vs, h => by
    cases hg : isGroup t
    · cases keys with
      | nil => rw [fromJsonF_nil_cons] at h; simp at h
      | cons k keys =>
        rw [fromJsonF_plain O _ _ _ _ _ hg] at h
        simp only [getItem] at h
        cases hk : d.lookup k with
        | none => simp [hk] at h
        | some j =>
          simp only [hk] at h
          cases hf : fromJson O t j with
          | error e => simp [hf] at h
          | ok v =>
            simp only [hf] at h
            cases hr : fromJsonF O keys ts (.dict d) with
            | error e => simp [hr] at h
            | ok vs' =>
              intro k' hk'
              simp only [List.mem_cons] at hk'
              rcases hk' with rfl | hk'
              · simp [hk]
              · exact fromJsonF_keys O ts keys d vs' hr k' hk'
    · cases t <;> simp only [isGroup, Bool.false_eq_true] at hg
      case optpair a b =>
        match keys, h with
        | [], h => simp [fromJsonF] at h
        | [_], h => simp only [fromJsonF, fromJson] at h; split at h <;> simp at h
        | k1 :: k2 :: keys, h =>
          simp only [fromJsonF, getItem] at h
          cases hk1 : d.lookup k1 with
          | none => simp [hk1] at h
          | some j1 =>
            simp only [hk1] at h
            cases hf1 : fromOption (fromJson O a) j1 with
            | error e => simp [hf1] at h
            | ok x =>
              simp only [hf1] at h
              cases hk2 : d.lookup k2 with
              | none => simp [hk2] at h
              | some j2 =>
                simp only [hk2] at h
                cases hf2 : fromOption (fromJson O b) j2 with
                | error e => simp [hf2] at h
                | ok y =>
                  simp only [hf2] at h
                  cases hr : fromJsonF O keys ts (.dict d) with
                  | error e => simp [hr] at h
                  | ok vs' =>
                    intro k' hk'
                    simp only [List.mem_cons] at hk'
                    rcases hk' with rfl | rfl | hk'
                    · simp [hk1]
                    · simp [hk2]
                    · exact fromJsonF_keys O ts keys d vs' hr k' hk'
      case genTail p =>
        match keys, h with
        | [], h => simp [fromJsonF] at h
        | [_], h => simp only [fromJsonF, fromJson] at h; split at h <;> simp at h
        | [_, _], h => simp only [fromJsonF, fromJson] at h; split at h <;> simp at h
        | [_, _, _], h => simp only [fromJsonF, fromJson] at h; split at h <;> simp at h
        | k1 :: k2 :: k3 :: k4 :: keys, h =>
          simp only [fromJsonF] at h
          cases hg4 : fieldsFromJ (genTailFromFields O k1 k2 k3 k4) (.dict d) with
          | error e => simp [hg4] at h
          | ok gs =>
            simp only [hg4] at h
            cases hr : fromJsonF O keys ts (.dict d) with
            | error e => simp [hr] at h
            | ok vs' =>
              have h4 := fieldsFromJ_keys _ d gs hg4
              intro k' hk'
              simp only [List.mem_cons] at hk'
              rcases hk' with rfl | rfl | rfl | rfl | hk'
              · exact h4 (_, fromOption (fromProgram O)) (by simp [genTailFromFields])
              · exact h4 (_, fromVec (fromUint 4)) (by simp [genTailFromFields])
              · exact h4 (_, fromOption fromU8Vec) (by simp [genTailFromFields])
              · exact h4 (_, fromUint 1) (by simp [genTailFromFields])
              · exact fromJsonF_keys O ts keys d vs' hr k' hk'

/-- **Missing key** ⇒ rejected: a dict that lacks any key of a named struct — whether the field is optional or
not — is an error; no field is ever defaulted (not even an `Option` to `None`). -/
theorem rejects_missing_key (O : Oracles) (name : String) (keys : List String) (ts : List Ty)
    (hnamed : (keys.isEmpty && !ts.isEmpty) = false) (d : List (String × J)) (k : String) (hk : k ∈ keys)
    (hmiss : d.lookup k = none) : Rejected (fromJson O (.struct name keys ts) (.dict d)) := by
  simp only [fromJson, hnamed, Bool.false_eq_true, if_false]
  cases h : fromJsonF O keys ts (.dict d) with
  | error e => exact ⟨_, rfl⟩
  | ok vs => exact absurd hmiss (fromJsonF_keys O ts keys d vs h k hk)

/-- the same for `ProofOfSpace` (ten declared fields) -/
theorem rejects_missing_key_pos (O : Oracles) (d : List (String × J)) (k : String) (hk : k ∈ posKeys)
    (hmiss : d.lookup k = none) : Rejected (fromJson O .proofOfSpace (.dict d)) := by
  simp only [fromJson, fromPos]
  cases h : fieldsFromJ (posFromFields O) (.dict d) with
  | error e => exact ⟨_, rfl⟩
  | ok vs =>
    have h10 := fieldsFromJ_keys _ d vs h
    simp only [posKeys, List.mem_cons, List.not_mem_nil, or_false] at hk
    rcases hk with rfl | rfl | rfl | rfl | rfl | rfl | rfl | rfl | rfl | rfl
    · exact absurd hmiss (h10 ("challenge", fromBytesN 32) (by simp [posFromFields, posKeys]))
    · exact absurd hmiss (h10 ("pool_public_key", fromOption (fromBls 48 (g1Valid O))) (by simp [posFromFields, posKeys]))
    · exact absurd hmiss (h10 ("pool_contract_puzzle_hash", fromOption (fromBytesN 32)) (by simp [posFromFields, posKeys]))
    · exact absurd hmiss (h10 ("plot_public_key", fromBls 48 (g1Valid O)) (by simp [posFromFields, posKeys]))
    · exact absurd hmiss (h10 ("version", fromUint 1) (by simp [posFromFields, posKeys]))
    · exact absurd hmiss (h10 ("plot_index", fromUint 2) (by simp [posFromFields, posKeys]))
    · exact absurd hmiss (h10 ("meta_group", fromUint 1) (by simp [posFromFields, posKeys]))
    · exact absurd hmiss (h10 ("strength", fromUint 1) (by simp [posFromFields, posKeys]))
    · exact absurd hmiss (h10 ("size", fromUint 1) (by simp [posFromFields, posKeys]))
    · exact absurd hmiss (h10 ("proof", fromBytesJ) (by simp [posFromFields, posKeys]))

mutual
/-- the types for which `null` can be accepted: `Option`, transparent structs around such a type, and the structs
without fields (whose conversion looks at nothing) -/
def nullOK : Ty → Bool
  | .option _ => true
  | .struct _ keys ts => if keys.isEmpty && !ts.isEmpty then nullOKNT ts else ts.isEmpty
  | _ => false
def nullOKNT : List Ty → Bool
  | [t] => nullOK t
  | _ => false
end

mutual
/-- **`null` for a non-optional value** ⇒ rejected, for every type except `Option`s (and the field-less structs, which
accept any object, see `empty_struct_accepts_anything`). -/
theorem rejects_null (O : Oracles) : ∀ t : Ty, nullOK t = false → Rejected (fromJson O t .null)
  | .uint _, _ => ⟨_, rfl⟩
  | .sint _, _ => ⟨_, rfl⟩
  | .bool, _ => ⟨_, rfl⟩
  | .unit, _ => ⟨_, rfl⟩
  | .bytes, _ => ⟨_, rfl⟩
  | .bytesN _, _ => ⟨_, rfl⟩
  | .str, _ => ⟨_, rfl⟩
  | .option _, h => by simp [nullOK] at h
  | .vec _, _ => ⟨_, rfl⟩
  | .tuple ts, _ => by simp only [fromJson, fixedSeq]; split <;> exact ⟨_, rfl⟩
  | .array _ _, _ => ⟨_, rfl⟩
  | .struct _ keys ts, h => by
    simp only [nullOK] at h
    simp only [fromJson]
    cases hk : (keys.isEmpty && !ts.isEmpty)
    · simp only [hk, Bool.false_eq_true, if_false] at h ⊢
      cases ts with
      | nil => simp at h
      | cons t ts =>
        have : ∃ e, fromJsonF O keys (t :: ts) .null = .error e := by
          apply exists_of_isErr
          cases hg : isGroup t
          · cases keys with
            | nil => rw [fromJsonF_nil_cons O t ts .null]; rfl
            | cons k keys => rw [fromJsonF_plain O _ _ _ _ _ hg]; rfl
          · cases t <;> simp only [isGroup, Bool.false_eq_true] at hg
            case optpair a b =>
              match keys with
              | [] => simp only [fromJsonF, isErr]
              | [_] => simp only [fromJsonF, getItem, isErr]
              | k1 :: k2 :: keys => simp only [fromJsonF, getItem, isErr]
            case genTail p =>
              match keys with
              | [] => simp only [fromJsonF, isErr]
              | [_] => simp only [fromJsonF, getItem, isErr]
              | [_, _] => simp only [fromJsonF, getItem, isErr]
              | [_, _, _] => simp only [fromJsonF, getItem, isErr]
              | k1 :: k2 :: k3 :: k4 :: keys => simp only [fromJsonF, genTailFromFields, fieldsFromJ, getItem, isErr]
        obtain ⟨e, he⟩ := this
        simp only [he]
        exact ⟨_, rfl⟩
    · simp only [hk, if_true] at h ⊢
      obtain ⟨e, he⟩ := rejects_nullNT O ts h
      simp only [he]
      exact ⟨_, rfl⟩
  | .enum8 _ _, _ => ⟨_, rfl⟩
  | .program, _ => ⟨_, rfl⟩
  | .g1, _ => ⟨_, rfl⟩
  | .g2, _ => ⟨_, rfl⟩
  | .gt, _ => ⟨_, rfl⟩
  | .secretKey, _ => ⟨_, rfl⟩
  | .optpair _ _, _ => ⟨_, rfl⟩
  | .genTail _, _ => ⟨_, rfl⟩
  | .proofOfSpace, _ => ⟨_, rfl⟩
theorem rejects_nullNT (O : Oracles) : ∀ ts : List Ty, nullOKNT ts = false → ∃ e, fromJsonNT O ts .null = .error e
  | [], _ => ⟨_, rfl⟩
  | [t], h => by
    simp only [nullOKNT] at h
    simp only [fromJsonNT]
    exact rejects_null O t h
  | _ :: _ :: _, _ => ⟨_, rfl⟩
end

/-- **`null` as the value of a non-optional field** ⇒ rejected (first field shown; any ordinary field that is reached
behaves the same, as the fields are converted one by one with `fromJson` of their type) -/
theorem rejects_null_field (O : Oracles) (name k : String) (keys : List String) (t : Ty) (ts : List Ty)
    (hg : isGroup t = false) (hn : nullOK t = false) (d : List (String × J)) (hd : d.lookup k = some .null) :
    Rejected (fromJson O (.struct name (k :: keys) (t :: ts)) (.dict d)) := by
  obtain ⟨e, he⟩ := rejects_null O t hn
  simp only [fromJson, List.isEmpty_cons, Bool.false_and, Bool.false_eq_true, if_false]
  rw [fromJsonF_plain O _ _ _ _ _ hg]
  simp only [getItem, hd, he]
  exact ⟨_, rfl⟩

/-! ## what an accepted hex string is (no truncation, no padding) -/

theorem fromBls_ok {n : Nat} {valid : Bytes → Bool} {j : J} {v : V} (h : fromBls n valid j = .ok v) :
    ∃ c, parseHexString n j = .ok c ∧ v = .bytes c := by
  unfold fromBls at h
  cases hp : parseHexString n j with
  | error e => simp [hp] at h
  | ok c =>
    simp only [hp] at h
    cases hv : valid c
    · simp [hv] at h
    · simp only [hv, if_true, Except.ok.injEq] at h
      exact ⟨c, rfl, h.symm⟩

theorem parseHexString_ok {n : Nat} {s c : Bytes} (h : parseHexString n (.str s) = .ok c) :
    unhexB (digitsOf s) = some c ∧ c.length = n := by
  rw [parseHexString_str] at h
  cases hu : unhexB (digitsOf s) with
  | none => simp [hu] at h
  | some c0 =>
    simp only [hu] at h
    by_cases hl : c0.length = n
    · simp only [hl, if_true, Except.ok.injEq] at h
      subst h
      exact ⟨rfl, hl⟩
    · simp [hl] at h

/-- an accepted fixed-length hex string decodes to exactly the value's bytes, which have exactly the type's length
(**no truncation, no padding**) -/
theorem hex_fixed_accept (O : Oracles) (t : Ty) (n : Nat) (ht : fixedLen t = some n) (s : Bytes) (v : V)
    (h : fromJson O t (.str s) = .ok v) : ∃ c, v = .bytes c ∧ c.length = n ∧ unhexB (digitsOf s) = some c := by
  cases t <;> simp only [fixedLen, Option.some.injEq, reduceCtorEq] at ht
  case bytesN m =>
    subst ht
    simp only [fromJson, fromBytesN] at h
    unfold digitsOf
    cases h0 : strip0x s with
    | none => simp [h0] at h
    | some d =>
      simp only [h0] at h
      cases hu : unhexB d with
      | none => simp [hu] at h
      | some c =>
        simp only [hu] at h
        by_cases hl : c.length = m
        · simp only [hl, if_true, Except.ok.injEq] at h
          exact ⟨c, h.symm, hl, by simpa using hu⟩
        · simp [hl] at h
  all_goals
    subst ht
    simp only [fromJson] at h
    obtain ⟨c, hp, rfl⟩ := fromBls_ok h
    obtain ⟨hu, hl⟩ := parseHexString_ok hp
    exact ⟨c, rfl, hl, hu⟩

/-! ## canonical form of accepted leaves -/

/-- lower-case form of a hex digit byte -/
def lowerB (x : Nat) : Nat := if 65 ≤ x ∧ x ≤ 70 then x + 32 else x

theorem hexDigitB_of_val {x d : Nat} (h : hexValB x = some d) : hexDigitB d = lowerB x ∧ d < 16 := by
  unfold hexValB at h
  split at h
  · simp only [Option.some.injEq] at h; subst h
    refine ⟨?_, by omega⟩; simp only [hexDigitB, lowerB]; split <;> (try split) <;> omega
  · split at h
    · simp only [Option.some.injEq] at h; subst h
      refine ⟨?_, by omega⟩; simp only [hexDigitB, lowerB]; split <;> (try split) <;> omega
    · split at h
      · simp only [Option.some.injEq] at h; subst h
        refine ⟨?_, by omega⟩; simp only [hexDigitB, lowerB]; split <;> (try split) <;> omega
      · simp at h

/-- re-rendering decoded hex gives the same digits in lower case -/
theorem hexB_unhexB : ∀ (h c : Bytes), unhexB h = some c → hexB c = h.map lowerB
  | [], c, hh => by simp [unhexB] at hh; subst hh; rfl
  | [_], c, hh => by simp [unhexB] at hh
  | a :: b :: rest, c, hh => by
    simp only [unhexB] at hh
    split at hh
    · rename_i x y r hx hy hr
      injection hh with hh; subst hh
      obtain ⟨hxa, hx16⟩ := hexDigitB_of_val hx
      obtain ⟨hyb, hy16⟩ := hexDigitB_of_val hy
      have h1 : (x * 16 + y) / 16 % 16 = x := by omega
      have h2 : (x * 16 + y) % 16 = y := by omega
      simp only [hexB, h1, h2, hxa, hyb, List.map_cons, hexB_unhexB rest r hr]
    · simp at hh

/-- **Canonical form (partial: the leaves).** Whatever a fixed-length hex type accepts re-renders as the same digits,
lower-cased, behind `0x` — so `fromJson` followed by `toJson` changes an accepted string only by the documented
normalisations (digit case; the prefix the BLS elements allow to be missing).  The analogous statement for
composite types (up to extra keys, `bool` for `int`, iterables for lists, `"0x"` for the empty `Bytes`) is open. -/
theorem fromJson_canonical_partial (O : Oracles) (t : Ty) (n : Nat) (ht : fixedLen t = some n) (s : Bytes) (v : V)
    (h : fromJson O t (.str s) = .ok v) : toJson t v = some (.str (pfx0x ++ (digitsOf s).map lowerB)) := by
  obtain ⟨c, rfl, _, hu⟩ := hex_fixed_accept O t n ht s _ h
  have := hexB_unhexB _ c hu
  cases t <;> simp only [fixedLen, reduceCtorEq] at ht <;> simp only [toJson, toHexJ, this]

/-- an accepted integer re-renders as itself -/
theorem fromJson_canonical_uint (O : Oracles) (n : Nat) (i : Int) (v : V) (h : fromJson O (.uint n) (.int i) = .ok v) :
    toJson (.uint n) v = some (.int i) := by
  obtain ⟨i', hi, h0, _, rfl⟩ := uint_accept O n _ v h
  simp only [pyIndex, Option.some.injEq] at hi
  subst hi
  simp only [toJson, toUint, Int.toNat_of_nonneg h0]

/-! ## documented leniencies of the real conversions (mirrored by the model, outside the property's list) -/

/-- a struct without fields never looks at its argument: any JSON value is accepted -/
theorem empty_struct_accepts_anything (O : Oracles) (name : String) (j : J) :
    fromJson O (.struct name [] []) j = .ok (.tup []) := rfl

/-- `bool` is a subclass of `int` in Python: `true` is accepted as the integer 1 (`PyExtract`) -/
theorem bool_accepted_as_int (O : Oracles) : fromJson O (.uint 1) (.bool true) = .ok (.n 1) := rfl

/-- `Vec<T>` is filled from any iterable: an empty string or an empty dict is an empty list -/
theorem vec_accepts_empty_str_and_dict (O : Oracles) (t : Ty) :
    fromJson O (.vec t) (.str []) = .ok (.list []) ∧ fromJson O (.vec t) (.dict []) = .ok (.list []) :=
  ⟨rfl, rfl⟩

/-! ## non-vacuity -/

/-- the hypotheses of `roundtrip` are satisfiable, and the conclusion is the expected dict -/
example : WFjson (.struct "Coin" ["parent", "amount"] [.bytesN 2, .option (.uint 8)]) = true ∧
    WF C13.trivialOracles false (.struct "Coin" ["parent", "amount"] [.bytesN 2, .option (.uint 8)])
      (.tup [.bytes [1, 255], .some (.n 7)]) = true ∧
    bytesOK (.tup [.bytes [1, 255], .some (.n 7)]) = true ∧
    (toJson (.struct "Coin" ["parent", "amount"] [.bytesN 2, .option (.uint 8)]) (.tup [.bytes [1, 255], .some (.n 7)])).map render
      = some "{\"amount\": 7, \"parent\": \"0x01ff\"}" := by
  refine ⟨by decide, by decide, by decide, by decide +kernel⟩

/-- the hypotheses of the rejection theorems are satisfiable -/
example : unhexB (digitsOf (pfx0x ++ [48, 49])) = some [1] ∧ fixedLen (.bytesN 2) = some 2 := by decide

end ChiaModel.C20
