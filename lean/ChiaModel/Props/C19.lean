import ChiaModel.Lemmas.Mempool
import ChiaModel.Lemmas.Fingerprint
import ChiaModel.Lemmas.Dedup
/-
C19 — mempool rewrites (fast-forward, dedup) preserve spend validity and meaning.
Property theorems only (helper lemmas live in Lemmas/Mempool.lean, Lemmas/Fingerprint.lean and
Lemmas/Dedup.lean).  The models are `Mp.fastForward` (fast_forward_singleton), `Mp.fpStream` /
`Mp.fingerprint` (compute_puzzle_fingerprint) and the `parse_spends` model of Model/Conditions.lean
with the mempool visitor.

One clause of the property is outside the reach of a model of /repo: "runs successfully against the
new coin … and creates the same coins" is a statement about the CLVM program
`singleton_top_layer_v1_1` (chia-puzzles).  It is proved here conditionally on the named hypothesis
structure `Mp.SingletonSpec` (`ff_preserves`), and checked unconditionally at run time (harness
`prop=`: both solutions are run with the real interpreter and validated by `run_spendbundle`).
-/
namespace ChiaModel.C19
open ChiaModel ChiaModel.Cond ChiaModel.Mp ChiaModel.TreeHash

/-! ### fast forward -/

/-- **The rewritten solution.**  Whenever the model of `fast_forward_singleton` accepts, puzzle and
solution have the shapes `(a (q . mod) (c (q . (mh . (lid . lph))) (c (q . inner) 1)))` and
`((lp lih la . t1) amt isol . t2)`, and the new solution is `((lp' lih la') amt' isol)` with
`lp'` = the new parent's parent id, `la'` / `amt'` = the canonical amounts of the new parent / the new
coin: the lineage's inner puzzle hash and the inner solution are untouched, exactly the three fields are
replaced — and the two list tails `t1`, `t2` (which `FromClvm`'s `list` representation does not look at)
are re-encoded as nil. -/
theorem ff_shape {puzzle solution : Sexp} {coin nc np : CoinM} {sol' : Sexp}
    (h : fastForward puzzle solution coin nc np = .ok sol') :
    ∃ lp lih la t1 amt isol t2, solution = mkSolution lp lih la t1 amt isol t2 ∧
      sol' = mkSolution np.parent lih (canonNat np.amount) Sexp.nil (canonNat nc.amount) isol Sexp.nil := by
  obtain ⟨_, pp, pih, pa, t1, amt, isol, t2, _, e2, _, e3⟩ := ff_ok h
  exact ⟨pp, pih, pa, t1, amt, isol, t2, e2, e3⟩

/-- the original solution with exactly the three fields replaced and everything else as it was -/
def Call.replace3 (c : Call) : Sexp :=
  mkSolution c.np.parent c.pih (canonNat c.np.amount) c.t1 (canonNat c.nc.amount) c.isol c.t2

/-- **Full strength for solutions that are proper lists** (what every wallet produces, and the only
solutions whose every element the puzzle can see): the result is the original with exactly
(lineage parent, lineage amount, coin amount) replaced. -/
theorem ff_shape_proper {c : Call} {sol' : Sexp} (h : c.run = .ok sol') (h1 : c.t1 = Sexp.nil) (h2 : c.t2 = Sexp.nil) :
    sol' = Call.replace3 c := by
  rw [(Call.run_ok h).2, Call.result, Call.replace3, h1, h2]

/-- the statement without the proper-list side condition -/
def ff_shape_full : Prop := ∀ (c : Call) (sol' : Sexp), c.run = .ok sol' → sol' = Call.replace3 c

/-- an accepted call, for any tree `mod` hashing to the singleton mod hash (the real puzzle bytes do:
case kind `mh` of the correspondence) -/
def witness (mod : Sexp) (t2 : Sexp) : Call :=
  let sg : Singleton := ⟨mod, singletonModHash, zeros 32, zeros 32, .atom [1]⟩
  let pih := Sexp.treeHash (.atom [1])
  let ph := Sexp.treeHash sg.puzzle
  let np : CoinM := ⟨zeros 32, ph, 1⟩
  { sg := sg, pp := zeros 32, pih := pih, pa := [1], t1 := Sexp.nil, amt := [1], isol := Sexp.nil, t2 := t2,
    coin := ⟨coinIdOf (zeros 32) (curryAndTreehash pih singletonModHash (zeros 32) (zeros 32)) 1, ph, 1⟩,
    nc := ⟨np.coinId, ph, 1⟩, np := np }

theorem witness_accepted (mod : Sexp) (hm : Sexp.treeHash mod = singletonModHash) (t2 : Sexp) :
    (witness mod t2).run = .ok (witness mod t2).result := by
  rw [Call.run_iff]
  refine ⟨?_, rfl⟩
  have l32 : singletonModHash.length = 32 := by decide
  have d1 : decodeU64 [1] = some 1 := by decide
  refine ⟨rfl, rfl, rfl, rfl, rfl, l32, by simp [witness, zeros], by simp [witness, zeros], by simp [witness, zeros],
    treeHash_length _, rfl, hm, d1, ⟨1, d1, rfl⟩, rfl, rfl, rfl⟩

/-- **Negation witness**: a valid call whose solution carries an extra trailing element is accepted and
the element is dropped, so the full-strength statement fails exactly there (recorded as a finding: the
dropped data is never read by the puzzle, the rewritten spend means the same). -/
theorem ff_shape_full_false (hm : ∃ mod : Sexp, Sexp.treeHash mod = singletonModHash) : ¬ ff_shape_full := by
  obtain ⟨mod, hm⟩ := hm
  intro hf
  have := hf (witness mod (.pair (.atom [7]) Sexp.nil)) _ (witness_accepted mod hm _)
  simp [Call.result, Call.replace3, witness, mkSolution, Sexp.nil] at this

/-- **The guards.**  Acceptance implies: the three amounts are odd; the three puzzle hashes are equal; the
curried mod hash is the singleton mod hash and so is the tree hash of the curried mod; the solution's
amount is the coin's amount; the old coin's parent is the coin id of (lineage parent, curried hash of the
lineage inner puzzle hash, lineage amount); the revealed inner puzzle hashes to the lineage inner puzzle
hash; the revealed puzzle hashes to the coin's puzzle hash; the new coin's parent is the coin id of the
new parent.  Hence anything that is not a singleton spend of the stated coin with matching lineage is refused. -/
theorem ff_guards {puzzle solution : Sexp} {coin nc np : CoinM} {sol' : Sexp}
    (h : fastForward puzzle solution coin nc np = .ok sol') :
    ∃ (sg : Singleton) (lp lih la : Bytes) (t1 : Sexp) (amt : Bytes) (isol t2 : Sexp) (v : Nat),
      puzzle = curry sg.mod [structOf sg.modHash sg.launcherId sg.launcherPh, sg.inner] ∧
      solution = mkSolution lp lih la t1 amt isol t2 ∧
      (coin.amount % 2 = 1 ∧ np.amount % 2 = 1 ∧ nc.amount % 2 = 1) ∧
      (coin.puzzleHash = np.puzzleHash ∧ coin.puzzleHash = nc.puzzleHash) ∧
      (sg.modHash = singletonModHash ∧ Sexp.treeHash sg.mod = singletonModHash) ∧
      decodeU64 amt = some coin.amount ∧
      decodeU64 la = some v ∧
      coin.parent = coinIdOf lp (curryAndTreehash lih sg.modHash sg.launcherId sg.launcherPh) v ∧
      Sexp.treeHash sg.inner = lih ∧
      Sexp.treeHash puzzle = coin.puzzleHash ∧
      nc.parent = np.coinId := by
  obtain ⟨sg, pp, pih, pa, t1, amt, isol, t2, e1, e2, a, _⟩ := ff_ok h
  obtain ⟨v, hv, hid⟩ := a.lineage
  exact ⟨sg, pp, pih, pa, t1, amt, isol, t2, v, e1, e2, ⟨a.oddCoin, a.oddParent, a.oddNew⟩, ⟨a.phParent, a.phNew⟩,
    ⟨a.modHash, a.modTree⟩, a.amount, hv, hid.symm, a.innerHash, by rw [e1]; exact a.puzzleHash, a.newParent⟩

/-- the guards are also sufficient: acceptance is *equivalent* to them (on decoded parts) -/
theorem ff_iff (c : Call) (sol' : Sexp) :
    c.run = .ok sol' ↔ Accepts c.sg c.pp c.pih c.pa c.amt c.coin c.nc c.np ∧ sol' = c.result :=
  Call.run_iff c sol'

/-- **Genuine lineage**: the old coin's parent was a coin of the very same puzzle (same puzzle hash),
with the lineage proof's parent id and amount — `curry_and_treehash` of the lineage inner puzzle hash is
the tree hash of the revealed puzzle (C17 `curry_and_treehash_eq`). -/
theorem ff_parent_same_puzzle {c : Call} {sol' : Sexp} (h : c.run = .ok sol') :
    ∃ v, decodeU64 c.pa = some v ∧ c.coin.parent = coinIdOf c.pp c.coin.puzzleHash v := by
  obtain ⟨a, _⟩ := Call.run_ok h
  obtain ⟨v, hv, hid⟩ := a.lineage
  exact ⟨v, hv, by rw [← hid, a.curried]⟩

/-- **Every single-field corruption is refused**, up to an explicit SHA-256 collision: starting from an
accepted call, changing the curried mod, the struct's mod hash / launcher id / launcher puzzle hash, the
inner puzzle, the lineage parent / inner puzzle hash / amount (to another integer), the solution's amount
(to another integer), the old coin's parent / puzzle hash / amount, the new coin's parent / puzzle hash /
amount parity, or the new parent's parent / puzzle hash / amount makes `fast_forward_singleton` return an
error — or exhibits two different byte strings with the same SHA-256. -/
theorem ff_corruption {c c' : Call} {sol' : Sexp} (h : c.run = .ok sol') (wf : c.WF) (hc : Corrupt c c') :
    (∃ e, c'.run = .error e) ∨ Collision :=
  corrupt_refused h wf hc

/-- **Runs against the new coin, same created coins** — conditional on `SingletonSpec`, the documented
behaviour of the external CLVM puzzle; see `Mp.ff_preserves_of_spec`.  (Also checked at run time with the
real interpreter on every accepted case: harness `prop=`.) -/
theorem ff_preserves {run : Sexp → Sexp → Option Sexp} (spec : SingletonSpec run) {c : Call} {sol' : Sexp}
    (h : c.run = .ok sol') (hnc : c.nc.amount < 2^64) {out : Sexp}
    (horig : run c.sg.puzzle c.solution = some out) :
    ∃ m, out = Sexp.pair (condAssertMyAmount c.amt) (Sexp.pair (condAssertMyParentId
            (sha256 (c.pp ++ c.coin.puzzleHash ++ c.pa))) m) ∧
      run c.sg.puzzle sol' = some (Sexp.pair (condAssertMyAmount (canonNat c.nc.amount))
        (Sexp.pair (condAssertMyParentId c.nc.parent) m)) :=
  ff_preserves_of_spec spec h hnc horig

/-! ### fingerprint -/

/-- **The fingerprint is SHA-256 of the stream** (by definition of the model; the stream is what the
correspondence compares through the hash on every case) -/
theorem fp_stream (conds : Sexp) : fingerprint conds = (fpStream conds).map sha256 := rfl

/-- **Equal streams ⇒ equal parsed conditions.**  For two condition lists in which every condition with a
recognised opcode parses (under any one flag word — in particular mempool mode) and whose atoms are
shorter than 2^32 bytes, equal fingerprint streams imply equal lists of parsed conditions (`Cond` values
of the `parse_spends` model, in order; ignored conditions — REMARK, negative/oversized tautological locks —
appear as `skip`).  Length-prefixed atoms, the opcode first and an opcode-determined number of atoms make
the stream uniquely decodable; absent / empty / oversized / non-atom hints all give the marker
`00000000` and all parse to "no hint". -/
theorem fp_injective (flags : Nat) (c₁ c₂ : Sexp) (s : Bytes)
    (h₁ : fpStream c₁ = some s) (h₂ : fpStream c₂ = some s)
    (p₁ : ParsesAll flags c₁) (p₂ : ParsesAll flags c₂) (a₁ : AtomsShort c₁) (a₂ : AtomsShort c₂) :
    TL.parsedConds flags c₁ = TL.parsedConds flags c₂ := by
  obtain ⟨ls₁, i₁, e₁⟩ := fpStream_items c₁ s h₁
  obtain ⟨ls₂, i₂, e₂⟩ := fpStream_items c₂ s h₂
  have hl : ls₁ = ls₂ := encItems_inj ls₁ ls₂ (fpItems_wf c₁ ls₁ i₁ a₁) (fpItems_wf c₂ ls₂ i₂ a₂) (by rw [← e₁, ← e₂])
  subst hl
  exact all2_functional (Q := R flags) (fun _ _ _ h h' => R_functional h h') _ _ _ (items_parsed flags c₁ ls₁ i₁ p₁) (items_parsed flags c₂ ls₁ i₂ p₂)

/-- **Two spends that pass validation with equal fingerprints have identical parsed conditions**: for
condition lists the `parse_conditions` model accepts (any spend state, any limit, either visitor — in
particular two spends of the same coin in mempool mode), equal fingerprints imply equal parsed
conditions or an explicit SHA-256 collision. -/
theorem fp_injective_accepted (env : Env) (c₁ c₂ : Sexp) (s₁ s₂ : CSt) (m₁ m₂ : Nat) (r₁ r₂ : CSt × Nat) (f : Bytes)
    (v₁ : condLoop env c₁ s₁ m₁ = .ok r₁) (v₂ : condLoop env c₂ s₂ m₂ = .ok r₂)
    (f₁ : fingerprint c₁ = some f) (f₂ : fingerprint c₂ = some f) (a₁ : AtomsShort c₁) (a₂ : AtomsShort c₂) :
    TL.parsedConds env.flags c₁ = TL.parsedConds env.flags c₂ ∨ Collision := by
  unfold fingerprint at f₁ f₂
  cases h₁ : fpStream c₁ with
  | none => rw [h₁] at f₁; cases f₁
  | some x₁ =>
    cases h₂ : fpStream c₂ with
    | none => rw [h₂] at f₂; cases f₂
    | some x₂ =>
      rw [h₁] at f₁; rw [h₂] at f₂
      simp only [Option.map_some, Option.some.injEq] at f₁ f₂
      rcases sha_inj (f₁.trans f₂.symm) with e | cl
      · subst e
        exact Or.inl (fp_injective env.flags c₁ c₂ x₁ h₁ h₂ (condLoop_parsesAll env c₁ s₁ m₁ r₁ v₁)
          (condLoop_parsesAll env c₂ s₂ m₂ r₂ v₂) a₁ a₂)
      · exact Or.inr cl

/-! ### dedup eligibility -/

/-- **ELIGIBLE_FOR_DEDUP in closed form, one spend**: after `process_single_spend` under the mempool
visitor the pushed spend record carries the flag exactly when none of its parsed conditions is an
AGG_SIG_* or SEND/RECEIVE_MESSAGE and the sum of its created amounts is at least the coin's amount. -/
theorem dedup_flag_iff {env : Env} (hm : env.mempool = true) {ret : Bundle} {st : PState}
    {parent ph amount conds : Sexp} {cc m : Nat} {ret' : Bundle} {st' : PState} {m' : Nat}
    (h : processSingleSpend env ret st parent ph amount conds cc m = .ok ((ret', st'), m')) :
    ∃ sp, ret'.spends = ret.spends ++ [sp] ∧
      (sp.flags &&& ELIGIBLE_FOR_DEDUP ≠ 0 ↔
        ((∀ c ∈ TL.parsedConds env.flags conds, blocksDedup c = false) ∧
          sp.coinAmount ≤ ((TL.parsedConds env.flags conds).map createdAmount).sum)) := by
  obtain ⟨sp, amt, v, e1, _, _, e4, e5⟩ := processSingleSpend_dedup hm h
  refine ⟨sp, e1, ?_⟩
  have : sp.flags &&& ELIGIBLE_FOR_DEDUP ≠ 0 ↔ sp.flags % 2 = 1 := by
    unfold ELIGIBLE_FOR_DEDUP; rw [Nat.and_one_is_mod]; omega
  rw [this, e5, e4]
  simp [dedupClosedForm]

/-- **A spend is flagged dedup-eligible only if it emits no signature or message conditions and creates
at least as much value as it consumes** (the direction the property states) -/
theorem dedup_flag {env : Env} (hm : env.mempool = true) {ret : Bundle} {st : PState}
    {parent ph amount conds : Sexp} {cc m : Nat} {ret' : Bundle} {st' : PState} {m' : Nat}
    (h : processSingleSpend env ret st parent ph amount conds cc m = .ok ((ret', st'), m')) :
    ∃ sp, ret'.spends = ret.spends ++ [sp] ∧
      (sp.flags &&& ELIGIBLE_FOR_DEDUP ≠ 0 →
        (∀ c ∈ TL.parsedConds env.flags conds,
          (∀ op pk msg, c ≠ .aggSig op pk msg) ∧ (∀ a b d, c ≠ .sendMessage a b d) ∧ (∀ a b d, c ≠ .receiveMessage a b d)) ∧
        sp.coinAmount ≤ (sp.createCoin.map (·.amount)).sum ∧
        (sp.createCoin.map (·.amount)).sum = ((TL.parsedConds env.flags conds).map createdAmount).sum) := by
  obtain ⟨s0, m1, s, hh, _, _, hl, hf⟩ := processSingleSpend_ok h
  obtain ⟨sp, e1, e2⟩ := dedup_flag_iff hm h
  refine ⟨sp, e1, ?_⟩
  intro hflag
  obtain ⟨b1, b2⟩ := e2.mp hflag
  -- the created coins of the record are those of the parsed conditions
  have hsum : (sp.createCoin.map (·.amount)).sum = ((TL.parsedConds env.flags conds).map createdAmount).sum := by
    obtain ⟨parentId, puzzleHash, amountBuf, myAmount, _, _, _, _, _, _, _, hs0⟩ := spendHeader_ok hh
    have hstart : (newSpendVisit env (bump s0 (spendCharge env.flags))).spend.flags % 2 = 1 ∧
        (newSpendVisit env (bump s0 (spendCharge env.flags))).spend.createCoin = [] := by
      subst hs0
      refine ⟨?_, by simp [newSpendVisit, hm, bump]⟩
      simp only [newSpendVisit, hm, if_true, bump, ELIGIBLE_FOR_DEDUP, ELIGIBLE_FOR_FF]
      have key : ∀ (p : Prop) [Decidable p], (0 + 1 + if p then 4 else 0) % 2 = 1 := by
        intro p _; by_cases hp : p <;> simp [hp]
      exact key _
    obtain ⟨_, c2, _⟩ := condLoop_dedup env hm conds _ m1 s m' hl hstart.1 hstart.2
    simp only [finishSpend] at hf
    injection hf with hf1 _
    have hsp : sp = postSpend env s.spend := by
      have := congrArg Bundle.spends hf1
      rw [e1] at this
      simp only at this
      have hlen := congrArg List.length this
      simp only [List.length_append, List.length_cons, List.length_nil] at hlen
      exact (List.append_inj this (by omega)).2 |> List.cons.inj |>.1
    rw [hsp]
    have : (postSpend env s.spend).createCoin = s.spend.createCoin := by unfold postSpend; split <;> rfl
    rw [this]; exact c2
  refine ⟨?_, by rw [hsum]; exact b2, hsum⟩
  intro c hc
  have := b1 c hc
  refine ⟨?_, ?_, ?_⟩ <;> (intros; intro e; subst e; simp [blocksDedup] at this)

/-- **The whole bundle**: for every generator output the `parse_spends` model accepts under the mempool
visitor, the ELIGIBLE_FOR_DEDUP bits of the resulting spends are, in order, the closed form evaluated on
the spend tuples of the tree (this is what the model driver prints for case kind `dd`). -/
theorem dedup_flag_bundle (env : Env) (hm : env.mempool = true) (sigOk : List (Bytes × Bytes) → Bool)
    (t : Sexp) (maxCost clvmCost : Nat) (b : Bundle) (st : PState)
    (h : parseSpends env sigOk t maxCost clvmCost = .ok (b, st)) :
    b.spends.map (fun s => decide (s.flags &&& ELIGIBLE_FOR_DEDUP ≠ 0)) = dedupOfOutput env.flags t := by
  unfold parseSpends at h
  cases t with
  | atom x => simp [first] at h
  | pair iter ext =>
    simp only [first] at h
    cases hl : spendLoop env clvmCost iter {} {} (spendLimit env.flags) maxCost with
    | error e => rw [hl] at h; cases h
    | ok q =>
      obtain ⟨⟨ret, st1⟩, costLeft⟩ := q
      rw [hl] at h; simp only at h
      cases hfb : finishBundle env sigOk ret st1 with
      | error e => rw [hfb] at h; cases h
      | ok ret2 =>
        rw [hfb] at h; simp only at h
        injection h with h; injection h with h1 h2
        have a0 := spendLoop_dedup env hm clvmCost iter {} {} _ _ ret st1 costLeft [] hl .nil
        have a1 := postProcess_dedup env ret st1 env.flags _ a0
        have hsp : b.spends = (postProcess env ret st1).spends := by
          unfold finishBundle at hfb
          simp only at hfb
          split at hfb
          · cases hfb
          · split at hfb
            · cases hfb
            · injection hfb with hfb; rw [← h1, ← hfb]
        rw [hsp]
        simp only [dedupOfOutput, List.nil_append] at a1 ⊢
        generalize (postProcess env ret st1).spends = l1 at a1
        generalize elems iter = l2 at a1
        induction a1 with
        | nil => rfl
        | cons hab _ ih =>
          simp only [List.map_cons, ih]
          congr 1
          simp only [DedupOK] at hab
          have e : ∀ f : Nat, (f &&& ELIGIBLE_FOR_DEDUP ≠ 0) ↔ f % 2 = 1 := by
            intro f; unfold ELIGIBLE_FOR_DEDUP; rw [Nat.and_one_is_mod]; omega
          rw [Bool.eq_iff_iff]
          simp only [decide_eq_true_eq]
          rw [e]; exact hab

/-! ### non-vacuity -/

section examples
def ph0 : Bytes := zeros 32
def ccA : Sexp := Sexp.ofList [Sexp.ofList [.atom [51], .atom ph0, .atom [1]]]
def ccB : Sexp := Sexp.ofList [Sexp.ofList [.atom [51], .atom ph0, .atom [1], .pair Sexp.nil Sexp.nil]]
def annAB : Sexp := Sexp.ofList [Sexp.ofList [.atom [62], .atom [97, 98]], Sexp.ofList [.atom [62], .atom [99]]]
def annBC : Sexp := Sexp.ofList [Sexp.ofList [.atom [62], .atom [97]], Sexp.ofList [.atom [62], .atom [98, 99]]]

/-- `fp_injective` is not vacuous: two *different* condition lists (hint absent / hint `(())`) have the
same fingerprint stream, and the same parsed conditions -/
example : ccA ≠ ccB ∧ fpStream ccA = fpStream ccB ∧ (fpStream ccA).isSome = true ∧
    TL.parsedConds 0 ccA = TL.parsedConds 0 ccB := by decide

/-- the length prefixes separate `"ab","c"` from `"a","bc"` -/
example : fpStream annAB ≠ fpStream annBC := by decide

/-- `dedup_flag`'s hypothesis is satisfiable: a spend of amount 3 that re-creates 3 is accepted under the
mempool visitor and keeps ELIGIBLE_FOR_DEDUP (1) and ELIGIBLE_FOR_FF (4) -/
example : (match processSingleSpend { flags := 0, mempool := true, pkOk := fun _ => true } {} {} (.atom ph0) (.atom ph0) (.atom [3])
      (Sexp.ofList [Sexp.ofList [.atom [51], .atom ph0, .atom [3]]]) 0 11000000000 with
    | .ok ((b, _), _) => b.spends.map (fun s => (s.flags, s.coinAmount)) | .error _ => []) = [(1 + 4, 3)] := by
  decide +kernel

/-- `ff_shape` / `ff_guards` / `ff_corruption` are not vacuous: `witness_accepted` constructs an accepted
call from any tree hashing to the singleton mod hash; that such a tree exists (the 967 bytes of
`SINGLETON_TOP_LAYER_V1_1`) is confirmed by the correspondence on every run (case kind `mh`), not by
kernel evaluation (≈ 900 SHA-256 compressions). -/
example (mod : Sexp) (hm : Sexp.treeHash mod = singletonModHash) :
    ∃ c : Call, ∃ s, c.run = .ok s ∧ c.WF :=
  ⟨witness mod Sexp.nil, _, witness_accepted mod hm _,
    ⟨by show isBytes [1]; decide, by simp [witness, zeros], by show (1 : Nat) < 2^64; decide⟩⟩
end examples

end ChiaModel.C19
