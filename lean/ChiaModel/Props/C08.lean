import ChiaModel.Model.Generator
import ChiaModel.Props.C07
import ChiaModel.Props.C11
/-
C08 — theorems that carry this property are listed in bin/props.py; the statements specific to the
generator-path models that are still open are recorded there under `open`.
-/
