import ChiaModel.Model.Generator
import ChiaModel.Props.C07
import ChiaModel.Props.C11
/-
C08 — what the mempool validated is what the block yields.
-/
namespace ChiaModel.C08
open ChiaModel ChiaModel.Gn

theorem serialize_ofList_length (l : List Sexp) (term : Sexp) :
    (Sexp.serialize (Sexp.ofList l term)).length = (l.map (fun x => 1 + (Sexp.serialize x).length)).sum + (Sexp.serialize term).length := by
  induction l with
  | nil => simp [Sexp.ofList]
  | cons a t ih =>
    simp only [Sexp.ofList, List.foldr_cons, Sexp.serialize, List.length_cons, List.length_append, List.map_cons, List.sum_cons] at ih ⊢
    rw [ih]; omega

theorem serAtom_len32 (b : Bytes) (h : b.length = 32) : (Sexp.serAtom b).length = 33 := by
  rw [C11.serAtom_len_short b (by omega) (by omega), h]

theorem serialize_nil : (Sexp.serialize Sexp.nil).length = 1 := by decide

/-- a coin spend as it occurs in a spend bundle: 32-byte parent id, u64 amount, reveals serialised plainly -/
def WF (s : CoinSpendM) : Prop :=
  s.parent.length = 32 ∧ s.amount < 2^64 ∧ s.puzzleLen = (Sexp.serialize s.puzzle).length ∧ s.solutionLen = (Sexp.serialize s.solution).length

theorem item_length (s : CoinSpendM) (h : WF s) :
    1 + (Sexp.serialize (Sexp.ofList [.atom s.parent, s.puzzle, .atom (canonNat s.amount), s.solution])).length
      = Gen.genLenPerSpend + s.puzzleLen + Gen.clvmBytesLen s.amount + s.solutionLen := by
  obtain ⟨h1, h2, h3, h4⟩ := h
  rw [serialize_ofList_length]
  simp only [List.map_cons, List.map_nil, List.sum_cons, List.sum_nil, Sexp.serialize, serAtom_len32 _ h1, serialize_nil]
  have := C11.clvmBytesLen_ok s.amount h2
  simp only [Sexp.serialize] at this
  rw [h3, h4, this]
  have : Gen.genLenPerSpend = 39 := by decide
  rw [this]
  show 1 + (1 + 33 + (1 + _ + (1 + _ + (1 + _ + 0))) + (Sexp.serAtom []).length) = _
  have : (Sexp.serAtom []).length = 1 := by decide
  rw [this]; omega

/-- **The predicted generator length is the actual serialised length**, for every spend bundle whose
reveals are plainly serialised (any number of spends, any amounts). -/
theorem generator_length (css : List CoinSpendM) (h : ∀ s ∈ css, WF s) :
    calculateGeneratorLength css = (Sexp.serialize (buildGenerator css)).length := by
  simp only [calculateGeneratorLength, buildGenerator, Sexp.serialize, List.length_cons, List.length_append]
  rw [serialize_ofList_length]
  have hb : Gen.genLenBase = 5 := by decide
  have h1 : (Sexp.serAtom [1]).length = 1 := by decide
  rw [hb, h1, serialize_nil]
  have hsum : ((css.map (fun s => Sexp.ofList [.atom s.parent, s.puzzle, .atom (canonNat s.amount), s.solution])).reverse.map
      (fun x => 1 + (Sexp.serialize x).length)).sum
      = (css.map (fun s => Gen.genLenPerSpend + s.puzzleLen + Gen.clvmBytesLen s.amount + s.solutionLen)).sum := by
    rw [List.map_reverse, List.sum_reverse, List.map_map]
    congr 1
    apply List.map_congr_left
    intro s hs
    exact item_length s (h s hs)
  rw [hsum]
  show _ = _ + 1 + (_ + 1 + 1) 
  omega


/-- **Fixed quote-wrapper overhead of the size cost.**  In byte-cost mode the block path's base cost on
the generator built from a bundle exceeds the bundle path's base cost by exactly two bytes' worth
(the `(q . …)` wrapper), for every well-formed bundle. -/
theorem base_cost_offset (css : List CoinSpendM) (h : ∀ s ∈ css, WF s) (cpb : Nat) :
    (Sexp.serialize (buildGenerator css)).length * cpb = (calculateGeneratorLength css - QUOTE_BYTES) * cpb + 2 * cpb := by
  rw [← generator_length css h]
  have : calculateGeneratorLength css ≥ 5 := by
    simp only [calculateGeneratorLength]; have : Gen.genLenBase = 5 := by decide
    omega
  simp only [QUOTE_BYTES]
  rw [← Nat.add_mul]; congr 1; omega

end ChiaModel.C08
