import ChiaModel.Model.Generator
import ChiaModel.Props.C07
import ChiaModel.Props.C11
import ChiaModel.Lemmas.BundlePath
import ChiaModel.Lemmas.BundlePerm
/-
C08 — what the mempool validated is what the block yields.
-/
namespace ChiaModel.C08
open ChiaModel ChiaModel.Gn ChiaModel.Cond

theorem serialize_ofList_length (l : List Sexp) (term : Sexp) :
    (Sexp.serialize (Sexp.ofList l term)).length = (l.map (fun x => 1 + (Sexp.serialize x).length)).sum + (Sexp.serialize term).length := by
  induction l with
  | nil => simp [Sexp.ofList]
  | cons a t ih =>
    simp only [Sexp.ofList, List.foldr_cons, Sexp.serialize, List.length_cons, List.length_append, List.map_cons, List.sum_cons] at ih ⊢
    rw [ih]; omega

theorem serAtom_len32 (b : Bytes) (h : b.length = 32) : (Sexp.serAtom b).length = 33 := by
  rw [C11.serAtom_len_short b (by omega) (by omega), h]

theorem serialize_nil : (Sexp.serialize Sexp.nil).length = 1 := by decide

/-- a coin spend as it occurs in a spend bundle: 32-byte parent id, u64 amount, reveals serialised plainly -/
def WF (s : CoinSpendM) : Prop :=
  s.parent.length = 32 ∧ s.amount < 2^64 ∧ s.puzzleLen = (Sexp.serialize s.puzzle).length ∧ s.solutionLen = (Sexp.serialize s.solution).length

theorem item_length (s : CoinSpendM) (h : WF s) :
    1 + (Sexp.serialize (Sexp.ofList [.atom s.parent, s.puzzle, .atom (canonNat s.amount), s.solution])).length
      = Gen.genLenPerSpend + s.puzzleLen + Gen.clvmBytesLen s.amount + s.solutionLen := by
  obtain ⟨h1, h2, h3, h4⟩ := h
  rw [serialize_ofList_length]
  simp only [List.map_cons, List.map_nil, List.sum_cons, List.sum_nil, Sexp.serialize, serAtom_len32 _ h1, serialize_nil]
  have := C11.clvmBytesLen_ok s.amount h2
  simp only [Sexp.serialize] at this
  rw [h3, h4, this]
  have : Gen.genLenPerSpend = 39 := by decide
  rw [this]
  show 1 + (1 + 33 + (1 + _ + (1 + _ + (1 + _ + 0))) + (Sexp.serAtom []).length) = _
  have : (Sexp.serAtom []).length = 1 := by decide
  rw [this]; omega

/-- **The predicted generator length is the actual serialised length**, for every spend bundle whose
reveals are plainly serialised (any number of spends, any amounts). -/
theorem generator_length (css : List CoinSpendM) (h : ∀ s ∈ css, WF s) :
    calculateGeneratorLength css = (Sexp.serialize (buildGenerator css)).length := by
  simp only [calculateGeneratorLength, buildGenerator, Sexp.serialize, List.length_cons, List.length_append]
  rw [serialize_ofList_length]
  have hb : Gen.genLenBase = 5 := by decide
  have h1 : (Sexp.serAtom [1]).length = 1 := by decide
  rw [hb, h1, serialize_nil]
  have hsum : ((css.map (fun s => Sexp.ofList [.atom s.parent, s.puzzle, .atom (canonNat s.amount), s.solution])).reverse.map
      (fun x => 1 + (Sexp.serialize x).length)).sum
      = (css.map (fun s => Gen.genLenPerSpend + s.puzzleLen + Gen.clvmBytesLen s.amount + s.solutionLen)).sum := by
    rw [List.map_reverse, List.sum_reverse, List.map_map]
    congr 1
    apply List.map_congr_left
    intro s hs
    exact item_length s (h s hs)
  rw [hsum]
  show _ = _ + 1 + (_ + 1 + 1) 
  omega


/-- **Fixed quote-wrapper overhead of the size cost.**  In byte-cost mode the block path's base cost on
the generator built from a bundle exceeds the bundle path's base cost by exactly two bytes' worth
(the `(q . …)` wrapper), for every well-formed bundle. -/
theorem base_cost_offset (css : List CoinSpendM) (h : ∀ s ∈ css, WF s) (cpb : Nat) :
    (Sexp.serialize (buildGenerator css)).length * cpb = (calculateGeneratorLength css - QUOTE_BYTES) * cpb + 2 * cpb := by
  rw [← generator_length css h]
  have : calculateGeneratorLength css ≥ 5 := by
    simp only [calculateGeneratorLength]; have : Gen.genLenBase = 5 := by decide
    omega
  simp only [QUOTE_BYTES]
  rw [← Nat.add_mul]; congr 1; omega

/-! ## the bundle path and the block path -/

/-- the value of a quoted program `(q . x)` -/
def quoted : Sexp → Sexp
  | .pair _ x => x
  | .atom _ => Sexp.nil

/-- what "the same conditions modulo the visitor" means: the block path's spends are the bundle path's
spends, in the same order, with `flags` masked to HAS_RELATIVE_CONDITION (the two eligibility bits are
set by the mempool visitor only), and every bundle-level field other than `cost`, `execution_cost`
and `validated_signature` is equal. -/
def SameUpToVisitor (bn bb : Bundle) : Prop :=
  bn.spends = bb.spends.map blockSpend ∧
  bn.reserveFee = bb.reserveFee ∧ bn.heightAbsolute = bb.heightAbsolute ∧ bn.secondsAbsolute = bb.secondsAbsolute ∧
  bn.beforeHeightAbsolute = bb.beforeHeightAbsolute ∧ bn.beforeSecondsAbsolute = bb.beforeSecondsAbsolute ∧
  bn.aggSigUnsafe = bb.aggSigUnsafe ∧ bn.removalAmount = bb.removalAmount ∧ bn.additionAmount = bb.additionAmount ∧
  bn.conditionCost = bb.conditionCost

theorem calculateGeneratorLength_reverse (css : List CoinSpendM) :
    calculateGeneratorLength css.reverse = calculateGeneratorLength css := by
  simp only [calculateGeneratorLength, List.map_reverse, List.sum_reverse]

theorem quoted_buildGenerator_reverse (css : List CoinSpendM) :
    quoted (buildGenerator css.reverse) = .pair (Sexp.ofList (css.map item)) Sexp.nil := by
  rw [buildGenerator_eq]
  simp only [quoted, List.map_reverse, List.reverse_reverse]

theorem sameUpToVisitor_of_blkRel {k : Nat} {retN retB : Bundle} (env : Env) (st : PState) (h : BlkRel k retN retB)
    (cn cb : Nat) (v : Bool) :
    SameUpToVisitor { retN with validatedSignature := v, cost := cn } { postProcess env retB st with cost := cb } := by
  obtain ⟨h1, h2⟩ := h
  obtain ⟨p1, p2⟩ := postProcess_blk env retB st
  refine ⟨?_, ?_⟩
  · show retN.spends = (postProcess env retB st).spends.map blockSpend
    rw [p1, h1]
  · rw [p2, h2]
    exact ⟨rfl, rfl, rfl, rfl, rfl, rfl, rfl, rfl, rfl⟩

/-- decomposition of an accepting `runSpendbundle` (byte-cost mode) -/
theorem runSpendbundle_ok {p : Params} {css : List CoinSpendM} {puz : Nat → RunRes} {L : Nat} {bb : Bundle}
    {pairs : List (Bytes × Bytes)} (hint : hasFlag p.flags Gen.flagInternedGenerator = false)
    (h : runSpendbundle p css puz L = .ok (bb, pairs)) :
    (calculateGeneratorLength css - QUOTE_BYTES) * p.costPerByte ≤ L ∧
    ¬(hasFlag p.flags Gen.flagLimitSpends ∧ css.length > MAX_SPENDS_PER_BLOCK) ∧
    ∃ ret st left, bundleLoop { flags := p.flags, mempool := true, pkOk := p.pkOk } puz css 0 {} {}
        (L - (calculateGeneratorLength css - QUOTE_BYTES) * p.costPerByte) = .ok ((ret, st), left) ∧
      validOk (postProcess { flags := p.flags, mempool := true, pkOk := p.pkOk } ret st) st = true ∧
      bb = { postProcess { flags := p.flags, mempool := true, pkOk := p.pkOk } ret st with cost := L - left } ∧
      pairs = st.pkmPairs := by
  unfold runSpendbundle at h
  simp only [hint, Bool.false_eq_true, if_false] at h
  cases h1 : subtractCost L ((calculateGeneratorLength css - QUOTE_BYTES) * p.costPerByte) with
  | error e => rw [h1] at h; cases h
  | ok c1 =>
    rw [h1] at h; simp only at h
    split at h
    · cases h
    rename_i hlim
    cases h2 : bundleLoop { flags := p.flags, mempool := true, pkOk := p.pkOk } puz css 0 {} {} c1 with
    | error e => rw [h2] at h; cases h
    | ok q =>
      obtain ⟨⟨ret, st⟩, left⟩ := q
      rw [h2] at h; simp only at h
      by_cases hv : validOk (postProcess { flags := p.flags, mempool := true, pkOk := p.pkOk } ret st) st = true
      · simp only [validateConditions, hv, if_true] at h
        injection h with h; injection h with h3 h4
        obtain ⟨a1, a2⟩ := C07.subtractCost_ok h1
        subst a2
        exact ⟨a1, hlim, ret, st, left, h2, hv, h3.symm, h4.symm⟩
      · simp only [validateConditions, hv, if_false, Bool.false_eq_true] at h
        cases h

/-- `finishBundle` under the empty visitor, spelled out -/
theorem finishBundle_block_ok {env : Env} (hm : env.mempool = false) {sigOk : List (Bytes × Bytes) → Bool}
    {ret : Bundle} {st : PState} {b : Bundle} (h : finishBundle env sigOk ret st = .ok b) :
    validOk ret st = true ∧ (hasFlag env.flags Gen.flagDontValidateSignature = true ∨ sigOk st.pkmPairs = true) ∧
    b = { ret with validatedSignature := !hasFlag env.flags Gen.flagDontValidateSignature } := by
  unfold finishBundle at h
  simp only [postProcess_block env hm, validateConditions] at h
  by_cases hv : validOk ret st = true
  · rw [if_pos hv] at h
    simp only at h
    split at h
    · cases h
    · rename_i hs
      injection h with h
      refine ⟨hv, ?_, h.symm⟩
      by_cases hd : hasFlag env.flags Gen.flagDontValidateSignature = true
      · exact Or.inl hd
      · by_cases hsg : sigOk st.pkmPairs = true
        · exact Or.inr hsg
        · exact absurd ⟨by simpa using hd, by simpa using hsg⟩ hs
  · rw [if_neg hv] at h; cases h

theorem finishBundle_block_of {env : Env} (hm : env.mempool = false) {sigOk : List (Bytes × Bytes) → Bool}
    {ret : Bundle} {st : PState} (hv : validOk ret st = true)
    (hs : hasFlag env.flags Gen.flagDontValidateSignature = true ∨ sigOk st.pkmPairs = true) :
    finishBundle env sigOk ret st = .ok { ret with validatedSignature := !hasFlag env.flags Gen.flagDontValidateSignature } := by
  unfold finishBundle
  simp only [postProcess_block env hm, validateConditions]
  rw [if_pos hv]
  simp only
  rw [if_neg]
  rintro ⟨h1, h2⟩
  rcases hs with hs | hs
  · rw [hs] at h1; cases h1
  · rw [hs] at h2; cases h2

theorem spendLimit_ge {p : Params} {css : List CoinSpendM} (hlen : css.length < 2^64)
    (hlim : ¬(hasFlag p.flags Gen.flagLimitSpends ∧ css.length > MAX_SPENDS_PER_BLOCK)) :
    css.length ≤ spendLimit p.flags := by
  unfold spendLimit
  by_cases hf : hasFlag p.flags Gen.flagLimitSpends = true
  · rw [if_pos hf]
    have : ¬ css.length > MAX_SPENDS_PER_BLOCK := fun h => hlim ⟨hf, h⟩
    omega
  · rw [if_neg hf]; omega

/-- **The bundle path and the block path agree** (`_partial`: see the exclusion below).
For a bundle `css` of well-formed coin spends (32-byte parents, u64 amounts, plainly serialised reveals)
whose declared puzzle hashes match and which has fewer than 2^64 spends, in byte-cost mode
(no `INTERNED_GENERATOR`): let `g` be the generator that lists these spends *in bundle order* — that is
`build_generator` of the reversed bundle, since `build_generator` reverses —, let its run be the value
of the quote at cost 20, and give the block path the limit `L + 20 + 2·cost_per_byte`.  Then

* if `run_spendbundle` accepts under `L` and the signature check passes on the (pk, msg) pairs it
  returns (or signatures are not validated), `run_block_generator2` accepts; and
* if `run_block_generator2` accepts, `run_spendbundle` accepts and the signature check passes on its pairs;

in both cases the conditions are the same modulo the visitor (`SameUpToVisitor`: equal spends in the
same order up to the two mempool eligibility bits, equal bundle-level fields), the block cost is the
bundle cost plus exactly `20 + 2·cost_per_byte`, and the block execution cost is the bundle's plus 20.

Excluded here (hence `_partial`): the *reversed spend order*.  The statement compares the bundle with the
generator listing its spends in the same order (equivalently, `build_generator css` with the bundle
`css.reverse`, see `bundle_path_eq_block_path_reversed_partial`).  The statement for `build_generator css`
itself is `bundle_path_eq_block_path` below, which adds that acceptance and the aggregates do not depend on
the order of the spends (`Gn.runSpendbundle_reverse`, the bundle-path form of C06 `perm_spends`). -/
theorem bundle_path_eq_block_path_partial (p : Params) (css : List CoinSpendM) (puz : Nat → RunRes) (L : Nat)
    (hwf : ∀ s ∈ css, WF s) (hph : ∀ s ∈ css, s.puzzleHash = Sexp.treeHash s.puzzle)
    (hint : hasFlag p.flags Gen.flagInternedGenerator = false) (hlen : css.length < 2^64) :
    let g : GenInput := { len := (Sexp.serialize (buildGenerator css.reverse)).length, startsQuote := true,
                          prog := buildGenerator css.reverse, nrefs := 0 }
    let genRun : RunRes := some (20, quoted g.prog)
    let L' := L + 20 + 2 * p.costPerByte
    (∀ bb pairs, runSpendbundle p css puz L = .ok (bb, pairs) →
      (hasFlag p.flags Gen.flagDontValidateSignature = true ∨ p.sigOk pairs = true) →
      ∃ bn, native p g genRun puz L' = .ok bn ∧ SameUpToVisitor bn bb ∧
        bn.cost = bb.cost + (20 + 2 * p.costPerByte) ∧ bn.executionCost = bb.executionCost + 20) ∧
    (∀ bn, native p g genRun puz L' = .ok bn →
      ∃ bb pairs, runSpendbundle p css puz L = .ok (bb, pairs) ∧
        (hasFlag p.flags Gen.flagDontValidateSignature = true ∨ p.sigOk pairs = true) ∧ SameUpToVisitor bn bb ∧
        bn.cost = bb.cost + (20 + 2 * p.costPerByte) ∧ bn.executionCost = bb.executionCost + 20) := by
  intro g genRun L'
  have hwfr : ∀ s ∈ css.reverse, WF s := fun s hs => hwf s (List.mem_reverse.mp hs)
  have hbase : g.len * p.costPerByte = (calculateGeneratorLength css - QUOTE_BYTES) * p.costPerByte + 2 * p.costPerByte := by
    have := base_cost_offset css.reverse hwfr p.costPerByte
    rw [calculateGeneratorLength_reverse] at this
    exact this
  have hgen : genRun = some (20, .pair (Sexp.ofList (css.map item)) Sexp.nil) := by
    show some (20, quoted (buildGenerator css.reverse)) = _
    rw [quoted_buildGenerator_reverse]
  have hnode : generatorNodeOk p.flags g.prog = true := by
    show generatorNodeOk p.flags (buildGenerator css.reverse) = true
    rw [buildGenerator_eq]; simp [generatorNodeOk]
  have hrel0 : BlkRel 20 { executionCost := 20 } {} := ⟨rfl, rfl⟩
  constructor
  · intro bb pairs hb hsig
    obtain ⟨hb1, hlim, retB, st, left, hloop, hv, rfl, rfl⟩ := runSpendbundle_ok hint hb
    have hle := bundleLoop_le _ _ _ _ _ _ _ _ _ _ hloop
    have hrel := nativeLoop_bundleLoop { flags := p.flags, mempool := true, pkOk := p.pkOk } puz 20 css 0
      { executionCost := 20 } {} {} (spendLimit p.flags) (L - (calculateGeneratorLength css - QUOTE_BYTES) * p.costPerByte)
      hph (spendLimit_ge hlen hlim) hrel0
    rw [hloop] at hrel
    change LoopRel 20 (nativeLoop { flags := p.flags, mempool := false, pkOk := p.pkOk } puz _ 0 _ _ _ _) _ at hrel
    cases hN : nativeLoop { flags := p.flags, mempool := false, pkOk := p.pkOk } puz (Sexp.ofList (css.map item)) 0
        { executionCost := 20 } {} (spendLimit p.flags) (L - (calculateGeneratorLength css - QUOTE_BYTES) * p.costPerByte) with
    | error e => rw [hN] at hrel; simp only [LoopRel] at hrel
    | ok q =>
      obtain ⟨⟨retN, stN⟩, leftN⟩ := q
      rw [hN] at hrel
      simp only [LoopRel] at hrel
      obtain ⟨e1, e2, hrelN⟩ := hrel
      subst e1; subst e2
      have hvN : validOk retN stN = true := by
        rw [validOk_blkRel { flags := p.flags, mempool := true, pkOk := p.pkOk } hrelN]; exact hv
      have hfin := finishBundle_block_of (env := { flags := p.flags, mempool := false, pkOk := p.pkOk }) rfl
        (sigOk := p.sigOk) hvN hsig
      refine ⟨{ retN with validatedSignature := !hasFlag p.flags Gen.flagDontValidateSignature, cost := L' - leftN }, ?_,
        sameUpToVisitor_of_blkRel _ _ hrelN _ _ _, ?_, ?_⟩
      · unfold native
        rw [if_neg (by simp [g])]
        simp only [hint, Bool.false_eq_true, if_false]
        rw [hbase, subtractCost_of_le (by omega)]
        simp only
        rw [if_neg (by simp [hnode]), if_neg (by simp [g]), hgen, runWithLimit_of_le (by omega)]
        simp only
        rw [subtractCost_of_le (by omega)]
        simp only [first]
        rw [if_neg (by simp [allExtract3_items])]
        have e : L' - ((calculateGeneratorLength css - QUOTE_BYTES) * p.costPerByte + 2 * p.costPerByte) - 20
            = L - (calculateGeneratorLength css - QUOTE_BYTES) * p.costPerByte := by omega
        rw [e]
        rw [hN]
        simp only
        rw [hfin]
      · simp only; omega
      · obtain ⟨_, h2⟩ := hrelN
        obtain ⟨_, p2⟩ := postProcess_blk { flags := p.flags, mempool := true, pkOk := p.pkOk } retB stN
        simp only
        rw [p2, h2]
  · intro bn hn
    obtain ⟨_, _, hb1, _, gc, allSpends, args, retN, st, left, bn0, hg, hgc, hloopN, hfin, rfl⟩ := C07.native_ok hint hn
    rw [hgen] at hg
    injection hg with hg; injection hg with g1 g2; injection g2 with g2 g3
    subst g1; subst g2; subst g3
    rw [hbase] at hgc hloopN hb1
    have hbL : (calculateGeneratorLength css - QUOTE_BYTES) * p.costPerByte ≤ L := by omega
    have e : L' - ((calculateGeneratorLength css - QUOTE_BYTES) * p.costPerByte + 2 * p.costPerByte) - 20
        = L - (calculateGeneratorLength css - QUOTE_BYTES) * p.costPerByte := by omega
    rw [e] at hloopN
    have hlim : ¬(hasFlag p.flags Gen.flagLimitSpends ∧ css.length > MAX_SPENDS_PER_BLOCK) := by
      rintro ⟨hf, hgt⟩
      refine nativeLoop_too_long _ puz (css.map item) 0 _ _ _ _ _ ?_ hloopN
      simp only [spendLimit, hf, if_true, List.length_map]; exact hgt
    have hrel := nativeLoop_bundleLoop { flags := p.flags, mempool := true, pkOk := p.pkOk } puz 20 css 0
      { executionCost := 20 } {} {} (spendLimit p.flags) (L - (calculateGeneratorLength css - QUOTE_BYTES) * p.costPerByte)
      hph (spendLimit_ge hlen hlim) hrel0
    change LoopRel 20 (nativeLoop { flags := p.flags, mempool := false, pkOk := p.pkOk } puz _ 0 _ _ _ _) _ at hrel
    rw [hloopN] at hrel
    cases hB : bundleLoop { flags := p.flags, mempool := true, pkOk := p.pkOk } puz css 0 {} {}
        (L - (calculateGeneratorLength css - QUOTE_BYTES) * p.costPerByte) with
    | error e => rw [hB] at hrel; simp only [LoopRel] at hrel
    | ok q =>
      obtain ⟨⟨retB, stB⟩, leftB⟩ := q
      rw [hB] at hrel
      simp only [LoopRel] at hrel
      obtain ⟨e1, e2, hrelN⟩ := hrel
      subst e1; subst e2
      have hle := bundleLoop_le _ _ _ _ _ _ _ _ _ _ hB
      obtain ⟨hvN, hsig, rfl⟩ := finishBundle_block_ok (env := { flags := p.flags, mempool := false, pkOk := p.pkOk }) rfl hfin
      have hv : validOk (postProcess { flags := p.flags, mempool := true, pkOk := p.pkOk } retB st) st = true := by
        rw [← validOk_blkRel { flags := p.flags, mempool := true, pkOk := p.pkOk } hrelN]; exact hvN
      refine ⟨{ postProcess { flags := p.flags, mempool := true, pkOk := p.pkOk } retB st with cost := L - left }, st.pkmPairs,
        ?_, hsig, sameUpToVisitor_of_blkRel _ _ hrelN _ _ _, ?_, ?_⟩
      · unfold runSpendbundle
        simp only [hint, Bool.false_eq_true, if_false]
        rw [subtractCost_of_le hbL]
        simp only
        rw [if_neg hlim, hB]
        simp only [validateConditions]
        rw [if_pos hv]
      · simp only; omega
      · obtain ⟨_, h2⟩ := hrelN
        obtain ⟨_, p2⟩ := postProcess_blk { flags := p.flags, mempool := true, pkOk := p.pkOk } retB st
        simp only
        rw [p2, h2]

/-- The same statement read from the generator's side: `build_generator css` (whose spend list is `css`
reversed) run by the block path agrees with the bundle path run on the spends *in the generator's order*
(`css.reverse`; the puzzle runs `puz i` are indexed in that order on both sides).  `_partial`: as in
`bundle_path_eq_block_path_partial`; the step from `css.reverse` to `css` on the bundle side is made in
`bundle_path_eq_block_path`. -/
theorem bundle_path_eq_block_path_reversed_partial (p : Params) (css : List CoinSpendM) (puz : Nat → RunRes) (L : Nat)
    (hwf : ∀ s ∈ css, WF s) (hph : ∀ s ∈ css, s.puzzleHash = Sexp.treeHash s.puzzle)
    (hint : hasFlag p.flags Gen.flagInternedGenerator = false) (hlen : css.length < 2^64) :
    let g : GenInput := { len := (Sexp.serialize (buildGenerator css)).length, startsQuote := true,
                          prog := buildGenerator css, nrefs := 0 }
    let genRun : RunRes := some (20, quoted g.prog)
    let L' := L + 20 + 2 * p.costPerByte
    (∀ bb pairs, runSpendbundle p css.reverse puz L = .ok (bb, pairs) →
      (hasFlag p.flags Gen.flagDontValidateSignature = true ∨ p.sigOk pairs = true) →
      ∃ bn, native p g genRun puz L' = .ok bn ∧ SameUpToVisitor bn bb ∧
        bn.cost = bb.cost + (20 + 2 * p.costPerByte) ∧ bn.executionCost = bb.executionCost + 20) ∧
    (∀ bn, native p g genRun puz L' = .ok bn →
      ∃ bb pairs, runSpendbundle p css.reverse puz L = .ok (bb, pairs) ∧
        (hasFlag p.flags Gen.flagDontValidateSignature = true ∨ p.sigOk pairs = true) ∧ SameUpToVisitor bn bb ∧
        bn.cost = bb.cost + (20 + 2 * p.costPerByte) ∧ bn.executionCost = bb.executionCost + 20) := by
  have h := bundle_path_eq_block_path_partial p css.reverse puz L
    (fun s hs => hwf s (List.mem_reverse.mp hs)) (fun s hs => hph s (List.mem_reverse.mp hs)) hint
    (by rw [List.length_reverse]; exact hlen)
  rw [List.reverse_reverse] at h
  exact h

/-! ## the generator `build_generator` really builds: spends in reverse order -/

/-- "the same conditions modulo the visitor and the order of the spends": the block path's spends are the
bundle path's spends *in reverse order* (`build_generator` lists them reversed), with `flags` masked to
HAS_RELATIVE_CONDITION (the two eligibility bits are set by the mempool visitor only); the AGG_SIG_UNSAFE
pairs agree up to listing order; every other bundle-level field other than `cost`, `execution_cost` and
`validated_signature` is equal. -/
def SameUpToVisitorRev (bn bb : Bundle) : Prop :=
  bn.spends = (bb.spends.map blockSpend).reverse ∧
  bn.reserveFee = bb.reserveFee ∧ bn.heightAbsolute = bb.heightAbsolute ∧ bn.secondsAbsolute = bb.secondsAbsolute ∧
  bn.beforeHeightAbsolute = bb.beforeHeightAbsolute ∧ bn.beforeSecondsAbsolute = bb.beforeSecondsAbsolute ∧
  List.Perm bn.aggSigUnsafe bb.aggSigUnsafe ∧ bn.removalAmount = bb.removalAmount ∧ bn.additionAmount = bb.additionAmount ∧
  bn.conditionCost = bb.conditionCost

/-- **The bundle path and the block path agree** — `run_spendbundle` on a spend bundle against
`run_block_generator2` on the generator `build_generator` builds from it.  For a bundle `css` of well-formed
coin spends (32-byte parents, u64 amounts, plainly serialised reveals) whose declared puzzle hashes match and
which has fewer than 2^64 spends, in byte-cost mode (no `INTERNED_GENERATOR`), with a signature verdict that
does not depend on the order of the (public key, signed text) pairs (true of BLS aggregate verification):
let `g` be `build_generator css` — which lists the spends in REVERSE order —, let its run be the value of the
quote at cost 20, let the puzzle runs of the block path be those of the bundle path re-indexed to the
generator's order (`puz (n − 1 − i)`), and give the block path the limit `L + 20 + 2·cost_per_byte`.  Then

* if `run_spendbundle` accepts under `L` and the signature check passes on the pairs it returns (or
  signatures are not validated), `run_block_generator2` accepts; and
* if `run_block_generator2` accepts, `run_spendbundle` accepts and the signature check passes on its pairs;

in both cases the conditions are the same modulo the visitor and the order of the spends
(`SameUpToVisitorRev`: the block path's spend records are the bundle path's in reverse order, equal up to the
two mempool eligibility bits; equal bundle-level fields; AGG_SIG_UNSAFE pairs up to listing order), the block
cost is the bundle cost plus exactly `20 + 2·cost_per_byte`, and the block execution cost is the bundle's
plus 20.

Proof: `bundle_path_eq_block_path_reversed_partial` (same order on both sides) composed with
`runSpendbundle_reverse` (Lemmas/BundlePerm.lean: the order of the spends does not matter to `run_spendbundle`,
by the refinement of the spend loop to the order-free rules of C01 and the permutation lemmas of C06). -/
theorem bundle_path_eq_block_path (p : Params) (css : List CoinSpendM) (puz : Nat → RunRes) (L : Nat)
    (hwf : ∀ s ∈ css, WF s) (hph : ∀ s ∈ css, s.puzzleHash = Sexp.treeHash s.puzzle)
    (hint : hasFlag p.flags Gen.flagInternedGenerator = false) (hlen : css.length < 2^64)
    (hsig : ∀ pairs pairs', List.Perm pairs pairs' → p.sigOk pairs = p.sigOk pairs') :
    let g : GenInput := { len := (Sexp.serialize (buildGenerator css)).length, startsQuote := true,
                          prog := buildGenerator css, nrefs := 0 }
    let genRun : RunRes := some (20, quoted g.prog)
    let L' := L + 20 + 2 * p.costPerByte
    let puzG : Nat → RunRes := fun i => puz (css.length - 1 - i)
    (∀ bb pairs, runSpendbundle p css puz L = .ok (bb, pairs) →
      (hasFlag p.flags Gen.flagDontValidateSignature = true ∨ p.sigOk pairs = true) →
      ∃ bn, native p g genRun puzG L' = .ok bn ∧ SameUpToVisitorRev bn bb ∧
        bn.cost = bb.cost + (20 + 2 * p.costPerByte) ∧ bn.executionCost = bb.executionCost + 20) ∧
    (∀ bn, native p g genRun puzG L' = .ok bn →
      ∃ bb pairs, runSpendbundle p css puz L = .ok (bb, pairs) ∧
        (hasFlag p.flags Gen.flagDontValidateSignature = true ∨ p.sigOk pairs = true) ∧ SameUpToVisitorRev bn bb ∧
        bn.cost = bb.cost + (20 + 2 * p.costPerByte) ∧ bn.executionCost = bb.executionCost + 20) := by
  intro g genRun L' puzG
  have hrev := bundle_path_eq_block_path_reversed_partial p css puzG L hwf hph hint hlen
  constructor
  · intro bb pairs hb hs
    obtain ⟨bb', pairs', hb', hpp, r1, r2, r3, r4, r5, r6, r7, r8, r9, r10, r11, _, r13⟩ :=
      runSpendbundle_reverse p css puz puzG L bb pairs hint (fun k _ => rfl) hb
    have hs' : hasFlag p.flags Gen.flagDontValidateSignature = true ∨ p.sigOk pairs' = true := by
      rw [← hsig _ _ hpp]; exact hs
    obtain ⟨bn, hn, ⟨v1, v2, v3, v4, v5, v6, v7, v8, v9, v10⟩, hc, he⟩ := hrev.1 bb' pairs' hb' hs'
    refine ⟨bn, hn, ⟨?_, v2.trans r3, v3.trans r4, v4.trans r5, v5.trans r6, v6.trans r7, ?_, v8.trans r8, v9.trans r9,
      v10.trans r10⟩, by rw [hc, r2], by rw [he, r11]⟩
    · rw [v1, r1, List.map_reverse]
    · rw [v7]; exact r13
  · intro bn hn
    obtain ⟨bb', pairs', hb', hs', ⟨v1, v2, v3, v4, v5, v6, v7, v8, v9, v10⟩, hc, he⟩ := hrev.2 bn hn
    have hpuz : ∀ k, k < css.reverse.length → puz k = puzG (css.reverse.length - 1 - k) := by
      intro k hk
      rw [List.length_reverse] at hk
      show puz k = puz (css.length - 1 - (css.reverse.length - 1 - k))
      rw [List.length_reverse]
      congr 1; omega
    obtain ⟨bb, pairs, hb, hpp, r1, r2, r3, r4, r5, r6, r7, r8, r9, r10, r11, _, r13⟩ :=
      runSpendbundle_reverse p css.reverse puzG puz L bb' pairs' hint hpuz hb'
    rw [List.reverse_reverse] at hb
    have hs : hasFlag p.flags Gen.flagDontValidateSignature = true ∨ p.sigOk pairs = true := by
      rw [← hsig _ _ hpp]; exact hs'
    refine ⟨bb, pairs, hb, hs, ⟨?_, v2.trans r3.symm, v3.trans r4.symm, v4.trans r5.symm, v5.trans r6.symm,
      v6.trans r7.symm, ?_, v8.trans r8.symm, v9.trans r9.symm, v10.trans r10.symm⟩, by rw [hc, r2], by rw [he, r11]⟩
    · rw [v1, r1, List.map_reverse, List.reverse_reverse]
    · rw [v7]; exact r13.symm

/-! ## non-vacuity of the hypotheses -/
namespace Witness

def p0 : Params := { flags := 0, pkOk := fun _ => true, sigOk := fun _ => true }
def cs0 : CoinSpendM :=
  { parent := List.replicate 32 7, puzzleHash := Sexp.treeHash (.atom [1]), amount := 0,
    puzzle := .atom [1], solution := Sexp.nil, puzzleLen := 1, solutionLen := 1 }
def puz0 : Nat → RunRes := fun _ => some (5, Sexp.nil)

example : ∀ s ∈ [cs0], WF s := by
  intro s hs
  simp only [List.mem_cons, List.mem_nil_iff, or_false] at hs
  subst hs
  exact ⟨by decide, by decide, by decide, by decide⟩

example : ∀ s ∈ [cs0], s.puzzleHash = Sexp.treeHash s.puzzle := by
  intro s hs
  simp only [List.mem_cons, List.mem_nil_iff, or_false] at hs
  subst hs; rfl

/-- the bundle path accepts this bundle: the first half of `bundle_path_eq_block_path_partial` is not vacuous -/
example : (runSpendbundle p0 [cs0] puz0 1000000).toBool = true := by decide +kernel

/-- a second coin (other parent id): a two-spend bundle, so that the reversed order of `build_generator`
matters; the signature verdict of `p0` is order-free -/
def cs1 : CoinSpendM := { cs0 with parent := List.replicate 32 8 }

example : ∀ s ∈ [cs0, cs1], WF s := by
  intro s hs
  simp only [List.mem_cons, List.mem_nil_iff, or_false] at hs
  rcases hs with rfl | rfl <;> exact ⟨by decide, by decide, by decide, by decide⟩

example : ∀ s ∈ [cs0, cs1], s.puzzleHash = Sexp.treeHash s.puzzle := by
  intro s hs
  simp only [List.mem_cons, List.mem_nil_iff, or_false] at hs
  rcases hs with rfl | rfl <;> rfl

example : ∀ pairs pairs' : List (Bytes × Bytes), List.Perm pairs pairs' → p0.sigOk pairs = p0.sigOk pairs' :=
  fun _ _ _ => rfl

/-- the bundle path accepts the two-spend bundle: the first half of `bundle_path_eq_block_path` is not vacuous -/
example : (runSpendbundle p0 [cs0, cs1] puz0 2000000).toBool = true := by decide +kernel

end Witness

end ChiaModel.C08
