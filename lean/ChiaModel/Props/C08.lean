import ChiaModel.Model.Generator
import ChiaModel.Props.C07
import ChiaModel.Props.C11
import ChiaModel.Lemmas.BundlePath
import ChiaModel.Lemmas.BundlePerm
import ChiaModel.Lemmas.BundleBase
/-
C08 — what the mempool validated is what the block yields.
-/
namespace ChiaModel.C08
open ChiaModel ChiaModel.Gn ChiaModel.Cond

theorem serialize_ofList_length (l : List Sexp) (term : Sexp) :
    (Sexp.serialize (Sexp.ofList l term)).length = (l.map (fun x => 1 + (Sexp.serialize x).length)).sum + (Sexp.serialize term).length := by
  induction l with
  | nil => simp [Sexp.ofList]
  | cons a t ih =>
    simp only [Sexp.ofList, List.foldr_cons, Sexp.serialize, List.length_cons, List.length_append, List.map_cons, List.sum_cons] at ih ⊢
    rw [ih]; omega

theorem serAtom_len32 (b : Bytes) (h : b.length = 32) : (Sexp.serAtom b).length = 33 := by
  rw [C11.serAtom_len_short b (by omega) (by omega), h]

theorem serialize_nil : (Sexp.serialize Sexp.nil).length = 1 := by decide

/-- a coin spend as it occurs in a spend bundle: 32-byte parent id, u64 amount, reveals serialised plainly -/
def WF (s : CoinSpendM) : Prop :=
  s.parent.length = 32 ∧ s.amount < 2^64 ∧ s.puzzleLen = (Sexp.serialize s.puzzle).length ∧ s.solutionLen = (Sexp.serialize s.solution).length

theorem item_length (s : CoinSpendM) (h : WF s) :
    1 + (Sexp.serialize (Sexp.ofList [.atom s.parent, s.puzzle, .atom (canonNat s.amount), s.solution])).length
      = Gen.genLenPerSpend + s.puzzleLen + Gen.clvmBytesLen s.amount + s.solutionLen := by
  obtain ⟨h1, h2, h3, h4⟩ := h
  rw [serialize_ofList_length]
  simp only [List.map_cons, List.map_nil, List.sum_cons, List.sum_nil, Sexp.serialize, serAtom_len32 _ h1, serialize_nil]
  have := C11.clvmBytesLen_ok s.amount h2
  simp only [Sexp.serialize] at this
  rw [h3, h4, this]
  have : Gen.genLenPerSpend = 39 := by decide
  rw [this]
  show 1 + (1 + 33 + (1 + _ + (1 + _ + (1 + _ + 0))) + (Sexp.serAtom []).length) = _
  have : (Sexp.serAtom []).length = 1 := by decide
  rw [this]; omega

/-- **The predicted generator length is the actual serialised length**, for every spend bundle whose
reveals are plainly serialised (any number of spends, any amounts). -/
theorem generator_length (css : List CoinSpendM) (h : ∀ s ∈ css, WF s) :
    calculateGeneratorLength css = (Sexp.serialize (buildGenerator css)).length := by
  simp only [calculateGeneratorLength, buildGenerator, Sexp.serialize, List.length_cons, List.length_append]
  rw [serialize_ofList_length]
  have hb : Gen.genLenBase = 5 := by decide
  have h1 : (Sexp.serAtom [1]).length = 1 := by decide
  rw [hb, h1, serialize_nil]
  have hsum : ((css.map (fun s => Sexp.ofList [.atom s.parent, s.puzzle, .atom (canonNat s.amount), s.solution])).reverse.map
      (fun x => 1 + (Sexp.serialize x).length)).sum
      = (css.map (fun s => Gen.genLenPerSpend + s.puzzleLen + Gen.clvmBytesLen s.amount + s.solutionLen)).sum := by
    rw [List.map_reverse, List.sum_reverse, List.map_map]
    congr 1
    apply List.map_congr_left
    intro s hs
    exact item_length s (h s hs)
  rw [hsum]
  show _ = _ + 1 + (_ + 1 + 1) 
  omega


/-- **Fixed quote-wrapper overhead of the size cost.**  In byte-cost mode the block path's base cost on
the generator built from a bundle exceeds the bundle path's base cost by exactly two bytes' worth
(the `(q . …)` wrapper), for every well-formed bundle. -/
theorem base_cost_offset (css : List CoinSpendM) (h : ∀ s ∈ css, WF s) (cpb : Nat) :
    (Sexp.serialize (buildGenerator css)).length * cpb = (calculateGeneratorLength css - QUOTE_BYTES) * cpb + 2 * cpb := by
  rw [← generator_length css h]
  have : calculateGeneratorLength css ≥ 5 := by
    simp only [calculateGeneratorLength]; have : Gen.genLenBase = 5 := by decide
    omega
  simp only [QUOTE_BYTES]
  rw [← Nat.add_mul]; congr 1; omega

/-! ## the bundle path and the block path -/

/-- the value of a quoted program `(q . x)` -/
def quoted : Sexp → Sexp
  | .pair _ x => x
  | .atom _ => Sexp.nil

/-- what "the same conditions modulo the visitor" means: the block path's spends are the bundle path's
spends, in the same order, with `flags` masked to HAS_RELATIVE_CONDITION (the two eligibility bits are
set by the mempool visitor only), and every bundle-level field other than `cost`, `execution_cost`
and `validated_signature` is equal. -/
def SameUpToVisitor (bn bb : Bundle) : Prop :=
  bn.spends = bb.spends.map blockSpend ∧
  bn.reserveFee = bb.reserveFee ∧ bn.heightAbsolute = bb.heightAbsolute ∧ bn.secondsAbsolute = bb.secondsAbsolute ∧
  bn.beforeHeightAbsolute = bb.beforeHeightAbsolute ∧ bn.beforeSecondsAbsolute = bb.beforeSecondsAbsolute ∧
  bn.aggSigUnsafe = bb.aggSigUnsafe ∧ bn.removalAmount = bb.removalAmount ∧ bn.additionAmount = bb.additionAmount ∧
  bn.conditionCost = bb.conditionCost

theorem calculateGeneratorLength_reverse (css : List CoinSpendM) :
    calculateGeneratorLength css.reverse = calculateGeneratorLength css := by
  simp only [calculateGeneratorLength, List.map_reverse, List.sum_reverse]

theorem quoted_buildGenerator_reverse (css : List CoinSpendM) :
    quoted (buildGenerator css.reverse) = .pair (Sexp.ofList (css.map item)) Sexp.nil := by
  rw [buildGenerator_eq]
  simp only [quoted, List.map_reverse, List.reverse_reverse]

theorem sameUpToVisitor_of_blkRel {k : Nat} {retN retB : Bundle} (env : Env) (st : PState) (h : BlkRel k retN retB)
    (cn cb : Nat) (v : Bool) :
    SameUpToVisitor { retN with validatedSignature := v, cost := cn } { postProcess env retB st with cost := cb } := by
  obtain ⟨h1, h2⟩ := h
  obtain ⟨p1, p2⟩ := postProcess_blk env retB st
  refine ⟨?_, ?_⟩
  · show retN.spends = (postProcess env retB st).spends.map blockSpend
    rw [p1, h1]
  · rw [p2, h2]
    exact ⟨rfl, rfl, rfl, rfl, rfl, rfl, rfl, rfl, rfl⟩

/-- decomposition of an accepting `runSpendbundle` (byte-cost mode) -/
theorem runSpendbundle_ok {p : Params} {css : List CoinSpendM} {puz : Nat → RunRes} {L : Nat} {bb : Bundle}
    {pairs : List (Bytes × Bytes)} (hint : hasFlag p.flags Gen.flagInternedGenerator = false)
    (h : runSpendbundle p css puz L = .ok (bb, pairs)) :
    (calculateGeneratorLength css - QUOTE_BYTES) * p.costPerByte ≤ L ∧
    ¬(hasFlag p.flags Gen.flagLimitSpends ∧ css.length > MAX_SPENDS_PER_BLOCK) ∧
    ∃ ret st left, bundleLoop { flags := p.flags, mempool := true, pkOk := p.pkOk } puz css 0 {} {}
        (L - (calculateGeneratorLength css - QUOTE_BYTES) * p.costPerByte) = .ok ((ret, st), left) ∧
      validOk (postProcess { flags := p.flags, mempool := true, pkOk := p.pkOk } ret st) st = true ∧
      bb = { postProcess { flags := p.flags, mempool := true, pkOk := p.pkOk } ret st with cost := L - left } ∧
      pairs = st.pkmPairs := by
  unfold runSpendbundle at h
  simp only [hint, Bool.false_eq_true, if_false] at h
  cases h1 : subtractCost L ((calculateGeneratorLength css - QUOTE_BYTES) * p.costPerByte) with
  | error e => rw [h1] at h; cases h
  | ok c1 =>
    rw [h1] at h; simp only at h
    split at h
    · cases h
    rename_i hlim
    cases h2 : bundleLoop { flags := p.flags, mempool := true, pkOk := p.pkOk } puz css 0 {} {} c1 with
    | error e => rw [h2] at h; cases h
    | ok q =>
      obtain ⟨⟨ret, st⟩, left⟩ := q
      rw [h2] at h; simp only at h
      by_cases hv : validOk (postProcess { flags := p.flags, mempool := true, pkOk := p.pkOk } ret st) st = true
      · simp only [validateConditions, hv, if_true] at h
        injection h with h; injection h with h3 h4
        obtain ⟨a1, a2⟩ := C07.subtractCost_ok h1
        subst a2
        exact ⟨a1, hlim, ret, st, left, h2, hv, h3.symm, h4.symm⟩
      · simp only [validateConditions, hv, if_false, Bool.false_eq_true] at h
        cases h

/-- `finishBundle` under the empty visitor, spelled out -/
theorem finishBundle_block_ok {env : Env} (hm : env.mempool = false) {sigOk : List (Bytes × Bytes) → Bool}
    {ret : Bundle} {st : PState} {b : Bundle} (h : finishBundle env sigOk ret st = .ok b) :
    validOk ret st = true ∧ (hasFlag env.flags Gen.flagDontValidateSignature = true ∨ sigOk st.pkmPairs = true) ∧
    b = { ret with validatedSignature := !hasFlag env.flags Gen.flagDontValidateSignature } := by
  unfold finishBundle at h
  simp only [postProcess_block env hm, validateConditions] at h
  by_cases hv : validOk ret st = true
  · rw [if_pos hv] at h
    simp only at h
    split at h
    · cases h
    · rename_i hs
      injection h with h
      refine ⟨hv, ?_, h.symm⟩
      by_cases hd : hasFlag env.flags Gen.flagDontValidateSignature = true
      · exact Or.inl hd
      · by_cases hsg : sigOk st.pkmPairs = true
        · exact Or.inr hsg
        · exact absurd ⟨by simpa using hd, by simpa using hsg⟩ hs
  · rw [if_neg hv] at h; cases h

theorem finishBundle_block_of {env : Env} (hm : env.mempool = false) {sigOk : List (Bytes × Bytes) → Bool}
    {ret : Bundle} {st : PState} (hv : validOk ret st = true)
    (hs : hasFlag env.flags Gen.flagDontValidateSignature = true ∨ sigOk st.pkmPairs = true) :
    finishBundle env sigOk ret st = .ok { ret with validatedSignature := !hasFlag env.flags Gen.flagDontValidateSignature } := by
  unfold finishBundle
  simp only [postProcess_block env hm, validateConditions]
  rw [if_pos hv]
  simp only
  rw [if_neg]
  rintro ⟨h1, h2⟩
  rcases hs with hs | hs
  · rw [hs] at h1; cases h1
  · rw [hs] at h2; cases h2

theorem spendLimit_ge {p : Params} {css : List CoinSpendM} (hlen : css.length < 2^64)
    (hlim : ¬(hasFlag p.flags Gen.flagLimitSpends ∧ css.length > MAX_SPENDS_PER_BLOCK)) :
    css.length ≤ spendLimit p.flags := by
  unfold spendLimit
  by_cases hf : hasFlag p.flags Gen.flagLimitSpends = true
  · rw [if_pos hf]
    have : ¬ css.length > MAX_SPENDS_PER_BLOCK := fun h => hlim ⟨hf, h⟩
    omega
  · rw [if_neg hf]; omega

/-- **The bundle path and the block path agree** (`_partial`: see the exclusion below).
For a bundle `css` of well-formed coin spends (32-byte parents, u64 amounts, plainly serialised reveals)
whose declared puzzle hashes match and which has fewer than 2^64 spends, in byte-cost mode
(no `INTERNED_GENERATOR`): let `g` be the generator that lists these spends *in bundle order* — that is
`build_generator` of the reversed bundle, since `build_generator` reverses —, let its run be the value
of the quote at cost 20, and give the block path the limit `L + 20 + 2·cost_per_byte`.  Then

* if `run_spendbundle` accepts under `L` and the signature check passes on the (pk, msg) pairs it
  returns (or signatures are not validated), `run_block_generator2` accepts; and
* if `run_block_generator2` accepts, `run_spendbundle` accepts and the signature check passes on its pairs;

in both cases the conditions are the same modulo the visitor (`SameUpToVisitor`: equal spends in the
same order up to the two mempool eligibility bits, equal bundle-level fields), the block cost is the
bundle cost plus exactly `20 + 2·cost_per_byte`, and the block execution cost is the bundle's plus 20.

Excluded here (hence `_partial`): the *reversed spend order*.  The statement compares the bundle with the
generator listing its spends in the same order (equivalently, `build_generator css` with the bundle
`css.reverse`, see `bundle_path_eq_block_path_reversed_partial`).  The statement for `build_generator css`
itself is `bundle_path_eq_block_path` below, which adds that acceptance and the aggregates do not depend on
the order of the spends (`Gn.runSpendbundle_reverse`, the bundle-path form of C06 `perm_spends`). -/
theorem bundle_path_eq_block_path_partial (p : Params) (css : List CoinSpendM) (puz : Nat → RunRes) (L : Nat)
    (hwf : ∀ s ∈ css, WF s) (hph : ∀ s ∈ css, s.puzzleHash = Sexp.treeHash s.puzzle)
    (hint : hasFlag p.flags Gen.flagInternedGenerator = false) (hlen : css.length < 2^64) :
    let g : GenInput := { len := (Sexp.serialize (buildGenerator css.reverse)).length, startsQuote := true,
                          prog := buildGenerator css.reverse, nrefs := 0 }
    let genRun : RunRes := some (20, quoted g.prog)
    let L' := L + 20 + 2 * p.costPerByte
    (∀ bb pairs, runSpendbundle p css puz L = .ok (bb, pairs) →
      (hasFlag p.flags Gen.flagDontValidateSignature = true ∨ p.sigOk pairs = true) →
      ∃ bn, native p g genRun puz L' = .ok bn ∧ SameUpToVisitor bn bb ∧
        bn.cost = bb.cost + (20 + 2 * p.costPerByte) ∧ bn.executionCost = bb.executionCost + 20) ∧
    (∀ bn, native p g genRun puz L' = .ok bn →
      ∃ bb pairs, runSpendbundle p css puz L = .ok (bb, pairs) ∧
        (hasFlag p.flags Gen.flagDontValidateSignature = true ∨ p.sigOk pairs = true) ∧ SameUpToVisitor bn bb ∧
        bn.cost = bb.cost + (20 + 2 * p.costPerByte) ∧ bn.executionCost = bb.executionCost + 20) := by
  intro g genRun L'
  have hwfr : ∀ s ∈ css.reverse, WF s := fun s hs => hwf s (List.mem_reverse.mp hs)
  have hbase : g.len * p.costPerByte = (calculateGeneratorLength css - QUOTE_BYTES) * p.costPerByte + 2 * p.costPerByte := by
    have := base_cost_offset css.reverse hwfr p.costPerByte
    rw [calculateGeneratorLength_reverse] at this
    exact this
  have hgen : genRun = some (20, .pair (Sexp.ofList (css.map item)) Sexp.nil) := by
    show some (20, quoted (buildGenerator css.reverse)) = _
    rw [quoted_buildGenerator_reverse]
  have hnode : generatorNodeOk p.flags g.prog = true := by
    show generatorNodeOk p.flags (buildGenerator css.reverse) = true
    rw [buildGenerator_eq]; simp [generatorNodeOk]
  have hrel0 : BlkRel 20 { executionCost := 20 } {} := ⟨rfl, rfl⟩
  constructor
  · intro bb pairs hb hsig
    obtain ⟨hb1, hlim, retB, st, left, hloop, hv, rfl, rfl⟩ := runSpendbundle_ok hint hb
    have hle := bundleLoop_le _ _ _ _ _ _ _ _ _ _ hloop
    have hrel := nativeLoop_bundleLoop { flags := p.flags, mempool := true, pkOk := p.pkOk } puz 20 css 0
      { executionCost := 20 } {} {} (spendLimit p.flags) (L - (calculateGeneratorLength css - QUOTE_BYTES) * p.costPerByte)
      hph (spendLimit_ge hlen hlim) hrel0
    rw [hloop] at hrel
    change LoopRel 20 (nativeLoop { flags := p.flags, mempool := false, pkOk := p.pkOk } puz _ 0 _ _ _ _) _ at hrel
    cases hN : nativeLoop { flags := p.flags, mempool := false, pkOk := p.pkOk } puz (Sexp.ofList (css.map item)) 0
        { executionCost := 20 } {} (spendLimit p.flags) (L - (calculateGeneratorLength css - QUOTE_BYTES) * p.costPerByte) with
    | error e => rw [hN] at hrel; simp only [LoopRel] at hrel
    | ok q =>
      obtain ⟨⟨retN, stN⟩, leftN⟩ := q
      rw [hN] at hrel
      simp only [LoopRel] at hrel
      obtain ⟨e1, e2, hrelN⟩ := hrel
      subst e1; subst e2
      have hvN : validOk retN stN = true := by
        rw [validOk_blkRel { flags := p.flags, mempool := true, pkOk := p.pkOk } hrelN]; exact hv
      have hfin := finishBundle_block_of (env := { flags := p.flags, mempool := false, pkOk := p.pkOk }) rfl
        (sigOk := p.sigOk) hvN hsig
      refine ⟨{ retN with validatedSignature := !hasFlag p.flags Gen.flagDontValidateSignature, cost := L' - leftN }, ?_,
        sameUpToVisitor_of_blkRel _ _ hrelN _ _ _, ?_, ?_⟩
      · unfold native
        rw [if_neg (by simp [g])]
        simp only [hint, Bool.false_eq_true, if_false]
        rw [hbase, subtractCost_of_le (by omega)]
        simp only
        rw [if_neg (by simp [hnode]), if_neg (by simp [g]), hgen, runWithLimit_of_le (by omega)]
        simp only
        rw [subtractCost_of_le (by omega)]
        simp only [first]
        rw [if_neg (by simp [allExtract3_items])]
        have e : L' - ((calculateGeneratorLength css - QUOTE_BYTES) * p.costPerByte + 2 * p.costPerByte) - 20
            = L - (calculateGeneratorLength css - QUOTE_BYTES) * p.costPerByte := by omega
        rw [e]
        rw [hN]
        simp only
        rw [hfin]
      · simp only; omega
      · obtain ⟨_, h2⟩ := hrelN
        obtain ⟨_, p2⟩ := postProcess_blk { flags := p.flags, mempool := true, pkOk := p.pkOk } retB stN
        simp only
        rw [p2, h2]
  · intro bn hn
    obtain ⟨_, _, hb1, _, gc, allSpends, args, retN, st, left, bn0, hg, hgc, hloopN, hfin, rfl⟩ := C07.native_ok hint hn
    rw [hgen] at hg
    injection hg with hg; injection hg with g1 g2; injection g2 with g2 g3
    subst g1; subst g2; subst g3
    rw [hbase] at hgc hloopN hb1
    have hbL : (calculateGeneratorLength css - QUOTE_BYTES) * p.costPerByte ≤ L := by omega
    have e : L' - ((calculateGeneratorLength css - QUOTE_BYTES) * p.costPerByte + 2 * p.costPerByte) - 20
        = L - (calculateGeneratorLength css - QUOTE_BYTES) * p.costPerByte := by omega
    rw [e] at hloopN
    have hlim : ¬(hasFlag p.flags Gen.flagLimitSpends ∧ css.length > MAX_SPENDS_PER_BLOCK) := by
      rintro ⟨hf, hgt⟩
      refine nativeLoop_too_long _ puz (css.map item) 0 _ _ _ _ _ ?_ hloopN
      simp only [spendLimit, hf, if_true, List.length_map]; exact hgt
    have hrel := nativeLoop_bundleLoop { flags := p.flags, mempool := true, pkOk := p.pkOk } puz 20 css 0
      { executionCost := 20 } {} {} (spendLimit p.flags) (L - (calculateGeneratorLength css - QUOTE_BYTES) * p.costPerByte)
      hph (spendLimit_ge hlen hlim) hrel0
    change LoopRel 20 (nativeLoop { flags := p.flags, mempool := false, pkOk := p.pkOk } puz _ 0 _ _ _ _) _ at hrel
    rw [hloopN] at hrel
    cases hB : bundleLoop { flags := p.flags, mempool := true, pkOk := p.pkOk } puz css 0 {} {}
        (L - (calculateGeneratorLength css - QUOTE_BYTES) * p.costPerByte) with
    | error e => rw [hB] at hrel; simp only [LoopRel] at hrel
    | ok q =>
      obtain ⟨⟨retB, stB⟩, leftB⟩ := q
      rw [hB] at hrel
      simp only [LoopRel] at hrel
      obtain ⟨e1, e2, hrelN⟩ := hrel
      subst e1; subst e2
      have hle := bundleLoop_le _ _ _ _ _ _ _ _ _ _ hB
      obtain ⟨hvN, hsig, rfl⟩ := finishBundle_block_ok (env := { flags := p.flags, mempool := false, pkOk := p.pkOk }) rfl hfin
      have hv : validOk (postProcess { flags := p.flags, mempool := true, pkOk := p.pkOk } retB st) st = true := by
        rw [← validOk_blkRel { flags := p.flags, mempool := true, pkOk := p.pkOk } hrelN]; exact hvN
      refine ⟨{ postProcess { flags := p.flags, mempool := true, pkOk := p.pkOk } retB st with cost := L - left }, st.pkmPairs,
        ?_, hsig, sameUpToVisitor_of_blkRel _ _ hrelN _ _ _, ?_, ?_⟩
      · unfold runSpendbundle
        simp only [hint, Bool.false_eq_true, if_false]
        rw [subtractCost_of_le hbL]
        simp only
        rw [if_neg hlim, hB]
        simp only [validateConditions]
        rw [if_pos hv]
      · simp only; omega
      · obtain ⟨_, h2⟩ := hrelN
        obtain ⟨_, p2⟩ := postProcess_blk { flags := p.flags, mempool := true, pkOk := p.pkOk } retB st
        simp only
        rw [p2, h2]

/-- The same statement read from the generator's side: `build_generator css` (whose spend list is `css`
reversed) run by the block path agrees with the bundle path run on the spends *in the generator's order*
(`css.reverse`; the puzzle runs `puz i` are indexed in that order on both sides).  `_partial`: as in
`bundle_path_eq_block_path_partial`; the step from `css.reverse` to `css` on the bundle side is made in
`bundle_path_eq_block_path`. -/
theorem bundle_path_eq_block_path_reversed_partial (p : Params) (css : List CoinSpendM) (puz : Nat → RunRes) (L : Nat)
    (hwf : ∀ s ∈ css, WF s) (hph : ∀ s ∈ css, s.puzzleHash = Sexp.treeHash s.puzzle)
    (hint : hasFlag p.flags Gen.flagInternedGenerator = false) (hlen : css.length < 2^64) :
    let g : GenInput := { len := (Sexp.serialize (buildGenerator css)).length, startsQuote := true,
                          prog := buildGenerator css, nrefs := 0 }
    let genRun : RunRes := some (20, quoted g.prog)
    let L' := L + 20 + 2 * p.costPerByte
    (∀ bb pairs, runSpendbundle p css.reverse puz L = .ok (bb, pairs) →
      (hasFlag p.flags Gen.flagDontValidateSignature = true ∨ p.sigOk pairs = true) →
      ∃ bn, native p g genRun puz L' = .ok bn ∧ SameUpToVisitor bn bb ∧
        bn.cost = bb.cost + (20 + 2 * p.costPerByte) ∧ bn.executionCost = bb.executionCost + 20) ∧
    (∀ bn, native p g genRun puz L' = .ok bn →
      ∃ bb pairs, runSpendbundle p css.reverse puz L = .ok (bb, pairs) ∧
        (hasFlag p.flags Gen.flagDontValidateSignature = true ∨ p.sigOk pairs = true) ∧ SameUpToVisitor bn bb ∧
        bn.cost = bb.cost + (20 + 2 * p.costPerByte) ∧ bn.executionCost = bb.executionCost + 20) := by
  have h := bundle_path_eq_block_path_partial p css.reverse puz L
    (fun s hs => hwf s (List.mem_reverse.mp hs)) (fun s hs => hph s (List.mem_reverse.mp hs)) hint
    (by rw [List.length_reverse]; exact hlen)
  rw [List.reverse_reverse] at h
  exact h

/-! ## the generator `build_generator` really builds: spends in reverse order -/

/-- "the same conditions modulo the visitor and the order of the spends": the block path's spends are the
bundle path's spends *in reverse order* (`build_generator` lists them reversed), with `flags` masked to
HAS_RELATIVE_CONDITION (the two eligibility bits are set by the mempool visitor only); the AGG_SIG_UNSAFE
pairs agree up to listing order; every other bundle-level field other than `cost`, `execution_cost` and
`validated_signature` is equal. -/
def SameUpToVisitorRev (bn bb : Bundle) : Prop :=
  bn.spends = (bb.spends.map blockSpend).reverse ∧
  bn.reserveFee = bb.reserveFee ∧ bn.heightAbsolute = bb.heightAbsolute ∧ bn.secondsAbsolute = bb.secondsAbsolute ∧
  bn.beforeHeightAbsolute = bb.beforeHeightAbsolute ∧ bn.beforeSecondsAbsolute = bb.beforeSecondsAbsolute ∧
  List.Perm bn.aggSigUnsafe bb.aggSigUnsafe ∧ bn.removalAmount = bb.removalAmount ∧ bn.additionAmount = bb.additionAmount ∧
  bn.conditionCost = bb.conditionCost

/-- **The bundle path and the block path agree** — `run_spendbundle` on a spend bundle against
`run_block_generator2` on the generator `build_generator` builds from it.  For a bundle `css` of well-formed
coin spends (32-byte parents, u64 amounts, plainly serialised reveals) whose declared puzzle hashes match and
which has fewer than 2^64 spends, in byte-cost mode (no `INTERNED_GENERATOR`), with a signature verdict that
does not depend on the order of the (public key, signed text) pairs (true of BLS aggregate verification):
let `g` be `build_generator css` — which lists the spends in REVERSE order —, let its run be the value of the
quote at cost 20, let the puzzle runs of the block path be those of the bundle path re-indexed to the
generator's order (`puz (n − 1 − i)`), and give the block path the limit `L + 20 + 2·cost_per_byte`.  Then

* if `run_spendbundle` accepts under `L` and the signature check passes on the pairs it returns (or
  signatures are not validated), `run_block_generator2` accepts; and
* if `run_block_generator2` accepts, `run_spendbundle` accepts and the signature check passes on its pairs;

in both cases the conditions are the same modulo the visitor and the order of the spends
(`SameUpToVisitorRev`: the block path's spend records are the bundle path's in reverse order, equal up to the
two mempool eligibility bits; equal bundle-level fields; AGG_SIG_UNSAFE pairs up to listing order), the block
cost is the bundle cost plus exactly `20 + 2·cost_per_byte`, and the block execution cost is the bundle's
plus 20.

Proof: `bundle_path_eq_block_path_reversed_partial` (same order on both sides) composed with
`runSpendbundle_reverse` (Lemmas/BundlePerm.lean: the order of the spends does not matter to `run_spendbundle`,
by the refinement of the spend loop to the order-free rules of C01 and the permutation lemmas of C06). -/
theorem bundle_path_eq_block_path (p : Params) (css : List CoinSpendM) (puz : Nat → RunRes) (L : Nat)
    (hwf : ∀ s ∈ css, WF s) (hph : ∀ s ∈ css, s.puzzleHash = Sexp.treeHash s.puzzle)
    (hint : hasFlag p.flags Gen.flagInternedGenerator = false) (hlen : css.length < 2^64)
    (hsig : ∀ pairs pairs', List.Perm pairs pairs' → p.sigOk pairs = p.sigOk pairs') :
    let g : GenInput := { len := (Sexp.serialize (buildGenerator css)).length, startsQuote := true,
                          prog := buildGenerator css, nrefs := 0 }
    let genRun : RunRes := some (20, quoted g.prog)
    let L' := L + 20 + 2 * p.costPerByte
    let puzG : Nat → RunRes := fun i => puz (css.length - 1 - i)
    (∀ bb pairs, runSpendbundle p css puz L = .ok (bb, pairs) →
      (hasFlag p.flags Gen.flagDontValidateSignature = true ∨ p.sigOk pairs = true) →
      ∃ bn, native p g genRun puzG L' = .ok bn ∧ SameUpToVisitorRev bn bb ∧
        bn.cost = bb.cost + (20 + 2 * p.costPerByte) ∧ bn.executionCost = bb.executionCost + 20) ∧
    (∀ bn, native p g genRun puzG L' = .ok bn →
      ∃ bb pairs, runSpendbundle p css puz L = .ok (bb, pairs) ∧
        (hasFlag p.flags Gen.flagDontValidateSignature = true ∨ p.sigOk pairs = true) ∧ SameUpToVisitorRev bn bb ∧
        bn.cost = bb.cost + (20 + 2 * p.costPerByte) ∧ bn.executionCost = bb.executionCost + 20) := by
  intro g genRun L' puzG
  have hrev := bundle_path_eq_block_path_reversed_partial p css puzG L hwf hph hint hlen
  constructor
  · intro bb pairs hb hs
    obtain ⟨bb', pairs', hb', hpp, r1, r2, r3, r4, r5, r6, r7, r8, r9, r10, r11, _, r13⟩ :=
      runSpendbundle_reverse p css puz puzG L bb pairs hint (fun k _ => rfl) hb
    have hs' : hasFlag p.flags Gen.flagDontValidateSignature = true ∨ p.sigOk pairs' = true := by
      rw [← hsig _ _ hpp]; exact hs
    obtain ⟨bn, hn, ⟨v1, v2, v3, v4, v5, v6, v7, v8, v9, v10⟩, hc, he⟩ := hrev.1 bb' pairs' hb' hs'
    refine ⟨bn, hn, ⟨?_, v2.trans r3, v3.trans r4, v4.trans r5, v5.trans r6, v6.trans r7, ?_, v8.trans r8, v9.trans r9,
      v10.trans r10⟩, by rw [hc, r2], by rw [he, r11]⟩
    · rw [v1, r1, List.map_reverse]
    · rw [v7]; exact r13
  · intro bn hn
    obtain ⟨bb', pairs', hb', hs', ⟨v1, v2, v3, v4, v5, v6, v7, v8, v9, v10⟩, hc, he⟩ := hrev.2 bn hn
    have hpuz : ∀ k, k < css.reverse.length → puz k = puzG (css.reverse.length - 1 - k) := by
      intro k hk
      rw [List.length_reverse] at hk
      show puz k = puz (css.length - 1 - (css.reverse.length - 1 - k))
      rw [List.length_reverse]
      congr 1; omega
    obtain ⟨bb, pairs, hb, hpp, r1, r2, r3, r4, r5, r6, r7, r8, r9, r10, r11, _, r13⟩ :=
      runSpendbundle_reverse p css.reverse puzG puz L bb' pairs' hint hpuz hb'
    rw [List.reverse_reverse] at hb
    have hs : hasFlag p.flags Gen.flagDontValidateSignature = true ∨ p.sigOk pairs = true := by
      rw [← hsig _ _ hpp]; exact hs'
    refine ⟨bb, pairs, hb, hs, ⟨?_, v2.trans r3.symm, v3.trans r4.symm, v4.trans r5.symm, v5.trans r6.symm,
      v6.trans r7.symm, ?_, v8.trans r8.symm, v9.trans r9.symm, v10.trans r10.symm⟩, by rw [hc, r2], by rw [he, r11]⟩
    · rw [v1, r1, List.map_reverse, List.reverse_reverse]
    · rw [v7]; exact r13.symm


/-! ## every flag value (INTERNED_GENERATOR included) and the error kinds -/

/-- the signature stage of the block path passes on these (public key, signed text) pairs -/
abbrev SigFine (p : Params) (pairs : List (Bytes × Bytes)) : Prop :=
  hasFlag p.flags Gen.flagDontValidateSignature = true ∨ p.sigOk pairs = true

theorem finishBundle_block_invalid {env : Env} (hm : env.mempool = false) {sigOk : List (Bytes × Bytes) → Bool}
    {ret : Bundle} {st : PState} (hv : ¬ validOk ret st = true) : finishBundle env sigOk ret st = .error .reject := by
  unfold finishBundle
  simp only [postProcess_block env hm, validateConditions]
  rw [if_neg hv]

theorem finishBundle_block_sigfail {env : Env} (hm : env.mempool = false) {sigOk : List (Bytes × Bytes) → Bool}
    {ret : Bundle} {st : PState} (hv : validOk ret st = true)
    (hs : ¬(hasFlag env.flags Gen.flagDontValidateSignature = true ∨ sigOk st.pkmPairs = true)) :
    finishBundle env sigOk ret st = .error .reject := by
  unfold finishBundle
  simp only [postProcess_block env hm, validateConditions]
  rw [if_pos hv]
  simp only
  rw [if_pos]
  constructor
  · cases h : hasFlag env.flags Gen.flagDontValidateSignature with
    | true => exact absurd (Or.inl h) hs
    | false => rfl
  · cases h : sigOk st.pkmPairs with
    | true => exact absurd (Or.inr h) hs
    | false => rfl

/-- **The two paths on the same spend order, any base costs, full verdict.**  `g` is a quoted generator
listing the spends of `css` in order (`Built`), its size cost on the block path is `N`, the bundle path charges
`B` up front; the limits are related by `L' − N = L − B + 20` (written without subtraction).  Provided the
LIMIT_SPENDS test of the bundle path passes:

* if the bundle path fails, the block path fails with the SAME error kind;
* if the bundle path accepts and the signature stage passes on its pairs, the block path accepts with the same
  conditions modulo the visitor, `cost + B = cost + 20 + N`, execution cost + 20;
* if the bundle path accepts and the signature stage fails on its pairs, the block path rejects. -/
theorem paths_same_order (B N : Nat) (p : Params) (css : List CoinSpendM) (puz : Nat → RunRes) (L L' : Nat) (g : GenInput)
    (hg : Built g css) (hN : nativeBase p g = N) (hL : L' + B = L + 20 + N)
    (hph : ∀ s ∈ css, s.puzzleHash = Sexp.treeHash s.puzzle) (hlen : css.length < 2^64) (hm : ¬ TooMany p css) :
    (∀ e, runBundleWith B p css puz L = .error e → native p g (quoteRun css) puz L' = .error e) ∧
    (∀ bb pairs, runBundleWith B p css puz L = .ok (bb, pairs) →
      (SigFine p pairs → ∃ bn, native p g (quoteRun css) puz L' = .ok bn ∧ SameUpToVisitor bn bb ∧
        bn.cost + B = bb.cost + 20 + N ∧ bn.executionCost = bb.executionCost + 20) ∧
      (¬ SigFine p pairs → native p g (quoteRun css) puz L' = .error .reject)) := by
  by_cases hB : B ≤ L
  · have hrel0 : BlkRel 20 { executionCost := 20 } {} := ⟨rfl, rfl⟩
    have hrel := nativeLoop_bundleLoop (mpEnv p) puz 20 css 0 { executionCost := 20 } {} {} (spendLimit p.flags) (L - B)
      hph (spendLimit_ge hlen hm) hrel0
    change LoopRel 20 (nativeLoop (nativeEnv p) puz _ 0 _ _ _ _) _ at hrel
    rw [runBundleWith_loop hB hm, native_built_loop hg hN (by omega), show L' - N - 20 = L - B by omega]
    cases hBl : bundleLoop (mpEnv p) puz css 0 {} {} (L - B) with
    | error eB =>
      rw [hBl] at hrel
      cases hNl : nativeLoop (nativeEnv p) puz (Sexp.ofList (css.map item)) 0 { executionCost := 20 } {} (spendLimit p.flags) (L - B) with
      | ok q => rw [hNl] at hrel; simp only [LoopRel] at hrel
      | error eN =>
        rw [hNl] at hrel; simp only [LoopRel] at hrel
        subst hrel
        refine ⟨fun e he => ?_, fun bb pairs hb => ?_⟩
        · simpa using he
        · cases hb
    | ok qB =>
      obtain ⟨⟨retB, st⟩, left⟩ := qB
      rw [hBl] at hrel
      cases hNl : nativeLoop (nativeEnv p) puz (Sexp.ofList (css.map item)) 0 { executionCost := 20 } {} (spendLimit p.flags) (L - B) with
      | error eN => rw [hNl] at hrel; simp only [LoopRel] at hrel
      | ok qN =>
        obtain ⟨⟨retN, stN⟩, leftN⟩ := qN
        rw [hNl] at hrel; simp only [LoopRel] at hrel
        obtain ⟨e1, e2, hrelN⟩ := hrel
        subst e1; subst e2
        have hle := bundleLoop_le _ _ _ _ _ _ _ _ _ _ hBl
        have hvv : validOk retN stN = validOk (postProcess (mpEnv p) retB stN) stN := validOk_blkRel (mpEnv p) hrelN stN
        simp only
        by_cases hv : validOk (postProcess (mpEnv p) retB stN) stN = true
        · have hvN : validOk retN stN = true := by rw [hvv]; exact hv
          simp only [validateConditions, hv, if_true]
          refine ⟨fun e he => (by cases he), fun bb pairs hb => ?_⟩
          injection hb with hb; injection hb with hb1 hb2
          subst hb1; subst hb2
          refine ⟨fun hs => ?_, fun hs => ?_⟩
          · rw [finishBundle_block_of (env := nativeEnv p) rfl (sigOk := p.sigOk) hvN hs]
            refine ⟨_, rfl, sameUpToVisitor_of_blkRel _ _ hrelN _ _ _, ?_, ?_⟩
            · simp only; omega
            · obtain ⟨_, h2⟩ := hrelN
              obtain ⟨_, p2⟩ := postProcess_blk (mpEnv p) retB stN
              simp only
              rw [p2, h2]
          · rw [finishBundle_block_sigfail (env := nativeEnv p) rfl (sigOk := p.sigOk) hvN hs]
        · have hvN : ¬ validOk retN stN = true := by rw [hvv]; exact hv
          simp only [validateConditions, hv, if_false, Bool.false_eq_true]
          rw [finishBundle_block_invalid (env := nativeEnv p) rfl (sigOk := p.sigOk) hvN]
          refine ⟨fun e he => ?_, fun bb pairs hb => by cases hb⟩
          simpa using he
  · rw [runBundleWith_small (by omega), native_built_small hg hN (by omega)]
    exact ⟨fun e he => by simpa using he, fun bb pairs hb => by cases hb⟩

/-- with more spends than LIMIT_SPENDS allows, both paths fail: the bundle path with `reject` (after the size
cost; `costExceeded` when even that does not fit), the block path with some error — the limit is tested inside
its loop, after the first 6000 spends were processed, so the kinds need not agree
(`error_kind_differs_too_many_spends`) -/
theorem paths_too_many (B N : Nat) (p : Params) (css : List CoinSpendM) (puz : Nat → RunRes) (L L' : Nat) (g : GenInput)
    (hg : Built g css) (hN : nativeBase p g = N) (hm : TooMany p css) :
    runBundleWith B p css puz L = .error (if B ≤ L then .reject else .costExceeded) ∧
    ∃ e, native p g (quoteRun css) puz L' = .error e := by
  constructor
  · by_cases hB : B ≤ L
    · rw [if_pos hB, runBundleWith_many hB hm]
    · rw [if_neg hB, runBundleWith_small (by omega)]
  · by_cases hB : N + 20 ≤ L'
    · rw [native_built_loop hg hN hB]
      obtain ⟨e, he⟩ := nativeLoop_too_long_error (nativeEnv p) puz (css.map item) 0 { executionCost := 20 } {}
        (spendLimit p.flags) (L' - N - 20) (by
          simp only [spendLimit, hm.1, if_true, List.length_map]; exact hm.2)
      rw [he]; exact ⟨e, rfl⟩
    · exact ⟨_, native_built_small hg hN (by omega)⟩

/-- the fixed difference between the cost (and the limit) of the block path on `build_generator css` and of the
bundle path on `css`: the quote's execution cost 20, plus — in byte-cost mode only — the two bytes of the quote
wrapper.  Under INTERNED_GENERATOR both paths intern the SAME tree (`build_generator css`, wrapper included),
so the size costs coincide. -/
def offset (p : Params) : Nat :=
  if hasFlag p.flags Gen.flagInternedGenerator then 20 else 20 + 2 * p.costPerByte

/-- the size-cost part of `offset` -/
def wrapperCost (p : Params) : Nat := if hasFlag p.flags Gen.flagInternedGenerator then 0 else 2 * p.costPerByte

theorem offset_eq (p : Params) : offset p = 20 + wrapperCost p := by
  unfold offset wrapperCost; split <;> rfl

/-- the generator inputs of `build_generator css`, plainly serialised -/
def builtInput (css : List CoinSpendM) : GenInput :=
  { len := (Sexp.serialize (buildGenerator css)).length, startsQuote := true, prog := buildGenerator css, nrefs := 0 }

theorem built_builtInput (css : List CoinSpendM) : Built (builtInput css) css.reverse :=
  ⟨by show buildGenerator css = _; rw [buildGenerator_eq, List.map_reverse], rfl, rfl⟩

theorem quoteRun_reverse (css : List CoinSpendM) : quoteRun css.reverse = some (20, quoted (builtInput css).prog) := by
  show _ = some (20, quoted (buildGenerator css))
  rw [buildGenerator_eq, quoteRun, List.map_reverse]; rfl

/-- **Size costs of the two paths, every flag value**: the block path's size cost of `build_generator css`
(plain serialisation) is the bundle path's base cost plus `wrapperCost` — two bytes' worth in byte-cost mode,
NOTHING under INTERNED_GENERATOR. -/
theorem base_cost_offset_all_flags (p : Params) (css : List CoinSpendM) (h : ∀ s ∈ css, WF s) :
    nativeBase p (builtInput css) = bundleBase p css + wrapperCost p := by
  unfold nativeBase bundleBase wrapperCost
  by_cases hint : hasFlag p.flags Gen.flagInternedGenerator = true
  · simp only [hint, if_true, Nat.add_zero]; rfl
  · simp only [hint, if_false, Bool.false_eq_true]
    exact base_cost_offset css h p.costPerByte

/-- **The bundle path and the block path agree, for ALL flag values** (INTERNED_GENERATOR included) —
`run_spendbundle` on a spend bundle against `run_block_generator2` on the generator `build_generator` builds
from it.  Hypotheses and conclusions as in `bundle_path_eq_block_path`, with the flag hypothesis dropped and the
limit / cost difference `offset p` = `20 + 2·cost_per_byte` in byte-cost mode and exactly `20` under
INTERNED_GENERATOR: there the bundle path interns `build_generator css` itself, the very tree the block path
interns after decoding, so only the quote's execution cost separates the two. -/
theorem bundle_path_eq_block_path_all_flags (p : Params) (css : List CoinSpendM) (puz : Nat → RunRes) (L : Nat)
    (hwf : ∀ s ∈ css, WF s) (hph : ∀ s ∈ css, s.puzzleHash = Sexp.treeHash s.puzzle)
    (hlen : css.length < 2^64)
    (hsig : ∀ pairs pairs', List.Perm pairs pairs' → p.sigOk pairs = p.sigOk pairs') :
    let g : GenInput := { len := (Sexp.serialize (buildGenerator css)).length, startsQuote := true,
                          prog := buildGenerator css, nrefs := 0 }
    let genRun : RunRes := some (20, quoted g.prog)
    let L' := L + offset p
    let puzG : Nat → RunRes := fun i => puz (css.length - 1 - i)
    (∀ bb pairs, runSpendbundle p css puz L = .ok (bb, pairs) →
      (hasFlag p.flags Gen.flagDontValidateSignature = true ∨ p.sigOk pairs = true) →
      ∃ bn, native p g genRun puzG L' = .ok bn ∧ SameUpToVisitorRev bn bb ∧
        bn.cost = bb.cost + offset p ∧ bn.executionCost = bb.executionCost + 20) ∧
    (∀ bn, native p g genRun puzG L' = .ok bn →
      ∃ bb pairs, runSpendbundle p css puz L = .ok (bb, pairs) ∧
        (hasFlag p.flags Gen.flagDontValidateSignature = true ∨ p.sigOk pairs = true) ∧ SameUpToVisitorRev bn bb ∧
        bn.cost = bb.cost + offset p ∧ bn.executionCost = bb.executionCost + 20) := by
  intro g genRun L' puzG
  have hgB : Built g css.reverse := built_builtInput css
  have hgen : genRun = quoteRun css.reverse := (quoteRun_reverse css).symm
  have hN : nativeBase p g = bundleBase p css + wrapperCost p := base_cost_offset_all_flags p css hwf
  have hphr : ∀ s ∈ css.reverse, s.puzzleHash = Sexp.treeHash s.puzzle := fun s hs => hph s (List.mem_reverse.mp hs)
  have hlenr : css.reverse.length < 2^64 := by rw [List.length_reverse]; exact hlen
  have hL : L' + bundleBase p css = L + 20 + (bundleBase p css + wrapperCost p) := by
    show L + offset p + _ = _; rw [offset_eq]; omega
  rw [hgen]
  constructor
  · intro bb pairs hb hs
    rw [runSpendbundle_with] at hb
    obtain ⟨hB, hlim, _⟩ := (runBundleWith_rules _ p css puz L bb pairs).mp hb
    have hmr : ¬ TooMany p css.reverse := by unfold TooMany; rw [List.length_reverse]; exact hlim
    obtain ⟨bb', pairs', hb', hpp, r1, r2, r3, r4, r5, r6, r7, r8, r9, r10, r11, _, r13⟩ :=
      runBundleWith_reverse _ p css puz puzG L bb pairs (fun k _ => rfl) hb
    have hs' : SigFine p pairs' := by unfold SigFine; rw [← hsig _ _ hpp]; exact hs
    obtain ⟨bn, hn, ⟨v1, v2, v3, v4, v5, v6, v7, v8, v9, v10⟩, hc, he⟩ :=
      ((paths_same_order _ _ p css.reverse puzG L L' g hgB hN hL hphr hlenr hmr).2 bb' pairs' hb').1 hs'
    refine ⟨bn, hn, ⟨?_, v2.trans r3, v3.trans r4, v4.trans r5, v5.trans r6, v6.trans r7, ?_, v8.trans r8, v9.trans r9,
      v10.trans r10⟩, by rw [offset_eq]; omega, by rw [he, r11]⟩
    · rw [v1, r1, List.map_reverse]
    · rw [v7]; exact r13
  · intro bn hn
    -- the bundle path on the generator's order cannot fail (else the block path would), so it accepts
    have hmr : ¬ TooMany p css.reverse := by
      intro hm
      obtain ⟨e, he⟩ := (paths_too_many (bundleBase p css) _ p css.reverse puzG L L' g hgB hN hm).2
      rw [hn] at he; cases he
    obtain ⟨h1, h2⟩ := paths_same_order _ _ p css.reverse puzG L L' g hgB hN hL hphr hlenr hmr
    cases hb' : runBundleWith (bundleBase p css) p css.reverse puzG L with
    | error e => rw [h1 e hb'] at hn; cases hn
    | ok q =>
      obtain ⟨bb', pairs'⟩ := q
      obtain ⟨h3, h4⟩ := h2 bb' pairs' hb'
      by_cases hs' : SigFine p pairs'
      · obtain ⟨bn', hn', ⟨v1, v2, v3, v4, v5, v6, v7, v8, v9, v10⟩, hc, he⟩ := h3 hs'
        rw [hn] at hn'; injection hn' with hn'; subst hn'
        have hpuz : ∀ k, k < css.reverse.length → puz k = puzG (css.reverse.length - 1 - k) := by
          intro k hk
          rw [List.length_reverse] at hk
          show puz k = puz (css.length - 1 - (css.reverse.length - 1 - k))
          rw [List.length_reverse]
          congr 1; omega
        obtain ⟨bb, pairs, hb, hpp, r1, r2, r3, r4, r5, r6, r7, r8, r9, r10, r11, _, r13⟩ :=
          runBundleWith_reverse _ p css.reverse puzG puz L bb' pairs' hpuz hb'
        rw [List.reverse_reverse] at hb
        have hs : hasFlag p.flags Gen.flagDontValidateSignature = true ∨ p.sigOk pairs = true := by
          rw [← hsig _ _ hpp]; exact hs'
        refine ⟨bb, pairs, hb, hs, ⟨?_, v2.trans r3.symm, v3.trans r4.symm, v4.trans r5.symm, v5.trans r6.symm,
          v6.trans r7.symm, ?_, v8.trans r8.symm, v9.trans r9.symm, v10.trans r10.symm⟩, by rw [offset_eq]; omega, by rw [he, r11]⟩
        · rw [v1, r1, List.map_reverse, List.reverse_reverse]
        · rw [v7]; exact r13.symm
      · rw [h4 hs'] at hn; cases hn

/-- **INTERNED_GENERATOR mode** (goal form of `bundle_path_eq_block_path_all_flags` with the flag set): accept iff
accept, the same conditions, and the block cost is the bundle cost plus EXACTLY 20 — the quote's execution cost;
no size-cost term, because both paths charge the interned size of the same tree `build_generator css`. -/
theorem bundle_path_eq_block_path_interned (p : Params) (css : List CoinSpendM) (puz : Nat → RunRes) (L : Nat)
    (hwf : ∀ s ∈ css, WF s) (hph : ∀ s ∈ css, s.puzzleHash = Sexp.treeHash s.puzzle)
    (hint : hasFlag p.flags Gen.flagInternedGenerator = true) (hlen : css.length < 2^64)
    (hsig : ∀ pairs pairs', List.Perm pairs pairs' → p.sigOk pairs = p.sigOk pairs') :
    let g : GenInput := { len := (Sexp.serialize (buildGenerator css)).length, startsQuote := true,
                          prog := buildGenerator css, nrefs := 0 }
    let genRun : RunRes := some (20, quoted g.prog)
    let L' := L + 20
    let puzG : Nat → RunRes := fun i => puz (css.length - 1 - i)
    (∀ bb pairs, runSpendbundle p css puz L = .ok (bb, pairs) →
      (hasFlag p.flags Gen.flagDontValidateSignature = true ∨ p.sigOk pairs = true) →
      ∃ bn, native p g genRun puzG L' = .ok bn ∧ SameUpToVisitorRev bn bb ∧
        bn.cost = bb.cost + 20 ∧ bn.executionCost = bb.executionCost + 20) ∧
    (∀ bn, native p g genRun puzG L' = .ok bn →
      ∃ bb pairs, runSpendbundle p css puz L = .ok (bb, pairs) ∧
        (hasFlag p.flags Gen.flagDontValidateSignature = true ∨ p.sigOk pairs = true) ∧ SameUpToVisitorRev bn bb ∧
        bn.cost = bb.cost + 20 ∧ bn.executionCost = bb.executionCost + 20) := by
  have h := bundle_path_eq_block_path_all_flags p css puz L hwf hph hlen hsig
  have ho : offset p = 20 := by unfold offset; rw [if_pos hint]
  rw [ho] at h
  exact h



/-- the error kind of a result (`none` = accepted); used to let the kernel compute verdicts -/
def errKind {α : Type} : R α → Option Err
  | .ok _ => none
  | .error e => some e

theorem errKind_some {α : Type} {x : R α} {e : Err} (h : errKind x = some e) : x = .error e := by
  cases x with
  | ok a => cases h
  | error e' => injection h with h; rw [h]

/-- the cost of an accepted result (`none` = failed) -/
def okCost : R Bundle → Option Nat
  | .ok b => some b.cost
  | .error _ => none

/-! ## error kinds -/

/-- **Full verdict, same spend order, every flag value.**  `css` against the quoted generator that lists its
spends in the SAME order (`build_generator css.reverse`, plainly serialised), limits related by
`L' − size cost of the block path = L − base cost of the bundle path + 20` (written without subtraction; in
byte-cost mode this is `L' = L + 20 + 2·cost_per_byte`, see `verdict_same_order_byte_cost`).  When the bundle has
no more spends than LIMIT_SPENDS allows:

* if `run_spendbundle` fails, `run_block_generator2` fails with the SAME error kind;
* if `run_block_generator2` fails with kind `e`, then `run_spendbundle` fails with the same kind `e`, or it
  accepts and the failure is the signature stage (`e = reject`, the check fails on the returned pairs);
* accept/accept with the same conditions modulo the visitor and the exact cost relation. -/
theorem verdict_same_order (p : Params) (css : List CoinSpendM) (puz : Nat → RunRes) (L L' : Nat)
    (hph : ∀ s ∈ css, s.puzzleHash = Sexp.treeHash s.puzzle) (hlen : css.length < 2^64)
    (hm : ¬(hasFlag p.flags Gen.flagLimitSpends ∧ css.length > MAX_SPENDS_PER_BLOCK)) :
    let g : GenInput := { len := (Sexp.serialize (buildGenerator css.reverse)).length, startsQuote := true,
                          prog := buildGenerator css.reverse, nrefs := 0 }
    let genRun : RunRes := some (20, quoted g.prog)
    L' + bundleBase p css = L + 20 + nativeBase p g →
    (∀ e, runSpendbundle p css puz L = .error e → native p g genRun puz L' = .error e) ∧
    (∀ e, native p g genRun puz L' = .error e →
      runSpendbundle p css puz L = .error e ∨
      (e = .reject ∧ ∃ bb pairs, runSpendbundle p css puz L = .ok (bb, pairs) ∧
        ¬(hasFlag p.flags Gen.flagDontValidateSignature = true ∨ p.sigOk pairs = true))) ∧
    (∀ bb pairs, runSpendbundle p css puz L = .ok (bb, pairs) →
      (hasFlag p.flags Gen.flagDontValidateSignature = true ∨ p.sigOk pairs = true) →
      ∃ bn, native p g genRun puz L' = .ok bn ∧ SameUpToVisitor bn bb ∧
        bn.cost + bundleBase p css = bb.cost + 20 + nativeBase p g ∧ bn.executionCost = bb.executionCost + 20) := by
  intro g genRun hL
  have hgB : Built g css := by
    have := built_builtInput css.reverse
    rw [List.reverse_reverse] at this; exact this
  have hgen : genRun = quoteRun css := by
    have := quoteRun_reverse css.reverse
    rw [List.reverse_reverse] at this; exact this.symm
  rw [hgen]
  obtain ⟨h1, h2⟩ := paths_same_order (bundleBase p css) (nativeBase p g) p css puz L L' g hgB rfl hL hph hlen hm
  rw [runSpendbundle_with]
  refine ⟨h1, fun e hn => ?_, fun bb pairs hb hs => ((h2 bb pairs hb).1 hs)⟩
  cases hb : runBundleWith (bundleBase p css) p css puz L with
  | error e' =>
    rw [h1 e' hb] at hn; injection hn with hn; subst hn
    exact Or.inl rfl
  | ok q =>
    obtain ⟨bb, pairs⟩ := q
    by_cases hs : SigFine p pairs
    · obtain ⟨bn, hn', _⟩ := (h2 bb pairs hb).1 hs
      rw [hn] at hn'; cases hn'
    · rw [(h2 bb pairs hb).2 hs] at hn; injection hn with hn; subst hn
      exact Or.inr ⟨rfl, bb, pairs, rfl, hs⟩

/-- `verdict_same_order` in byte-cost mode, for plainly serialised reveals: the limit relation is
`L' = L + 20 + 2·cost_per_byte` -/
theorem verdict_same_order_byte_cost (p : Params) (css : List CoinSpendM) (puz : Nat → RunRes) (L : Nat)
    (hwf : ∀ s ∈ css, WF s) (hph : ∀ s ∈ css, s.puzzleHash = Sexp.treeHash s.puzzle)
    (hint : hasFlag p.flags Gen.flagInternedGenerator = false) (hlen : css.length < 2^64)
    (hm : ¬(hasFlag p.flags Gen.flagLimitSpends ∧ css.length > MAX_SPENDS_PER_BLOCK)) :
    let g : GenInput := { len := (Sexp.serialize (buildGenerator css.reverse)).length, startsQuote := true,
                          prog := buildGenerator css.reverse, nrefs := 0 }
    let genRun : RunRes := some (20, quoted g.prog)
    let L' := L + 20 + 2 * p.costPerByte
    (∀ e, runSpendbundle p css puz L = .error e → native p g genRun puz L' = .error e) ∧
    (∀ e, native p g genRun puz L' = .error e →
      runSpendbundle p css puz L = .error e ∨
      (e = .reject ∧ ∃ bb pairs, runSpendbundle p css puz L = .ok (bb, pairs) ∧
        ¬(hasFlag p.flags Gen.flagDontValidateSignature = true ∨ p.sigOk pairs = true))) := by
  intro g genRun L'
  have hwfr : ∀ s ∈ css.reverse, WF s := fun s hs => hwf s (List.mem_reverse.mp hs)
  have hN : nativeBase p g = bundleBase p css + 2 * p.costPerByte := by
    have := base_cost_offset_all_flags p css.reverse hwfr
    unfold wrapperCost at this
    rw [if_neg (by simp [hint])] at this
    have e : bundleBase p css.reverse = bundleBase p css := by
      unfold bundleBase
      simp only [hint, Bool.false_eq_true, if_false, calculateGeneratorLength_reverse]
    rw [e] at this; exact this
  have h := verdict_same_order p css puz L L' hph hlen hm (by show L' + _ = L + 20 + nativeBase p g; rw [hN]; omega)
  exact ⟨h.1, h.2.1⟩

/-- **Too many spends: both paths fail, not necessarily alike.**  With LIMIT_SPENDS set and more than 6000 spends,
`run_spendbundle` fails with `reject` (TooManySpends is tested before the first spend; `costExceeded` when the
size cost alone exceeds the limit), and `run_block_generator2` on `build_generator css` fails under EVERY limit and
puzzle results — but it tests the limit inside the loop, after 6000 spends have been run and parsed, so it may
report a different kind (`error_kind_differs_too_many_spends`). -/
theorem verdict_too_many (p : Params) (css : List CoinSpendM) (puz puzG : Nat → RunRes) (L L' : Nat)
    (hm : hasFlag p.flags Gen.flagLimitSpends ∧ css.length > MAX_SPENDS_PER_BLOCK) :
    let g : GenInput := { len := (Sexp.serialize (buildGenerator css)).length, startsQuote := true,
                          prog := buildGenerator css, nrefs := 0 }
    let genRun : RunRes := some (20, quoted g.prog)
    runSpendbundle p css puz L = .error (if bundleBase p css ≤ L then .reject else .costExceeded) ∧
    ∃ e, native p g genRun puzG L' = .error e := by
  intro g genRun
  have hgen : genRun = quoteRun css.reverse := (quoteRun_reverse css).symm
  have hmr : TooMany p css.reverse := by unfold TooMany; rw [List.length_reverse]; exact hm
  rw [hgen, runSpendbundle_with]
  refine ⟨?_, (paths_too_many (bundleBase p css) (nativeBase p g) p css.reverse puzG L L' g (built_builtInput css) rfl hmr).2⟩
  by_cases hB : bundleBase p css ≤ L
  · rw [if_pos hB, runBundleWith_many hB hm]
  · rw [if_neg hB, runBundleWith_small (by omega)]

/-- **Reject iff reject, for `build_generator`'s own order and every flag value.**  Setting of
`bundle_path_eq_block_path_all_flags`.  If `run_spendbundle` fails then `run_block_generator2` fails; if
`run_block_generator2` fails then `run_spendbundle` fails, or it accepts and the signature stage is what failed
(then the kind is `reject`); and when the limit does not even cover the size cost both report `costExceeded`.
The error KINDS of two failing runs can differ — `error_kind_differs_reversed_order` (a cost-exceeded race in
the reversed order) and `error_kind_differs_too_many_spends` —; for equal spend order and at most 6000 spends
they agree (`verdict_same_order`). -/
theorem both_fail (p : Params) (css : List CoinSpendM) (puz : Nat → RunRes) (L : Nat)
    (hwf : ∀ s ∈ css, WF s) (hph : ∀ s ∈ css, s.puzzleHash = Sexp.treeHash s.puzzle)
    (hlen : css.length < 2^64)
    (hsig : ∀ pairs pairs', List.Perm pairs pairs' → p.sigOk pairs = p.sigOk pairs') :
    let g : GenInput := { len := (Sexp.serialize (buildGenerator css)).length, startsQuote := true,
                          prog := buildGenerator css, nrefs := 0 }
    let genRun : RunRes := some (20, quoted g.prog)
    let L' := L + offset p
    let puzG : Nat → RunRes := fun i => puz (css.length - 1 - i)
    (∀ e, runSpendbundle p css puz L = .error e → ∃ e', native p g genRun puzG L' = .error e') ∧
    (∀ e', native p g genRun puzG L' = .error e' →
      (∃ e, runSpendbundle p css puz L = .error e) ∨
      (e' = .reject ∧ ∃ bb pairs, runSpendbundle p css puz L = .ok (bb, pairs) ∧
        ¬(hasFlag p.flags Gen.flagDontValidateSignature = true ∨ p.sigOk pairs = true))) ∧
    (L < bundleBase p css → runSpendbundle p css puz L = .error .costExceeded ∧
      native p g genRun puzG L' = .error .costExceeded) := by
  intro g genRun L' puzG
  obtain ⟨ha, hb⟩ := bundle_path_eq_block_path_all_flags p css puz L hwf hph hlen hsig
  have hgB : Built g css.reverse := built_builtInput css
  have hgen : genRun = quoteRun css.reverse := (quoteRun_reverse css).symm
  have hN : nativeBase p g = bundleBase p css + wrapperCost p := base_cost_offset_all_flags p css hwf
  have hL : L' + bundleBase p css = L + 20 + (bundleBase p css + wrapperCost p) := by
    show L + offset p + _ = _; rw [offset_eq]; omega
  refine ⟨fun e he => ?_, fun e' hn => ?_, fun hlt => ?_⟩
  · cases hn : native p g genRun puzG L' with
    | error e' => exact ⟨e', rfl⟩
    | ok bn =>
      obtain ⟨bb, pairs, hb', _⟩ := hb bn hn
      rw [he] at hb'; cases hb'
  · cases hbb : runSpendbundle p css puz L with
    | error e => exact Or.inl ⟨e, rfl⟩
    | ok q =>
      obtain ⟨bb, pairs⟩ := q
      by_cases hs : SigFine p pairs
      · obtain ⟨bn, hn', _⟩ := ha bb pairs hbb hs
        rw [hn] at hn'; cases hn'
      · refine Or.inr ⟨?_, bb, pairs, rfl, hs⟩
        rw [runSpendbundle_with] at hbb
        obtain ⟨_, hlim, _⟩ := (runBundleWith_rules _ p css puz L bb pairs).mp hbb
        have hmr : ¬ TooMany p css.reverse := by unfold TooMany; rw [List.length_reverse]; exact hlim
        obtain ⟨bb', pairs', hb', hpp, _⟩ := runBundleWith_reverse _ p css puz puzG L bb pairs (fun k _ => rfl) hbb
        have hs' : ¬ SigFine p pairs' := by unfold SigFine; rw [← hsig _ _ hpp]; exact hs
        have := ((paths_same_order _ _ p css.reverse puzG L L' g hgB hN hL
          (fun s hs => hph s (List.mem_reverse.mp hs)) (by rw [List.length_reverse]; exact hlen) hmr).2 bb' pairs' hb').2 hs'
        rw [hgen, this] at hn; injection hn with hn; exact hn.symm
  · refine ⟨by rw [runSpendbundle_with]; exact runBundleWith_small hlt, ?_⟩
    rw [hgen]
    exact native_built_small hgB hN (by omega)

/-! ## serialisation modes -/

/-- **The block path reads the generator bytes only through (length, quote prefix, decoded program, number of
references).**  For two serialisations `g₁`, `g₂` of the same program (same decoded tree — plain or
back-reference compressed —, same quote prefix, same references):

* under INTERNED_GENERATOR the results of `run_block_generator2` are EQUAL — verdict, error kind, conditions and
  cost — under every limit: the size cost is that of the interned tree, not of the bytes;
* in byte-cost mode, if `g₂` is `d` bytes longer, then its result under `L + d·cost_per_byte` is the result of
  `g₁` under `L` with `d·cost_per_byte` added to the cost: same verdict, same error kind, same conditions
  (both directions, since this is an equation). -/
theorem serialization_independent (p : Params) (g₁ g₂ : GenInput) (genRun : RunRes) (puz : Nat → RunRes) (L : Nat)
    (hq : g₁.startsQuote = g₂.startsQuote) (hp : g₁.prog = g₂.prog) (hr : g₁.nrefs = g₂.nrefs) :
    (hasFlag p.flags Gen.flagInternedGenerator = true →
      native p g₂ genRun puz L = native p g₁ genRun puz L) ∧
    (hasFlag p.flags Gen.flagInternedGenerator = false → ∀ d, g₂.len = g₁.len + d →
      native p g₂ genRun puz (L + d * p.costPerByte) =
        (native p g₁ genRun puz L).map (fun b => { b with cost := b.cost + d * p.costPerByte })) := by
  constructor
  · intro hint
    unfold native
    simp only [hint, if_true, hq, hp, hr]
  · intro hint d hd
    have hb : nativeBase p g₂ = nativeBase p g₁ + d * p.costPerByte := by
      unfold nativeBase
      simp only [hint, Bool.false_eq_true, if_false, hd, Nat.add_mul]
    rw [native_eq, native_eq, nativeCountdown_rebase p g₁ g₂ genRun puz L _ hp hr hb, hq]
    by_cases h0 : simpleGen p.flags ∧ !g₂.startsQuote
    · rw [if_pos h0, if_pos h0]; rfl
    rw [if_neg h0, if_neg h0]
    cases hl : nativeCountdown p g₁ genRun puz L with
    | error e => rfl
    | ok q =>
      obtain ⟨⟨ret, st⟩, left⟩ := q
      simp only
      obtain ⟨s1, _, _⟩ := shift_nativeCountdown p g₁ genRun puz L (ret, st) left hl
      cases finishBundle (nativeEnv p) p.sigOk ret st with
      | error e => rfl
      | ok b =>
        simp only [Except.map]
        congr 2
        omega

/-- the accepted case of `serialization_independent`, spelled out in both directions: in byte-cost mode a
serialisation `d` bytes longer is accepted under `L + d·cost_per_byte` iff the shorter one is accepted under `L`,
with the same conditions and the cost `d·cost_per_byte` higher -/
theorem serialization_independent_accept (p : Params) (g₁ g₂ : GenInput) (genRun : RunRes) (puz : Nat → RunRes) (L d : Nat)
    (hq : g₁.startsQuote = g₂.startsQuote) (hp : g₁.prog = g₂.prog) (hr : g₁.nrefs = g₂.nrefs)
    (hint : hasFlag p.flags Gen.flagInternedGenerator = false) (hd : g₂.len = g₁.len + d) :
    (∀ b₁, native p g₁ genRun puz L = .ok b₁ →
      native p g₂ genRun puz (L + d * p.costPerByte) = .ok { b₁ with cost := b₁.cost + d * p.costPerByte }) ∧
    (∀ b₂, native p g₂ genRun puz (L + d * p.costPerByte) = .ok b₂ →
      ∃ b₁, native p g₁ genRun puz L = .ok b₁ ∧ b₂ = { b₁ with cost := b₁.cost + d * p.costPerByte }) := by
  have h := (serialization_independent p g₁ g₂ genRun puz L hq hp hr).2 hint d hd
  constructor
  · intro b₁ h1
    rw [h, h1]; rfl
  · intro b₂ h2
    rw [h] at h2
    cases h1 : native p g₁ genRun puz L with
    | error e => rw [h1] at h2; cases h2
    | ok b₁ =>
      rw [h1] at h2
      injection h2 with h2
      exact ⟨b₁, rfl, h2.symm⟩


/-- what a serialisation `d` bytes shorter than the plain one saves on the block path: `d` bytes' worth in byte-cost
mode, nothing under INTERNED_GENERATOR (the size cost is that of the tree) -/
def saving (p : Params) (d : Nat) : Nat := if hasFlag p.flags Gen.flagInternedGenerator then 0 else d * p.costPerByte

/-- **The bundle path against ANY serialisation of its generator, every flag value.**  Let `g'` describe any byte
string that decodes to `build_generator css` (plain, back-reference compressed, …: decoded program
`build_generator css`, the `ff 01` quote prefix, no references), `d` bytes shorter than the plain serialisation (the
length is irrelevant under INTERNED_GENERATOR), and let the limits satisfy `L' + saving = L + offset`.  Then
`run_spendbundle css` under `L` and `run_block_generator2` on `g'` under `L'` accept together, with the same
conditions (`SameUpToVisitorRev`), block cost + saving = bundle cost + offset, execution cost + 20.  In particular
the cost the mempool computed at admission, plus the fixed `offset`, is an upper bound of the block cost of every
serialisation and is attained by the plain one: a fee-per-cost decision made at admission is not invalidated at
block inclusion. -/
theorem bundle_path_eq_block_path_any_serialization (p : Params) (css : List CoinSpendM) (puz : Nat → RunRes) (L L' d : Nat)
    (hwf : ∀ s ∈ css, WF s) (hph : ∀ s ∈ css, s.puzzleHash = Sexp.treeHash s.puzzle)
    (hlen : css.length < 2^64)
    (hsig : ∀ pairs pairs', List.Perm pairs pairs' → p.sigOk pairs = p.sigOk pairs')
    (g' : GenInput) (hprog : g'.prog = buildGenerator css) (hq : g'.startsQuote = true) (hr : g'.nrefs = 0)
    (hd : hasFlag p.flags Gen.flagInternedGenerator = false → (Sexp.serialize (buildGenerator css)).length = g'.len + d)
    (hL : L' + saving p d = L + offset p) :
    let genRun : RunRes := some (20, quoted g'.prog)
    let puzG : Nat → RunRes := fun i => puz (css.length - 1 - i)
    (∀ bb pairs, runSpendbundle p css puz L = .ok (bb, pairs) →
      (hasFlag p.flags Gen.flagDontValidateSignature = true ∨ p.sigOk pairs = true) →
      ∃ bn, native p g' genRun puzG L' = .ok bn ∧ SameUpToVisitorRev bn bb ∧
        bn.cost + saving p d = bb.cost + offset p ∧ bn.executionCost = bb.executionCost + 20) ∧
    (∀ bn, native p g' genRun puzG L' = .ok bn →
      ∃ bb pairs, runSpendbundle p css puz L = .ok (bb, pairs) ∧
        (hasFlag p.flags Gen.flagDontValidateSignature = true ∨ p.sigOk pairs = true) ∧ SameUpToVisitorRev bn bb ∧
        bn.cost + saving p d = bb.cost + offset p ∧ bn.executionCost = bb.executionCost + 20) := by
  intro genRun puzG
  obtain ⟨ha, hb⟩ := bundle_path_eq_block_path_all_flags p css puz L hwf hph hlen hsig
  have hgen : genRun = some (20, quoted (buildGenerator css)) := by show some (20, quoted g'.prog) = _; rw [hprog]
  rw [hgen]
  -- the plain serialisation under `L + offset p` against `g'` under `L'`
  have key : native p (builtInput css) (some (20, quoted (buildGenerator css))) puzG (L + offset p) =
      (native p g' (some (20, quoted (buildGenerator css))) puzG L').map (fun b => { b with cost := b.cost + saving p d }) := by
    obtain ⟨k1, k2⟩ := serialization_independent p g' (builtInput css) (some (20, quoted (buildGenerator css))) puzG L'
      hq hprog hr
    by_cases hint : hasFlag p.flags Gen.flagInternedGenerator = true
    · have hs0 : saving p d = 0 := by unfold saving; rw [if_pos hint]
      rw [hs0] at hL ⊢
      rw [← hL, Nat.add_zero, k1 hint]
      cases native p g' (some (20, quoted (buildGenerator css))) puzG L' with
      | error e => rfl
      | ok b => rfl
    · have hint' : hasFlag p.flags Gen.flagInternedGenerator = false := by simpa using hint
      have hs0 : saving p d = d * p.costPerByte := by unfold saving; rw [if_neg hint]
      rw [hs0] at hL ⊢
      rw [← hL]
      exact k2 hint' d (hd hint')
  constructor
  · intro bb pairs hbb hs
    obtain ⟨bn, hn, ⟨v1, v2, v3, v4, v5, v6, v7, v8, v9, v10⟩, hc, he⟩ := ha bb pairs hbb hs
    change native p (builtInput css) (some (20, quoted (buildGenerator css))) puzG (L + offset p) = .ok bn at hn
    rw [key] at hn
    cases hn' : native p g' (some (20, quoted (buildGenerator css))) puzG L' with
    | error e => rw [hn'] at hn; cases hn
    | ok bn' =>
      rw [hn'] at hn
      injection hn with hn; subst hn
      exact ⟨bn', rfl, ⟨v1, v2, v3, v4, v5, v6, v7, v8, v9, v10⟩, hc, he⟩
  · intro bn' hn'
    have hn : native p (builtInput css) (some (20, quoted (buildGenerator css))) puzG (L + offset p) =
        .ok { bn' with cost := bn'.cost + saving p d } := by rw [key, hn']; rfl
    obtain ⟨bb, pairs, hbb, hs, ⟨v1, v2, v3, v4, v5, v6, v7, v8, v9, v10⟩, hc, he⟩ := hb _ hn
    exact ⟨bb, pairs, hbb, hs, ⟨v1, v2, v3, v4, v5, v6, v7, v8, v9, v10⟩, hc, he⟩

/-! ## non-vacuity of the hypotheses -/
namespace Witness

def p0 : Params := { flags := 0, pkOk := fun _ => true, sigOk := fun _ => true }
def cs0 : CoinSpendM :=
  { parent := List.replicate 32 7, puzzleHash := Sexp.treeHash (.atom [1]), amount := 0,
    puzzle := .atom [1], solution := Sexp.nil, puzzleLen := 1, solutionLen := 1 }
def puz0 : Nat → RunRes := fun _ => some (5, Sexp.nil)

example : ∀ s ∈ [cs0], WF s := by
  intro s hs
  simp only [List.mem_cons, List.mem_nil_iff, or_false] at hs
  subst hs
  exact ⟨by decide, by decide, by decide, by decide⟩

example : ∀ s ∈ [cs0], s.puzzleHash = Sexp.treeHash s.puzzle := by
  intro s hs
  simp only [List.mem_cons, List.mem_nil_iff, or_false] at hs
  subst hs; rfl

/-- the bundle path accepts this bundle: the first half of `bundle_path_eq_block_path_partial` is not vacuous -/
example : (runSpendbundle p0 [cs0] puz0 1000000).toBool = true := by decide +kernel

/-- a second coin (other parent id): a two-spend bundle, so that the reversed order of `build_generator`
matters; the signature verdict of `p0` is order-free -/
def cs1 : CoinSpendM := { cs0 with parent := List.replicate 32 8 }

example : ∀ s ∈ [cs0, cs1], WF s := by
  intro s hs
  simp only [List.mem_cons, List.mem_nil_iff, or_false] at hs
  rcases hs with rfl | rfl <;> exact ⟨by decide, by decide, by decide, by decide⟩

example : ∀ s ∈ [cs0, cs1], s.puzzleHash = Sexp.treeHash s.puzzle := by
  intro s hs
  simp only [List.mem_cons, List.mem_nil_iff, or_false] at hs
  rcases hs with rfl | rfl <;> rfl

example : ∀ pairs pairs' : List (Bytes × Bytes), List.Perm pairs pairs' → p0.sigOk pairs = p0.sigOk pairs' :=
  fun _ _ _ => rfl

/-- the bundle path accepts the two-spend bundle: the first half of `bundle_path_eq_block_path` is not vacuous -/
example : (runSpendbundle p0 [cs0, cs1] puz0 2000000).toBool = true := by decide +kernel


/-! ### INTERNED_GENERATOR, error kinds, serialisation modes -/

/-- INTERNED_GENERATOR set -/
def pI : Params := { flags := Gen.flagInternedGenerator, pkOk := fun _ => true, sigOk := fun _ => true }

example : hasFlag pI.flags Gen.flagInternedGenerator = true := by decide

/-- under INTERNED_GENERATOR the bundle path accepts the two-spend bundle: `bundle_path_eq_block_path_interned`
and `bundle_path_eq_block_path_all_flags` are not vacuous in that mode … -/
example : (runSpendbundle pI [cs0, cs1] puz0 2000000).toBool = true := by decide +kernel

/-- … and on it the costs are what the theorem says: interned size 100 → 100·12000 + 2·5 on the bundle path, 20
more on the block path under the limit `L + 20` -/
example : okCost ((runSpendbundle pI [cs0, cs1] puz0 2000000).map (·.1)) = some 1200010 ∧
    okCost (native pI (builtInput [cs0, cs1]) (some (20, quoted (buildGenerator [cs0, cs1]))) (fun i => puz0 (2 - 1 - i))
      (2000000 + 20)) = some 1200030 := by decide +kernel

/-- a coin spend whose puzzle reveal is the list cell `(item cs1 . nil)` -/
def csA : CoinSpendM :=
  { cs0 with puzzle := .pair (item cs1) Sexp.nil, puzzleHash := Sexp.treeHash (.pair (item cs1) Sexp.nil),
             puzzleLen := (Sexp.serialize (.pair (item cs1) Sexp.nil)).length }

example : ∀ s ∈ [csA, cs1], WF s := by
  intro s hs
  simp only [List.mem_cons, List.mem_nil_iff, or_false] at hs
  rcases hs with rfl | rfl <;> exact ⟨by decide, by decide, by decide +kernel, by decide⟩

/-- **The interned size of `build_generator` depends on the ORDER of the spends** (a spine cell of the spend list
coincides with a subtree of a reveal in one order only): this is why, under INTERNED_GENERATOR, the comparison of
`run_spendbundle css` is with `build_generator css` itself — for which both paths intern the same tree — and why
the same-order statement `verdict_same_order` relates the limits through both size costs instead of a constant. -/
example : internedVbytes (buildGenerator [csA, cs1]) = 106 ∧ internedVbytes (buildGenerator [cs1, csA]) = 103 := by
  decide +kernel

/-- the first puzzle raises, every other one costs more than any limit used here -/
def puzR : Nat → RunRes := fun i => if i = 0 then none else some (1000000000000, Sexp.nil)

/-- **Counterexample: for `build_generator`'s own (reversed) order the error kinds can differ.**  A well-formed
two-spend bundle with matching puzzle hashes whose first puzzle raises and whose second puzzle is too costly:
`run_spendbundle` meets the raising puzzle first (`reject`), `run_block_generator2` on `build_generator css` meets
the costly one first (`costExceeded`).  So "same error kind" is FALSE in the setting of
`bundle_path_eq_block_path_all_flags`; `both_fail` is what holds. -/
theorem error_kind_differs_reversed_order :
    runSpendbundle p0 [cs0, cs1] puzR 1000000000 = .error .reject ∧
    native p0 (builtInput [cs0, cs1]) (some (20, quoted (buildGenerator [cs0, cs1]))) (fun i => puzR (2 - 1 - i))
      (1000000000 + offset p0) = .error .costExceeded :=
  ⟨errKind_some (by decide +kernel), errKind_some (by decide +kernel)⟩

/-- LIMIT_SPENDS set -/
def pL : Params := { flags := Gen.flagLimitSpends, pkOk := fun _ => true, sigOk := fun _ => true }
/-- 6001 spends -/
def many : List CoinSpendM := List.replicate 6001 cs0
def puzBig : Nat → RunRes := fun _ => some (1000000000000, Sexp.nil)

theorem many_wf : ∀ s ∈ many, WF s := by
  intro s hs
  rw [List.eq_of_mem_replicate hs]
  exact ⟨by decide, by decide, by decide, by decide⟩

/-- **Counterexample: with more spends than LIMIT_SPENDS allows the error kinds can differ** (same spend order:
the bundle is 6001 copies of one spend, so it equals its reverse).  `run_spendbundle` tests the number of spends
before running anything (`reject`); `run_block_generator2` runs the first puzzle first, which exceeds the limit
(`costExceeded`).  So the side condition "at most 6000 spends" of `verdict_same_order` cannot be dropped;
`verdict_too_many` is what holds. -/
theorem error_kind_differs_too_many_spends :
    (hasFlag pL.flags Gen.flagLimitSpends ∧ many.length > MAX_SPENDS_PER_BLOCK) ∧ many.reverse = many ∧
    runSpendbundle pL many puzBig 4000000000 = .error .reject ∧
    native pL (builtInput many) (some (20, quoted (buildGenerator many))) puzBig (4000000000 + offset pL)
      = .error .costExceeded := by
  refine ⟨by decide +kernel, List.reverse_replicate .., errKind_some (by decide +kernel), ?_⟩
  have hN : nativeBase pL (builtInput many) = 3024564000 := by
    rw [base_cost_offset_all_flags pL many many_wf]; decide +kernel
  have hgen : (some (20, quoted (buildGenerator many)) : RunRes) = quoteRun many.reverse := (quoteRun_reverse many).symm
  rw [hgen, native_built_loop (built_builtInput many) hN (by decide)]
  have hk : errKind (nativeLoop (nativeEnv pL) puzBig (Sexp.ofList (many.reverse.map item)) 0 { executionCost := 20 } {}
      (spendLimit pL.flags) (4000000000 + offset pL - 3024564000 - 20)) = some .costExceeded := by decide +kernel
  rw [errKind_some hk]

/-- the block path accepts `build_generator [cs0, cs1]`, plainly serialised: the accepted case of
`serialization_independent` is not vacuous … -/
example : (native p0 (builtInput [cs0, cs1]) (some (20, quoted (buildGenerator [cs0, cs1]))) puz0 2000000).toBool = true := by
  decide +kernel

/-- … and a serialisation of the same tree that is 3 bytes shorter (as a back-reference form would be) satisfies its
hypotheses -/
example : (builtInput [cs0, cs1]).len = ({ builtInput [cs0, cs1] with len := (builtInput [cs0, cs1]).len - 3 } : GenInput).len + 3 := by
  decide +kernel

end Witness

end ChiaModel.C08
