import ChiaModel.Model.Generator
import ChiaModel.Props.C04
import ChiaModel.Lemmas.GenPaths
/-
C07 — both block-generator execution paths agree.
Theorems about the two path models (Model/Generator.lean).  The interpreter is a parameter: `genRun`,
`puz i`, `romRun` are the unbounded-run results of the generator, of the i-th puzzle and of the ROM
(EvalContract is built into `runWithLimit`).
-/
namespace ChiaModel.C07
open ChiaModel ChiaModel.Cond ChiaModel.Gn

theorem subtractCost_ok {l s r : Nat} (h : subtractCost l s = .ok r) : s ≤ l ∧ r = l - s := by
  unfold subtractCost at h
  split at h
  · cases h
  · injection h with h; omega

/-- **Both paths refuse what the fork rules refuse.**  Under SIMPLE_GENERATOR a generator whose
serialisation does not start with a quote, or that comes with block references, is rejected by the
legacy and by the native path alike, whatever the interpreter returns. -/
theorem simple_generator_rules (p : Params) (g : GenInput) (genRun romRun : RunRes) (puz : Nat → RunRes) (L : Nat)
    (hs : simpleGen p.flags = true) (hbad : g.startsQuote = false ∨ g.nrefs > 0) :
    (∃ e, legacy p g romRun L = .error e) ∧ (∃ e, native p g genRun puz L = .error e) := by
  unfold legacy native
  rcases hbad with hq | hr
  · simp [hs, hq]
  · by_cases hq : g.startsQuote = true
    · simp only [hs, hq, Bool.not_true, Bool.false_eq_true, and_false, if_false, hr, and_self, if_true]
      refine ⟨⟨_, rfl⟩, ?_⟩
      cases subtractCost L ((if hasFlag p.flags Gen.flagInternedGenerator = true then internedVbytes g.prog else g.len) * p.costPerByte) with
      | error e => exact ⟨e, rfl⟩
      | ok c =>
        simp only
        split
        · exact ⟨_, rfl⟩
        · exact ⟨_, rfl⟩
    · simp [hs, hq]

/-- **The legacy path never reports a cost above its limit**, and its reported cost is the byte cost
plus the ROM's execution cost plus the condition cost (three guarded subtractions from one countdown). -/
theorem legacy_cost (p : Params) (g : GenInput) (romRun : RunRes) (L : Nat) (b : Bundle)
    (h : legacy p g romRun L = .ok b) :
    b.cost ≤ L ∧ ∃ romCost condCost, b.cost = g.len * p.costPerByte + romCost + condCost ∧ b.executionCost = romCost := by
  unfold legacy at h
  split at h
  · cases h
  split at h
  · cases h
  cases h1 : subtractCost L (g.len * p.costPerByte) with
  | error e => rw [h1] at h; cases h
  | ok c1 =>
    rw [h1] at h; simp only at h
    split at h
    · cases h
    cases h2 : runWithLimit romRun c1 with
    | error e => rw [h2] at h; cases h
    | ok r =>
      obtain ⟨clvmCost, out⟩ := r
      rw [h2] at h; simp only at h
      cases h3 : subtractCost c1 clvmCost with
      | error e => rw [h3] at h; cases h
      | ok c2 =>
        rw [h3] at h; simp only at h
        cases h4 : parseSpends { flags := p.flags, mempool := false, pkOk := p.pkOk } p.sigOk out c2 0 with
        | error e => rw [h4] at h; cases h
        | ok q =>
          obtain ⟨ret, st⟩ := q
          rw [h4] at h; simp only at h
          injection h with h; subst h
          obtain ⟨a1, a2⟩ := subtractCost_ok h1
          obtain ⟨a3, a4⟩ := subtractCost_ok h3
          have hle := C04.cost_le_limit _ _ _ _ _ _ _ h4
          simp only
          refine ⟨by omega, clvmCost, ret.cost, by omega, rfl⟩

/-! ## legacy accepts ⇒ native accepts -/

/-- `RomSpec`: the ROM transcription is exact on accepted runs — whenever the ROM run succeeds, its
output is the tree `romModel` builds from the generator run and the puzzle runs (checked per case by
the harness, which runs the real ROM in clvmr). -/
def RomSpec (romRun genRun : RunRes) (puz : Nat → RunRes) : Prop :=
  ∀ c out, romRun = some (c, out) → romModel genRun puz = some out

/-- `RomCostDominates`: the ROM's cost is at least the generator's cost plus the sum of the costs of the
puzzle runs of the spends in the generator's output (an assumption about CLVM cost accounting: the ROM
*contains* these runs; monitored per case). -/
def RomCostDominates (romRun genRun : RunRes) (puz : Nat → RunRes) : Prop :=
  ∀ rc out gc spends args, romRun = some (rc, out) → genRun = some (gc, .pair spends args) →
    gc + puzCostSum puz spends 0 ≤ rc

/-- what "the same conditions" means between the two block paths: the spends are equal, in order,
up to the per-spend `execution_cost` field (the legacy path passes `clvm_cost = 0` to
`process_single_spend`), and every bundle-level field except `cost` and `execution_cost` is equal. -/
def SameConditions (bn bl : Bundle) : Prop :=
  bn.spends.map eraseExec = bl.spends.map eraseExec ∧
  bn.reserveFee = bl.reserveFee ∧ bn.heightAbsolute = bl.heightAbsolute ∧ bn.secondsAbsolute = bl.secondsAbsolute ∧
  bn.beforeHeightAbsolute = bl.beforeHeightAbsolute ∧ bn.beforeSecondsAbsolute = bl.beforeSecondsAbsolute ∧
  bn.aggSigUnsafe = bl.aggSigUnsafe ∧ bn.removalAmount = bl.removalAmount ∧ bn.additionAmount = bl.additionAmount ∧
  bn.conditionCost = bl.conditionCost ∧ bn.validatedSignature = bl.validatedSignature

theorem sameConditions_of_execRel {a b : Bundle} (h : ExecRel a b) (ca ea cb eb : Nat) :
    SameConditions { a with cost := ca, executionCost := ea } { b with cost := cb, executionCost := eb } := by
  obtain ⟨h1, h2⟩ := h
  refine ⟨h1, ?_⟩
  rw [h2]
  exact ⟨rfl, rfl, rfl, rfl, rfl, rfl, rfl, rfl, rfl, rfl⟩

/-- decomposition of an accepting legacy run -/
theorem legacy_ok {p : Params} {g : GenInput} {romRun : RunRes} {L : Nat} {bl : Bundle}
    (h : legacy p g romRun L = .ok bl) :
    ¬(simpleGen p.flags ∧ (!g.startsQuote) = true) ∧ ¬(simpleGen p.flags ∧ g.nrefs > 0) ∧
    g.len * p.costPerByte ≤ L ∧ generatorNodeOk p.flags g.prog = true ∧
    ∃ rc out ret st, romRun = some (rc, out) ∧ rc ≤ L - g.len * p.costPerByte ∧
      parseSpends { flags := p.flags, mempool := false, pkOk := p.pkOk } p.sigOk out (L - g.len * p.costPerByte - rc) 0 = .ok (ret, st) ∧
      bl = { ret with cost := ret.cost + (L - (L - g.len * p.costPerByte - rc)), executionCost := rc } := by
  unfold legacy at h
  split at h
  · cases h
  rename_i hq
  split at h
  · cases h
  rename_i hr
  cases h1 : subtractCost L (g.len * p.costPerByte) with
  | error e => rw [h1] at h; cases h
  | ok c1 =>
    rw [h1] at h; simp only at h
    split at h
    · cases h
    rename_i hnode
    cases h2 : runWithLimit romRun c1 with
    | error e => rw [h2] at h; cases h
    | ok r =>
      obtain ⟨clvmCost, out⟩ := r
      rw [h2] at h; simp only at h
      cases h3 : subtractCost c1 clvmCost with
      | error e => rw [h3] at h; cases h
      | ok c2 =>
        rw [h3] at h; simp only at h
        cases h4 : parseSpends { flags := p.flags, mempool := false, pkOk := p.pkOk } p.sigOk out c2 0 with
        | error e => rw [h4] at h; cases h
        | ok q =>
          obtain ⟨ret, st⟩ := q
          rw [h4] at h; simp only at h
          injection h with h
          obtain ⟨a1, a2⟩ := subtractCost_ok h1
          obtain ⟨a3, a4⟩ := subtractCost_ok h3
          obtain ⟨b1, b2⟩ := runWithLimit_ok h2
          subst a2; subst a4
          refine ⟨hq, hr, a1, by simpa using hnode, clvmCost, out, ret, st, b1, b2, h4, h.symm⟩

/-- the size cost the native path charges: `interned_vbytes` under INTERNED_GENERATOR, the byte length otherwise -/
def nativeSize (p : Params) (g : GenInput) : Nat :=
  if hasFlag p.flags Gen.flagInternedGenerator then internedVbytes g.prog else g.len

/-- **Legacy accepts ⇒ native accepts** — general form: it suffices that the native size measure does not
exceed the byte length (`nativeSize p g ≤ g.len`; always true without INTERNED_GENERATOR, and with it
exactly when `interned_vbytes ≤ len` — the recorded finding is a generator where this fails). -/
theorem legacy_accepts_native_accepts_size (p : Params) (g : GenInput) (genRun romRun : RunRes) (puz : Nat → RunRes)
    (L : Nat) (bl : Bundle)
    (hrom : RomSpec romRun genRun puz) (hdom : RomCostDominates romRun genRun puz)
    (hsize : nativeSize p g ≤ g.len)
    (h : legacy p g romRun L = .ok bl) :
    ∃ bn, native p g genRun puz L = .ok bn ∧ SameConditions bn bl ∧ bn.cost ≤ bl.cost ∧
      bn.executionCost ≤ bl.executionCost := by
  obtain ⟨hq, hr, hbase, hnode, rc, out, ret, st, hrun, hrc, hps, rfl⟩ := legacy_ok h
  obtain ⟨gc, coinSpends, args, l, hgen, hrec, rfl⟩ := romModel_ok (hrom rc out hrun)
  have hd := hdom rc _ gc coinSpends args hrun hgen
  obtain ⟨iter, ret0, left, ret', hf, hloop, hfin, rfl, hleft⟩ := parseSpends_ok' hps
  injection hf with hf; subst hf
  have hB : nativeSize p g * p.costPerByte ≤ g.len * p.costPerByte := Nat.mul_le_mul_right _ hsize
  generalize hBdef : nativeSize p g * p.costPerByte = B at hB
  -- the native loop
  obtain ⟨retN, hN, hrelN, hexN⟩ := nativeLoop_of_spendLoop { flags := p.flags, mempool := false, pkOk := p.pkOk } puz
    coinSpends 0 l hrec {} { executionCost := gc } {} (spendLimit p.flags) (L - g.len * p.costPerByte - rc) ret0 st left
    (L - B - gc - (L - g.len * p.costPerByte - rc + puzCostSum puz coinSpends 0)) hloop ⟨rfl, rfl⟩
  have e1 : L - g.len * p.costPerByte - rc + puzCostSum puz coinSpends 0
      + (L - B - gc - (L - g.len * p.costPerByte - rc + puzCostSum puz coinSpends 0))
      = L - B - gc := by omega
  rw [e1] at hN
  obtain ⟨bn0, hfinN, hrel0, hex0⟩ := finishBundle_execRel (env := { flags := p.flags, mempool := false, pkOk := p.pkOk })
    rfl p.sigOk hrelN st hfin
  refine ⟨{ bn0 with cost := L - (left + (L - B - gc - (L - g.len * p.costPerByte - rc + puzCostSum puz coinSpends 0))) },
    ?_, ?_, ?_, ?_⟩
  · unfold native
    rw [if_neg hq]
    simp only
    rw [show (if hasFlag p.flags Gen.flagInternedGenerator = true then internedVbytes g.prog else g.len) * p.costPerByte = B
      from hBdef, subtractCost_of_le (by omega)]
    simp only
    rw [if_neg (by simp [hnode]), if_neg hr, hgen, runWithLimit_of_le (by omega)]
    simp only
    rw [subtractCost_of_le (by omega)]
    simp only [first]
    rw [if_neg (by simp [romRecurse_allExtract3 puz _ _ _ hrec]), hN]
    simp only
    rw [hfinN]
  · have := sameConditions_of_execRel hrel0
      (L - (left + (L - B - gc - (L - g.len * p.costPerByte - rc + puzCostSum puz coinSpends 0)))) bn0.executionCost
      (L - g.len * p.costPerByte - rc - left + (L - (L - g.len * p.costPerByte - rc))) rc
    exact this
  · simp only; omega
  · simp only
    rw [hex0, hexN]
    simp only; omega

/-- **Legacy accepts ⇒ native accepts, with the same conditions and no higher cost.**
Hypotheses: the ROM transcription is exact (`RomSpec`), the ROM's cost dominates the generator's cost
plus the puzzle costs (`RomCostDominates`), and `INTERNED_GENERATOR` is not set (with it the native
base cost is a different quantity — the recorded finding).  Claim: if the legacy path accepts under
limit `L`, the native path accepts under the same limit; the two results have the same conditions
(`SameConditions`: spends equal in order up to the per-spend `execution_cost`, all bundle-level
condition fields, the addition/removal amounts, the condition cost and the signature flag equal);
the native path reports no higher cost and no higher execution cost. -/
theorem legacy_accepts_native_accepts (p : Params) (g : GenInput) (genRun romRun : RunRes) (puz : Nat → RunRes)
    (L : Nat) (bl : Bundle)
    (hrom : RomSpec romRun genRun puz) (hdom : RomCostDominates romRun genRun puz)
    (hint : hasFlag p.flags Gen.flagInternedGenerator = false)
    (h : legacy p g romRun L = .ok bl) :
    ∃ bn, native p g genRun puz L = .ok bn ∧ SameConditions bn bl ∧ bn.cost ≤ bl.cost ∧
      bn.executionCost ≤ bl.executionCost :=
  legacy_accepts_native_accepts_size p g genRun romRun puz L bl hrom hdom
    (by simp [nativeSize, hint]) h

/-- **Both reject**: under the same hypotheses, whatever the native path rejects the legacy path rejects. -/
theorem native_rejects_legacy_rejects (p : Params) (g : GenInput) (genRun romRun : RunRes) (puz : Nat → RunRes)
    (L : Nat) (e : Err)
    (hrom : RomSpec romRun genRun puz) (hdom : RomCostDominates romRun genRun puz)
    (hint : hasFlag p.flags Gen.flagInternedGenerator = false)
    (h : native p g genRun puz L = .error e) : ∃ e', legacy p g romRun L = .error e' := by
  cases hl : legacy p g romRun L with
  | error e' => exact ⟨e', rfl⟩
  | ok bl =>
    obtain ⟨bn, hn, _⟩ := legacy_accepts_native_accepts p g genRun romRun puz L bl hrom hdom hint hl
    rw [h] at hn; cases hn

/-! ## native accepts ⇒ legacy accepts, or fails for cost / inside the interpreter -/

/-- decomposition of an accepting native run (byte-cost mode) -/
theorem native_ok {p : Params} {g : GenInput} {genRun : RunRes} {puz : Nat → RunRes} {L : Nat} {bn : Bundle}
    (hint : hasFlag p.flags Gen.flagInternedGenerator = false)
    (h : native p g genRun puz L = .ok bn) :
    ¬(simpleGen p.flags ∧ (!g.startsQuote) = true) ∧ ¬(simpleGen p.flags ∧ g.nrefs > 0) ∧
    g.len * p.costPerByte ≤ L ∧ generatorNodeOk p.flags g.prog = true ∧
    ∃ gc allSpends args retN st left bn0, genRun = some (gc, .pair allSpends args) ∧ gc ≤ L - g.len * p.costPerByte ∧
      nativeLoop { flags := p.flags, mempool := false, pkOk := p.pkOk } puz allSpends 0 { executionCost := gc } {}
        (spendLimit p.flags) (L - g.len * p.costPerByte - gc) = .ok ((retN, st), left) ∧
      finishBundle { flags := p.flags, mempool := false, pkOk := p.pkOk } p.sigOk retN st = .ok bn0 ∧
      bn = { bn0 with cost := L - left } := by
  unfold native at h
  split at h
  · cases h
  rename_i hq
  simp only [hint, Bool.false_eq_true, if_false] at h
  cases h1 : subtractCost L (g.len * p.costPerByte) with
  | error e => rw [h1] at h; cases h
  | ok c1 =>
    rw [h1] at h; simp only at h
    split at h
    · cases h
    rename_i hnode
    split at h
    · cases h
    rename_i hr
    cases h2 : runWithLimit genRun c1 with
    | error e => rw [h2] at h; cases h
    | ok r =>
      obtain ⟨gc, gout⟩ := r
      rw [h2] at h; simp only at h
      cases h3 : subtractCost c1 gc with
      | error e => rw [h3] at h; cases h
      | ok c2 =>
        rw [h3] at h; simp only at h
        cases gout with
        | atom b => simp only [first] at h; cases h
        | pair allSpends args =>
          simp only [first] at h
          split at h
          · cases h
          cases h4 : nativeLoop { flags := p.flags, mempool := false, pkOk := p.pkOk } puz allSpends 0 { executionCost := gc } {}
              (spendLimit p.flags) c2 with
          | error e => rw [h4] at h; cases h
          | ok q =>
            obtain ⟨⟨retN, st⟩, left⟩ := q
            rw [h4] at h; simp only at h
            cases h5 : finishBundle { flags := p.flags, mempool := false, pkOk := p.pkOk } p.sigOk retN st with
            | error e => rw [h5] at h; cases h
            | ok bn0 =>
              rw [h5] at h; simp only at h
              injection h with h
              obtain ⟨a1, a2⟩ := subtractCost_ok h1
              obtain ⟨a3, a4⟩ := subtractCost_ok h3
              obtain ⟨b1, b2⟩ := runWithLimit_ok h2
              subst a2; subst a4
              exact ⟨hq, hr, a1, by simpa using hnode, gc, allSpends, args, retN, st, left, bn0, b1, b2, h4, h5, h.symm⟩

/-- the legacy path, evaluated up to the spend loop of `parse_spends` -/
theorem legacy_eval {p : Params} {g : GenInput} {romRun : RunRes} {L rc : Nat} {l args : Sexp}
    (hq : ¬(simpleGen p.flags ∧ (!g.startsQuote) = true)) (hr : ¬(simpleGen p.flags ∧ g.nrefs > 0))
    (hbase : g.len * p.costPerByte ≤ L) (hnode : generatorNodeOk p.flags g.prog = true)
    (hrun : romRun = some (rc, .pair l args)) (hrc : rc ≤ L - g.len * p.costPerByte) :
    legacy p g romRun L =
      match spendLoop { flags := p.flags, mempool := false, pkOk := p.pkOk } 0 l {} {} (spendLimit p.flags)
          (L - g.len * p.costPerByte - rc) with
      | .error e => .error e
      | .ok ((ret, st), left) =>
        match finishBundle { flags := p.flags, mempool := false, pkOk := p.pkOk } p.sigOk ret st with
        | .error e => .error e
        | .ok ret => .ok { ret with cost := L - g.len * p.costPerByte - rc - left + (L - (L - g.len * p.costPerByte - rc)),
                                    executionCost := rc } := by
  unfold legacy
  rw [if_neg hq, if_neg hr, subtractCost_of_le hbase]
  simp only
  rw [if_neg (by simp [hnode]), hrun, runWithLimit_of_le hrc]
  simp only
  rw [subtractCost_of_le (by omega)]
  simp only [parseSpends, first]
  cases spendLoop { flags := p.flags, mempool := false, pkOk := p.pkOk } 0 l {} {} (spendLimit p.flags)
      (L - g.len * p.costPerByte - rc) with
  | error e => rfl
  | ok q =>
    obtain ⟨⟨ret, st⟩, left⟩ := q
    simp only
    cases finishBundle { flags := p.flags, mempool := false, pkOk := p.pkOk } p.sigOk ret st with
    | error e => rfl
    | ok ret' => rfl

/-- **Native accepts ⇒ legacy accepts with the same conditions, or legacy fails for cost, or the ROM
run itself raises** (the permitted asymmetry: the legacy path pays the ROM's own execution cost and
runs inside the interpreter's resource limits).  Hypotheses: `RomSpec` and no `INTERNED_GENERATOR`.
No assumption on CLVM cost accounting is needed for this direction. -/
theorem native_accepts_legacy (p : Params) (g : GenInput) (genRun romRun : RunRes) (puz : Nat → RunRes)
    (L : Nat) (bn : Bundle)
    (hrom : RomSpec romRun genRun puz)
    (hint : hasFlag p.flags Gen.flagInternedGenerator = false)
    (h : native p g genRun puz L = .ok bn) :
    (∃ bl, legacy p g romRun L = .ok bl ∧ SameConditions bn bl) ∨
    legacy p g romRun L = .error .costExceeded ∨ romRun = none := by
  obtain ⟨hq, hr, hbase, hnode, gc, allSpends, args, retN, st, left, bn0, hgen, hgc, hloop, hfin, rfl⟩ := native_ok hint h
  cases hrun : romRun with
  | none => exact Or.inr (Or.inr rfl)
  | some q =>
    obtain ⟨rc, out⟩ := q
    obtain ⟨gc', cs, args', l, hgen', hrec, rfl⟩ := romModel_ok (hrom rc out hrun)
    rw [hgen] at hgen'
    injection hgen' with hgen'; injection hgen' with e1 e2; injection e2 with e2 e3
    subst e1; subst e2; subst e3
    by_cases hrc : rc ≤ L - g.len * p.costPerByte
    · have hev := legacy_eval hq hr hbase hnode hrun hrc
      rw [← hrun, hev]
      obtain ⟨hsum, retL, hL, hrelL, _⟩ := spendLoop_of_nativeLoop { flags := p.flags, mempool := false, pkOk := p.pkOk } puz
        allSpends 0 l hrec { executionCost := gc } {} {} (spendLimit p.flags) (L - g.len * p.costPerByte - gc) retN st left
        hloop ⟨rfl, rfl⟩
      obtain ⟨bl0, hfinL, hrel0, _⟩ := finishBundle_execRel (env := { flags := p.flags, mempool := false, pkOk := p.pkOk })
        rfl p.sigOk hrelL st hfin
      -- compare the two budgets of the condition countdown
      by_cases hcmp : L - g.len * p.costPerByte - gc - puzCostSum puz allSpends 0 ≤ L - g.len * p.costPerByte - rc
      · -- legacy has at least the native budget: it accepts
        have hup := shiftUp_spendLoop { flags := p.flags, mempool := false, pkOk := p.pkOk } 0 l {} {} (spendLimit p.flags)
          _ (retL, st) left hL
          (L - g.len * p.costPerByte - rc - (L - g.len * p.costPerByte - gc - puzCostSum puz allSpends 0))
        simp only at hup
        have e : L - g.len * p.costPerByte - gc - puzCostSum puz allSpends 0
            + (L - g.len * p.costPerByte - rc - (L - g.len * p.costPerByte - gc - puzCostSum puz allSpends 0))
            = L - g.len * p.costPerByte - rc := by omega
        rw [e] at hup
        rw [hup]; simp only; rw [hfinL]; simp only
        exact Or.inl ⟨_, rfl, (sameConditions_of_execRel hrel0.symm _ _ _ _ : SameConditions { bn0 with cost := _, executionCost := bn0.executionCost } _)⟩
      · obtain ⟨_, d2, d3⟩ := shift_spendLoop { flags := p.flags, mempool := false, pkOk := p.pkOk } 0 l {} {} (spendLimit p.flags)
          _ (retL, st) left hL
        have e : L - g.len * p.costPerByte - rc = L - g.len * p.costPerByte - gc - puzCostSum puz allSpends 0
            - (L - g.len * p.costPerByte - gc - puzCostSum puz allSpends 0 - (L - g.len * p.costPerByte - rc)) := by omega
        by_cases hfit : L - g.len * p.costPerByte - gc - puzCostSum puz allSpends 0 - (L - g.len * p.costPerByte - rc) ≤ left
        · have hdn := d2 _ hfit
          simp only at hdn
          rw [← e] at hdn
          rw [hdn]; simp only; rw [hfinL]; simp only
          exact Or.inl ⟨_, rfl, (sameConditions_of_execRel hrel0.symm _ _ _ _ : SameConditions { bn0 with cost := _, executionCost := bn0.executionCost } _)⟩
        · have hdn := d3 (L - g.len * p.costPerByte - gc - puzCostSum puz allSpends 0 - (L - g.len * p.costPerByte - rc))
            (by omega) (by omega)
          simp only at hdn
          rw [← e] at hdn
          rw [hdn]
          exact Or.inr (Or.inl rfl)
    · refine Or.inr (Or.inl ?_)
      unfold legacy
      rw [if_neg hq, if_neg hr, subtractCost_of_le hbase]
      simp only
      rw [if_neg (by simp [hnode])]
      simp only [runWithLimit]
      rw [if_pos (by omega)]

/-! ## non-vacuity of the hypotheses -/
namespace Witness

def p0 : Params := { flags := 0, pkOk := fun _ => true, sigOk := fun _ => true }
def g0 : GenInput := { len := 5, startsQuote := true, prog := Sexp.nil, nrefs := 0 }
def spend0 : Sexp := Sexp.ofList [.atom (List.replicate 32 7), .atom [1], .atom [], Sexp.nil]
def genRun0 : RunRes := some (10, .pair (Sexp.ofList [spend0]) Sexp.nil)
def puz0 : Nat → RunRes := fun _ => some (5, Sexp.nil)
def romRun0 : RunRes :=
  some (50, .pair (Sexp.ofList [Sexp.ofList [.atom (List.replicate 32 7), .atom (Sexp.treeHash (.atom [1])), .atom [], Sexp.nil]]) Sexp.nil)

/-- `RomSpec` holds on a one-spend generator -/
example : RomSpec romRun0 genRun0 puz0 := by
  intro c out h
  injection h with h; injection h with h1 h2
  subst h2; rfl

/-- `RomCostDominates` holds there (50 ≥ 10 + 5) -/
example : RomCostDominates romRun0 genRun0 puz0 := by
  intro rc out gc spends args h1 h2
  injection h1 with h1; injection h1 with h1 _
  injection h2 with h2; injection h2 with h2 h3; injection h3 with h3 _
  subst h1; subst h2; subst h3
  decide

/-- and the legacy path accepts it, so `legacy_accepts_native_accepts` is not vacuous -/
example : ∃ bl, legacy p0 g0 romRun0 1000000 = .ok bl := ⟨_, rfl⟩

/-- the native path accepts it as well (`native_accepts_legacy` is not vacuous) -/
example : ∃ bn, native p0 g0 genRun0 puz0 1000000 = .ok bn := ⟨_, rfl⟩

end Witness

end ChiaModel.C07
