import ChiaModel.Model.Generator
import ChiaModel.Props.C04
/-
C07 — both block-generator execution paths agree.
Theorems about the two path models (Model/Generator.lean).  The interpreter is a parameter: `genRun`,
`puz i`, `romRun` are the unbounded-run results of the generator, of the i-th puzzle and of the ROM
(EvalContract is built into `runWithLimit`).
-/
namespace ChiaModel.C07
open ChiaModel ChiaModel.Cond ChiaModel.Gn

theorem subtractCost_ok {l s r : Nat} (h : subtractCost l s = .ok r) : s ≤ l ∧ r = l - s := by
  unfold subtractCost at h
  split at h
  · cases h
  · injection h with h; omega

/-- **Both paths refuse what the fork rules refuse.**  Under SIMPLE_GENERATOR a generator whose
serialisation does not start with a quote, or that comes with block references, is rejected by the
legacy and by the native path alike, whatever the interpreter returns. -/
theorem simple_generator_rules (p : Params) (g : GenInput) (genRun romRun : RunRes) (puz : Nat → RunRes) (L : Nat)
    (hs : simpleGen p.flags = true) (hbad : g.startsQuote = false ∨ g.nrefs > 0) :
    (∃ e, legacy p g romRun L = .error e) ∧ (∃ e, native p g genRun puz L = .error e) := by
  unfold legacy native
  rcases hbad with hq | hr
  · simp [hs, hq]
  · by_cases hq : g.startsQuote = true
    · simp only [hs, hq, Bool.not_true, Bool.false_eq_true, and_false, if_false, hr, and_self, if_true]
      refine ⟨⟨_, rfl⟩, ?_⟩
      cases subtractCost L ((if hasFlag p.flags Gen.flagInternedGenerator = true then internedVbytes g.prog else g.len) * p.costPerByte) with
      | error e => exact ⟨e, rfl⟩
      | ok c =>
        simp only
        split
        · exact ⟨_, rfl⟩
        · exact ⟨_, rfl⟩
    · simp [hs, hq]

/-- **The legacy path never reports a cost above its limit**, and its reported cost is the byte cost
plus the ROM's execution cost plus the condition cost (three guarded subtractions from one countdown). -/
theorem legacy_cost (p : Params) (g : GenInput) (romRun : RunRes) (L : Nat) (b : Bundle)
    (h : legacy p g romRun L = .ok b) :
    b.cost ≤ L ∧ ∃ romCost condCost, b.cost = g.len * p.costPerByte + romCost + condCost ∧ b.executionCost = romCost := by
  unfold legacy at h
  split at h
  · cases h
  split at h
  · cases h
  cases h1 : subtractCost L (g.len * p.costPerByte) with
  | error e => rw [h1] at h; cases h
  | ok c1 =>
    rw [h1] at h; simp only at h
    split at h
    · cases h
    cases h2 : runWithLimit romRun c1 with
    | error e => rw [h2] at h; cases h
    | ok r =>
      obtain ⟨clvmCost, out⟩ := r
      rw [h2] at h; simp only at h
      cases h3 : subtractCost c1 clvmCost with
      | error e => rw [h3] at h; cases h
      | ok c2 =>
        rw [h3] at h; simp only at h
        cases h4 : parseSpends { flags := p.flags, mempool := false, pkOk := p.pkOk } p.sigOk out c2 0 with
        | error e => rw [h4] at h; cases h
        | ok q =>
          obtain ⟨ret, st⟩ := q
          rw [h4] at h; simp only at h
          injection h with h; subst h
          obtain ⟨a1, a2⟩ := subtractCost_ok h1
          obtain ⟨a3, a4⟩ := subtractCost_ok h3
          have hle := C04.cost_le_limit _ _ _ _ _ _ _ h4
          simp only
          refine ⟨by omega, clvmCost, ret.cost, by omega, rfl⟩

end ChiaModel.C07
