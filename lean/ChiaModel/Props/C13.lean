import ChiaModel.Lemmas.StreamableHashPos
import ChiaModel.Lemmas.ClvmScan
import ChiaModel.Gen.Streamable
/-!
# C13 — wire encoding is a canonical bijection consistent with hashing

Theorems about the executable model `ChiaModel.Streamable` (the definitions the driver runs), for every type
descriptor `t : Ty`, by induction on `Ty` (mutually with `List Ty`), for all values and all byte strings.
`O : Oracles` is the external code (blst point checks, clvmr's serialised-length scan, the `chia_pos2` quality
string); what is assumed about it is the hypothesis `OracleContract O` (never an axiom).
-/
namespace ChiaModel.C13
open ChiaModel ChiaModel.Streamable

/-- **Round trip.** Decoding the encoding of a well-formed value, followed by any bytes `r`, returns that value
and leaves exactly `r`. -/
theorem roundtrip (O : Oracles) (hO : OracleContract O) (t : Ty) (v : V) (h : WF O false t v = true) :
    ∃ bs, encode O t v = some bs ∧ ∀ r, (decode O false t (bs ++ r)).out = .ok (v, r) :=
  (codec_decode O hO false t).rt v h

/-- **Canonicity.** Whatever the (untrusted) decoder accepts re-encodes to exactly the bytes it consumed, and the
decoded value is well-formed: one encoding per value; strict bool / Option / enum / packed-prefix bytes. -/
theorem canonical (O : Oracles) (hO : OracleContract O) (t : Ty) (b : Bytes) (hb : isBytes b) (v : V) (r : Bytes)
    (h : (decode O false t b).out = .ok (v, r)) :
    ∃ p, encode O t v = some p ∧ p ++ r = b ∧ WF O false t v = true :=
  (codec_decode O hO false t).cn b v r hb h

/-- the same two facts for the trusted decoder, with the trusted notion of well-formedness (`WF O true`) -/
theorem trusted_codec (O : Oracles) (hO : OracleContract O) (t : Ty) :
    Codec (decode O true t) (encode O t) (WF O true t) :=
  codec_decode O hO true t

/-- **One encoding, one value.** Two well-formed values with the same encoding are equal, so hashes and ids of
encodings are unambiguous. -/
theorem encode_injective (O : Oracles) (hO : OracleContract O) (t : Ty) (v w : V)
    (hv : WF O false t v = true) (hw : WF O false t w = true) (h : encode O t v = encode O t w) : v = w := by
  obtain ⟨b1, he1, hd1⟩ := roundtrip O hO t v hv
  obtain ⟨b2, he2, hd2⟩ := roundtrip O hO t w hw
  rw [he1, he2] at h
  injection h with h
  subst h
  have := (hd1 []).symm.trans (hd2 [])
  injection this with this
  injection this

/-- **Hash = SHA-256 of the prescribed pre-image.** For a well-formed value (of either trust mode),
`update_digest` feeds the hasher chunks whose concatenation is `encodeForHash t v`; it panics exactly when that
pre-image does not exist, and then at the `quality_string().expect(..)` site; it never takes another branch.
(`encodeForHash` = `encode` except inside version-2 proofs of space, see `encodeForHash_eq_encode`.) -/
theorem hash_is_sha_of_encoding (O : Oracles) (hO : OracleContract O) (tr : Bool) (t : Ty) (v : V)
    (h : WF O tr t v = true) :
    match digestChunks O t v with
    | .ok cs => encodeForHash O t v = some cs.flatten
    | .panic s => encodeForHash O t v = none ∧ s = sitePosQuality
    | .err => False := by
  have := hash_decode O hO tr t v h
  unfold HashRel at this
  exact this

mutual
/-- no `ProofOfSpace` anywhere in the descriptor -/
def posFree : Ty → Bool
  | .option t => posFree t
  | .vec t => posFree t
  | .tuple ts => posFreeL ts
  | .array _ t => posFree t
  | .struct _ _ ts => posFreeL ts
  | .optpair t u => posFree t && posFree u
  | .proofOfSpace => false
  | _ => true
def posFreeL : List Ty → Bool
  | [] => true
  | t :: ts => posFree t && posFreeL ts
end

mutual
theorem encodeH_posFree (O : Oracles) : ∀ t : Ty, posFree t = true → encodeH O true t = encodeH O false t
  | .uint _, _ => by simp only [encodeH]
  | .sint _, _ => by simp only [encodeH]
  | .bool, _ => by simp only [encodeH]
  | .unit, _ => by simp only [encodeH]
  | .bytes, _ => by simp only [encodeH]
  | .bytesN _, _ => by simp only [encodeH]
  | .str, _ => by simp only [encodeH]
  | .option t, h => by simp only [encodeH]; rw [encodeH_posFree O t (by simpa [posFree] using h)]
  | .vec t, h => by simp only [encodeH]; rw [encodeH_posFree O t (by simpa [posFree] using h)]
  | .tuple ts, h => by simp only [encodeH]; rw [encodeLH_posFree O ts (by simpa [posFree] using h)]
  | .array _ t, h => by simp only [encodeH]; rw [encodeH_posFree O t (by simpa [posFree] using h)]
  | .struct _ _ ts, h => by simp only [encodeH]; rw [encodeLH_posFree O ts (by simpa [posFree] using h)]
  | .enum8 _ _, _ => by simp only [encodeH]
  | .program, _ => by simp only [encodeH]
  | .g1, _ => by simp only [encodeH]
  | .g2, _ => by simp only [encodeH]
  | .gt, _ => by simp only [encodeH]
  | .secretKey, _ => by simp only [encodeH]
  | .optpair t u, h => by
      simp only [posFree, Bool.and_eq_true] at h
      simp only [encodeH]; rw [encodeH_posFree O t h.1, encodeH_posFree O u h.2]
  | .genTail _, _ => by simp only [encodeH]
  | .proofOfSpace, h => by simp [posFree] at h
theorem encodeLH_posFree (O : Oracles) : ∀ ts : List Ty, posFreeL ts = true → encodeLH O true ts = encodeLH O false ts
  | [], _ => by funext l; cases l <;> simp [encodeLH]
  | t :: ts, h => by
      simp only [posFreeL, Bool.and_eq_true] at h
      funext l
      cases l with
      | nil => simp [encodeLH]
      | cons v vs => simp only [encodeLH]; rw [encodeH_posFree O t h.1, encodeLH_posFree O ts h.2]
end

/-- the hash pre-image is the encoding itself for every type that contains no proof of space … -/
theorem encodeForHash_eq_encode (O : Oracles) (t : Ty) (h : posFree t = true) (v : V) :
    encodeForHash O t v = encode O t v := by
  unfold encodeForHash encode; rw [encodeH_posFree O t h]

/-- … and for a proof of space it differs only for version 2, where the proof is replaced by its quality-string
commitment (and does not exist when there is none) -/
theorem encodeForHash_pos (O : Oracles) (v : V) (h : WF O false .proofOfSpace v = true) :
    ∃ ch pp ct pk version pi mg st sz pf, v = .tup [ch, pp, ct, pk, .n version, .n pi, .n mg, .n st, .n sz, pf] ∧
      ((version = 0 ∧ encodeForHash O .proofOfSpace v = encode O .proofOfSpace v) ∨
       (version = 1 ∧ ∃ head pfb, encBytes pf = some pfb ∧ encode O .proofOfSpace v = some (head ++ pfb) ∧
          encodeForHash O .proofOfSpace v = (O.quality (head ++ pfb)).map (head ++ ·))) := by
  simp only [WF] at h
  obtain ⟨ch, pp, ct, pk, version, pi, mg, st, sz, pf, rfl, h1, h2, h3, h4, h5, h6⟩ := wfPos_iff.mp h
  refine ⟨ch, pp, ct, pk, version, pi, mg, st, sz, pf, rfl, ?_⟩
  obtain ⟨A, heA, _⟩ := (codec_bytesN 32).rt ch h1
  obtain ⟨B, heB, _⟩ := (codec_option (codec_g1 O false)).rt pp h2
  obtain ⟨D, heD, _⟩ := (codec_g1 O false).rt pk h4
  obtain ⟨F, heF, _⟩ := codec_bytes.rt pf h5
  rcases h6 with ⟨rfl, rfl, rfl, rfl, hsz⟩ | ⟨rfl, hpi, hmg, hst, rfl, hs⟩
  · refine Or.inl ⟨rfl, ?_⟩
    simp only [encodeForHash, encode, encodeH, encPos, heA, heB, heD, heF, if_true]
  · refine Or.inr ⟨rfl, ?_⟩
    obtain ⟨C, heC⟩ : ∃ C, encContract2 ct = some C := by
      rcases wfOption_iff.mp h3 with rfl | ⟨x, rfl, hx⟩
      · exact ⟨_, rfl⟩
      · obtain ⟨c, rfl, hc⟩ := wfBytesN_enc hx
        exact ⟨3 :: c, by simp [encContract2, encBytesN, hc]⟩
    have hE1 : encUint 2 (.n pi) = some (be 2 pi) := by simp [encUint, hpi]
    have hE2 : encUint 1 (.n mg) = some (be 1 mg) := by simp [encUint, hmg]
    have hE3 : encUint 1 (.n st) = some (be 1 st) := by simp [encUint, hst]
    refine ⟨A ++ B ++ C ++ D ++ be 2 pi ++ be 1 mg ++ be 1 st, F, heF, ?_, ?_⟩
    · simp only [encode, encodeH, encPos, heA, heB, heD, heF, heC, hE1, hE2, hE3,
        if_neg (by decide : ¬ (1 : Nat) = 0), if_true, Bool.false_eq_true, if_false]
    · simp only [encodeForHash, encodeH, encPos, heA, heB, heD, heF, heC, hE1, hE2, hE3,
        if_neg (by decide : ¬ (1 : Nat) = 0), if_true]

/-- **Trusted and untrusted decoding agree** on every input the untrusted decoder accepts. -/
theorem trusted_agrees (O : Oracles) (hO : OracleContract O) (t : Ty) (b : Bytes) (x : V × Bytes)
    (h : (decode O false t b).out = .ok x) : (decode O true t b).out = .ok x :=
  agree_decode O hO t b x h

/-- **`from_bytes`** succeeds exactly when `parse` succeeds and consumed the whole input. -/
theorem from_bytes_iff (O : Oracles) (tr : Bool) (t : Ty) (b : Bytes) (v : V) :
    (fromBytes O tr t b).out = .ok v ↔ (decode O tr t b).out = .ok (v, []) := by
  unfold fromBytes
  rw [Res.bind_ok]
  constructor
  · rintro ⟨⟨v', r⟩, hd, h2⟩
    cases r with
    | nil =>
      simp only [List.isEmpty_nil, if_true, Res.pure_out] at h2
      injection h2 with h2; subst h2; exact hd
    | cons x xs => simp at h2
  · intro hd
    exact ⟨(v, []), hd, by simp⟩

/-- `from_bytes` then `to_bytes` is the identity on accepted inputs; `to_bytes` then `from_bytes` on well-formed values -/
theorem from_bytes_to_bytes (O : Oracles) (hO : OracleContract O) (t : Ty) (b : Bytes) (hb : isBytes b) (v : V)
    (h : (fromBytes O false t b).out = .ok v) : encode O t v = some b ∧ WF O false t v = true := by
  obtain ⟨p, he, hp, hw⟩ := canonical O hO t b hb v [] ((from_bytes_iff O false t b v).mp h)
  rw [List.append_nil] at hp
  exact ⟨hp ▸ he, hw⟩

theorem to_bytes_from_bytes (O : Oracles) (hO : OracleContract O) (t : Ty) (v : V) (h : WF O false t v = true) :
    ∃ bs, encode O t v = some bs ∧ (fromBytes O false t bs).out = .ok v := by
  obtain ⟨bs, he, hd⟩ := roundtrip O hO t v h
  refine ⟨bs, he, (from_bytes_iff O false t bs v).mpr ?_⟩
  have := hd []
  rwa [List.append_nil] at this

/-- **Descriptors are closed:** every struct / enum name used inside a generated descriptor is a defined item. -/
theorem descriptors_closed :
    ∀ d ∈ Gen.Streamable.streamableTypes, ∀ n ∈ namesOf d.2, n ∈ Gen.Streamable.definedNames := by
  decide +kernel

/-- **Instantiation** of the generic theorems for every descriptor regenerated from the source. -/
theorem generated_types_codec (O : Oracles) (hO : OracleContract O) :
    ∀ d ∈ Gen.Streamable.streamableTypes,
      Codec (decode O false d.2) (encode O d.2) (WF O false d.2) ∧
      Agree (decode O false d.2) (decode O true d.2) ∧
      HashOK (digestChunks O d.2) (encodeForHash O d.2) (WF O false d.2) :=
  fun d _ => ⟨codec_decode O hO false d.2, agree_decode O hO d.2, hash_decode O hO false d.2⟩

/-- **The contract holds for the executable scan model** the driver instantiates the oracle with (the model of
clvmr's `serialized_length_from_bytes(_trusted)`, compared with clvmr on every Program case): with it, the theorems
above are unconditional in the serialised-length oracle, whatever the point-validity and quality-string oracles are. -/
theorem clvm_scan_contract (g1 g2 : Bytes → Nat) (sk : Bytes → Bool) (quality : Bytes → Option Bytes) :
    OracleContract { g1 := g1, g2 := g2, sk := sk, serLen := ClvmScan.clvmSerLen, quality := quality } where
  serLen_prefix := fun tr b n h hn r => ClvmScan.clvmSerLen_prefix tr b n h hn r
  serLen_trusted := fun b n h => ClvmScan.clvmSerLen_trusted b n h
  serLen_pos := fun tr b n h => ClvmScan.clvmSerLen_pos tr b n h

/-! non-vacuity: a well-formed value, the hypotheses are satisfiable -/
def trivialOracles : Oracles where
  g1 := fun _ => 2
  g2 := fun _ => 2
  sk := fun _ => true
  serLen := fun _ b => if b.isEmpty then none else some 1
  quality := fun _ => none

example : OracleContract trivialOracles where
  serLen_prefix := by
    intro tr b n h hn r
    cases b with
    | nil => simp [trivialOracles] at h
    | cons x xs => simp [trivialOracles] at h ⊢; subst h; simp
  serLen_trusted := by intro b n h; exact h
  serLen_pos := by
    intro tr b n h
    cases b with
    | nil => simp [trivialOracles] at h
    | cons x xs => simp [trivialOracles] at h; omega

example : WF trivialOracles false (.struct "Coin" ["a", "b"] [.uint 4, .option .bool]) (.tup [.n 7, .some (.b true)]) = true := by
  decide

end ChiaModel.C13
