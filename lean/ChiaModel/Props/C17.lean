import ChiaModel.Lemmas.DeserRoundtrip
/-
C17 — every tree-hash routine computes the same hash.
Property theorems only (helper lemmas live in Lemmas/TreeHash.lean and Lemmas/Precomputed.lean).
The specification is `Sexp.treeHash` (Base/Sexp.lean): atoms hashed with prefix 1, pairs with
prefix 2, applied to `denote heap n`, the tree a pointer stands for whatever the sharing.
`Gen.precomputed`, `Gen.thAtomPrefix`, `Gen.thPairPrefix` are regenerated from
clvm-utils/src/tree_hash.rs on every run.
-/
namespace ChiaModel.C17
open ChiaModel ChiaModel.TreeHash

/-! ### (d) the table of pre-computed small-atom hashes (over generated definitions) -/

/-- Every entry `i` of `PRECOMPUTED_HASHES` is the tree hash of the atom that is the canonical CLVM
integer `i`: `sha256 (1 :: canonNat i)`, and there are exactly 24 entries. -/
theorem precomputed_ok : Gen.precomputed = (List.range 24).map (fun i => sha256 (1 :: canonNat i)) :=
  precomputed_eq

/-- pointwise form, in terms of the bytes the allocator shows for the small atom `i` -/
theorem precomputed_entry (i : Nat) (hi : i < 24) :
    Gen.precomputed[i]? = some (Sexp.treeHash (.atom (canonNat i))) ∧ smallBytes i = canonNat i := by
  refine ⟨?_, small_canon i hi⟩
  rw [precomputed_eq]; simp [hi, Sexp.treeHash]

/-- `tree_hash_atom` / `tree_hash_pair` use the domain-separation prefixes 1 and 2 of the definition -/
theorem prefixes_ok : Gen.thAtomPrefix = 1 ∧ Gen.thPairPrefix = 2 := prefixes_eq

/-! ### (a) the iterative routine -/

/-- The explicit two-stack machine of `tree_hash` run from `[SExp(n)]` with any fuel of at least
`2·size + 1` ends with exactly one hash on the stack: the tree hash of the denoted tree. -/
theorem iter_run {h : Heap} (hwf : WF h) {n : Nat} (hn : n < h.size) (fuel : Nat)
    (hf : 2 * (denote h n).size + 1 ≤ fuel) :
    runIter h fuel [.sexp n] [] = some [Sexp.treeHash (denote h n)] :=
  runIter_root hwf hn fuel hf

/-- `tree_hash(a, n)` returns the specified tree hash for every well-formed heap and every pointer
into it (no fuel left in the statement: the routine supplies `2·size + 1`). -/
theorem iter_eq {h : Heap} (hwf : WF h) {n : Nat} (hn : n < h.size) :
    treeHashIter h n = some (Sexp.treeHash (denote h n)) := by
  simp only [treeHashIter, iterFuel, sizeTable_getD hwf hn, runIter_root hwf hn _ (Nat.le_refl _)]

/-- the linear table the driver prints is the specification's value at every index -/
theorem hashTable_spec {h : Heap} (hwf : WF h) {n : Nat} (hn : n < h.size) :
    (hashTable h).getD n [] = Sexp.treeHash (denote h n) := hashTable_getD hwf hn

/-! ### (b) the memoizing routine, for every prior history of the cache -/

/-- `CacheOK heap c` (every memoised slot of a pair holds the tree hash of what that pair denotes;
size limits respected) holds for the empty cache, -/
theorem cache_inv_empty (h : Heap) : CacheOK h Cache.empty := cacheOK_empty h

/-- … is preserved by `visit_tree` (which always terminates within its fuel: every pair is pushed at
most once in a cache's life time), -/
theorem cache_inv_visit {h : Heap} {c : Cache} (hc : CacheOK h c) (n : Nat) :
    ∃ c', visitTree h c n = some c' ∧ CacheOK h c' := by
  obtain ⟨c', hv⟩ := visitTree_total h c n
  exact ⟨c', hv, visitTree_ok hc hv⟩

/-- … by `tree_hash_cached`, -/
theorem cache_inv {h : Heap} (hwf : WF h) {n : Nat} (hn : n < h.size) {c : Cache} (hc : CacheOK h c) :
    ∃ x c', treeHashCached h n c = some (x, c') ∧ CacheOK h c' := by
  obtain ⟨c', hh, hc'⟩ := treeHashCached_spec hwf hn hc
  exact ⟨_, c', hh, hc'⟩

/-- … and by the allocator appending nodes (the heap growing between two uses of the cache). -/
theorem cache_inv_append {h h' : Heap} (he : Extends h h') (hwf : WF h') {c : Cache} (hc : CacheOK h c) :
    CacheOK h' c ∧ ∀ n, n < h.size → denote h' n = denote h n :=
  ⟨cacheOK_extends he hwf hc, fun _ hn => denote_extends he hwf hn⟩

/-- Under the invariant – i.e. whatever the cache saw before – `tree_hash_cached` returns the
specified tree hash (and never fails). -/
theorem cached_eq {h : Heap} (hwf : WF h) {n : Nat} (hn : n < h.size) {c : Cache} (hc : CacheOK h c) :
    (treeHashCached h n c).map (·.1) = some (Sexp.treeHash (denote h n)) := by
  obtain ⟨c', hh, _⟩ := treeHashCached_spec hwf hn hc
  rw [hh]; rfl

/-- Every sequence of pre-visits and cached hashes pushed through ONE cache, starting from the empty
cache, returns the specified hash at every step. -/
theorem history_eq {h : Heap} (hwf : WF h) (ops : List CacheOp) (hr : ∀ op, op ∈ ops → op.root < h.size) :
    (runHistory h Cache.empty ops).map (·.1) = some (specHistory h ops) := by
  obtain ⟨c', hrun, _⟩ := runHistory_spec hwf ops Cache.empty (cacheOK_empty h) hr
  rw [hrun]; rfl

/-- non-vacuity: a well-formed heap with a shared pair and a history that memoises and re-uses it -/
example : ∃ h : Heap, WF h ∧ 3 < h.size ∧
    (runHistory h Cache.empty [.hash 3, .visit 2, .hash 3, .hash 2]).isSome = true :=
  ⟨#[.small 1, .atom [0, 23], .pair 0 1, .pair 2 2],
   by intro n l r hn
      match n, hn with
      | 2, hn => simp at hn; omega
      | 3, hn => simp at hn; omega,
   by decide, by decide +kernel⟩

/-! ### (c) sharing is irrelevant -/

/-- The results of the plain and the memoizing routine depend only on the tree a pointer denotes:
two pointers (in the same or in different heaps, reached through caches with different histories)
that denote the same tree get the same hash from both routines. -/
theorem sharing_irrelevant {h h' : Heap} (hwf : WF h) (hwf' : WF h') {n n' : Nat} (hn : n < h.size)
    (hn' : n' < h'.size) {c c' : Cache} (hc : CacheOK h c) (hc' : CacheOK h' c')
    (e : denote h n = denote h' n') :
    treeHashIter h n = treeHashIter h' n' ∧
    (treeHashCached h n c).map (·.1) = (treeHashCached h' n' c').map (·.1) ∧
    (treeHashCached h n c).map (·.1) = treeHashIter h' n' := by
  rw [iter_eq hwf hn, iter_eq hwf' hn', cached_eq hwf hn hc, cached_eq hwf' hn' hc', e]
  exact ⟨rfl, rfl, rfl⟩

/-! ### (e) from serialisation -/

/-- The back-reference deserialiser always builds a well-formed heap and returns a pointer into it. -/
theorem deser_wf {b : Bytes} {heap : Heap} {root : Nat} (h : deserializeBackrefs b = some (heap, root)) :
    WF heap ∧ root < heap.size := deserializeBackrefs_ok h

/-- If `node_from_bytes_backrefs` yields a tree (with whatever sharing the back-references create),
`tree_hash_from_bytes` returns the tree hash of that tree. -/
theorem from_bytes_eq {b : Bytes} {heap : Heap} {root : Nat} (h : deserializeBackrefs b = some (heap, root)) :
    treeHashFromBytes b = some (Sexp.treeHash (denote heap root)) := by
  obtain ⟨hwf, hr⟩ := deserializeBackrefs_ok h
  obtain ⟨c', hh, _⟩ := treeHashCached_spec hwf hr (cacheOK_empty heap)
  simp only [treeHashFromBytes, h, hh]

/-- … and fails exactly when deserialisation fails. -/
theorem from_bytes_none {b : Bytes} (h : deserializeBackrefs b = none) : treeHashFromBytes b = none := by
  simp only [treeHashFromBytes, h]

/-- The deserialiser reads the plain serialisation (`node_to_bytes`) of any tree back as that tree
(`AtomsOK`: atoms are byte strings shorter than 2^34 bytes, the serialiser's own limit). -/
theorem deser_serialize (t : Sexp) (ht : AtomsOK t) :
    ∃ heap root, deserializeBackrefs (Sexp.serialize t) = some (heap, root) ∧ denote heap root = t :=
  deserializeBackrefs_serialize t ht

/-- Hence `tree_hash_from_bytes` of the plain serialisation of `t` is the tree hash of `t`, -/
theorem from_bytes_serialize (t : Sexp) (ht : AtomsOK t) :
    treeHashFromBytes (Sexp.serialize t) = some (Sexp.treeHash t) := by
  obtain ⟨heap, root, hd, ht'⟩ := deserializeBackrefs_serialize t ht
  rw [from_bytes_eq hd, ht']

/-- … and any byte string (e.g. one with back-references) that deserialises to the same tree gets
the same hash as the plain serialisation. -/
theorem from_bytes_modes {b : Bytes} {heap : Heap} {root : Nat} (h : deserializeBackrefs b = some (heap, root))
    (ht : AtomsOK (denote heap root)) :
    treeHashFromBytes b = treeHashFromBytes (Sexp.serialize (denote heap root)) := by
  rw [from_bytes_eq h, from_bytes_serialize _ ht]

/-- non-vacuity: a byte string with a back-reference, denoting a tree that satisfies `AtomsOK` -/
example : ∃ b heap root, deserializeBackrefs b = some (heap, root) ∧ AtomsOK (denote heap root) ∧
    denote heap root = .pair (.atom [0x66, 0x6f]) (.atom [0x66, 0x6f]) := by
  have hd : denote #[Node.small 26223, Node.pair 0 0] 1 = .pair (.atom [0x66, 0x6f]) (.atom [0x66, 0x6f]) := by
    decide +kernel
  refine ⟨[0xff, 0x82, 0x66, 0x6f, 0xfe, 0x02], #[.small 26223, .pair 0 0], 1, by decide +kernel, ?_, hd⟩
  rw [hd]
  exact ⟨⟨by decide, by decide⟩, ⟨by decide, by decide⟩⟩

/-! ### (f) currying from hashes alone -/

/-- `curry_tree_hash` of the program's hash and the arguments' hashes is the tree hash of the actual
curried program `(a (q . p) (c (q . a1) … 1))`. -/
theorem curry_eq (p : Sexp) (args : List Sexp) :
    curryTreeHash (Sexp.treeHash p) (args.map Sexp.treeHash) = Sexp.treeHash (curry p args) := by
  simp only [curryTreeHash, curry, th_pair, th_atom]
  rw [curryArgs_hash]

/-- `curry_and_treehash` (fast_forward.rs): with `mod_hash` the tree hash of the singleton top layer
`P` and `inner_puzzle_hash` that of the inner puzzle, the result is the tree hash of `P` curried with
the singleton struct `(mod_hash . (launcher_id . launcher_puzzle_hash))` and the inner puzzle. -/
theorem curry_and_treehash_eq (P inner : Sexp) (modHash launcherId launcherPh : Bytes)
    (hP : Sexp.treeHash P = modHash) :
    curryAndTreehash (Sexp.treeHash inner) modHash launcherId launcherPh =
      Sexp.treeHash (curry P [.pair (.atom modHash) (.pair (.atom launcherId) (.atom launcherPh)), inner]) := by
  simp only [curryAndTreehash, currySingleArg, curry, curryArgs, th_pair, th_atom, hP]

/-- non-vacuity of `curry_and_treehash_eq`: its hypothesis is satisfiable -/
example : ∃ P : Sexp, Sexp.treeHash P = Sexp.treeHash (.atom [1]) := ⟨.atom [1], rfl⟩

end ChiaModel.C17
