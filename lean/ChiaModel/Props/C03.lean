import ChiaModel.Lemmas.TimeLocks
import ChiaModel.Props.C02
import ChiaModel.Props.C01
import ChiaModel.Lemmas.Ephemeral
/-
C03 — time-lock aggregation and checking equal per-condition semantics.
-/
namespace ChiaModel.C03
open ChiaModel ChiaModel.Cond ChiaModel.TL

/-- what the property prescribes: every spend has a coin record and each of its individual lock and
birth assertions holds, by its arithmetic definition with saturating sums -/
def AllLocksHold (flags : Nat) (spends : List Spend) (trees : List Sexp) (lookup : Bytes → Option CoinRec)
    (prevHeight timestamp : Nat) : Prop :=
  ∀ p ∈ spends.zip trees, ∃ rec, lookup p.1.coinId = some rec ∧
    ∀ l ∈ spendLocks flags p.2, l.holds prevHeight timestamp rec = true

/-- core: for a summary that reflects the individual locks, the single folded comparison per field
is equivalent to all individual assertions holding -/
theorem check_iff_core (flags : Nat) (b : Bundle) (trees : List Sexp) (lookup : Bytes → Option CoinRec) (prev ts : Nat)
    (hb : BundleSum b (trees.flatMap (spendLocks flags))) (ha : All2 (SpendOk flags) b.spends trees) :
    checkTimeLocks true b lookup prev ts = true ↔ AllLocksHold flags b.spends trees lookup prev ts := by
  obtain ⟨hlen, hzip⟩ := ha.zip_mem
  simp only [checkTimeLocks, if_true, Bool.and_eq_true, List.all_eq_true]
  constructor
  · rintro ⟨habs, hsp⟩ p hp
    have hmem1 : p.1 ∈ b.spends := (List.of_mem_zip hp).1
    have hmem2 : p.2 ∈ trees := (List.of_mem_zip hp).2
    have hs := hsp p.1 hmem1
    cases hl : lookup p.1.coinId with
    | none => rw [hl] at hs; cases hs
    | some rec =>
      rw [hl] at hs
      refine ⟨rec, rfl, ?_⟩
      intro l hlm
      have hall : l ∈ trees.flatMap (spendLocks flags) := List.mem_flatMap.mpr ⟨p.2, hmem2, hlm⟩
      obtain ⟨s1, s2, s3, s4, s5, s6⟩ := hzip p hp
      simp only [checkSpend, Bool.and_eq_true] at hs
      obtain ⟨⟨⟨⟨⟨c1, c2⟩, c3⟩, c4⟩, c5⟩, c6⟩ := hs
      simp only [checkAbsolute, Bool.and_eq_true] at habs
      obtain ⟨⟨⟨a1, a2⟩, a3⟩, a4⟩ := habs
      cases l with
      | heightRel v =>
        have hv := (mem_hrOf _ v).mpr hlm
        cases hr : p.1.heightRelative with
        | none => rw [hr] at s1; simp only [MaxSpec] at s1; rw [s1] at hv; cases hv
        | some m =>
          rw [hr] at s1 c3; simp only [MaxSpec] at s1
          have := s1.2 v hv
          have hm := sat32_mono (Nat.add_le_add_left this rec.confirmedIndex)
          simp only [Lock.holds, decide_eq_true_eq]
          simp only [Bool.not_eq_true', decide_eq_false_iff_not, Nat.not_lt] at c3
          omega
      | secondsRel v =>
        have hv := (mem_srOf _ v).mpr hlm
        cases hr : p.1.secondsRelative with
        | none => rw [hr] at s2; simp only [MaxSpec] at s2; rw [s2] at hv; cases hv
        | some m =>
          rw [hr] at s2 c4; simp only [MaxSpec] at s2
          have := s2.2 v hv
          have hm := sat64_mono (Nat.add_le_add_left this rec.timestamp)
          simp only [Lock.holds, decide_eq_true_eq]
          simp only [Bool.not_eq_true', decide_eq_false_iff_not, Nat.not_lt] at c4
          omega
      | beforeHeightRel v =>
        have hv := (mem_bhrOf _ v).mpr hlm
        cases hr : p.1.beforeHeightRelative with
        | none => rw [hr] at s3; simp only [MinSpec] at s3; rw [s3] at hv; cases hv
        | some m =>
          rw [hr] at s3 c5; simp only [MinSpec] at s3
          have := s3.2 v hv
          have hm := sat32_mono (Nat.add_le_add_left this rec.confirmedIndex)
          simp only [Lock.holds, decide_eq_true_eq]
          simp only [Bool.not_eq_true', decide_eq_false_iff_not, Nat.not_le] at c5
          omega
      | beforeSecondsRel v =>
        have hv := (mem_bsrOf _ v).mpr hlm
        cases hr : p.1.beforeSecondsRelative with
        | none => rw [hr] at s4; simp only [MinSpec] at s4; rw [s4] at hv; cases hv
        | some m =>
          rw [hr] at s4 c6; simp only [MinSpec] at s4
          have := s4.2 v hv
          have hm := sat64_mono (Nat.add_le_add_left this rec.timestamp)
          simp only [Lock.holds, decide_eq_true_eq]
          simp only [Bool.not_eq_true', decide_eq_false_iff_not, Nat.not_le] at c6
          omega
      | birthHeight v =>
        have hv := (mem_bhOf _ v).mpr hlm
        cases hr : p.1.birthHeight with
        | none => rw [hr] at s5; simp only [SameSpec] at s5; rw [s5] at hv; cases hv
        | some m =>
          rw [hr] at s5 c1; simp only [SameSpec] at s5
          have := s5.2 v hv
          simp only [Lock.holds, decide_eq_true_eq]
          simp only [beq_iff_eq] at c1
          omega
      | birthSeconds v =>
        have hv := (mem_bsOf _ v).mpr hlm
        cases hr : p.1.birthSeconds with
        | none => rw [hr] at s6; simp only [SameSpec] at s6; rw [s6] at hv; cases hv
        | some m =>
          rw [hr] at s6 c2; simp only [SameSpec] at s6
          have := s6.2 v hv
          simp only [Lock.holds, decide_eq_true_eq]
          simp only [beq_iff_eq] at c2
          omega
      | heightAbs v =>
        have := hb.ha.1 v ((mem_haOf _ v).mpr hall)
        simp only [Lock.holds, decide_eq_true_eq]
        simp only [Bool.not_eq_true', decide_eq_false_iff_not, Nat.not_lt] at a1
        omega
      | secondsAbs v =>
        have := hb.sa.1 v ((mem_saOf _ v).mpr hall)
        simp only [Lock.holds, decide_eq_true_eq]
        simp only [Bool.not_eq_true', decide_eq_false_iff_not, Nat.not_lt] at a2
        omega
      | beforeHeightAbs v =>
        have hv := (mem_bhaOf _ v).mpr hall
        have h3 := hb.bha
        cases hr : b.beforeHeightAbsolute with
        | none => rw [hr] at h3; simp only [MinSpec] at h3; rw [h3] at hv; cases hv
        | some m =>
          rw [hr] at h3 a3; simp only [MinSpec] at h3
          have := h3.2 v hv
          simp only [Lock.holds, decide_eq_true_eq]
          simp only [Bool.not_eq_true', decide_eq_false_iff_not, Nat.not_le] at a3
          omega
      | beforeSecondsAbs v =>
        have hv := (mem_bsaOf _ v).mpr hall
        have h4 := hb.bsa
        cases hr : b.beforeSecondsAbsolute with
        | none => rw [hr] at h4; simp only [MinSpec] at h4; rw [h4] at hv; cases hv
        | some m =>
          rw [hr] at h4 a4; simp only [MinSpec] at h4
          have := h4.2 v hv
          simp only [Lock.holds, decide_eq_true_eq]
          simp only [Bool.not_eq_true', decide_eq_false_iff_not, Nat.not_le] at a4
          omega
  · intro hall
    -- a lock anywhere in the bundle belongs to some spend, whose record satisfies it
    have habsLock : ∀ l, l ∈ trees.flatMap (spendLocks flags) → ∃ rec, l.holds prev ts rec = true := by
      intro l hl
      obtain ⟨tree, htree, hlt⟩ := List.mem_flatMap.mp hl
      obtain ⟨sp, hsp⟩ := ha.exists_left htree
      obtain ⟨rec, _, hh⟩ := hall (sp, tree) hsp
      exact ⟨rec, hh l hlt⟩
    refine ⟨?_, ?_⟩
    · simp only [checkAbsolute, Bool.and_eq_true, Bool.not_eq_true', decide_eq_false_iff_not, Nat.not_lt]
      refine ⟨⟨⟨?_, ?_⟩, ?_⟩, ?_⟩
      · rcases hb.ha.2 with h0 | hm
        · omega
        · obtain ⟨rec, hh⟩ := habsLock _ ((mem_haOf _ _).mp hm)
          simpa [Lock.holds] using hh
      · rcases hb.sa.2 with h0 | hm
        · omega
        · obtain ⟨rec, hh⟩ := habsLock _ ((mem_saOf _ _).mp hm)
          simpa [Lock.holds] using hh
      · have h3 := hb.bha
        cases hr : b.beforeHeightAbsolute with
        | none => rfl
        | some m =>
          rw [hr] at h3; simp only [MinSpec] at h3
          obtain ⟨rec, hh⟩ := habsLock _ ((mem_bhaOf _ _).mp h3.1)
          simp only [Lock.holds, decide_eq_true_eq] at hh
          simp only [Bool.not_eq_true', decide_eq_false_iff_not, Nat.not_le]; exact hh
      · have h4 := hb.bsa
        cases hr : b.beforeSecondsAbsolute with
        | none => rfl
        | some m =>
          rw [hr] at h4; simp only [MinSpec] at h4
          obtain ⟨rec, hh⟩ := habsLock _ ((mem_bsaOf _ _).mp h4.1)
          simp only [Lock.holds, decide_eq_true_eq] at hh
          simp only [Bool.not_eq_true', decide_eq_false_iff_not, Nat.not_le]; exact hh
    · intro sp hsp
      obtain ⟨tree, hp⟩ := ha.exists_right hsp
      obtain ⟨rec, hl, hh⟩ := hall (sp, tree) hp
      obtain ⟨s1, s2, s3, s4, s5, s6⟩ := hzip (sp, tree) hp
      simp only at hl hh s1 s2 s3 s4 s5 s6
      rw [hl]
      simp only [checkSpend, Bool.and_eq_true]
      refine ⟨⟨⟨⟨⟨?_, ?_⟩, ?_⟩, ?_⟩, ?_⟩, ?_⟩
      · cases hr : sp.birthHeight with
        | none => rfl
        | some m =>
          rw [hr] at s5; simp only [SameSpec] at s5
          have := hh _ ((mem_bhOf _ _).mp s5.1)
          simp only [Lock.holds, decide_eq_true_eq] at this
          simp only [beq_iff_eq]; omega
      · cases hr : sp.birthSeconds with
        | none => rfl
        | some m =>
          rw [hr] at s6; simp only [SameSpec] at s6
          have := hh _ ((mem_bsOf _ _).mp s6.1)
          simp only [Lock.holds, decide_eq_true_eq] at this
          simp only [beq_iff_eq]; omega
      · cases hr : sp.heightRelative with
        | none => rfl
        | some m =>
          rw [hr] at s1; simp only [MaxSpec] at s1
          have := hh _ ((mem_hrOf _ _).mp s1.1)
          simp only [Lock.holds, decide_eq_true_eq] at this
          simp only [Bool.not_eq_true', decide_eq_false_iff_not, Nat.not_lt]; exact this
      · cases hr : sp.secondsRelative with
        | none => rfl
        | some m =>
          rw [hr] at s2; simp only [MaxSpec] at s2
          have := hh _ ((mem_srOf _ _).mp s2.1)
          simp only [Lock.holds, decide_eq_true_eq] at this
          simp only [Bool.not_eq_true', decide_eq_false_iff_not, Nat.not_lt]; exact this
      · cases hr : sp.beforeHeightRelative with
        | none => rfl
        | some m =>
          rw [hr] at s3; simp only [MinSpec] at s3
          have := hh _ ((mem_bhrOf _ _).mp s3.1)
          simp only [Lock.holds, decide_eq_true_eq] at this
          simp only [Bool.not_eq_true', decide_eq_false_iff_not, Nat.not_le]; exact this
      · cases hr : sp.beforeSecondsRelative with
        | none => rfl
        | some m =>
          rw [hr] at s4; simp only [MinSpec] at s4
          have := hh _ ((mem_bsrOf _ _).mp s4.1)
          simp only [Lock.holds, decide_eq_true_eq] at this
          simp only [Bool.not_eq_true', decide_eq_false_iff_not, Nat.not_le]; exact this

theorem postProcess_lockEq (env : Env) (ret : Bundle) (st : PState) : BundleLockEq (postProcess env ret st) ret := by
  unfold postProcess; split <;> simp [BundleLockEq]

/-- **C03, main theorem.**  For every accepted generator output `t` (any flags, either visitor, any cost
limit), every coin-record map and every chain state: the bundle passes `check_time_locks` in the
non-legacy (saturating) mode **iff** every spend has a coin record and every individual height /
seconds lock and birth assertion emitted by its conditions holds by its arithmetic definition. -/
theorem locks_iff (env : Env) (sigOk : List (Bytes × Bytes) → Bool) (t iter : Sexp) (L cc : Nat) (b : Bundle) (st : PState)
    (hf : first t = .ok iter) (h : parseSpends env sigOk t L cc = .ok (b, st))
    (lookup : Bytes → Option CoinRec) (prev ts : Nat) :
    checkTimeLocks true b lookup prev ts = true ↔ AllLocksHold env.flags b.spends (listElems iter) lookup prev ts := by
  obtain ⟨iter', ret, left, hf', hl, hv, rfl⟩ := C02.parseSpends_ok h
  rw [hf] at hf'; injection hf' with hf'; subst hf'
  obtain ⟨hb, ha⟩ := spendLoop_locks env cc iter {} {} _ L ret st left [] [] hl BundleSum_init All2.nil
  simp only [List.nil_append] at hb ha
  obtain ⟨g, hg, _⟩ := C02.postProcess_spends env ret st
  have hb' : BundleSum (postProcess env ret st) ((listElems iter).flatMap (spendLocks env.flags)) :=
    BundleSum_congr (postProcess_lockEq env ret st) hb
  have ha' : All2 (SpendOk env.flags) (postProcess env ret st).spends (listElems iter) := by
    rw [hg]
    exact ha.map_left _ (fun a tr hab => SpendSum_congr (by simp [SpendLockEq]) hab)
  have key := check_iff_core env.flags (postProcess env ret st) (listElems iter) lookup prev ts hb' ha'
  -- the two extra record updates (validated_signature, cost) do not touch locks or spends
  have e1 : checkTimeLocks true { postProcess env ret st with validatedSignature := !hasFlag env.flags Gen.flagDontValidateSignature, cost := L - left } lookup prev ts
      = checkTimeLocks true (postProcess env ret st) lookup prev ts := by
    simp [checkTimeLocks, checkAbsolute]
  rw [e1]
  exact key

/-! ### impossible constraints are rejected only when unsatisfiable -/

/-- two assertions that no chain state and coin record can satisfy together -/
def Conflict (l1 l2 : Lock) : Prop := ∀ prev ts rec, ¬ (l1.holds prev ts rec = true ∧ l2.holds prev ts rec = true)

theorem conflict_height_rel {v w : Nat} (h : w ≤ v) : Conflict (.heightRel v) (.beforeHeightRel w) := by
  intro prev ts rec ⟨h1, h2⟩
  simp only [Lock.holds, decide_eq_true_eq] at h1 h2
  have := sat32_mono (Nat.add_le_add_left h rec.confirmedIndex)
  omega

theorem conflict_seconds_rel {v w : Nat} (h : w ≤ v) : Conflict (.secondsRel v) (.beforeSecondsRel w) := by
  intro prev ts rec ⟨h1, h2⟩
  simp only [Lock.holds, decide_eq_true_eq] at h1 h2
  have := sat64_mono (Nat.add_le_add_left h rec.timestamp)
  omega

theorem conflict_birth_height {v w : Nat} (h : v ≠ w) : Conflict (.birthHeight v) (.birthHeight w) := by
  intro prev ts rec ⟨h1, h2⟩
  simp only [Lock.holds, decide_eq_true_eq] at h1 h2; omega

theorem conflict_birth_seconds {v w : Nat} (h : v ≠ w) : Conflict (.birthSeconds v) (.birthSeconds w) := by
  intro prev ts rec ⟨h1, h2⟩
  simp only [Lock.holds, decide_eq_true_eq] at h1 h2; omega

/-- **Impossible relative constraints / conflicting birth assertions.**  A lock or birth condition is
refused at parse time only if an earlier condition of the same spend contradicts it: no chain state
and coin record satisfies both.  (Absolute locks are never refused while parsing.) -/
theorem lock_refused_only_if_unsat (env : Env) (s : CSt) (c : Cond) (l : Lock) (ls : List Lock) (e : Err)
    (hl : lockOf c = some l) (he : applyCond env s c = .error e) (hs : SpendSum s.spend ls) :
    ∃ l' ∈ ls, Conflict l l' ∨ Conflict l' l := by
  obtain ⟨s1, s2, s3, s4, s5, s6⟩ := hs
  cases c <;> simp only [lockOf, Option.some.injEq, reduceCtorEq] at hl <;> subst hl <;> simp only [applyCond] at he
  case assertHeightRelative v =>
    split at he
    · rename_i hc
      cases hb : s.spend.beforeHeightRelative with
      | none => simp [hb, optLe] at hc
      | some w =>
        rw [hb] at s3 hc; simp only [MinSpec] at s3; simp only [optLe, decide_eq_true_eq] at hc
        exact ⟨_, (mem_bhrOf _ _).mp s3.1, Or.inl (conflict_height_rel hc)⟩
    · cases he
  case assertSecondsRelative v =>
    split at he
    · rename_i hc
      cases hb : s.spend.beforeSecondsRelative with
      | none => simp [hb, optLe] at hc
      | some w =>
        rw [hb] at s4 hc; simp only [MinSpec] at s4; simp only [optLe, decide_eq_true_eq] at hc
        exact ⟨_, (mem_bsrOf _ _).mp s4.1, Or.inl (conflict_seconds_rel hc)⟩
    · cases he
  case assertBeforeHeightRelative v =>
    split at he
    · rename_i hc
      cases hb : s.spend.heightRelative with
      | none => simp [hb, optGe] at hc
      | some w =>
        rw [hb] at s1 hc; simp only [MaxSpec] at s1; simp only [optGe, decide_eq_true_eq] at hc
        exact ⟨_, (mem_hrOf _ _).mp s1.1, Or.inr (conflict_height_rel hc)⟩
    · cases he
  case assertBeforeSecondsRelative v =>
    split at he
    · rename_i hc
      cases hb : s.spend.secondsRelative with
      | none => simp [hb, optGe] at hc
      | some w =>
        rw [hb] at s2 hc; simp only [MaxSpec] at s2; simp only [optGe, decide_eq_true_eq] at hc
        exact ⟨_, (mem_srOf _ _).mp s2.1, Or.inr (conflict_seconds_rel hc)⟩
    · cases he
  case assertMyBirthHeight v =>
    split at he
    · rename_i hc
      cases hb : s.spend.birthHeight with
      | none => simp [hb, isSomeNe] at hc
      | some w =>
        rw [hb] at s5 hc; simp only [SameSpec] at s5; simp only [isSomeNe, decide_eq_true_eq] at hc
        exact ⟨_, (mem_bhOf _ _).mp s5.1, Or.inl (conflict_birth_height (Ne.symm hc))⟩
    · cases he
  case assertMyBirthSeconds v =>
    split at he
    · rename_i hc
      cases hb : s.spend.birthSeconds with
      | none => simp [hb, isSomeNe] at hc
      | some w =>
        rw [hb] at s6 hc; simp only [SameSpec] at s6; simp only [isSomeNe, decide_eq_true_eq] at hc
        exact ⟨_, (mem_bsOf _ _).mp s6.1, Or.inl (conflict_birth_seconds (Ne.symm hc))⟩
    · cases he
  all_goals cases he

/-- **Impossible absolute constraints.**  `validate_conditions` refuses a before-height against an
after-height only when no previous-block height satisfies the folded bounds, i.e. (by `BundleSum`)
the individual absolute height assertions of the bundle cannot all hold. -/
theorem abs_height_refused_only_if_unsat (b : Bundle) (ls : List Lock) (hb : BundleSum b ls)
    (h : optLe b.beforeHeightAbsolute b.heightAbsolute = true) :
    ∀ prev ts rec, ¬ (∀ l ∈ ls, l.holds prev ts rec = true) := by
  intro prev ts rec hall
  cases hbh : b.beforeHeightAbsolute with
  | none => simp [hbh, optLe] at h
  | some w =>
    have h3 := hb.bha
    rw [hbh] at h h3; simp only [MinSpec] at h3; simp only [optLe, decide_eq_true_eq] at h
    have hw := hall _ ((mem_bhaOf _ _).mp h3.1)
    simp only [Lock.holds, decide_eq_true_eq] at hw
    rcases hb.ha.2 with h0 | hm
    · omega
    · have hv := hall _ ((mem_haOf _ _).mp hm)
      simp only [Lock.holds, decide_eq_true_eq] at hv
      omega

theorem abs_seconds_refused_only_if_unsat (b : Bundle) (ls : List Lock) (hb : BundleSum b ls)
    (h : optLe b.beforeSecondsAbsolute b.secondsAbsolute = true) :
    ∀ prev ts rec, ¬ (∀ l ∈ ls, l.holds prev ts rec = true) := by
  intro prev ts rec hall
  cases hbh : b.beforeSecondsAbsolute with
  | none => simp [hbh, optLe] at h
  | some w =>
    have h3 := hb.bsa
    rw [hbh] at h h3; simp only [MinSpec] at h3; simp only [optLe, decide_eq_true_eq] at h
    have hw := hall _ ((mem_bsaOf _ _).mp h3.1)
    simp only [Lock.holds, decide_eq_true_eq] at hw
    rcases hb.sa.2 with h0 | hm
    · omega
    · have hv := hall _ ((mem_saOf _ _).mp hm)
      simp only [Lock.holds, decide_eq_true_eq] at hv
      omega

/-! ### relative or birth assertions on a coin created in the same bundle are rejected -/

theorem isEphemeral_flags_irrelevant (st : PState) (spends : List Spend) (g : Spend → Nat) (i : Nat) :
    isEphemeral st (spends.map (fun sp => { sp with flags := g sp })) i = isEphemeral st spends i := by
  unfold isEphemeral
  simp only [List.getElem?_map]
  cases spends[i]? with
  | none => rfl
  | some sp =>
    simp only [Option.map_some]
    cases st.spentCoins.idxOf? sp.parentId with
    | none => rfl
    | some pidx =>
      simp only
      cases spends[pidx]? with
      | none => rfl
      | some parent => rfl

/-- **Ephemeral rule.**  In every accepted generator output, a spend that carries a relative lock or a
birth assertion — including negative relative locks (tautologies) and oversized before-relative ones —
is not an ephemeral coin: it is not the case that its parent is spent in the same bundle and created
exactly its (puzzle hash, amount).  Equivalently: such an assertion on a coin created in the same
bundle makes the bundle invalid. -/
theorem ephemeral_rule (env : Env) (sigOk : List (Bytes × Bytes) → Bool) (t iter : Sexp) (L cc : Nat) (b : Bundle) (st : PState)
    (hf : first t = .ok iter) (h : parseSpends env sigOk t L cc = .ok (b, st))
    (i : Nat) (tree : Sexp) (hi : (listElems iter)[i]? = some tree) (hrel : spendHasRel env.flags tree) :
    isEphemeral st b.spends i = false := by
  obtain ⟨iter', ret, left, hf', hl, hv, rfl⟩ := C02.parseSpends_ok h
  rw [hf] at hf'; injection hf' with hf'; subst hf'
  obtain ⟨_, hall⟩ := spendLoop_ne env cc iter {} {} _ L ret st left [] hl rfl (by intro i tree hi; simp at hi)
  simp only [List.nil_append] at hall
  have hmem := hall i tree hi hrel
  have hv' := (C01.validateConditions_iff _ _).mp hv
  have := hv'.2.2.2.2.2.2.2.2.1 i hmem
  exact this

/-- non-vacuity: a concrete state in which a relative lock holds exactly at the boundary and fails one below -/
example : (Lock.heightRel 10).holds 110 0 ⟨100, 0⟩ = true ∧ (Lock.heightRel 10).holds 109 0 ⟨100, 0⟩ = false
    ∧ (Lock.beforeHeightRel 4294967295).holds 4294967294 0 ⟨5, 0⟩ = true := by decide

end ChiaModel.C03
