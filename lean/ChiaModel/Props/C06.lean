import ChiaModel.Lemmas.Strict
import ChiaModel.Lemmas.Perm
import ChiaModel.Lemmas.PermLoop
/-
C06 — strict modes only restrict, and ordering never changes the verdict.

Theorems about the executable model of `parse_spends` (Model/Conditions.lean).

Part 1 (strictness): complete.  `StricterThan e1 e2` (Lemmas/Strict.lean) says that `e1` and `e2` use
the same visitor, the same key validity, the same COST_CONDITIONS and DONT_VALIDATE_SIGNATURE bits and
that each of NO_UNKNOWN_CONDS, STRICT_ARGS_COUNT, LIMIT_SPENDS that is set in `e2` is set in `e1`.

Part 2 (order of the conditions of one spend): proved for the effect of the parsed conditions
(`applyCond`, the big `match` of `parse_conditions`: `perm_conditions_partial`), for the whole condition
loop `condLoop` including argument parsing, cost countdown and visitor (`perm_conditions_loop_partial`) and
for one spend (`perm_conditions_spend_partial`).  Not proved: the propagation of a reordering inside one
spend through the remaining spends and the deferred validation of the bundle (`open_perm_conditions_bundle`),
and the order of the spends of a bundle (`open_perm_spends`).
-/
namespace ChiaModel.C06
open ChiaModel ChiaModel.Cond

/-! ### strict modes only restrict -/

/-- **Strict modes only restrict.**  If `parse_spends` accepts under an environment `e1` that is at
least as strict as `e2` (and otherwise reads the same: same fork flags COST_CONDITIONS /
DONT_VALIDATE_SIGNATURE, same visitor, same key validity), then it accepts under `e2` with the
identical bundle summary (every field, including `cost`) and the identical parse state. -/
theorem strict_monotone {e1 e2 : Env} (h : StricterThan e1 e2) (sigOk : List (Bytes × Bytes) → Bool)
    (t : Sexp) (L cc : Nat) (b : Bundle) (st : PState)
    (hacc : parseSpends e1 sigOk t L cc = .ok (b, st)) : parseSpends e2 sigOk t L cc = .ok (b, st) :=
  (parseSpends_mono h sigOk t L cc).imp (b, st) hacc

/-- `strict_monotone` in terms of flag words: or-ing any bits `S` that do not touch the two fork flags
the model reads (COST_CONDITIONS, DONT_VALIDATE_SIGNATURE) into the flag word can only turn an
acceptance into a rejection, never change an accepted result. -/
theorem strict_flags_only_restrict (env : Env) (S : Nat) (h1 : S &&& Gen.flagCostConditions = 0)
    (h2 : S &&& Gen.flagDontValidateSignature = 0) (sigOk : List (Bytes × Bytes) → Bool)
    (t : Sexp) (L cc : Nat) (r : Bundle × PState)
    (hacc : parseSpends { env with flags := env.flags ||| S } sigOk t L cc = .ok r) :
    parseSpends env sigOk t L cc = .ok r :=
  (parseSpends_mono (stricterThan_or env S h1 h2) sigOk t L cc).imp r hacc

/-- **Mempool admission never admits what a block would reject.**  For `S` any bitwise-or of the three
strictness flag constants NO_UNKNOWN_CONDS, STRICT_ARGS_COUNT, LIMIT_SPENDS (`strictMask` enumerates the
eight combinations), acceptance with `flags ||| S` implies acceptance with `flags`, with the identical
summary and parse state. -/
theorem strict_mask_only_restrict (env : Env) (nu sac ls : Bool) (sigOk : List (Bytes × Bytes) → Bool)
    (t : Sexp) (L cc : Nat) (r : Bundle × PState)
    (hacc : parseSpends { env with flags := env.flags ||| strictMask nu sac ls } sigOk t L cc = .ok r) :
    parseSpends env sigOk t L cc = .ok r :=
  strict_flags_only_restrict env _ (strictMask_disjoint nu sac ls).1 (strictMask_disjoint nu sac ls).2
    sigOk t L cc r hacc

/-- the eight values of `strictMask` are exactly the bitwise-or combinations of the three constants
(in particular the full mask is `NO_UNKNOWN_CONDS | STRICT_ARGS_COUNT | LIMIT_SPENDS`) -/
theorem strictMask_values :
    strictMask false false false = 0 ∧
    strictMask true false false = Gen.flagNoUnknownConds ∧
    strictMask false true false = Gen.flagStrictArgsCount ∧
    strictMask false false true = Gen.flagLimitSpends ∧
    strictMask true true false = Gen.flagNoUnknownConds ||| Gen.flagStrictArgsCount ∧
    strictMask true false true = Gen.flagNoUnknownConds ||| Gen.flagLimitSpends ∧
    strictMask false true true = Gen.flagStrictArgsCount ||| Gen.flagLimitSpends ∧
    strictMask true true true = Gen.flagNoUnknownConds ||| Gen.flagStrictArgsCount ||| Gen.flagLimitSpends := by
  decide

/-- **Equal cost.**  An accepted strict run and the accepted non-strict run of the same tree report the
same cost (and in fact the same summary). -/
theorem cost_strict_equal {e1 e2 : Env} (h : StricterThan e1 e2) (sigOk : List (Bytes × Bytes) → Bool)
    (t : Sexp) (L cc : Nat) (b1 b2 : Bundle) (st1 st2 : PState)
    (h1 : parseSpends e1 sigOk t L cc = .ok (b1, st1)) (h2 : parseSpends e2 sigOk t L cc = .ok (b2, st2)) :
    b1.cost = b2.cost ∧ b1.conditionCost = b2.conditionCost ∧ b1.executionCost = b2.executionCost := by
  have h3 := strict_monotone h sigOk t L cc b1 st1 h1
  rw [h2] at h3
  injection h3 with h3; injection h3 with h3 _
  subst h3
  exact ⟨rfl, rfl, rfl⟩

/-- non-vacuity of `StricterThan`: the full mempool strictness mask over any flag word -/
example (env : Env) :
    StricterThan { env with flags := env.flags ||| (Gen.flagNoUnknownConds ||| Gen.flagStrictArgsCount ||| Gen.flagLimitSpends) } env :=
  stricterThan_or env _ (by decide) (by decide)

/-- `StricterThan` really orders the flags: with the mask the three strictness bits are on -/
example : hasFlag (0 ||| strictMask true true true) Gen.flagNoUnknownConds = true ∧
    hasFlag (0 ||| strictMask true true true) Gen.flagStrictArgsCount = true ∧
    hasFlag (0 ||| strictMask true true true) Gen.flagLimitSpends = true ∧
    hasFlag 0 Gen.flagNoUnknownConds = false := by decide

/-! ### order of the conditions within a spend -/

/-- **Order of conditions, effect of the parsed conditions.**  Let `l1`, `l2` be two lists of already
parsed conditions that are permutations of each other, applied in order with `applyCond` (the `match cva`
of `parse_conditions`) from the same per-spend state `s`.  If `l1` is accepted then `l2` is accepted,
and the two final states are `CEquiv`: they agree on *every* field of the bundle summary, the spend
record, the parse state, the announcement countdown and the condition counter, except that the
list-valued fields (`create_coin`, the eight `agg_sig_*` lists, the announcement / assertion / message
lists and the (pk, msg) pairs) are permutations of each other.

`_partial`: relative to the C06 sentence "reordering the conditions within a spend never changes
acceptance, cost or any aggregate", this covers the effect of the conditions on the summary and the
acceptance decisions made by that effect (duplicate CREATE_COIN, RESERVE_FEE overflow, impossible
relative/birth constraints, ASSERT_MY_*, key validity, the 1024-announcement limit).  Not covered
here: (a) the argument parser and the cost countdown of `condLoop`, (b) the visitor's `flags` updates —
both are covered by `perm_conditions_loop_partial` —, and (c) the deferred bundle-level validation
(`validate_conditions`), see `open_perm_conditions_bundle`. -/
theorem perm_conditions_partial (env : Env) (s : CSt) {l1 l2 : List Cond} (hp : List.Perm l1 l2) {t1 : CSt}
    (h1 : applyAll env s l1 = .ok t1) : ∃ t2, applyAll env s l2 = .ok t2 ∧ CEquiv t1 t2 :=
  applyAll_perm env hp h1

/-- **Acceptance is independent of the order** of a list of parsed conditions (same scope as
`perm_conditions_partial`). -/
theorem perm_accept_iff_partial (env : Env) (s : CSt) {l1 l2 : List Cond} (hp : List.Perm l1 l2) :
    (∃ t1, applyAll env s l1 = .ok t1) ↔ (∃ t2, applyAll env s l2 = .ok t2) := by
  constructor
  · rintro ⟨t1, h⟩; obtain ⟨t2, h2, _⟩ := applyAll_perm env hp h; exact ⟨t2, h2⟩
  · rintro ⟨t2, h⟩; obtain ⟨t1, h1, _⟩ := applyAll_perm env hp.symm h; exact ⟨t1, h1⟩

/-- `perm_accept`: swapping the first two conditions of an accepted list gives an accepted list
(the pairwise rules — duplicate coins, fee overflow, relative/birth constraints, the announcement
countdown — are symmetric). -/
theorem perm_accept (env : Env) (s : CSt) (a b : Cond) (l : List Cond) {t : CSt}
    (h : applyAll env s (a :: b :: l) = .ok t) : ∃ t', applyAll env s (b :: a :: l) = .ok t' ∧ CEquiv t t' :=
  applyAll_perm env (List.Perm.swap b a l) h

/-- When both orders are accepted the results agree on every aggregate of the summary and of the spend
record; the created coins agree up to order. -/
theorem perm_conditions_fields_partial (env : Env) (s : CSt) {l1 l2 : List Cond} (hp : List.Perm l1 l2) {t1 t2 : CSt}
    (h1 : applyAll env s l1 = .ok t1) (h2 : applyAll env s l2 = .ok t2) :
    t1.ret.reserveFee = t2.ret.reserveFee ∧ t1.ret.heightAbsolute = t2.ret.heightAbsolute ∧
    t1.ret.secondsAbsolute = t2.ret.secondsAbsolute ∧
    t1.ret.beforeHeightAbsolute = t2.ret.beforeHeightAbsolute ∧
    t1.ret.beforeSecondsAbsolute = t2.ret.beforeSecondsAbsolute ∧
    t1.ret.additionAmount = t2.ret.additionAmount ∧
    t1.spend.heightRelative = t2.spend.heightRelative ∧ t1.spend.secondsRelative = t2.spend.secondsRelative ∧
    t1.spend.beforeHeightRelative = t2.spend.beforeHeightRelative ∧
    t1.spend.beforeSecondsRelative = t2.spend.beforeSecondsRelative ∧
    t1.spend.birthHeight = t2.spend.birthHeight ∧ t1.spend.birthSeconds = t2.spend.birthSeconds ∧
    t1.spend.flags = t2.spend.flags ∧ t1.countdown = t2.countdown ∧
    List.Perm t1.spend.createCoin t2.spend.createCoin ∧
    List.Perm t1.ret.aggSigUnsafe t2.ret.aggSigUnsafe ∧ List.Perm t1.spend.aggSigMe t2.spend.aggSigMe ∧
    List.Perm t1.st.pkmPairs t2.st.pkmPairs ∧ List.Perm t1.st.messages t2.st.messages := by
  obtain ⟨t2', h2', e⟩ := applyAll_perm env hp h1
  rw [h2] at h2'; injection h2' with h2'; subst h2'
  exact ⟨e.ret_reserveFee, e.ret_heightAbsolute, e.ret_secondsAbsolute, e.ret_beforeHeightAbsolute,
    e.ret_beforeSecondsAbsolute, e.ret_additionAmount, e.spend_heightRelative, e.spend_secondsRelative,
    e.spend_beforeHeightRelative, e.spend_beforeSecondsRelative, e.spend_birthHeight, e.spend_birthSeconds,
    e.spend_flags, e.countdown, e.spend_createCoin, e.ret_aggSigUnsafe, e.spend_aggSigMe, e.st_pkmPairs,
    e.st_messages⟩

/-- non-vacuity: two different conditions, both orders accepted from a fresh spend record -/
example : ∃ t, applyAll ⟨0, false, fun _ => true⟩
    { ret := {}, st := {}, spend := { parentId := [], coinAmount := 5, puzzleHash := [], coinId := [] } }
    [.reserveFee 3, .createCoin [1] 2 none, .assertHeightRelative 7, .assertBeforeHeightRelative 9] = .ok t :=
  ⟨_, rfl⟩

/-! ### order of the conditions: the whole condition loop, one spend -/

/-- **Order of conditions, the condition loop of `parse_conditions`.**  Let `t`, `t'` be NIL-terminated
condition lists whose elements are permutations of each other (`sexpList`).  If `condLoop` (opcode
recognition, pre-charge, argument parsing under the flags, visitor, effect, SOFTFORK charge, for every
element) accepts `t` from per-spend state `s` with cost countdown `m`, leaving countdown `m1`, then it
accepts `t'` leaving the *same* countdown `m1` (so the same cost is charged), and

* the final states agree on every field up to the listing order of list-valued items (`CEquiv`) after
  ELIGIBLE_FOR_FF is cleared in the spend flags of both (`wrapF (false, true) · 0 0` only clears that bit);
* they agree up to listing order outright — including ELIGIBLE_FOR_FF and ELIGIBLE_FOR_DEDUP — if the
  visitor is the empty one (block validation) or no element parses to ASSERT_MY_PARENT_ID, the one
  condition whose treatment by the mempool visitor depends on its position (`condition_counter`).

Which error is reported for a rejected list may depend on the order (cost-exceeded vs. reject); the
theorem is about acceptance.  `_partial`: one condition loop; see `open_perm_conditions_bundle`. -/
theorem perm_conditions_loop_partial (env : Env) {t t' : Sexp} {cs cs' : List Sexp}
    (ht : sexpList t = some cs) (ht' : sexpList t' = some cs') (hp : List.Perm cs cs')
    {s : CSt} {m : Nat} {s1 : CSt} {m1 : Nat} (hrun : condLoop env t s m = .ok (s1, m1)) :
    ∃ s2, condLoop env t' s m = .ok (s2, m1) ∧
      CEquiv (wrapF (false, true) s1 0 0) (wrapF (false, true) s2 0 0) ∧
      ((env.mempool = false ∨ ∀ items, parseAll env.flags cs = .ok items → NoParentId items) → CEquiv s1 s2) :=
  condLoop_perm env ht ht' hp hrun

/-- what `wrapF (false, true) · 0 0` does: it clears ELIGIBLE_FOR_FF in the spend flags and nothing else -/
theorem wrapF_clear_ff (s : CSt) :
    wrapF (false, true) s 0 0 = { s with spend := { s.spend with flags := clearFlag s.spend.flags ELIGIBLE_FOR_FF } } := rfl

/-- **Order of conditions, one spend** (`process_single_spend` + `parse_conditions`): with the condition
list of the spend permuted, the spend is accepted iff it was, the same cost budget is left, and the
per-spend states from which the two results are finished (`finishSpend`) are related as in
`perm_conditions_loop_partial`.  `_partial`: one spend; the effect on the later spends of the bundle and on
`validate_conditions` is `open_perm_conditions_bundle`. -/
theorem perm_conditions_spend_partial (env : Env) {conds conds' : Sexp} {cs cs' : List Sexp}
    (ht : sexpList conds = some cs) (ht' : sexpList conds' = some cs') (hp : List.Perm cs cs')
    {ret : Bundle} {st : PState} {parent ph amount : Sexp} {cc m : Nat} {r1 : Bundle} {p1 : PState} {m1 : Nat}
    (h : processSingleSpend env ret st parent ph amount conds cc m = .ok ((r1, p1), m1)) :
    ∃ s1 s2, (r1, p1) = finishSpend env s1 ∧
      processSingleSpend env ret st parent ph amount conds' cc m = .ok (finishSpend env s2, m1) ∧
      CEquiv (wrapF (false, true) s1 0 0) (wrapF (false, true) s2 0 0) ∧
      ((env.mempool = false ∨ ∀ items, parseAll env.flags cs = .ok items → NoParentId items) → CEquiv s1 s2) :=
  processSingleSpend_perm env ht ht' hp h

/-- **The condition loop, order-free**: `condLoop` accepts a NIL-terminated list iff every element parses
(`parseAll`), the total charge (`totalCost`, a sum) fits the countdown, and the parsed conditions are
accepted in order by `applyAll`; the result is the state reached by `applyAll` with the total charge
booked, the conditions counted and the visitor's flags cleared. -/
theorem condLoop_factorisation (env : Env) (cs : List Sexp) (t : Sexp) (ht : sexpList t = some cs)
    (s : CSt) (m : Nat) (s' : CSt) (m' : Nat) :
    condLoop env t s m = .ok (s', m') ↔
      ∃ items, parseAll env.flags cs = .ok items ∧ totalCost env.flags items ≤ m ∧ m' = m - totalCost env.flags items ∧
        ∃ u, applyAll env s (itemConds items) = .ok u ∧
          s' = wrapF (allBits env.mempool s.counter items) u (totalCount items) (totalCost env.flags items) :=
  condLoop_iff env cs t ht s m s' m'

/-- non-vacuity of the side condition: a list without ASSERT_MY_PARENT_ID -/
example : NoParentId [.unknown, .known Gen.opReserveFee (.reserveFee 1)] := by
  intro it hit op id
  simp only [List.mem_cons, List.mem_nil_iff, or_false] at hit
  rcases hit with rfl | rfl <;> simp

/-! ### open -/

/-- OPEN (not proved): the same statement for the order of the *spends* of a bundle.  If the spend
list `t'` is a permutation of the spend list `t` and the signature verdict does not depend on the order
of the (pk, msg) pairs, then `parseSpends` accepts `t'` whenever it accepts `t`, with the same cost and
the same aggregates, the `spends` list being permuted accordingly (spend records compared up to
`CEquiv`-style listing order).  Stated here for cost and the scalar aggregates. -/
def open_perm_spends : Prop :=
  ∀ (env : Env) (sigOk : List (Bytes × Bytes) → Bool) (t t' tl tl' : Sexp) (xs xs' : List Sexp)
    (L cc : Nat) (b : Bundle) (st : PState),
    (∀ pairs pairs', List.Perm pairs pairs' → sigOk pairs = sigOk pairs') →
    sexpList t = some xs → sexpList t' = some xs' → List.Perm xs xs' →
    parseSpends env sigOk (.pair t tl) L cc = .ok (b, st) →
    ∃ b' st', parseSpends env sigOk (.pair t' tl') L cc = .ok (b', st') ∧ b'.cost = b.cost ∧
      b'.conditionCost = b.conditionCost ∧ b'.executionCost = b.executionCost ∧
      b'.removalAmount = b.removalAmount ∧ b'.additionAmount = b.additionAmount ∧
      b'.reserveFee = b.reserveFee ∧ b'.heightAbsolute = b.heightAbsolute ∧
      b'.secondsAbsolute = b.secondsAbsolute ∧ b'.beforeHeightAbsolute = b.beforeHeightAbsolute ∧
      b'.beforeSecondsAbsolute = b.beforeSecondsAbsolute ∧ b'.spends.length = b.spends.length

/-- OPEN (not proved): propagation of `perm_conditions_spend_partial` to the bundle — if the condition
list of one spend is permuted, `parseSpends` accepts iff it did, with the same cost and the same scalar
aggregates.  (Needs: the spend loop and `validate_conditions` respect equality up to listing order.) -/
def open_perm_conditions_bundle : Prop :=
  ∀ (env : Env) (sigOk : List (Bytes × Bytes) → Bool) (pre post : List Sexp) (parent ph amount conds conds' rest rest' tl tl' t t' : Sexp)
    (cs cs' : List Sexp) (L cc : Nat) (b : Bundle) (st : PState),
    (∀ pairs pairs', List.Perm pairs pairs' → sigOk pairs = sigOk pairs') →
    sexpList conds = some cs → sexpList conds' = some cs' → List.Perm cs cs' →
    sexpList t = some (pre ++ [.pair parent (.pair ph (.pair amount (.pair conds rest)))] ++ post) →
    sexpList t' = some (pre ++ [.pair parent (.pair ph (.pair amount (.pair conds' rest')))] ++ post) →
    parseSpends env sigOk (.pair t tl) L cc = .ok (b, st) →
    ∃ b' st', parseSpends env sigOk (.pair t' tl') L cc = .ok (b', st') ∧ b'.cost = b.cost ∧
      b'.conditionCost = b.conditionCost ∧ b'.removalAmount = b.removalAmount ∧
      b'.additionAmount = b.additionAmount ∧ b'.reserveFee = b.reserveFee ∧
      b'.heightAbsolute = b.heightAbsolute ∧ b'.secondsAbsolute = b.secondsAbsolute ∧
      b'.beforeHeightAbsolute = b.beforeHeightAbsolute ∧ b'.beforeSecondsAbsolute = b.beforeSecondsAbsolute ∧
      b'.spends.length = b.spends.length

end ChiaModel.C06
