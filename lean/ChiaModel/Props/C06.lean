import ChiaModel.Lemmas.Strict
import ChiaModel.Lemmas.Perm
import ChiaModel.Lemmas.PermLoop
import ChiaModel.Lemmas.PermBundle
/-
C06 — strict modes only restrict, and ordering never changes the verdict.

Theorems about the executable model of `parse_spends` (Model/Conditions.lean).

Part 1 (strictness): complete.  `StricterThan e1 e2` (Lemmas/Strict.lean) says that `e1` and `e2` use
the same visitor, the same key validity, the same COST_CONDITIONS and DONT_VALIDATE_SIGNATURE bits and
that each of NO_UNKNOWN_CONDS, STRICT_ARGS_COUNT, LIMIT_SPENDS that is set in `e2` is set in `e1`.

Part 2 (order of the conditions of one spend): proved for the effect of the parsed conditions
(`applyCond`, the big `match` of `parse_conditions`: `perm_conditions_partial`), for the whole condition
loop `condLoop` including argument parsing, cost countdown and visitor (`perm_conditions_loop_partial`) and
for one spend (`perm_conditions_spend_partial`); these describe the per-spend state up to listing order and
ELIGIBLE_FOR_FF.

Part 3 (whole bundle, via the refinement `C01.C01_refines` to the order-free rules): the order of the
spends of a bundle (`perm_spends`, `perm_spends_accept_iff`) and the order of the conditions of one spend
seen through the whole of `parse_spends`, i.e. through the remaining spends and the deferred validation
(`perm_conditions_bundle`, `perm_conditions_bundle_accept_iff`).  Lemmas: Lemmas/PermBundle.lean.
-/
namespace ChiaModel.C06
open ChiaModel ChiaModel.Cond

/-! ### strict modes only restrict -/

/-- **Strict modes only restrict.**  If `parse_spends` accepts under an environment `e1` that is at
least as strict as `e2` (and otherwise reads the same: same fork flags COST_CONDITIONS /
DONT_VALIDATE_SIGNATURE, same visitor, same key validity), then it accepts under `e2` with the
identical bundle summary (every field, including `cost`) and the identical parse state. -/
theorem strict_monotone {e1 e2 : Env} (h : StricterThan e1 e2) (sigOk : List (Bytes × Bytes) → Bool)
    (t : Sexp) (L cc : Nat) (b : Bundle) (st : PState)
    (hacc : parseSpends e1 sigOk t L cc = .ok (b, st)) : parseSpends e2 sigOk t L cc = .ok (b, st) :=
  (parseSpends_mono h sigOk t L cc).imp (b, st) hacc

/-- `strict_monotone` in terms of flag words: or-ing any bits `S` that do not touch the two fork flags
the model reads (COST_CONDITIONS, DONT_VALIDATE_SIGNATURE) into the flag word can only turn an
acceptance into a rejection, never change an accepted result. -/
theorem strict_flags_only_restrict (env : Env) (S : Nat) (h1 : S &&& Gen.flagCostConditions = 0)
    (h2 : S &&& Gen.flagDontValidateSignature = 0) (sigOk : List (Bytes × Bytes) → Bool)
    (t : Sexp) (L cc : Nat) (r : Bundle × PState)
    (hacc : parseSpends { env with flags := env.flags ||| S } sigOk t L cc = .ok r) :
    parseSpends env sigOk t L cc = .ok r :=
  (parseSpends_mono (stricterThan_or env S h1 h2) sigOk t L cc).imp r hacc

/-- **Mempool admission never admits what a block would reject.**  For `S` any bitwise-or of the three
strictness flag constants NO_UNKNOWN_CONDS, STRICT_ARGS_COUNT, LIMIT_SPENDS (`strictMask` enumerates the
eight combinations), acceptance with `flags ||| S` implies acceptance with `flags`, with the identical
summary and parse state. -/
theorem strict_mask_only_restrict (env : Env) (nu sac ls : Bool) (sigOk : List (Bytes × Bytes) → Bool)
    (t : Sexp) (L cc : Nat) (r : Bundle × PState)
    (hacc : parseSpends { env with flags := env.flags ||| strictMask nu sac ls } sigOk t L cc = .ok r) :
    parseSpends env sigOk t L cc = .ok r :=
  strict_flags_only_restrict env _ (strictMask_disjoint nu sac ls).1 (strictMask_disjoint nu sac ls).2
    sigOk t L cc r hacc

/-- the eight values of `strictMask` are exactly the bitwise-or combinations of the three constants
(in particular the full mask is `NO_UNKNOWN_CONDS | STRICT_ARGS_COUNT | LIMIT_SPENDS`) -/
theorem strictMask_values :
    strictMask false false false = 0 ∧
    strictMask true false false = Gen.flagNoUnknownConds ∧
    strictMask false true false = Gen.flagStrictArgsCount ∧
    strictMask false false true = Gen.flagLimitSpends ∧
    strictMask true true false = Gen.flagNoUnknownConds ||| Gen.flagStrictArgsCount ∧
    strictMask true false true = Gen.flagNoUnknownConds ||| Gen.flagLimitSpends ∧
    strictMask false true true = Gen.flagStrictArgsCount ||| Gen.flagLimitSpends ∧
    strictMask true true true = Gen.flagNoUnknownConds ||| Gen.flagStrictArgsCount ||| Gen.flagLimitSpends := by
  decide

/-- **Equal cost.**  An accepted strict run and the accepted non-strict run of the same tree report the
same cost (and in fact the same summary). -/
theorem cost_strict_equal {e1 e2 : Env} (h : StricterThan e1 e2) (sigOk : List (Bytes × Bytes) → Bool)
    (t : Sexp) (L cc : Nat) (b1 b2 : Bundle) (st1 st2 : PState)
    (h1 : parseSpends e1 sigOk t L cc = .ok (b1, st1)) (h2 : parseSpends e2 sigOk t L cc = .ok (b2, st2)) :
    b1.cost = b2.cost ∧ b1.conditionCost = b2.conditionCost ∧ b1.executionCost = b2.executionCost := by
  have h3 := strict_monotone h sigOk t L cc b1 st1 h1
  rw [h2] at h3
  injection h3 with h3; injection h3 with h3 _
  subst h3
  exact ⟨rfl, rfl, rfl⟩

/-- non-vacuity of `StricterThan`: the full mempool strictness mask over any flag word -/
example (env : Env) :
    StricterThan { env with flags := env.flags ||| (Gen.flagNoUnknownConds ||| Gen.flagStrictArgsCount ||| Gen.flagLimitSpends) } env :=
  stricterThan_or env _ (by decide) (by decide)

/-- `StricterThan` really orders the flags: with the mask the three strictness bits are on -/
example : hasFlag (0 ||| strictMask true true true) Gen.flagNoUnknownConds = true ∧
    hasFlag (0 ||| strictMask true true true) Gen.flagStrictArgsCount = true ∧
    hasFlag (0 ||| strictMask true true true) Gen.flagLimitSpends = true ∧
    hasFlag 0 Gen.flagNoUnknownConds = false := by decide

/-! ### order of the conditions within a spend -/

/-- **Order of conditions, effect of the parsed conditions.**  Let `l1`, `l2` be two lists of already
parsed conditions that are permutations of each other, applied in order with `applyCond` (the `match cva`
of `parse_conditions`) from the same per-spend state `s`.  If `l1` is accepted then `l2` is accepted,
and the two final states are `CEquiv`: they agree on *every* field of the bundle summary, the spend
record, the parse state, the announcement countdown and the condition counter, except that the
list-valued fields (`create_coin`, the eight `agg_sig_*` lists, the announcement / assertion / message
lists and the (pk, msg) pairs) are permutations of each other.

`_partial`: relative to the C06 sentence "reordering the conditions within a spend never changes
acceptance, cost or any aggregate", this covers the effect of the conditions on the summary and the
acceptance decisions made by that effect (duplicate CREATE_COIN, RESERVE_FEE overflow, impossible
relative/birth constraints, ASSERT_MY_*, key validity, the 1024-announcement limit).  Not covered
here: (a) the argument parser and the cost countdown of `condLoop`, (b) the visitor's `flags` updates —
both are covered by `perm_conditions_loop_partial` —, and (c) the deferred bundle-level validation
(`validate_conditions`), see `open_perm_conditions_bundle`. -/
theorem perm_conditions_partial (env : Env) (s : CSt) {l1 l2 : List Cond} (hp : List.Perm l1 l2) {t1 : CSt}
    (h1 : applyAll env s l1 = .ok t1) : ∃ t2, applyAll env s l2 = .ok t2 ∧ CEquiv t1 t2 :=
  applyAll_perm env hp h1

/-- **Acceptance is independent of the order** of a list of parsed conditions (same scope as
`perm_conditions_partial`). -/
theorem perm_accept_iff_partial (env : Env) (s : CSt) {l1 l2 : List Cond} (hp : List.Perm l1 l2) :
    (∃ t1, applyAll env s l1 = .ok t1) ↔ (∃ t2, applyAll env s l2 = .ok t2) := by
  constructor
  · rintro ⟨t1, h⟩; obtain ⟨t2, h2, _⟩ := applyAll_perm env hp h; exact ⟨t2, h2⟩
  · rintro ⟨t2, h⟩; obtain ⟨t1, h1, _⟩ := applyAll_perm env hp.symm h; exact ⟨t1, h1⟩

/-- `perm_accept`: swapping the first two conditions of an accepted list gives an accepted list
(the pairwise rules — duplicate coins, fee overflow, relative/birth constraints, the announcement
countdown — are symmetric). -/
theorem perm_accept (env : Env) (s : CSt) (a b : Cond) (l : List Cond) {t : CSt}
    (h : applyAll env s (a :: b :: l) = .ok t) : ∃ t', applyAll env s (b :: a :: l) = .ok t' ∧ CEquiv t t' :=
  applyAll_perm env (List.Perm.swap b a l) h

/-- When both orders are accepted the results agree on every aggregate of the summary and of the spend
record; the created coins agree up to order. -/
theorem perm_conditions_fields_partial (env : Env) (s : CSt) {l1 l2 : List Cond} (hp : List.Perm l1 l2) {t1 t2 : CSt}
    (h1 : applyAll env s l1 = .ok t1) (h2 : applyAll env s l2 = .ok t2) :
    t1.ret.reserveFee = t2.ret.reserveFee ∧ t1.ret.heightAbsolute = t2.ret.heightAbsolute ∧
    t1.ret.secondsAbsolute = t2.ret.secondsAbsolute ∧
    t1.ret.beforeHeightAbsolute = t2.ret.beforeHeightAbsolute ∧
    t1.ret.beforeSecondsAbsolute = t2.ret.beforeSecondsAbsolute ∧
    t1.ret.additionAmount = t2.ret.additionAmount ∧
    t1.spend.heightRelative = t2.spend.heightRelative ∧ t1.spend.secondsRelative = t2.spend.secondsRelative ∧
    t1.spend.beforeHeightRelative = t2.spend.beforeHeightRelative ∧
    t1.spend.beforeSecondsRelative = t2.spend.beforeSecondsRelative ∧
    t1.spend.birthHeight = t2.spend.birthHeight ∧ t1.spend.birthSeconds = t2.spend.birthSeconds ∧
    t1.spend.flags = t2.spend.flags ∧ t1.countdown = t2.countdown ∧
    List.Perm t1.spend.createCoin t2.spend.createCoin ∧
    List.Perm t1.ret.aggSigUnsafe t2.ret.aggSigUnsafe ∧ List.Perm t1.spend.aggSigMe t2.spend.aggSigMe ∧
    List.Perm t1.st.pkmPairs t2.st.pkmPairs ∧ List.Perm t1.st.messages t2.st.messages := by
  obtain ⟨t2', h2', e⟩ := applyAll_perm env hp h1
  rw [h2] at h2'; injection h2' with h2'; subst h2'
  exact ⟨e.ret_reserveFee, e.ret_heightAbsolute, e.ret_secondsAbsolute, e.ret_beforeHeightAbsolute,
    e.ret_beforeSecondsAbsolute, e.ret_additionAmount, e.spend_heightRelative, e.spend_secondsRelative,
    e.spend_beforeHeightRelative, e.spend_beforeSecondsRelative, e.spend_birthHeight, e.spend_birthSeconds,
    e.spend_flags, e.countdown, e.spend_createCoin, e.ret_aggSigUnsafe, e.spend_aggSigMe, e.st_pkmPairs,
    e.st_messages⟩

/-- non-vacuity: two different conditions, both orders accepted from a fresh spend record -/
example : ∃ t, applyAll ⟨0, false, fun _ => true⟩
    { ret := {}, st := {}, spend := { parentId := [], coinAmount := 5, puzzleHash := [], coinId := [] } }
    [.reserveFee 3, .createCoin [1] 2 none, .assertHeightRelative 7, .assertBeforeHeightRelative 9] = .ok t :=
  ⟨_, rfl⟩

/-! ### order of the conditions: the whole condition loop, one spend -/

/-- **Order of conditions, the condition loop of `parse_conditions`.**  Let `t`, `t'` be NIL-terminated
condition lists whose elements are permutations of each other (`sexpList`).  If `condLoop` (opcode
recognition, pre-charge, argument parsing under the flags, visitor, effect, SOFTFORK charge, for every
element) accepts `t` from per-spend state `s` with cost countdown `m`, leaving countdown `m1`, then it
accepts `t'` leaving the *same* countdown `m1` (so the same cost is charged), and

* the final states agree on every field up to the listing order of list-valued items (`CEquiv`) after
  ELIGIBLE_FOR_FF is cleared in the spend flags of both (`wrapF (false, true) · 0 0` only clears that bit);
* they agree up to listing order outright — including ELIGIBLE_FOR_FF and ELIGIBLE_FOR_DEDUP — if the
  visitor is the empty one (block validation) or no element parses to ASSERT_MY_PARENT_ID, the one
  condition whose treatment by the mempool visitor depends on its position (`condition_counter`).

Which error is reported for a rejected list may depend on the order (cost-exceeded vs. reject); the
theorem is about acceptance.  `_partial`: one condition loop; see `open_perm_conditions_bundle`. -/
theorem perm_conditions_loop_partial (env : Env) {t t' : Sexp} {cs cs' : List Sexp}
    (ht : sexpList t = some cs) (ht' : sexpList t' = some cs') (hp : List.Perm cs cs')
    {s : CSt} {m : Nat} {s1 : CSt} {m1 : Nat} (hrun : condLoop env t s m = .ok (s1, m1)) :
    ∃ s2, condLoop env t' s m = .ok (s2, m1) ∧
      CEquiv (wrapF (false, true) s1 0 0) (wrapF (false, true) s2 0 0) ∧
      ((env.mempool = false ∨ ∀ items, parseAll env.flags cs = .ok items → NoParentId items) → CEquiv s1 s2) :=
  condLoop_perm env ht ht' hp hrun

/-- what `wrapF (false, true) · 0 0` does: it clears ELIGIBLE_FOR_FF in the spend flags and nothing else -/
theorem wrapF_clear_ff (s : CSt) :
    wrapF (false, true) s 0 0 = { s with spend := { s.spend with flags := clearFlag s.spend.flags ELIGIBLE_FOR_FF } } := rfl

/-- **Order of conditions, one spend** (`process_single_spend` + `parse_conditions`): with the condition
list of the spend permuted, the spend is accepted iff it was, the same cost budget is left, and the
per-spend states from which the two results are finished (`finishSpend`) are related as in
`perm_conditions_loop_partial`.  `_partial`: one spend; the effect on the later spends of the bundle and on
`validate_conditions` is `open_perm_conditions_bundle`. -/
theorem perm_conditions_spend_partial (env : Env) {conds conds' : Sexp} {cs cs' : List Sexp}
    (ht : sexpList conds = some cs) (ht' : sexpList conds' = some cs') (hp : List.Perm cs cs')
    {ret : Bundle} {st : PState} {parent ph amount : Sexp} {cc m : Nat} {r1 : Bundle} {p1 : PState} {m1 : Nat}
    (h : processSingleSpend env ret st parent ph amount conds cc m = .ok ((r1, p1), m1)) :
    ∃ s1 s2, (r1, p1) = finishSpend env s1 ∧
      processSingleSpend env ret st parent ph amount conds' cc m = .ok (finishSpend env s2, m1) ∧
      CEquiv (wrapF (false, true) s1 0 0) (wrapF (false, true) s2 0 0) ∧
      ((env.mempool = false ∨ ∀ items, parseAll env.flags cs = .ok items → NoParentId items) → CEquiv s1 s2) :=
  processSingleSpend_perm env ht ht' hp h

/-- **The condition loop, order-free**: `condLoop` accepts a NIL-terminated list iff every element parses
(`parseAll`), the total charge (`totalCost`, a sum) fits the countdown, and the parsed conditions are
accepted in order by `applyAll`; the result is the state reached by `applyAll` with the total charge
booked, the conditions counted and the visitor's flags cleared. -/
theorem condLoop_factorisation (env : Env) (cs : List Sexp) (t : Sexp) (ht : sexpList t = some cs)
    (s : CSt) (m : Nat) (s' : CSt) (m' : Nat) :
    condLoop env t s m = .ok (s', m') ↔
      ∃ items, parseAll env.flags cs = .ok items ∧ totalCost env.flags items ≤ m ∧ m' = m - totalCost env.flags items ∧
        ∃ u, applyAll env s (itemConds items) = .ok u ∧
          s' = wrapF (allBits env.mempool s.counter items) u (totalCount items) (totalCost env.flags items) :=
  condLoop_iff env cs t ht s m s' m'

/-- non-vacuity of the side condition: a list without ASSERT_MY_PARENT_ID -/
example : NoParentId [.unknown, .known Gen.opReserveFee (.reserveFee 1)] := by
  intro it hit op id
  simp only [List.mem_cons, List.mem_nil_iff, or_false] at hit
  rcases hit with rfl | rfl <;> simp

/-! ### order of the spends of a bundle; order of the conditions of a spend, whole bundle -/

open ChiaModel.Rules in
/-- **Order of the spends.**  Let the spend list `t'` be a permutation of the spend list `t` (the tails `tl`,
`tl'` after the spend list are free), and let the signature verdict not depend on the order of the
(public key, signed text) pairs (true of BLS aggregate verification).  If `parse_spends` accepts `(t . tl)`
under cost limit `L`, it accepts `(t' . tl')` under the same limit, and the two summaries agree on

* `cost`, `condition_cost`, `execution_cost`, the removal and addition amounts, `reserve_fee`, the four
  absolute locks, the number of spends and `validated_signature`;
* the spend records: `b'.spends` is a permutation of `b.spends` — every field of every record, including
  the listing order inside a record and both mempool eligibility flags (a spend's record does not depend on
  its position in the bundle);
* the AGG_SIG_UNSAFE pairs, up to listing order.

Both visitors, all flags.  (What does depend on the order: the listing order of `spends` and
`agg_sig_unsafe`, nothing else.)  Proof: `C01.C01_refines` reduces `parse_spends` to the order-free rules
`BundleAccepts` over the parsed spends and to the fold `bundleSummary`; parsing is per spend
(`parseSpendList_perm`); the rules and the aggregates of the fold respect permutation
(`bundleAccepts_bperm`, `bundleSummary_bperm`; the two index-based deferred rules — ASSERT_EPHEMERAL and "a
spend with a relative or birth condition is not ephemeral" — are first put in index-free form,
`eph_clauses_iff`). -/
theorem perm_spends (env : Env) (sigOk : List (Bytes × Bytes) → Bool) (t t' tl tl' : Sexp) (xs xs' : List Sexp)
    (L cc : Nat) (b : Bundle) (st : PState)
    (hsig : ∀ pairs pairs', List.Perm pairs pairs' → sigOk pairs = sigOk pairs')
    (ht : sexpList t = some xs) (ht' : sexpList t' = some xs') (hp : List.Perm xs xs')
    (h : parseSpends env sigOk (.pair t tl) L cc = .ok (b, st)) :
    ∃ b' st', parseSpends env sigOk (.pair t' tl') L cc = .ok (b', st') ∧ b'.cost = b.cost ∧
      b'.conditionCost = b.conditionCost ∧ b'.executionCost = b.executionCost ∧
      b'.removalAmount = b.removalAmount ∧ b'.additionAmount = b.additionAmount ∧
      b'.reserveFee = b.reserveFee ∧ b'.heightAbsolute = b.heightAbsolute ∧
      b'.secondsAbsolute = b.secondsAbsolute ∧ b'.beforeHeightAbsolute = b.beforeHeightAbsolute ∧
      b'.beforeSecondsAbsolute = b.beforeSecondsAbsolute ∧ b'.spends.length = b.spends.length ∧
      b'.validatedSignature = b.validatedSignature ∧
      List.Perm b'.spends b.spends ∧ List.Perm b'.aggSigUnsafe b.aggSigUnsafe := by
  obtain ⟨ps, hpb, hacc, hsum⟩ := (C01.C01_refines env sigOk _ L cc b st).mp h
  simp only [parseBundle, ht] at hpb
  obtain ⟨ps', hps', hperm⟩ := parseSpendList_perm env.flags hp hpb
  have hb := BPerm.of_perm hperm
  have hacc' := bundleAccepts_bperm env sigOk hsig L cc hb hacc
  have hb1 : b = (bundleSummary env cc ps).1 := congrArg Prod.fst hsum
  obtain ⟨a1, a2, a3, a4, a5, a6, a7, a8, a9, a10, a11, a12, a13⟩ := bundleSummary_bperm env cc hb
  refine ⟨(bundleSummary env cc ps').1, (bundleSummary env cc ps').2,
    (C01.C01_refines env sigOk _ L cc _ _).mpr ⟨ps', by simp only [parseBundle, ht', hps'], hacc', rfl⟩, ?_⟩
  rw [hb1]
  exact ⟨a1, a2, a3, a4, a5, a6, a7, a8, a9, a10, a11, a12, (summary_spends_perm env cc hperm).symm, a13⟩

/-- **Acceptance does not depend on the order of the spends** (both directions). -/
theorem perm_spends_accept_iff (env : Env) (sigOk : List (Bytes × Bytes) → Bool) (t t' tl tl' : Sexp)
    (xs xs' : List Sexp) (L cc : Nat)
    (hsig : ∀ pairs pairs', List.Perm pairs pairs' → sigOk pairs = sigOk pairs')
    (ht : sexpList t = some xs) (ht' : sexpList t' = some xs') (hp : List.Perm xs xs') :
    (∃ r, parseSpends env sigOk (.pair t tl) L cc = .ok r) ↔ (∃ r, parseSpends env sigOk (.pair t' tl') L cc = .ok r) := by
  constructor
  · rintro ⟨⟨b, st⟩, h⟩
    obtain ⟨b', st', h', _⟩ := perm_spends env sigOk t t' tl tl' xs xs' L cc b st hsig ht ht' hp h
    exact ⟨_, h'⟩
  · rintro ⟨⟨b, st⟩, h⟩
    obtain ⟨b', st', h', _⟩ := perm_spends env sigOk t' t tl' tl xs' xs L cc b st hsig ht' ht hp.symm h
    exact ⟨_, h'⟩

open ChiaModel.Rules in
/-- **Order of the conditions of a spend, whole bundle.**  Let one spend of the bundle have its condition
list permuted (`conds` → `conds'`; the tails `rest`, `rest'` of the spend tuple and `tl`, `tl'` of the
generator output are free; the other spends `pre`, `post` are unchanged).  If `parse_spends` accepts the
original, it accepts the variant under the same cost limit, and the two summaries agree on

* `cost`, `condition_cost`, `execution_cost`, the removal and addition amounts, `reserve_fee`, the four
  absolute locks, the number of spends and `validated_signature`; the AGG_SIG_UNSAFE pairs up to listing order;
* the spend records: the records of all other spends are identical (every field, both eligibility flags),
  in the same positions; the record `s'` of the permuted spend equals the original `s` on every field up to
  the listing order of `create_coin` and of the seven `agg_sig_*` lists (`SpendEquiv`) once ELIGIBLE_FOR_FF is
  cleared in both, and — ELIGIBLE_FOR_FF included — outright if the visitor is the empty one or no condition
  of the spend parses to ASSERT_MY_PARENT_ID, the one condition the mempool visitor treats by its position.

Both visitors, all flags. -/
theorem perm_conditions_bundle (env : Env) (sigOk : List (Bytes × Bytes) → Bool) (pre post : List Sexp)
    (parent ph amount conds conds' rest rest' tl tl' t t' : Sexp) (cs cs' : List Sexp) (L cc : Nat) (b : Bundle) (st : PState)
    (hsig : ∀ pairs pairs', List.Perm pairs pairs' → sigOk pairs = sigOk pairs')
    (hc : sexpList conds = some cs) (hc' : sexpList conds' = some cs') (hp : List.Perm cs cs')
    (ht : sexpList t = some (pre ++ [.pair parent (.pair ph (.pair amount (.pair conds rest)))] ++ post))
    (ht' : sexpList t' = some (pre ++ [.pair parent (.pair ph (.pair amount (.pair conds' rest')))] ++ post))
    (h : parseSpends env sigOk (.pair t tl) L cc = .ok (b, st)) :
    ∃ b' st', parseSpends env sigOk (.pair t' tl') L cc = .ok (b', st') ∧ b'.cost = b.cost ∧
      b'.conditionCost = b.conditionCost ∧ b'.executionCost = b.executionCost ∧
      b'.removalAmount = b.removalAmount ∧
      b'.additionAmount = b.additionAmount ∧ b'.reserveFee = b.reserveFee ∧
      b'.heightAbsolute = b.heightAbsolute ∧ b'.secondsAbsolute = b.secondsAbsolute ∧
      b'.beforeHeightAbsolute = b.beforeHeightAbsolute ∧ b'.beforeSecondsAbsolute = b.beforeSecondsAbsolute ∧
      b'.spends.length = b.spends.length ∧ b'.validatedSignature = b.validatedSignature ∧
      List.Perm b'.aggSigUnsafe b.aggSigUnsafe ∧
      ∃ sa s s' sc, b.spends = sa ++ s :: sc ∧ b'.spends = sa ++ s' :: sc ∧ sa.length = pre.length ∧
        SpendEquiv { s with flags := clearFlag s.flags ELIGIBLE_FOR_FF } { s' with flags := clearFlag s'.flags ELIGIBLE_FOR_FF } ∧
        ((env.mempool = false ∨ ∀ items, parseAll env.flags cs = .ok items → NoParentId items) → SpendEquiv s s') := by
  obtain ⟨ps, hpb, hacc, hsum⟩ := (C01.C01_refines env sigOk _ L cc b st).mp h
  simp only [parseBundle, ht, List.append_assoc, List.singleton_append] at hpb
  obtain ⟨a, p, c, ha, hpx, hpc, rfl⟩ := (parseSpendList_split env.flags _ post pre ps).mp hpb
  obtain ⟨p', hpx', he, hitems⟩ := parseSpend_conds_perm env.flags (rest := rest) (rest' := rest') hc hc' hp p hpx
  have hps' : parseSpendList env.flags (pre ++ .pair parent (.pair ph (.pair amount (.pair conds' rest'))) :: post) =
      some (a ++ p' :: c) := (parseSpendList_split env.flags _ post pre _).mpr ⟨a, p', c, ha, hpx', hpc, rfl⟩
  have hb := BPerm.replace he a c
  have hacc' := bundleAccepts_bperm env sigOk hsig L cc hb hacc
  have hb1 : b = (bundleSummary env cc (a ++ p :: c)).1 := congrArg Prod.fst hsum
  obtain ⟨a1, a2, a3, a4, a5, a6, a7, a8, a9, a10, a11, a12, a13⟩ := bundleSummary_bperm env cc hb
  obtain ⟨sa, s, s', sc, e1, e2, e3, e4, e5⟩ := summary_spends_replace env cc a c he (hacc.2.2.2.1 p (by simp))
  refine ⟨(bundleSummary env cc (a ++ p' :: c)).1, (bundleSummary env cc (a ++ p' :: c)).2,
    (C01.C01_refines env sigOk _ L cc _ _).mpr
      ⟨a ++ p' :: c, by simp only [parseBundle, ht', List.append_assoc, List.singleton_append, hps'], hacc', rfl⟩, ?_⟩
  rw [hb1]
  refine ⟨a1, a2, a3, a4, a5, a6, a7, a8, a9, a10, a11, a12, a13, sa, s, s', sc, e1, e2,
    by rw [e3, parseSpendList_length _ _ _ ha], e4, ?_⟩
  intro hno
  refine e5 (hno.imp id (fun hn => hn p.items hitems))

/-- **Acceptance does not depend on the order of the conditions of a spend** (both directions). -/
theorem perm_conditions_bundle_accept_iff (env : Env) (sigOk : List (Bytes × Bytes) → Bool) (pre post : List Sexp)
    (parent ph amount conds conds' rest rest' tl tl' t t' : Sexp) (cs cs' : List Sexp) (L cc : Nat)
    (hsig : ∀ pairs pairs', List.Perm pairs pairs' → sigOk pairs = sigOk pairs')
    (hc : sexpList conds = some cs) (hc' : sexpList conds' = some cs') (hp : List.Perm cs cs')
    (ht : sexpList t = some (pre ++ [.pair parent (.pair ph (.pair amount (.pair conds rest)))] ++ post))
    (ht' : sexpList t' = some (pre ++ [.pair parent (.pair ph (.pair amount (.pair conds' rest')))] ++ post)) :
    (∃ r, parseSpends env sigOk (.pair t tl) L cc = .ok r) ↔ (∃ r, parseSpends env sigOk (.pair t' tl') L cc = .ok r) := by
  constructor
  · rintro ⟨⟨b, st⟩, h⟩
    obtain ⟨b', st', h', _⟩ := perm_conditions_bundle env sigOk pre post parent ph amount conds conds' rest rest' tl tl' t t'
      cs cs' L cc b st hsig hc hc' hp ht ht' h
    exact ⟨_, h'⟩
  · rintro ⟨⟨b, st⟩, h⟩
    obtain ⟨b', st', h', _⟩ := perm_conditions_bundle env sigOk pre post parent ph amount conds' conds rest' rest tl' tl t' t
      cs' cs L cc b st hsig hc' hc hp.symm ht' ht h
    exact ⟨_, h'⟩

/-! non-vacuity of the hypotheses of `perm_spends` / `perm_conditions_bundle`: a parent spend `exA` (creates a
coin, reserves a fee, announces) and the spend `exB` of the coin it creates (ASSERT_EPHEMERAL, asserts the
announcement); the bundle is accepted in both orders and with the conditions of `exA` reversed, and the
cross-spend rules are really exercised (`exB` alone is rejected) -/

section
open ChiaModel.Rules

example : ∃ b st, parseSpends envB (fun _ => true) (.pair (slist [exA, exB]) (.atom [])) 11000000000 0 = .ok (b, st) := by
  have h : okB (parseSpends envB (fun _ => true) (.pair (slist [exA, exB]) (.atom [])) 11000000000 0) = true := by
    decide +kernel
  obtain ⟨⟨b, st⟩, h⟩ := okB_true h
  exact ⟨b, st, h⟩
example : sexpList (slist [exA, exB]) = some [exA, exB] ∧ sexpList (slist [exB, exA]) = some [exB, exA] ∧
    List.Perm [exA, exB] [exB, exA] := ⟨rfl, rfl, List.Perm.swap _ _ _⟩
example : ∀ pairs pairs' : List (Bytes × Bytes), List.Perm pairs pairs' → (fun _ => true) pairs = (fun _ => true) pairs' :=
  fun _ _ _ => rfl
-- the conclusion of `perm_spends` for this instance, cross-checked by evaluation
example : okB (parseSpends envB (fun _ => true) (.pair (slist [exB, exA]) (.atom [])) 11000000000 0) = true := by
  decide +kernel
example : ∃ e, parseSpends envB (fun _ => true) (.pair (slist [exB]) (.atom [])) 11000000000 0 = .error e :=
  okB_false (by decide +kernel)
-- `perm_conditions_bundle`: `exA = (parent ph amount conds)`, `exA'` has the conditions reversed; pre = [], post = [exB]
example : ∃ parent ph amount conds conds' rest rest' cs cs',
    exA = .pair parent (.pair ph (.pair amount (.pair conds rest))) ∧
    exA' = .pair parent (.pair ph (.pair amount (.pair conds' rest'))) ∧
    sexpList conds = some cs ∧ sexpList conds' = some cs' ∧ List.Perm cs cs' ∧ cs ≠ cs' ∧
    sexpList (slist [exA, exB]) = some ([] ++ [.pair parent (.pair ph (.pair amount (.pair conds rest)))] ++ [exB]) ∧
    sexpList (slist [exA', exB]) = some ([] ++ [.pair parent (.pair ph (.pair amount (.pair conds' rest')))] ++ [exB]) :=
  ⟨_, _, _, _, _, _, _, [cnd 51 [h32 2, [4]], cnd 52 [[1]], cnd 60 [[7]]], [cnd 60 [[7]], cnd 52 [[1]], cnd 51 [h32 2, [4]]],
    rfl, rfl, rfl, rfl,
    (List.Perm.swap _ _ _).trans ((List.Perm.cons _ (List.Perm.swap _ _ _)).trans (List.Perm.swap _ _ _)),
    by decide, rfl, rfl⟩
example : okB (parseSpends envB (fun _ => true) (.pair (slist [exA', exB]) (.atom [])) 11000000000 0) = true := by
  decide +kernel
end

end ChiaModel.C06
