import ChiaModel.Props.C13
import ChiaModel.Lemmas.StreamableAlloc3
import ChiaModel.Gen.PanicSites
/-!
# C14 — decoding arbitrary bytes is total and bounded

What a Lean model can carry: the *model* decoder is a total function, so the content of these theorems is that
it never takes one of the explicit `panic` branches (every `unwrap` / `[index]` / `expect` / `panic!` of the Rust
`parse` methods is such a branch), that it consumes a prefix, that whole-input decoding rejects trailing and
missing bytes, that the bytes reserved ahead of parsing are bounded linearly in the input plus one 2 MiB cap per
open vector, and which post-operations on a decoded value can panic.  Real panics, memory and time of the
Rust code are observed by the correspondence (catch_unwind, counting allocator, worker processes).
-/
namespace ChiaModel.C14
open ChiaModel ChiaModel.Streamable

/-- **Totality.** For every descriptor, trust mode and byte string the decoder returns a value or an error,
never a panic branch, and what it leaves over is a suffix of the input (it consumes a prefix). -/
theorem decode_total (O : Oracles) (tr : Bool) (t : Ty) (b : Bytes) :
    (∀ s, (decode O tr t b).out ≠ .panic s) ∧
    (∀ v r, (decode O tr t b).out = .ok (v, r) → ∃ p, b = p ++ r) :=
  ⟨(total_decode O tr t).np b, (total_decode O tr t).pre b⟩

/-- the same for `from_bytes` / `from_bytes_unchecked` -/
theorem from_bytes_total (O : Oracles) (tr : Bool) (t : Ty) (b : Bytes) (s : String) :
    (fromBytes O tr t b).out ≠ .panic s := by
  unfold fromBytes
  rw [Ne, Res.bind_panic]
  rintro (h | ⟨a, _, h⟩)
  · exact (total_decode O tr t).np b s h
  · split at h <;> simp at h

/-- **Trailing bytes are rejected**: the encoding of a well-formed value followed by at least one more byte is
not accepted by `from_bytes` (and `from_bytes` accepts only if the whole input was consumed, `C13.from_bytes_iff`). -/
theorem trailing_rejected (O : Oracles) (hO : OracleContract O) (t : Ty) (v : V) (h : WF O false t v = true)
    (bs x : Bytes) (he : encode O t v = some bs) (hx : x ≠ []) :
    (fromBytes O false t (bs ++ x)).out = .err := by
  obtain ⟨bs', he', hd⟩ := C13.roundtrip O hO t v h
  rw [he] at he'; injection he' with he'; subst he'
  unfold fromBytes
  rw [Res.bind_out, hd x]
  cases x with
  | nil => exact absurd rfl hx
  | cons y ys => simp

/-- **Missing bytes are rejected**: no proper prefix of the encoding of a well-formed value is accepted
(for every type: a type with a zero-width tail has no proper prefix that is itself an encoding either). -/
theorem missing_rejected (O : Oracles) (hO : OracleContract O) (t : Ty) (v : V) (h : WF O false t v = true)
    (bs p q : Bytes) (hbs : isBytes bs) (he : encode O t v = some bs) (hpq : p ++ q = bs) (hq : q ≠ []) :
    (fromBytes O false t p).out = .err := by
  cases hr : (fromBytes O false t p).out with
  | err => rfl
  | panic s => exact absurd hr (from_bytes_total O false t p s)
  | ok v' =>
    exfalso
    have hp : isBytes p := by subst hpq; exact (isBytes_append.mp hbs).1
    obtain ⟨he', hw'⟩ := C13.from_bytes_to_bytes O hO t p hp v' hr
    obtain ⟨b1, hb1, hd1⟩ := C13.roundtrip O hO t v h
    obtain ⟨b2, hb2, hd2⟩ := C13.roundtrip O hO t v' hw'
    rw [he] at hb1; injection hb1 with hb1; subst hb1
    rw [he'] at hb2; injection hb2 with hb2; subst hb2
    have e1 := hd1 []
    have e2 := hd2 q
    rw [List.append_nil] at e1
    rw [hpq, e1] at e2
    injection e2 with e2
    injection e2 with _ e3
    exact hq e3.symm

/-- **No zero-width vector element** in any generated descriptor (`Vec<()>` would make `parse` loop `len` times
without consuming input; the derive macro's unit struct is zero-width too). -/
theorem no_unit_vec : ∀ d ∈ Gen.Streamable.streamableTypes, noZeroWidthVec d.2 = true := by
  decide +kernel


/-- one `Vec::with_capacity` never reserves more than 2 MiB, and never more than `len` elements -/
theorem reservation_bound (sz len : Nat) : reservation sz len ≤ min allocCap (len * sz) :=
  Nat.le_min.mpr ⟨reservation_le_cap sz len, reservation_le_len sz len⟩

/-- **Bounded pre-allocation.** For a descriptor without zero-width vector elements, the bytes reserved ahead of
parsing during one decoding run (summed over all vector headers met, whether the run succeeds or not) are at
most `allocFactor t` per input byte plus one 2 MiB cap per vector header that can be open at once; on an
accepting run they are at most `allocFactor t` per *consumed* byte. -/
theorem alloc_bound (O : Oracles) (hO : OracleContract O) (tr : Bool) (t : Ty) (h : noZeroWidthVec t = true) (b : Bytes) :
    (decode O tr t b).alloc ≤ allocFactor t * b.length + vecDepth t * allocCap ∧
    (∀ v r, (decode O tr t b).out = .ok (v, r) → (decode O tr t b).alloc ≤ allocFactor t * (b.length - r.length)) := by
  have A := allocOK_decode O hO tr t h
  refine ⟨A.any b, fun v r hd => ?_⟩
  obtain ⟨h1, h2⟩ := A.ok b v r hd
  rw [Nat.mul_sub]
  omega

/-- **Elements parsed are bounded by the input**: an accepted vector of `n` elements consumed at least
`4 + n * minWire t` bytes. -/
theorem elements_bounded (O : Oracles) (hO : OracleContract O) (tr : Bool) (t : Ty) (b : Bytes) (v : V) (r : Bytes)
    (h : (decode O tr (.vec t) b).out = .ok (v, r)) :
    ∃ vs, v = .list vs ∧ r.length + 4 + vs.length * minWire t ≤ b.length := by
  simp only [decode] at h
  obtain ⟨l, rest, vs, rfl, hl, hrep, rfl⟩ := decVec_ok.mp h
  obtain ⟨c1, c2⟩ := consumes_repeat (consumes_decode O hO tr t) _ rest vs r hrep
  refine ⟨vs, rfl, ?_⟩
  simp only [List.length_append, hl, c2]
  omega

/-- the bound, instantiated for every descriptor regenerated from the source -/
theorem generated_alloc_bound (O : Oracles) (hO : OracleContract O) (tr : Bool) :
    ∀ d ∈ Gen.Streamable.streamableTypes, ∀ b : Bytes,
      (decode O tr d.2 b).alloc ≤ allocFactor d.2 * b.length + vecDepth d.2 * allocCap :=
  fun d hd b => (alloc_bound O hO tr d.2 (no_unit_vec d hd) b).1

/-- **Post-operations on a decoded value** (either trust mode): re-encoding succeeds and reproduces the input;
`update_digest` is never ill-typed; if it panics, it does so at `quality_string().expect(..)` and the prescribed
hash pre-image does not exist (a version-2 proof of space without a quality string, `C13.encodeForHash_pos`);
for types without a proof of space it never panics.  (`==` is structural equality of decoded values and has no
panic site in the anchored files.)  PARTIAL with respect to the property, which demands that hashing never
panics: see `post_ops_full_false`. -/
theorem post_ops_partial (O : Oracles) (hO : OracleContract O) (tr : Bool) (t : Ty) (b : Bytes) (hb : isBytes b) (v : V)
    (h : (fromBytes O tr t b).out = .ok v) :
    encode O t v = some b ∧
    digestChunks O t v ≠ .err ∧
    (∀ s, digestChunks O t v = .panic s → s = sitePosQuality ∧ encodeForHash O t v = none) ∧
    (C13.posFree t = true → ∃ cs, digestChunks O t v = .ok cs ∧ cs.flatten = b) := by
  have hd := (C13.from_bytes_iff O tr t b v).mp h
  obtain ⟨p, he, hp, hw⟩ := (codec_decode O hO tr t).cn b v [] hb hd
  rw [List.append_nil] at hp; subst hp
  have hh := hash_decode O hO tr t v hw
  refine ⟨he, ?_, ?_, ?_⟩
  · intro e; rw [e] at hh; exact hh
  · intro s e; rw [e] at hh; exact ⟨hh.2, hh.1⟩
  · intro hpf
    have heq := C13.encodeForHash_eq_encode O t hpf v
    unfold encodeForHash encode at heq
    cases hdg : digestChunks O t v with
    | err => rw [hdg] at hh; exact hh.elim
    | panic s => rw [hdg] at hh; simp only [HashRel] at hh; rw [heq, he] at hh; cases hh.1
    | ok cs =>
      rw [hdg] at hh; simp only [HashRel] at hh; rw [heq, he] at hh
      injection hh with hh
      exact ⟨cs, rfl, hh.symm⟩

/-- the full-strength statement the property asks for: hashing a decoded value never panics -/
def post_ops_full : Prop :=
  ∀ (O : Oracles) (tr : Bool) (t : Ty) (b : Bytes) (v : V),
    (fromBytes O tr t b).out = .ok v → ∀ s, digestChunks O t v ≠ .panic s

/-- oracle answers observed on the real code for the witness: both keys are valid, the 16 zero proof bytes have
no quality string (replayed by `corpus/C14.case`) -/
def witnessOracles : Oracles where
  g1 := fun _ => 2
  g2 := fun _ => 2
  sk := fun _ => true
  serLen := ClvmScan.clvmSerLen
  quality := fun _ => none

/-- version-2 ProofOfSpace: zero challenge, pool key present, prefix `0b10`, plot key, plot index 0, meta group 0,
strength 0, 16 zero proof bytes (154 bytes) -/
def witness : Bytes :=
  [0, 0, 0, 0, 0, 0, 0, 0, 0, 0, 0, 0, 0, 0, 0, 0, 0, 0, 0, 0, 0, 0, 0, 0, 0, 0, 0, 0, 0, 0, 0, 0, 1, 182, 219, 203, 141, 9, 233, 141, 59, 219, 129, 233, 229, 0, 30, 62, 54, 14, 165, 200, 134, 216, 85, 198, 2, 129, 73, 97, 233, 81, 249, 74, 35, 121, 88, 186, 213, 164, 186, 186, 200, 86, 65, 222, 101, 56, 24, 84, 45, 2, 182, 219, 203, 141, 9, 233, 141, 59, 219, 129, 233, 229, 0, 30, 62, 54, 14, 165, 200, 134, 216, 85, 198, 2, 129, 73, 97, 233, 81, 249, 74, 35, 121, 88, 186, 213, 164, 186, 186, 200, 86, 65, 222, 101, 56, 24, 84, 45, 0, 0, 0, 0, 0, 0, 0, 16, 0, 0, 0, 0, 0, 0, 0, 0, 0, 0, 0, 0, 0, 0, 0, 0]

def isPanic {α : Type} : Outcome α → Bool
  | .panic _ => true
  | _ => false

/-- kernel-checked computation on the model: the witness decodes, and its digest takes the panic branch -/
theorem witness_decodes_and_digest_panics :
    (match (fromBytes witnessOracles false .proofOfSpace witness).out with
     | .ok v => isPanic (digestChunks witnessOracles .proofOfSpace v)
     | _ => false) = true := by
  decide +kernel

/-- **The full statement is false** (negation witness; confirmed on the real code, known finding). -/
theorem post_ops_full_false : ¬ post_ops_full := by
  intro hfull
  have hw := witness_decodes_and_digest_panics
  cases hv : (fromBytes witnessOracles false .proofOfSpace witness).out with
  | err => rw [hv] at hw; cases hw
  | panic s => rw [hv] at hw; cases hw
  | ok v =>
    rw [hv] at hw
    simp only at hw
    cases hd : digestChunks witnessOracles .proofOfSpace v with
    | ok cs => rw [hd] at hw; cases hw
    | err => rw [hd] at hw; cases hw
    | panic s => exact hfull witnessOracles false .proofOfSpace witness v hv s hd

/-- the panic sites of the anchored sources, reviewed: (file, what, class).  `guarded` = an explicit panic branch
of the model that `decode_total` excludes; `compile-time` = inside the derive macro itself; `unreachable-…` = a
digest branch that `post_ops_partial` excludes for decoded values; `REACHABLE-hash` = the known finding. -/
def reviewedSites : List (String × String × String) := [
  ("crates/chia-traits/src/streamable.rs", "[pos as usize..]", "guarded"),
  ("crates/chia-traits/src/streamable.rs", "[..len]", "guarded"),
  ("crates/chia-traits/src/streamable.rs", ".unwrap(", "guarded"),
  ("crates/chia-traits/src/streamable.rs", "[0]", "guarded"),
  ("crates/chia-traits/src/streamable.rs", "[0]", "guarded"),
  ("crates/chia_streamable_macro/src/lib.rs", ".expect(", "compile-time"),
  ("crates/chia_streamable_macro/src/lib.rs", "panic!", "compile-time"),
  ("crates/chia_streamable_macro/src/lib.rs", "panic!", "compile-time"),
  ("crates/chia_streamable_macro/src/lib.rs", "panic!", "compile-time"),
  ("crates/chia_streamable_macro/src/lib.rs", ".expect(", "compile-time"),
  ("crates/chia_streamable_macro/src/lib.rs", "panic!", "compile-time"),
  ("crates/chia_streamable_macro/src/lib.rs", ".unwrap(", "compile-time"),
  ("crates/chia-protocol/src/proof_of_space.rs", "panic!", "unreachable-plot-id"),
  ("crates/chia-protocol/src/proof_of_space.rs", "panic!", "unreachable-plot-id"),
  ("crates/chia-protocol/src/proof_of_space.rs", "panic!", "unreachable-plot-id"),
  ("crates/chia-protocol/src/proof_of_space.rs", ".expect(", "REACHABLE-hash"),
  ("crates/chia-protocol/src/proof_of_space.rs", "panic!", "unreachable-version"),
  ("crates/chia-protocol/src/fullblock.rs", "panic!", "unreachable-version"),
  ("crates/chia-protocol/src/program.rs", "[pos as usize..]", "guarded"),
  ("crates/chia-protocol/src/program.rs", "[..len as usize]", "guarded"),
  ("crates/chia-protocol/src/bytes.rs", ".unwrap(", "guarded"),
  ("crates/chia-bls/src/public_key.rs", ".unwrap(", "guarded"),
  ("crates/chia-bls/src/signature.rs", ".unwrap(", "guarded"),
  ("crates/chia-bls/src/secret_key.rs", ".unwrap(", "guarded"),
  ("crates/chia-bls/src/gtelement.rs", ".unwrap(", "guarded")]

/-- **Every panic site extracted from the current source is a reviewed one** (same files, same constructs, same
order and multiplicity; line numbers may move).  A new `unwrap`/`expect`/`panic!`/index inside a Streamable
method changes `Gen.panicSites` and breaks this theorem. -/
theorem panic_sites_reviewed :
    Gen.panicSites.map (fun s => (s.1, s.2.2.1)) = reviewedSites.map (fun s => (s.1, s.2.1)) := by
  decide +kernel

end ChiaModel.C14
