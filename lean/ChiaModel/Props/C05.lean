import ChiaModel.Lemmas.Acc
import ChiaModel.Model.AggSig
import ChiaModel.Props.C02
/-
C05 — signature acceptance binds each AGG_SIG condition to its domain-separated text.
-/
namespace ChiaModel.C05
open ChiaModel ChiaModel.Cond ChiaModel.Sig ChiaModel.TL

/-- the seven domain-separation constants of TEST_CONSTANTS (regenerated from the source) are
32 bytes each and pairwise distinct -/
theorem distinct_consts :
    [Gen.aggSigMeAdditionalData, Gen.aggSigParentAdditionalData, Gen.aggSigPuzzleAdditionalData,
     Gen.aggSigAmountAdditionalData, Gen.aggSigPuzzleAmountAdditionalData, Gen.aggSigParentAmountAdditionalData,
     Gen.aggSigParentPuzzleAdditionalData].Nodup ∧
    ∀ c ∈ [Gen.aggSigMeAdditionalData, Gen.aggSigParentAdditionalData, Gen.aggSigPuzzleAdditionalData,
     Gen.aggSigAmountAdditionalData, Gen.aggSigPuzzleAmountAdditionalData, Gen.aggSigParentAmountAdditionalData,
     Gen.aggSigParentPuzzleAdditionalData], c.length = 32 := by decide

/-- the eight AGG_SIG opcode numbers -/
theorem opcode_values :
    Gen.opAggSigParent = 43 ∧ Gen.opAggSigPuzzle = 44 ∧ Gen.opAggSigAmount = 45 ∧ Gen.opAggSigPuzzleAmount = 46 ∧
    Gen.opAggSigParentAmount = 47 ∧ Gen.opAggSigParentPuzzle = 48 ∧ Gen.opAggSigUnsafe = 49 ∧ Gen.opAggSigMe = 50 := by decide

/-- **The text the code appends is the prescribed one.**  The suffix `parse_conditions` appends to an
AGG_SIG message (using the generated `u64_to_bytes` ladder) equals the specification's suffix
(canonical amount) for every spend whose amount is a u64. -/
theorem suffix_eq_spec (op : Nat) (sp : Spend) (h : sp.coinAmount < 2^64) :
    aggSigSuffix op sp = specSuffix op sp.parentId sp.puzzleHash sp.coinId sp.coinAmount := by
  simp only [aggSigSuffix, specSuffix, C11.u64ToBytes_canon sp.coinAmount h]

/-- **`make_aggsig_final_message` yields the same texts.**  For the seven coin-bound opcodes the helper
returns message ‖ prescribed suffix, where the coin id is SHA-256(parent ‖ puzzle hash ‖ canonical
amount); for any other opcode it returns the message unchanged. -/
theorem finalMessage_spec (op : Nat) (msg parent ph : Bytes) (amount : Nat) (h : amount < 2^64) :
    makeAggsigFinalMessage op msg parent ph amount =
      msg ++ specSuffix op parent ph (sha256 (parent ++ ph ++ canonNat amount)) amount := by
  simp only [makeAggsigFinalMessage, specSuffix, C11.u64ToBytes_canon amount h, C11.coinIdAmount_canon amount h,
    opcode_values.1, opcode_values.2.1, opcode_values.2.2.1, opcode_values.2.2.2.1, opcode_values.2.2.2.2.1,
    opcode_values.2.2.2.2.2.1, opcode_values.2.2.2.2.2.2.2]
  by_cases h43 : op = 43
  · subst h43; simp
  by_cases h44 : op = 44
  · subst h44; simp
  by_cases h45 : op = 45
  · subst h45; simp
  by_cases h46 : op = 46
  · subst h46; simp
  by_cases h47 : op = 47
  · subst h47; simp
  by_cases h48 : op = 48
  · subst h48; simp
  by_cases h50 : op = 50
  · subst h50; simp
  simp [h43, h44, h45, h46, h47, h48, h50]

/-! ### domain separation -/

theorem endsWith_append (a c : Bytes) : endsWith (a ++ c) c = true := by
  simp [endsWith]

/-- every prescribed text of a coin-bound opcode ends in that opcode's own constant -/
theorem text_ends_with_const (op : Nat) (msg parent ph id : Bytes) (amount : Nat) (hc : coinBound op = true) :
    ∃ pre, msg ++ specSuffix op parent ph id amount = pre ++ constOf op := by
  simp only [coinBound, Bool.or_eq_true, decide_eq_true_eq] at hc
  simp only [specSuffix, constOf]
  rcases hc with (((((h | h) | h) | h) | h) | h) | h <;> subst h
  · exact ⟨msg ++ id, by simp [opcode_values]⟩
  · exact ⟨msg ++ parent, by simp [opcode_values]⟩
  · exact ⟨msg ++ ph, by simp [opcode_values]⟩
  · exact ⟨msg ++ canonNat amount, by simp [opcode_values]⟩
  · exact ⟨msg ++ ph ++ canonNat amount, by simp [opcode_values]⟩
  · exact ⟨msg ++ parent ++ canonNat amount, by simp [opcode_values]⟩
  · exact ⟨msg ++ parent ++ ph, by simp [opcode_values]⟩

theorem constOf_length (op : Nat) (hc : coinBound op = true) : (constOf op).length = 32 := by
  simp only [coinBound, Bool.or_eq_true, decide_eq_true_eq] at hc
  rcases hc with (((((h | h) | h) | h) | h) | h) | h <;> subst h <;> decide

theorem constOf_injective (op op' : Nat) (hc : coinBound op = true) (hc' : coinBound op' = true)
    (h : constOf op = constOf op') : op = op' := by
  simp only [coinBound, Bool.or_eq_true, decide_eq_true_eq] at hc hc'
  rcases hc with (((((h1 | h1) | h1) | h1) | h1) | h1) | h1 <;>
    rcases hc' with (((((h2 | h2) | h2) | h2) | h2) | h2) | h2 <;> subst h1 <;> subst h2 <;>
    first | rfl | (exfalso; revert h; decide)

theorem append_right_cancel_len {a b c d : Bytes} (h : a ++ c = b ++ d) (hl : c.length = d.length) : c = d := by
  have h1 : (a ++ c).length = (b ++ d).length := by rw [h]
  simp only [List.length_append] at h1
  have hab : a.length = b.length := by omega
  exact (List.append_inj h hab).2

/-- **Domain separation.**  Two prescribed texts of coin-bound AGG_SIG opcodes can only coincide if
the opcodes are the same: a signature made for one opcode is never valid for another. -/
theorem domain_separation (op op' : Nat) (msg msg' parent parent' ph ph' id id' : Bytes) (amount amount' : Nat)
    (hc : coinBound op = true) (hc' : coinBound op' = true)
    (h : msg ++ specSuffix op parent ph id amount = msg' ++ specSuffix op' parent' ph' id' amount') : op = op' := by
  obtain ⟨p1, e1⟩ := text_ends_with_const op msg parent ph id amount hc
  obtain ⟨p2, e2⟩ := text_ends_with_const op' msg' parent' ph' id' amount' hc'
  rw [e1, e2] at h
  exact constOf_injective op op' hc hc' (append_right_cancel_len h (by rw [constOf_length op hc, constOf_length op' hc']))

/-- **AGG_SIG_UNSAFE cannot imitate a coin-bound text.**  A message accepted for AGG_SIG_UNSAFE (the
suffix ban) differs from every prescribed text of a coin-bound opcode. -/
theorem unsafe_separated (m : Bytes) (op : Nat) (msg parent ph id : Bytes) (amount : Nat)
    (hok : unsafeMsgOk m = true) (hc : coinBound op = true) : m ≠ msg ++ specSuffix op parent ph id amount := by
  intro heq
  obtain ⟨pre, e⟩ := text_ends_with_const op msg parent ph id amount hc
  rw [e] at heq
  have hlen := constOf_length op hc
  have hmem : constOf op ∈ sevenSuffixes := by
    simp only [coinBound, Bool.or_eq_true, decide_eq_true_eq] at hc
    simp only [sevenSuffixes, constOf]
    rcases hc with (((((h | h) | h) | h) | h) | h) | h <;> subst h <;> simp [opcode_values]
  simp only [unsafeMsgOk, Bool.or_eq_true, decide_eq_true_eq, Bool.not_eq_true', List.any_eq_false] at hok
  rcases hok with hlt | hno
  · rw [heq, List.length_append, hlen] at hlt; omega
  · have := hno (constOf op) hmem
    rw [heq, endsWith_append] at this
    exact this rfl

/-! ### which pairs are verified -/

def pairContrib (validate : Bool) (a : Attrs) : Cond → List (Bytes × Bytes)
  | .aggSig op pk msg =>
    if validate then [(pk, msg ++ aggSigSuffix op ⟨a.parentId, a.coinAmount, a.puzzleHash, a.coinId, none, none, none, none, none, none,
      [], [], [], [], [], [], [], [], 0, 0, 0⟩)] else []
  | _ => []

theorem aggSigSuffix_attrs (op : Nat) (sp sp' : Spend) (h : attrsOf sp = attrsOf sp') : aggSigSuffix op sp = aggSigSuffix op sp' := by
  simp only [attrsOf, Attrs.mk.injEq] at h
  obtain ⟨h1, h2, h3, h4⟩ := h
  simp only [aggSigSuffix, h1, h2, h3, h4]

@[simp] theorem assertNotEphemeral_pkm (s : CSt) : (assertNotEphemeral s).st.pkmPairs = s.st.pkmPairs := by
  unfold assertNotEphemeral; split <;> rfl

theorem applyCond_pairs (env : Env) (s s' : CSt) (c : Cond) (h : applyCond env s c = .ok s') :
    s'.st.pkmPairs = s.st.pkmPairs ++ pairContrib (!hasFlag env.flags Gen.flagDontValidateSignature) (attrsOf s.spend) c := by
  cases c <;> simp only [applyCond] at h
  case aggSig op pk msg =>
    simp only [pairContrib]
    split at h
    · rename_i hop
      split at h
      · cases h
      · obtain ⟨k, hk, h2⟩ := bind_ok h
        have hk' := (toKey_ok env pk k hk).1
        subst hk'
        injection h2 with h2; subst h2
        by_cases hd : hasFlag env.flags Gen.flagDontValidateSignature = true
        · simp [hd]
        · simp only [hd, Bool.false_eq_true, if_false, Bool.not_false, if_true]
          subst hop
          simp [aggSigSuffix, opcode_values]
    · obtain ⟨k, hk, h2⟩ := bind_ok h
      have hk' := (toKey_ok env pk k hk).1
      subst hk'
      injection h2 with h2; subst h2
      by_cases hd : hasFlag env.flags Gen.flagDontValidateSignature = true
      · simp [hd]
      · simp only [hd, Bool.false_eq_true, if_false, Bool.not_false, if_true]
        congr 3
  all_goals
    simp only [pairContrib, List.append_nil]
    first
      | (injection h with h; subst h; simp; done)
      | (split at h <;> first | (injection h with h; subst h; simp; done) | (cases h; done))
      | (obtain ⟨s1', hd, h⟩ := bind_ok h; obtain ⟨d1, d2, d3⟩ := decrement_frame _ _ _ hd; injection h with h; subst h; simp [d3]; done)

/-- **Exactly the prescribed pairs are verified, in order.**  For an accepted generator output the
list handed to BLS aggregate verification is the concatenation, over the spends in order, of
(public key, message ‖ suffix) for each AGG_SIG condition of the spend — nothing missing, nothing
extra (empty when signature validation is switched off). -/
theorem pairs_spec (env : Env) (sigOk : List (Bytes × Bytes) → Bool) (t iter : Sexp) (L cc : Nat) (b : Bundle) (st : PState)
    (hf : first t = .ok iter) (h : parseSpends env sigOk t L cc = .ok (b, st)) :
    st.pkmPairs = (listElems iter).flatMap
      (spendContrib env.flags (pairContrib (!hasFlag env.flags Gen.flagDontValidateSignature))) := by
  obtain ⟨iter', ret, left, hf', hl, _, _⟩ := C02.parseSpends_ok h
  rw [hf] at hf'; injection hf' with hf'; subst hf'
  have := spendLoop_acc env cc (fun st => st.pkmPairs) (pairContrib (!hasFlag env.flags Gen.flagDontValidateSignature))
    (fun st a b => rfl) (fun s s' cva happ => applyCond_pairs env s s' cva happ) iter {} {} _ L ret st left hl
  simpa using this

/-- the signature check is exactly a check of those pairs: with validation on, acceptance implies the
BLS verdict on the collected pairs is positive … -/
theorem sig_needed (env : Env) (sigOk : List (Bytes × Bytes) → Bool) (t : Sexp) (L cc : Nat) (b : Bundle) (st : PState)
    (hv : hasFlag env.flags Gen.flagDontValidateSignature = false)
    (h : parseSpends env sigOk t L cc = .ok (b, st)) : sigOk st.pkmPairs = true := by
  unfold parseSpends at h
  cases hf : first t with
  | error e => rw [hf] at h; cases h
  | ok iter =>
    rw [hf] at h; simp only at h
    cases hl : spendLoop env cc iter {} {} (spendLimit env.flags) L with
    | error e => rw [hl] at h; cases h
    | ok p =>
      obtain ⟨⟨ret, st'⟩, left⟩ := p
      rw [hl] at h; simp only at h
      cases hb : finishBundle env sigOk ret st' with
      | error e => rw [hb] at h; cases h
      | ok ret' =>
        rw [hb] at h; simp only at h
        injection h with h; injection h with h1 h2; subst h2
        unfold finishBundle at hb
        simp only at hb
        cases hvc : validateConditions (postProcess env ret st') st' with
        | error e => rw [hvc] at hb; cases hb
        | ok u =>
          rw [hvc] at hb; simp only at hb
          split at hb
          · cases hb
          · rename_i hcond
            simp only [hv, Bool.not_false, true_and, Bool.not_eq_true', Bool.not_eq_false] at hcond
            simpa using hcond

/-- … and conversely the verdict depends on the signature only through that check: a bundle accepted
with an always-true oracle is accepted for any oracle that approves its pairs. -/
theorem sig_sufficient (env : Env) (sigOk : List (Bytes × Bytes) → Bool) (t : Sexp) (L cc : Nat) (b : Bundle) (st : PState)
    (h : parseSpends env (fun _ => true) t L cc = .ok (b, st)) (hs : sigOk st.pkmPairs = true) :
    parseSpends env sigOk t L cc = .ok (b, st) := by
  unfold parseSpends at h ⊢
  cases hf : first t with
  | error e => rw [hf] at h; cases h
  | ok iter =>
    rw [hf] at h; simp only at h ⊢
    cases hl : spendLoop env cc iter {} {} (spendLimit env.flags) L with
    | error e => rw [hl] at h; cases h
    | ok p =>
      obtain ⟨⟨ret, st'⟩, left⟩ := p
      rw [hl] at h; simp only at h ⊢
      cases hb : finishBundle env (fun _ => true) ret st' with
      | error e => rw [hb] at h; cases h
      | ok ret' =>
        rw [hb] at h; simp only at h
        injection h with h; injection h with h1 h2; subst h2
        have : finishBundle env sigOk ret st' = .ok ret' := by
          unfold finishBundle at hb ⊢
          simp only at hb ⊢
          cases hvc : validateConditions (postProcess env ret st') st' with
          | error e => rw [hvc] at hb; cases hb
          | ok u =>
            rw [hvc] at hb; simp only at hb ⊢
            rw [if_neg (by simp [hs])]
            rw [if_neg (by simp)] at hb
            exact hb
        rw [this]; simp only; rw [h1]

/-- **Bad keys.**  An AGG_SIG condition whose key is not a valid, non-infinity G1 point (as judged by
blst: the `pkOk` oracle) makes the bundle invalid, for every opcode, flag set and message. -/
theorem bad_key_rejected (env : Env) (s : CSt) (op : Nat) (pk msg : Bytes) (hbad : env.pkOk pk = false) :
    ∃ e, applyCond env s (.aggSig op pk msg) = .error e := by
  simp only [applyCond, toKey, hbad, Bool.false_eq_true, if_false]
  split
  · split
    · exact ⟨_, rfl⟩
    · exact ⟨_, rfl⟩
  · exact ⟨_, rfl⟩

end ChiaModel.C05
