import ChiaModel.Lemmas.Ints
/-
C11 — all integer encoders agree on the canonical CLVM integer form.
Property theorems only (helper lemmas live in Lemmas/Ints.lean).  `Gen.*` definitions are
regenerated from the Rust source by the translator on every run, so these theorems are re-checked
against what the code says now.
-/
namespace ChiaModel.C11
open ChiaModel

/-- resolve every `if` whose condition `omega` decides (either way) -/
macro "ladder" : tactic =>
  `(tactic| repeat (first | rw [if_pos (by omega)] | rw [if_neg (by omega)]))

theorem u64_classes (v : Nat) (hv : v < 2^64) :
    v = 0 ∨ (0 < v ∧ v < 2^7) ∨ (2^7 ≤ v ∧ v < 2^15) ∨ (2^15 ≤ v ∧ v < 2^23) ∨ (2^23 ≤ v ∧ v < 2^31)
    ∨ (2^31 ≤ v ∧ v < 2^39) ∨ (2^39 ≤ v ∧ v < 2^47) ∨ (2^47 ≤ v ∧ v < 2^55) ∨ (2^55 ≤ v ∧ v < 2^63)
    ∨ (2^63 ≤ v ∧ v < 2^64) := by omega

theorem byteLen_cases (v : Nat) (hv : v < 2^64) :
    byteLen v = (if v = 0 then 0 else if v < 2^7 then 1 else if v < 2^15 then 2 else if v < 2^23 then 3
      else if v < 2^31 then 4 else if v < 2^39 then 5 else if v < 2^47 then 6 else if v < 2^55 then 7
      else if v < 2^63 then 8 else 9) := by
  simp only [byteLen, byteLenAux]
  rcases u64_classes v hv with h|h|h|h|h|h|h|h|h|h <;> ladder

theorem be9 (v : Nat) (hv : v < 2^64) : be 9 v = 0 :: be 8 v := by
  rw [be_succ 8 v, Nat.div_eq_of_lt (by omega)]

/-! ### Specification sanity: `canonNat` really is the minimal two's-complement form -/

macro "expand_be" : tactic =>
  `(tactic| simp only [be_succ, be_zero, Nat.reducePow, Nat.pow_zero, Nat.div_one])

/-- `canonNat v` decodes to `v`, is non-negative as a signed number, and has no redundant byte. -/
theorem canonNat_spec (v : Nat) (hv : v < 2^64) :
    beVal (canonNat v) = v ∧ intOfBytes (canonNat v) = v ∧ Minimal (canonNat v) ∧ isBytes (canonNat v) := by
  have hb : beVal (canonNat v) = v := by
    rw [canonNat, byteLen_cases v hv]
    rcases u64_classes v hv with h|h|h|h|h|h|h|h|h|h <;> ladder <;> apply beVal_be <;> omega
  have hh : headGe128 (canonNat v) = false := by
    rw [canonNat, byteLen_cases v hv]
    rcases u64_classes v hv with h|h|h|h|h|h|h|h|h|h <;> ladder <;> expand_be <;>
      simp [headGe128] <;> omega
  refine ⟨hb, ?_, ?_, be_isBytes _ _⟩
  · rw [intOfBytes_of_head _ hh, hb]
  · rw [canonNat, byteLen_cases v hv]
    rcases u64_classes v hv with h|h|h|h|h|h|h|h|h|h <;> ladder <;> expand_be <;>
      simp [Minimal] <;> omega

/-! ### The three ladders (translator-generated definitions) -/

/-- `u64_to_bytes` (signature message suffixes) produces the canonical form, for every u64. -/
theorem u64ToBytes_canon (v : Nat) (hv : v < 2^64) : Gen.u64ToBytes v = canonNat v := by
  rw [canonNat, byteLen_cases v hv]
  simp only [Gen.u64ToBytes, Gen.u64ToBytesStart]
  rcases u64_classes v hv with h|h|h|h|h|h|h|h|h|h <;> ladder <;>
  first
    | (rw [be_drop _ _ _ (by omega)])
    | (exact (be9 v hv).symm)

/-- the amount bytes `Coin::coin_id` hashes are the canonical form, for every u64. -/
theorem coinIdAmount_canon (v : Nat) (hv : v < 2^64) : Gen.coinIdAmount v = canonNat v := by
  rw [canonNat, byteLen_cases v hv]
  simp only [Gen.coinIdAmount, Gen.coinIdAmountStart]
  rcases u64_classes v hv with h|h|h|h|h|h|h|h|h|h <;> ladder <;>
  first
    | (rw [be_drop _ _ _ (by omega)])
    | (exact (be9 v hv).symm)

/-- hence both hash-input encoders agree with each other on all of u64 -/
theorem encoders_agree (v : Nat) (hv : v < 2^64) : Gen.u64ToBytes v = Gen.coinIdAmount v := by
  rw [u64ToBytes_canon v hv, coinIdAmount_canon v hv]

theorem canonNat_length (v : Nat) : (canonNat v).length = byteLen v := by simp [canonNat, be_length]

theorem serAtom_len_short (b : Bytes) (h1 : 2 ≤ b.length) (h2 : b.length < 64) :
    (Sexp.serAtom b).length = b.length + 1 := by
  simp only [Sexp.serAtom, Sexp.atomPrefix]
  rw [if_neg (by omega), if_neg (by omega), if_pos (by omega)]
  simp

theorem serAtom_len_one (x : Nat) : (Sexp.serAtom [x]).length = if x < 128 then 1 else 2 := by
  simp only [Sexp.serAtom, Sexp.atomPrefix, List.length_cons, List.length_nil, List.headD_cons]
  by_cases h : x < 128
  · simp [h]
  · simp [h]

/-- `clvm_bytes_len` predicts exactly the serialised length of the canonical atom. -/
theorem clvmBytesLen_ok (v : Nat) (hv : v < 2^64) :
    Gen.clvmBytesLen v = (Sexp.serialize (.atom (canonNat v))).length := by
  have hl := canonNat_length v
  rw [byteLen_cases v hv] at hl
  simp only [Sexp.serialize, Gen.clvmBytesLen]
  rcases u64_classes v hv with h|h|h|h|h|h|h|h|h|h
  · subst h; decide
  · -- single byte below 0x80: serialised as itself
    have hc : canonNat v = [v] := by
      rw [canonNat, byteLen_cases v hv]; ladder; expand_be; simp; omega
    rw [hc, serAtom_len_one]; ladder
  all_goals (rw [serAtom_len_short _ (by rw [hl]; ladder; omega) (by rw [hl]; ladder; omega), hl]; ladder)

/-! ### `sanitize_uint` (condition integers) -/

/-- Accepted ⇒ the atom decodes to the returned value, is non-negative, has no redundant leading
byte (so it is the unique canonical encoding), and the value fits the width: nothing is truncated. -/
theorem sanitizeUint_ok (b : Bytes) (n v : Nat) (hb : isBytes b) (h : sanitizeUint b n = .ok v) :
    beVal b = v ∧ headGe128 b = false ∧ Minimal b ∧ v < 256 ^ n := by
  cases b with
  | nil =>
    simp [sanitizeUint] at h; subst h
    exact ⟨rfl, rfl, trivial, Nat.pow_pos (by decide)⟩
  | cons b0 tl =>
    simp only [sanitizeUint] at h
    by_cases h0 : b0 ≥ 128
    · rw [if_pos h0] at h; cases h
    rw [if_neg h0] at h
    by_cases h1 : (b0 :: tl = [0] ∨ b0 = 0 ∧ headLt128 tl = true)
    · rw [if_pos h1] at h; cases h
    rw [if_neg h1] at h
    by_cases h2 : (b0 :: tl).length > (if b0 = 0 then n + 1 else n)
    · rw [if_pos h2] at h; cases h
    rw [if_neg h2] at h
    injection h with h; subst h
    have hlt : b0 < 128 := by omega
    refine ⟨rfl, by simp [headGe128]; omega, ?_, ?_⟩
    · cases tl with
      | nil => simp [Minimal]; intro h; apply h1; left; rw [h]
      | cons y t =>
        simp only [Minimal]
        refine ⟨fun hh => h1 (Or.inr ⟨hh.1, by simp [headLt128]; exact hh.2⟩), fun hh => by omega⟩
    · have htl : isBytes tl := fun y hy => hb y (by simp [hy])
      by_cases hz : b0 = 0
      · subst hz
        simp at h2
        have : beVal (0 :: tl) = beVal tl := by rw [beVal_cons]; simp
        rw [this]
        exact Nat.lt_of_lt_of_le (beVal_lt tl htl) (Nat.pow_le_pow_right (by decide) (by omega))
      · simp [hz] at h2
        exact Nat.lt_of_lt_of_le (beVal_lt _ hb) (Nat.pow_le_pow_right (by decide) (by simpa using h2))

/-- Conversely every canonical non-negative atom whose value fits is accepted with that value. -/
theorem sanitizeUint_complete (b : Bytes) (n : Nat) (hb : isBytes b) (hneg : headGe128 b = false)
    (hmin : Minimal b) (hfit : beVal b < 256 ^ n) : sanitizeUint b n = .ok (beVal b) := by
  cases b with
  | nil => simp [sanitizeUint, beVal]
  | cons b0 tl =>
    have hlt : b0 < 128 := by simpa [headGe128] using hneg
    simp only [sanitizeUint]
    rw [if_neg (by omega)]
    have h1 : ¬ (b0 :: tl = [0] ∨ b0 = 0 ∧ headLt128 tl = true) := by
      rintro (h | ⟨h, h'⟩)
      · injection h with ha hb'; subst ha; subst hb'; simp [Minimal] at hmin
      · cases tl with
        | nil => simp [headLt128] at h'
        | cons y t => simp [headLt128] at h'; simp [Minimal] at hmin; omega
    rw [if_neg h1]
    have htl : isBytes tl := fun y hy => hb y (by simp [hy])
    rw [if_neg]
    by_cases hz : b0 = 0
    · subst hz
      simp only [if_true, List.length_cons]
      -- tl starts with a byte ≥ 128, so 128·256^(len-1) ≤ value < 256^n
      cases tl with
      | nil => exact absurd (Or.inl rfl) h1
      | cons y t =>
        have hy : ¬ y < 128 := fun hy => h1 (Or.inr ⟨rfl, by simp [headLt128]; exact hy⟩)
        have hge := beVal_ge_head y t
        have : beVal (0 :: y :: t) = beVal (y :: t) := by rw [beVal_cons]; simp
        rw [this] at hfit
        have h3 : 256 ^ t.length < 256 ^ n := by
          have : 1 * 256 ^ t.length ≤ y * 256 ^ t.length := Nat.mul_le_mul_right _ (by omega)
          omega
        have := (Nat.pow_lt_pow_iff_right (by decide : 1 < 256)).mp h3
        simp only [List.length_cons]; omega
    · simp only [if_neg hz]
      have hge := beVal_ge_head b0 tl
      have h3 : 256 ^ tl.length < 256 ^ n := by
        have : 1 * 256 ^ tl.length ≤ b0 * 256 ^ tl.length := Nat.mul_le_mul_right _ (by omega)
        omega
      have := (Nat.pow_lt_pow_iff_right (by decide : 1 < 256)).mp h3
      simp only [List.length_cons]; omega

/-- negative class ⇔ top bit of the first byte set -/
theorem sanitizeUint_neg (b : Bytes) (n : Nat) : sanitizeUint b n = .negOverflow ↔ headGe128 b = true := by
  cases b with
  | nil => simp [sanitizeUint, headGe128]
  | cons b0 tl =>
    simp only [sanitizeUint, headGe128]
    constructor
    · intro h
      by_cases h0 : b0 ≥ 128
      · simpa using h0
      rw [if_neg h0] at h
      by_cases h1 : (b0 :: tl = [0] ∨ b0 = 0 ∧ headLt128 tl = true)
      · rw [if_pos h1] at h; cases h
      rw [if_neg h1] at h
      by_cases h2 : (b0 :: tl).length > (if b0 = 0 then n + 1 else n)
      · rw [if_pos h2] at h; cases h
      rw [if_neg h2] at h; cases h
    · intro h; rw [if_pos (by simpa using h)]

/-- rejected (`Err`) ⇔ non-negative with a redundant leading zero byte -/
theorem sanitizeUint_err (b : Bytes) (n : Nat) (hb : isBytes b) :
    sanitizeUint b n = .err ↔ headGe128 b = false ∧ ¬ Minimal b := by
  cases b with
  | nil => simp [sanitizeUint, Minimal]
  | cons b0 tl =>
    have hb0 : b0 < 256 := hb b0 (by simp)
    simp only [sanitizeUint, headGe128]
    constructor
    · intro h
      by_cases h0 : b0 ≥ 128
      · rw [if_pos h0] at h; cases h
      rw [if_neg h0] at h
      by_cases h1 : (b0 :: tl = [0] ∨ b0 = 0 ∧ headLt128 tl = true)
      · refine ⟨by simpa using h0, ?_⟩
        rcases h1 with h1 | ⟨h1, h2⟩
        · injection h1 with ha hb'; subst ha; subst hb'; simp [Minimal]
        · cases tl with
          | nil => simp [headLt128] at h2
          | cons y t => simp [headLt128] at h2; simp [Minimal]; omega
      · rw [if_neg h1] at h
        by_cases h2 : (b0 :: tl).length > (if b0 = 0 then n + 1 else n)
        · rw [if_pos h2] at h; cases h
        · rw [if_neg h2] at h; cases h
    · rintro ⟨h0, hm⟩
      rw [if_neg (by simpa using h0), if_pos]
      cases tl with
      | nil => left; simp [Minimal] at hm; rw [hm]
      | cons y t =>
        right; simp only [Minimal] at hm
        have : b0 < 128 := by simpa using h0
        simp [headLt128]; omega

/-- positive overflow only for canonical non-negative atoms whose value does not fit the width -/
theorem sanitizeUint_pos (b : Bytes) (n : Nat) (h : sanitizeUint b n = .posOverflow) :
    headGe128 b = false ∧ Minimal b ∧ 256 ^ n ≤ beVal b := by
  cases b with
  | nil => simp [sanitizeUint] at h
  | cons b0 tl =>
    simp only [sanitizeUint] at h
    by_cases h0 : b0 ≥ 128
    · rw [if_pos h0] at h; cases h
    rw [if_neg h0] at h
    by_cases h1 : (b0 :: tl = [0] ∨ b0 = 0 ∧ headLt128 tl = true)
    · rw [if_pos h1] at h; cases h
    rw [if_neg h1] at h
    by_cases h2 : (b0 :: tl).length > (if b0 = 0 then n + 1 else n)
    · refine ⟨by simp [headGe128]; omega, ?_, ?_⟩
      · cases tl with
        | nil => simp [Minimal]; intro h; apply h1; left; rw [h]
        | cons y t =>
          simp only [Minimal]
          refine ⟨fun hh => h1 (Or.inr ⟨hh.1, by simp [headLt128]; exact hh.2⟩), fun hh => by omega⟩
      · by_cases hz : b0 = 0
        · subst hz
          simp at h2
          cases tl with
          | nil => simp at h2
          | cons y t =>
            have hy : ¬ y < 128 := fun hy => h1 (Or.inr ⟨rfl, by simp [headLt128]; exact hy⟩)
            have hge := beVal_ge_head y t
            have : beVal (0 :: y :: t) = beVal (y :: t) := by rw [beVal_cons]; simp
            rw [this]
            have h3 : 256 ^ n ≤ 256 ^ t.length := Nat.pow_le_pow_right (by decide) (by simp at h2; omega)
            have : 1 * 256 ^ t.length ≤ y * 256 ^ t.length := Nat.mul_le_mul_right _ (by omega)
            omega
        · simp [hz] at h2
          have hge := beVal_ge_head b0 tl
          have h3 : 256 ^ n ≤ 256 ^ tl.length := Nat.pow_le_pow_right (by decide) (by omega)
          have : 1 * 256 ^ tl.length ≤ b0 * 256 ^ tl.length := Nat.mul_le_mul_right _ (by omega)
          omega
    · rw [if_neg h2] at h; cases h

/-! ### uniqueness of the canonical form -/

theorem be_beVal (b : Bytes) (hb : isBytes b) : be b.length (beVal b) = b := by
  induction b with
  | nil => simp
  | cons x t ih =>
    have hx : x < 256 := hb x (by simp)
    have ht : isBytes t := fun y hy => hb y (by simp [hy])
    have hlt := beVal_lt t ht
    rw [List.length_cons, be_succ, beVal_cons]
    congr 1
    · rw [Nat.add_comm, Nat.add_mul_div_right _ _ (Nat.pow_pos (by decide)), Nat.div_eq_of_lt hlt]
      simp; omega
    · -- lower bytes are those of `beVal t`
      have : be t.length (x * 256 ^ t.length + beVal t) = be t.length (beVal t) := by
        simp only [be]
        apply List.map_congr_left
        intro i hi
        simp at hi
        have h1 : 256 ^ t.length = 256 ^ i * 256 ^ (t.length - i) := by rw [← Nat.pow_add]; congr 1; omega
        have h2 : 256 ^ (t.length - i) = 256 * 256 ^ (t.length - i - 1) := by rw [← Nat.pow_succ']; congr 1; omega
        rw [h1, h2]
        have : x * (256 ^ i * (256 * 256 ^ (t.length - i - 1))) = 256 ^ i * (256 * (x * 256 ^ (t.length - i - 1))) := by
          simp [Nat.mul_left_comm]
        rw [this, Nat.add_comm, Nat.add_mul_div_left _ _ (Nat.pow_pos (by decide)), Nat.add_mul_mod_self_left]
      rw [this, ih ht]


/-- The canonical form is unique: a non-negative byte string with no redundant leading byte whose
value is `v < 2^64` *is* `canonNat v`. -/
theorem canon_unique (b : Bytes) (v : Nat) (hb : isBytes b) (hneg : headGe128 b = false) (hmin : Minimal b)
    (hv : beVal b = v) (h64 : v < 2^64) : b = canonNat v := by
  suffices hl : byteLen v = b.length by rw [canonNat, hl, ← hv, be_beVal b hb]
  rw [byteLen_cases v h64, ← hv]
  rw [← hv] at h64
  match b, hb, hneg, hmin, h64 with
  | [], _, _, _, _ => simp [beVal]
  | [x], hb, hneg, hmin, h64 =>
    simp [headGe128, Minimal, beVal] at *; ladder
  | x :: y :: t, hb, hneg, hmin, h64 =>
    have hx : x < 256 := hb x (by simp)
    have hy : y < 256 := hb y (by simp)
    have ht : isBytes t := fun z hz => hb z (by simp [hz])
    have hlt := beVal_lt t ht
    simp only [headGe128, decide_eq_false_iff_not, Nat.not_le, Minimal] at hneg hmin
    have hval : beVal (x :: y :: t) = (x * 256 + y) * 256 ^ t.length + beVal t := by
      rw [beVal_cons, beVal_cons]; simp [Nat.pow_succ, Nat.add_mul, Nat.mul_assoc]
      rw [Nat.mul_comm (256 ^ t.length) 256]; omega
    rw [hval] at h64 ⊢
    have hlen : t.length ≤ 7 := by
      rcases Nat.lt_or_ge t.length 8 with h | h
      · omega
      · exfalso
        have : 256 ^ 8 ≤ 256 ^ t.length := Nat.pow_le_pow_right (by decide) h
        have h2 : 128 * 256 ^ t.length ≤ (x * 256 + y) * 256 ^ t.length := Nat.mul_le_mul_right _ (by omega)
        omega
    have hxy : 128 ≤ x * 256 + y ∧ x * 256 + y < 128 * 256 := by omega
    generalize x * 256 + y = w at *
    generalize hbt : beVal t = r at *
    simp only [List.length_cons]
    have : t.length = 0 ∨ t.length = 1 ∨ t.length = 2 ∨ t.length = 3 ∨ t.length = 4 ∨ t.length = 5 ∨ t.length = 6 ∨ t.length = 7 := by omega
    rcases this with h | h | h | h | h | h | h | h <;> rw [h] at hlt h64 ⊢ <;> simp only [Nat.reducePow, Nat.pow_zero, Nat.mul_one] at hlt h64 ⊢ <;> ladder


/-- every u64 atom `sanitize_uint` accepts is *the* canonical encoding of the value it returns -/
theorem sanitizeUint_canon (b : Bytes) (v : Nat) (hb : isBytes b) (h : sanitizeUint b 8 = .ok v) : b = canonNat v := by
  obtain ⟨h1, h2, h3, h4⟩ := sanitizeUint_ok b 8 v hb h
  exact canon_unique b v hb h2 h3 h1 (by simpa using h4)

/-! ### `encode_number` / `decode_number` (clvm-traits) -/

theorem skipPad_suffix (pad : Nat) (s : Bytes) : ∃ k, s = List.replicate k pad ++ skipPad pad s ∧
    (skipPad pad s).head? ≠ some pad := by
  induction s with
  | nil => exact ⟨0, by simp [skipPad]⟩
  | cons x t ih =>
    by_cases h : x = pad
    · obtain ⟨k, hk, hh⟩ := ih
      refine ⟨k + 1, ?_, ?_⟩
      · simp only [skipPad, if_pos h, List.replicate_succ, List.cons_append]; rw [← hk, h]
      · simpa only [skipPad, if_pos h] using hh
    · exact ⟨0, by simp [skipPad, h], by simp [skipPad, h]⟩

/-- value of a byte string prefixed by zero bytes is unchanged -/
theorem beVal_replicate_zero (k : Nat) (b : Bytes) : beVal (List.replicate k 0 ++ b) = beVal b := by
  induction k with
  | zero => simp
  | succ k ih => rw [List.replicate_succ, List.cons_append, beVal_cons]; simpa using ih

/-- `encode_number` of a non-negative big-endian slice: same value, non-negative, minimal. -/
theorem encodeNumber_nonneg (s : Bytes) :
    beVal (encodeNumber s false) = beVal s ∧ headGe128 (encodeNumber s false) = false
      ∧ Minimal (encodeNumber s false) := by
  obtain ⟨k, hk, hh⟩ := skipPad_suffix 0 s
  have hv : beVal s = beVal (skipPad 0 s) := by
    conv => lhs; rw [hk]
    exact beVal_replicate_zero k _
  simp only [encodeNumber, Bool.false_eq_true, if_false]
  cases hr : skipPad 0 s with
  | nil =>
    rw [hr] at hv
    refine ⟨by rw [hv]; simp, by simp [headGe128], by simp [Minimal]⟩
  | cons x t =>
    rw [hr] at hh hv
    have hx : x ≠ 0 := by simpa using hh
    by_cases h128 : x ≥ 128
    · simp only [h128, decide_true, if_true]
      refine ⟨by rw [hv, beVal_cons]; simp, by simp [headGe128], ?_⟩
      simp only [Minimal]; omega
    · simp only [h128, decide_false, Bool.false_eq_true, if_false]
      refine ⟨hv.symm, by simp [headGe128]; omega, ?_⟩
      cases t with
      | nil => simpa [Minimal] using hx
      | cons y t' => simp only [Minimal]; omega

/-- signed value of `0xff :: b` -/
theorem intOfBytes_ff_cons (b : Bytes) : intOfBytes (255 :: b) = (beVal b : Int) - (256 ^ b.length : Nat) := by
  simp only [intOfBytes, ge_iff_le, show (128:Nat) ≤ 255 by decide, if_true, beVal_cons, List.length_cons]
  have : (256:Nat) ^ (b.length + 1) = 256 * 256 ^ b.length := by rw [Nat.pow_succ, Nat.mul_comm]
  rw [this]
  generalize 256 ^ b.length = p
  generalize beVal b = v
  omega

theorem intOfBytes_neg_head (b : Bytes) (h : headGe128 b = true) : intOfBytes b = (beVal b : Int) - (256 ^ b.length : Nat) := by
  cases b with
  | nil => simp [headGe128] at h
  | cons x t => simp only [headGe128, decide_eq_true_eq] at h; simp [intOfBytes, h]

theorem intOfBytes_ff_cons_neg (b : Bytes) (h : headGe128 b = true) : intOfBytes (255 :: b) = intOfBytes b := by
  rw [intOfBytes_ff_cons, intOfBytes_neg_head b h]

/-- value of a run of 0xff bytes followed by `r` -/
theorem intOfBytes_ffs (k : Nat) (r : Bytes) (hk : 0 < k) :
    intOfBytes (List.replicate k 255 ++ r) = (beVal r : Int) - (256 ^ r.length : Nat) := by
  induction k with
  | zero => omega
  | succ k ih =>
    rw [List.replicate_succ, List.cons_append]
    by_cases hk0 : k = 0
    · subst hk0; simpa using intOfBytes_ff_cons r
    · have hk' : 0 < k := by omega
      have hhead : headGe128 (List.replicate k 255 ++ r) = true := by
        obtain ⟨j, rfl⟩ : ∃ j, k = j + 1 := ⟨k - 1, by omega⟩
        simp [List.replicate_succ, headGe128]
      rw [intOfBytes_ff_cons_neg _ hhead, ih hk']

/-- `encode_number` of a negative big-endian two's-complement slice: same signed value, negative,
and no redundant leading 0xff byte. -/
theorem encodeNumber_neg (s : Bytes) (hb : isBytes s) (hneg : headGe128 s = true) :
    intOfBytes (encodeNumber s true) = intOfBytes s ∧ headGe128 (encodeNumber s true) = true
      ∧ Minimal (encodeNumber s true) := by
  obtain ⟨k, hk, hh⟩ := skipPad_suffix 255 s
  simp only [encodeNumber, if_true]
  cases hr : skipPad 255 s with
  | nil =>
    -- all bytes are 0xff: the value is -1, encoded as [0xff]
    rw [hr] at hk
    simp only [List.append_nil] at hk
    have hk0 : 0 < k := by
      rcases Nat.eq_zero_or_pos k with h0 | h0
      · subst h0; rw [hk] at hneg; simp [headGe128] at hneg
      · exact h0
    refine ⟨?_, by simp [headGe128], by simp [Minimal]⟩
    have := intOfBytes_ffs k [] hk0
    simp only [List.append_nil] at this
    rw [hk, this]
    simp [intOfBytes, beVal]
  | cons x t =>
    rw [hr] at hk hh
    have hx : x ≠ 255 := by simpa using hh
    have hx256 : x < 256 := hb x (by rw [hk]; simp)
    by_cases h128 : x < 128
    · -- needs a 0xff pad byte
      simp only [h128, decide_true, if_true]
      have hk0 : 0 < k := by
        rcases Nat.eq_zero_or_pos k with h0 | h0
        · subst h0; simp at hk; rw [hk] at hneg; simp [headGe128] at hneg; omega
        · exact h0
      refine ⟨?_, by simp [headGe128], ?_⟩
      · rw [intOfBytes_ff_cons]
        conv => rhs; rw [hk]
        rw [intOfBytes_ffs k _ hk0]
      · simp only [Minimal]; omega
    · simp only [h128, decide_false, Bool.false_eq_true, if_false]
      have hge : headGe128 (x :: t) = true := by simp [headGe128]; omega
      refine ⟨?_, hge, ?_⟩
      · conv => rhs; rw [hk]
        rcases Nat.eq_zero_or_pos k with h0 | h0
        · subst h0; simp
        · rw [intOfBytes_ffs k _ h0, intOfBytes_neg_head _ hge]
      · cases t with
        | nil => simp [Minimal]; omega
        | cons y t' => simp only [Minimal]; omega


theorem stripPadding_spec (len pad : Nat) : ∀ (budget : Nat) (slice s : Bytes), stripPadding len pad budget slice = some s →
    ∃ k, k ≤ budget ∧ slice = List.replicate k pad ++ s ∧ (s.length ≤ len ∨ s.head? ≠ some pad) := by
  intro budget
  induction budget with
  | zero =>
    intro slice s h
    cases slice with
    | nil => simp [stripPadding] at h; subst h; exact ⟨0, by omega, by simp, Or.inl (by simp)⟩
    | cons x t =>
      simp only [stripPadding] at h
      by_cases hc : (x :: t).length > len ∧ x = pad
      · rw [if_pos hc] at h; cases h
      · rw [if_neg hc] at h; injection h with h; subst h
        refine ⟨0, by omega, by simp, ?_⟩
        by_cases hl : (x :: t).length ≤ len
        · exact Or.inl hl
        · right; simp; intro hx; exact hc ⟨by omega, hx⟩
  | succ b ih =>
    intro slice s h
    cases slice with
    | nil => simp [stripPadding] at h; subst h; exact ⟨0, by omega, by simp, Or.inl (by simp)⟩
    | cons x t =>
      simp only [stripPadding] at h
      by_cases hc : (x :: t).length > len ∧ x = pad
      · rw [if_pos hc] at h
        obtain ⟨k, hk, hs, hend⟩ := ih t s h
        exact ⟨k + 1, by omega, by rw [hs, hc.2, List.replicate_succ]; simp, hend⟩
      · rw [if_neg hc] at h; injection h with h; subst h
        refine ⟨0, by omega, by simp, ?_⟩
        by_cases hl : (x :: t).length ≤ len
        · exact Or.inl hl
        · right; simp; intro hx; exact hc ⟨by omega, hx⟩

/-- value of a fixed-width big-endian field under the typed interpretation -/
def typedVal (signed : Bool) (r : Bytes) : Int := if signed then intOfBytes r else (beVal r : Int)

theorem intOfBytes_ffs' (k : Nat) (r : Bytes) (h : headGe128 r = true) : intOfBytes (List.replicate k 255 ++ r) = intOfBytes r := by
  rcases Nat.eq_zero_or_pos k with h0 | h0
  · subst h0; simp
  · rw [intOfBytes_ffs k r h0, intOfBytes_neg_head r h]

theorem headGe128_replicate_zero (k : Nat) (s : Bytes) (h : headGe128 s = false) : headGe128 (List.replicate k 0 ++ s) = false := by
  cases k with
  | zero => simpa using h
  | succ k => simp [List.replicate_succ, headGe128]

/-- **`decode_number` never truncates.**  Whatever it returns has exactly the requested width and the
same value as the atom (signed for signed types; for unsigned types the atom is non-negative); the
empty atom decodes to zero. -/
theorem decodeNumber_value (len : Nat) (signed : Bool) (slice r : Bytes) (hlen : 0 < len)
    (h : decodeNumber len signed slice = some r) :
    r.length = len ∧ typedVal signed r = intOfBytes slice ∧ (signed = false → headGe128 slice = false) := by
  cases slice with
  | nil =>
    simp only [decodeNumber] at h; injection h with h; subst h
    refine ⟨by simp [zeros], ?_, fun _ => rfl⟩
    unfold typedVal
    have hz : beVal (zeros len) = 0 := by
      have := beVal_replicate_zero len []
      simpa [zeros, beVal] using this
    cases signed with
    | false => simp [intOfBytes, hz]
    | true =>
      have : headGe128 (zeros len) = false := by
        cases len with
        | zero => rfl
        | succ n => simp [zeros, List.replicate_succ, headGe128]
      rw [if_pos rfl, intOfBytes_of_head _ this, hz]; simp [intOfBytes]
  | cons x0 t =>
    simp only [decodeNumber] at h
    by_cases hu : (!signed ∧ x0 ≥ 128)
    · rw [if_pos (by simpa using hu)] at h; cases h
    rw [if_neg (by simpa using hu)] at h
    cases hsp : stripPadding len (if (signed && decide (x0 ≥ 128)) = true then 255 else 0) 64 (x0 :: t) with
    | none => rw [hsp] at h; cases h
    | some s =>
      rw [hsp] at h; simp only at h
      by_cases hbad : s.length > len ∨ ((signed && headGe128 s) ≠ (signed && decide (x0 ≥ 128)))
      · rw [if_pos hbad] at h; cases h
      rw [if_neg hbad] at h
      injection h with h; subst h
      have hsl : s.length ≤ len := by omega
      have hsame : (signed && headGe128 s) = (signed && decide (x0 ≥ 128)) := by
        by_cases e : (signed && headGe128 s) = (signed && decide (x0 ≥ 128))
        · exact e
        · exact absurd (Or.inr e) hbad
      obtain ⟨k, _, hk, _⟩ := stripPadding_spec _ _ _ _ _ hsp
      refine ⟨by simp; omega, ?_, ?_⟩
      · unfold typedVal
        by_cases hwn : (signed && decide (x0 ≥ 128)) = true
        · -- negative number, pad byte 0xff
          simp only [hwn, if_true] at hk ⊢
          have hs : signed = true := by simp at hwn; exact hwn.1
          have hneg : headGe128 s = true := by rw [hwn, hs] at hsame; simpa using hsame
          simp only [hs, if_true]
          rw [intOfBytes_ffs' _ _ hneg, hk, intOfBytes_ffs' _ _ hneg]
        · simp only [hwn, Bool.false_eq_true, if_false] at hk ⊢
          have hwn' : (signed && decide (x0 ≥ 128)) = false := by simpa using hwn
          have hx0 : headGe128 (x0 :: t) = false := by
            cases signed with
            | false => simp at hu; simp [headGe128]; omega
            | true => simp at hwn'; simp [headGe128]; omega
          have hv : beVal (x0 :: t) = beVal s := by rw [hk]; exact beVal_replicate_zero k s
          rw [intOfBytes_of_head _ hx0, hv]
          cases signed with
          | false => simp [beVal_replicate_zero]
          | true =>
            have hsn : headGe128 s = false := by rw [hwn'] at hsame; simpa using hsame
            simp only [if_true]
            rw [intOfBytes_of_head _ (headGe128_replicate_zero _ _ hsn), beVal_replicate_zero]
      · intro hs
        subst hs
        simp at hu
        simp [headGe128]; omega

end ChiaModel.C11
