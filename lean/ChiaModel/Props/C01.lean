import ChiaModel.Lemmas.BundleInv
/-
C01 — spend conditions are accepted, rejected and summarised exactly per the rules.
Theorems about the executable model of `parse_spends` (Model/Conditions.lean), which is tied to the
Rust code by the correspondence check.  The full refinement to an order-free declarative
specification is stated in DESIGN.md §6 (C01_refines) and is not yet proved; what is proved here is
listed in the evidence file, and `open_statements` names the rest.
-/
namespace ChiaModel.C01
open ChiaModel ChiaModel.Cond

/-! ### opcode recognition -/

/-- the one-byte whitelist extracted from `parse_opcode` is exactly the documented opcode set -/
theorem opcode_whitelist :
    Gen.opcodeWhitelist = [1, 43, 44, 45, 46, 47, 48, 49, 50, 51, 52, 60, 61, 62, 63, 64, 65, 66, 67,
      70, 71, 72, 73, 74, 75, 76, 80, 81, 82, 83, 84, 85, 86, 87, 90] := by decide

/-- every named opcode constant is in the whitelist, and they are pairwise distinct -/
theorem opcode_constants :
    [Gen.opRemark, Gen.opAggSigParent, Gen.opAggSigPuzzle, Gen.opAggSigAmount, Gen.opAggSigPuzzleAmount,
     Gen.opAggSigParentAmount, Gen.opAggSigParentPuzzle, Gen.opAggSigUnsafe, Gen.opAggSigMe, Gen.opCreateCoin,
     Gen.opReserveFee, Gen.opCreateCoinAnnouncement, Gen.opAssertCoinAnnouncement, Gen.opCreatePuzzleAnnouncement,
     Gen.opAssertPuzzleAnnouncement, Gen.opAssertConcurrentSpend, Gen.opAssertConcurrentPuzzle, Gen.opSendMessage,
     Gen.opReceiveMessage, Gen.opAssertMyCoinId, Gen.opAssertMyParentId, Gen.opAssertMyPuzzlehash,
     Gen.opAssertMyAmount, Gen.opAssertMyBirthSeconds, Gen.opAssertMyBirthHeight, Gen.opAssertEphemeral,
     Gen.opAssertSecondsRelative, Gen.opAssertSecondsAbsolute, Gen.opAssertHeightRelative, Gen.opAssertHeightAbsolute,
     Gen.opAssertBeforeSecondsRelative, Gen.opAssertBeforeSecondsAbsolute, Gen.opAssertBeforeHeightRelative,
     Gen.opAssertBeforeHeightAbsolute, Gen.opSoftfork] = Gen.opcodeWhitelist := by decide

/-- Opcode recognition rule: a one-byte atom in the whitelist is that opcode; a two-byte atom with a
non-zero first byte is the two-byte opcode; a pair, the empty atom, any other one-byte atom, a two-byte
atom with a zero first byte, and any atom of three or more bytes is not an opcode. -/
theorem parseOpcode_spec (n : Sexp) (op : Nat) :
    parseOpcode n = some op ↔
      (∃ b0, n = .atom [b0] ∧ b0 ∈ Gen.opcodeWhitelist ∧ op = b0) ∨
      (∃ b0 b1, n = .atom [b0, b1] ∧ b0 ≠ 0 ∧ op = b0 * 256 + b1) := by
  cases n with
  | pair l r => simp [parseOpcode]
  | atom b =>
    match b with
    | [] => simp [parseOpcode]
    | [b0] =>
      simp only [parseOpcode]
      constructor
      · intro h; split at h
        · rename_i hc; injection h with h; exact Or.inl ⟨b0, rfl, by simpa using hc, h.symm⟩
        · cases h
      · rintro (⟨x, hx, hm, rfl⟩ | ⟨x, y, hx, _⟩)
        · injection hx with hx; injection hx with hx; subst hx
          rw [if_pos (by simpa using hm)]
        · injection hx with hx; injection hx with _ hx; cases hx
    | [b0, b1] =>
      simp only [parseOpcode]
      constructor
      · intro h; split at h
        · cases h
        · rename_i hc; injection h with h; exact Or.inr ⟨b0, b1, rfl, hc, h.symm⟩
      · rintro (⟨x, hx, _⟩ | ⟨x, y, hx, hne, rfl⟩)
        · injection hx with hx; injection hx with _ hx; cases hx
        · injection hx with hx; injection hx with h1 hx; injection hx with h2 _; subst h1; subst h2
          rw [if_neg hne]
    | _ :: _ :: _ :: _ => simp [parseOpcode]

/-! ### deferred (cross-spend) validation, declaratively -/

theorem optLe_false_iff (o : Option Nat) (v : Nat) : optLe o v = false ↔ ∀ x, o = some x → v < x := by
  cases o with
  | none => simp [optLe]
  | some y => simp [optLe]

/-- **Cross-spend assertions pass exactly when a matching counterpart exists.**  `validate_conditions`
accepts iff: no coin is minted; the fee fits in what is left; absolute before/after locks are
compatible; every asserted concurrent spend / puzzle is spent in the bundle; every asserted
announcement id is the SHA-256 of (coin id ‖ message) resp. (puzzle hash ‖ message) of an announcement
made in the bundle; every ASSERT_EPHEMERAL spend is ephemeral and no spend with a relative or birth
condition is; every message key is received exactly as often as it is sent. -/
theorem guard_bind (c : Prop) [Decidable c] (k : R Unit) :
    ((if c then (Except.error Err.reject : R PUnit) else pure PUnit.unit) >>= fun _ => k) = .ok () ↔ ¬ c ∧ k = .ok () := by
  by_cases h : c <;> simp [h, bind, Except.bind, pure, Except.pure]

theorem guard_last : ((pure () : R Unit) = .ok ()) ↔ True := by simp [pure, Except.pure]

theorem validateConditions_iff (ret : Bundle) (st : PState) :
    validateConditions ret st = .ok () ↔
      ret.additionAmount ≤ ret.removalAmount ∧
      ret.reserveFee ≤ ret.removalAmount - ret.additionAmount ∧
      (∀ bh, ret.beforeHeightAbsolute = some bh → ret.heightAbsolute < bh) ∧
      (∀ bs, ret.beforeSecondsAbsolute = some bs → ret.secondsAbsolute < bs) ∧
      (∀ id ∈ st.assertConcurrentSpend, id ∈ st.spentCoins) ∧
      (∀ ph ∈ st.assertConcurrentPuzzle, ph ∈ st.spentPuzzles) ∧
      (∀ a ∈ st.assertCoin, ∃ p ∈ st.announceCoin, a = sha256 (p.1 ++ p.2)) ∧
      (∀ i ∈ st.assertEphemeral, isEphemeral st ret.spends i = true) ∧
      (∀ i ∈ st.assertNotEphemeral, isEphemeral st ret.spends i = false) ∧
      (∀ a ∈ st.assertPuzzle, ∃ p ∈ st.announcePuzzle, a = sha256 (p.1 ++ p.2)) ∧
      (∀ m ∈ st.messages, ((st.messages.filter (fun x => x.1 == m.1)).map (·.2)).sum = 0) := by
  unfold validateConditions
  constructor
  · intro h
    split at h
    · rename_i hv
      simp only [validOk, messagesBalanced, Bool.and_eq_true, Bool.not_eq_true', decide_eq_false_iff_not, List.any_eq_false] at hv
      obtain ⟨⟨⟨⟨⟨⟨⟨⟨⟨⟨k1, k2⟩, k3⟩, k4⟩, k5⟩, k6⟩, k7⟩, k8⟩, k9⟩, k10⟩, k11⟩ := hv
      refine ⟨by omega, by omega, (optLe_false_iff _ _).mp k3, (optLe_false_iff _ _).mp k4, ?_, ?_, ?_, ?_, ?_, ?_, ?_⟩
      · intro id hid; simpa using List.all_eq_true.mp k5 id hid
      · intro ph hph; simpa using List.all_eq_true.mp k6 ph hph
      · intro a ha
        have := List.all_eq_true.mp k7 a ha
        simp only [List.contains_eq_mem, List.mem_map, decide_eq_true_eq] at this
        obtain ⟨p, hp, e⟩ := this
        exact ⟨p, hp, e.symm⟩
      · intro i hi; exact List.all_eq_true.mp k8 i hi
      · intro i hi; simpa using k9 i hi
      · intro a ha
        have := List.all_eq_true.mp k10 a ha
        simp only [List.contains_eq_mem, List.mem_map, decide_eq_true_eq] at this
        obtain ⟨p, hp, e⟩ := this
        exact ⟨p, hp, e.symm⟩
      · intro m hm; simpa using List.all_eq_true.mp k11 m hm
    · cases h
  · rintro ⟨c1, c2, c3, c4, c5, c6, c7, c8, c9, c10, c11⟩
    rw [if_pos]
    simp only [validOk, messagesBalanced, Bool.and_eq_true, Bool.not_eq_true', decide_eq_false_iff_not, List.any_eq_false]
    refine ⟨⟨⟨⟨⟨⟨⟨⟨⟨⟨by omega, by omega⟩, (optLe_false_iff _ _).mpr c3⟩, (optLe_false_iff _ _).mpr c4⟩, ?_⟩, ?_⟩, ?_⟩, ?_⟩, ?_⟩, ?_⟩, ?_⟩
    · exact List.all_eq_true.mpr (fun id hid => by simpa using c5 id hid)
    · exact List.all_eq_true.mpr (fun ph hph => by simpa using c6 ph hph)
    · apply List.all_eq_true.mpr
      intro a ha
      obtain ⟨p, hp, e⟩ := c7 a ha
      simp only [List.contains_eq_mem, List.mem_map, decide_eq_true_eq]
      exact ⟨p, hp, e.symm⟩
    · exact List.all_eq_true.mpr c8
    · intro i hi; simpa using c9 i hi
    · apply List.all_eq_true.mpr
      intro a ha
      obtain ⟨p, hp, e⟩ := c10 a ha
      simp only [List.contains_eq_mem, List.mem_map, decide_eq_true_eq]
      exact ⟨p, hp, e.symm⟩
    · exact List.all_eq_true.mpr (fun m hm => by simpa using c11 m hm)

end ChiaModel.C01
